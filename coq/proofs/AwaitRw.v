(* GENERATED once by a script from the record definitions of model/Await.v: one rewrite rule per (field, setter).
   All by reflexivity.  Used as the rewrite base [aw] in proofs/AwaitProofs.v. *)
From Coq Require Import List Arith Bool.
Import ListNotations.
From YV Require Import gen.Gen_ready_c13 model.Await.

Lemma rwc_prog_set_cst x c : prog (set_cst x c) = prog c. Proof. reflexivity. Qed.
Lemma rwc_own_set_cst x c : own (set_cst x c) = own c. Proof. reflexivity. Qed.
Lemma rwc_pc_set_cst x c : pc (set_cst x c) = pc c. Proof. reflexivity. Qed.
Lemma rwc_cst_set_cst x c : cst (set_cst x c) = x. Proof. reflexivity. Qed.
Lemma rwc_on_set_cst x c : on (set_cst x c) = on c. Proof. reflexivity. Qed.
Lemma rwc_cexec_set_cst x c : cexec (set_cst x c) = cexec c. Proof. reflexivity. Qed.
Lemma rwc_cown0_set_cst x c : cown0 (set_cst x c) = cown0 c. Proof. reflexivity. Qed.
Lemma rwc_cnt_set_cst x c : cnt (set_cst x c) = cnt c. Proof. reflexivity. Qed.
Lemma rwc_llive_set_cst x c : llive (set_cst x c) = llive c. Proof. reflexivity. Qed.
Lemma rwc_ldtors_set_cst x c : ldtors (set_cst x c) = ldtors c. Proof. reflexivity. Qed.
Lemma rwc_fowner_set_cst x c : fowner (set_cst x c) = fowner c. Proof. reflexivity. Qed.
Lemma rwc_ffrees_set_cst x c : ffrees (set_cst x c) = ffrees c. Proof. reflexivity. Qed.
Lemma rwc_cend_set_cst x c : cend (set_cst x c) = cend c. Proof. reflexivity. Qed.
Lemma rwc_resumes_set_cst x c : resumes (set_cst x c) = resumes c. Proof. reflexivity. Qed.
Lemma rwc_readys_set_cst x c : readys (set_cst x c) = readys c. Proof. reflexivity. Qed.
Lemma rwc_prog_set_on x c : prog (set_on x c) = prog c. Proof. reflexivity. Qed.
Lemma rwc_own_set_on x c : own (set_on x c) = own c. Proof. reflexivity. Qed.
Lemma rwc_pc_set_on x c : pc (set_on x c) = pc c. Proof. reflexivity. Qed.
Lemma rwc_cst_set_on x c : cst (set_on x c) = cst c. Proof. reflexivity. Qed.
Lemma rwc_on_set_on x c : on (set_on x c) = x. Proof. reflexivity. Qed.
Lemma rwc_cexec_set_on x c : cexec (set_on x c) = cexec c. Proof. reflexivity. Qed.
Lemma rwc_cown0_set_on x c : cown0 (set_on x c) = cown0 c. Proof. reflexivity. Qed.
Lemma rwc_cnt_set_on x c : cnt (set_on x c) = cnt c. Proof. reflexivity. Qed.
Lemma rwc_llive_set_on x c : llive (set_on x c) = llive c. Proof. reflexivity. Qed.
Lemma rwc_ldtors_set_on x c : ldtors (set_on x c) = ldtors c. Proof. reflexivity. Qed.
Lemma rwc_fowner_set_on x c : fowner (set_on x c) = fowner c. Proof. reflexivity. Qed.
Lemma rwc_ffrees_set_on x c : ffrees (set_on x c) = ffrees c. Proof. reflexivity. Qed.
Lemma rwc_cend_set_on x c : cend (set_on x c) = cend c. Proof. reflexivity. Qed.
Lemma rwc_resumes_set_on x c : resumes (set_on x c) = resumes c. Proof. reflexivity. Qed.
Lemma rwc_readys_set_on x c : readys (set_on x c) = readys c. Proof. reflexivity. Qed.
Lemma rwc_prog_set_cexec x c : prog (set_cexec x c) = prog c. Proof. reflexivity. Qed.
Lemma rwc_own_set_cexec x c : own (set_cexec x c) = own c. Proof. reflexivity. Qed.
Lemma rwc_pc_set_cexec x c : pc (set_cexec x c) = pc c. Proof. reflexivity. Qed.
Lemma rwc_cst_set_cexec x c : cst (set_cexec x c) = cst c. Proof. reflexivity. Qed.
Lemma rwc_on_set_cexec x c : on (set_cexec x c) = on c. Proof. reflexivity. Qed.
Lemma rwc_cexec_set_cexec x c : cexec (set_cexec x c) = x. Proof. reflexivity. Qed.
Lemma rwc_cown0_set_cexec x c : cown0 (set_cexec x c) = cown0 c. Proof. reflexivity. Qed.
Lemma rwc_cnt_set_cexec x c : cnt (set_cexec x c) = cnt c. Proof. reflexivity. Qed.
Lemma rwc_llive_set_cexec x c : llive (set_cexec x c) = llive c. Proof. reflexivity. Qed.
Lemma rwc_ldtors_set_cexec x c : ldtors (set_cexec x c) = ldtors c. Proof. reflexivity. Qed.
Lemma rwc_fowner_set_cexec x c : fowner (set_cexec x c) = fowner c. Proof. reflexivity. Qed.
Lemma rwc_ffrees_set_cexec x c : ffrees (set_cexec x c) = ffrees c. Proof. reflexivity. Qed.
Lemma rwc_cend_set_cexec x c : cend (set_cexec x c) = cend c. Proof. reflexivity. Qed.
Lemma rwc_resumes_set_cexec x c : resumes (set_cexec x c) = resumes c. Proof. reflexivity. Qed.
Lemma rwc_readys_set_cexec x c : readys (set_cexec x c) = readys c. Proof. reflexivity. Qed.
Lemma rwc_prog_set_cown0 x c : prog (set_cown0 x c) = prog c. Proof. reflexivity. Qed.
Lemma rwc_own_set_cown0 x c : own (set_cown0 x c) = own c. Proof. reflexivity. Qed.
Lemma rwc_pc_set_cown0 x c : pc (set_cown0 x c) = pc c. Proof. reflexivity. Qed.
Lemma rwc_cst_set_cown0 x c : cst (set_cown0 x c) = cst c. Proof. reflexivity. Qed.
Lemma rwc_on_set_cown0 x c : on (set_cown0 x c) = on c. Proof. reflexivity. Qed.
Lemma rwc_cexec_set_cown0 x c : cexec (set_cown0 x c) = cexec c. Proof. reflexivity. Qed.
Lemma rwc_cown0_set_cown0 x c : cown0 (set_cown0 x c) = x. Proof. reflexivity. Qed.
Lemma rwc_cnt_set_cown0 x c : cnt (set_cown0 x c) = cnt c. Proof. reflexivity. Qed.
Lemma rwc_llive_set_cown0 x c : llive (set_cown0 x c) = llive c. Proof. reflexivity. Qed.
Lemma rwc_ldtors_set_cown0 x c : ldtors (set_cown0 x c) = ldtors c. Proof. reflexivity. Qed.
Lemma rwc_fowner_set_cown0 x c : fowner (set_cown0 x c) = fowner c. Proof. reflexivity. Qed.
Lemma rwc_ffrees_set_cown0 x c : ffrees (set_cown0 x c) = ffrees c. Proof. reflexivity. Qed.
Lemma rwc_cend_set_cown0 x c : cend (set_cown0 x c) = cend c. Proof. reflexivity. Qed.
Lemma rwc_resumes_set_cown0 x c : resumes (set_cown0 x c) = resumes c. Proof. reflexivity. Qed.
Lemma rwc_readys_set_cown0 x c : readys (set_cown0 x c) = readys c. Proof. reflexivity. Qed.
Lemma rwc_prog_set_cnt x c : prog (set_cnt x c) = prog c. Proof. reflexivity. Qed.
Lemma rwc_own_set_cnt x c : own (set_cnt x c) = own c. Proof. reflexivity. Qed.
Lemma rwc_pc_set_cnt x c : pc (set_cnt x c) = pc c. Proof. reflexivity. Qed.
Lemma rwc_cst_set_cnt x c : cst (set_cnt x c) = cst c. Proof. reflexivity. Qed.
Lemma rwc_on_set_cnt x c : on (set_cnt x c) = on c. Proof. reflexivity. Qed.
Lemma rwc_cexec_set_cnt x c : cexec (set_cnt x c) = cexec c. Proof. reflexivity. Qed.
Lemma rwc_cown0_set_cnt x c : cown0 (set_cnt x c) = cown0 c. Proof. reflexivity. Qed.
Lemma rwc_cnt_set_cnt x c : cnt (set_cnt x c) = x. Proof. reflexivity. Qed.
Lemma rwc_llive_set_cnt x c : llive (set_cnt x c) = llive c. Proof. reflexivity. Qed.
Lemma rwc_ldtors_set_cnt x c : ldtors (set_cnt x c) = ldtors c. Proof. reflexivity. Qed.
Lemma rwc_fowner_set_cnt x c : fowner (set_cnt x c) = fowner c. Proof. reflexivity. Qed.
Lemma rwc_ffrees_set_cnt x c : ffrees (set_cnt x c) = ffrees c. Proof. reflexivity. Qed.
Lemma rwc_cend_set_cnt x c : cend (set_cnt x c) = cend c. Proof. reflexivity. Qed.
Lemma rwc_resumes_set_cnt x c : resumes (set_cnt x c) = resumes c. Proof. reflexivity. Qed.
Lemma rwc_readys_set_cnt x c : readys (set_cnt x c) = readys c. Proof. reflexivity. Qed.
Lemma rwc_prog_set_readys x c : prog (set_readys x c) = prog c. Proof. reflexivity. Qed.
Lemma rwc_own_set_readys x c : own (set_readys x c) = own c. Proof. reflexivity. Qed.
Lemma rwc_pc_set_readys x c : pc (set_readys x c) = pc c. Proof. reflexivity. Qed.
Lemma rwc_cst_set_readys x c : cst (set_readys x c) = cst c. Proof. reflexivity. Qed.
Lemma rwc_on_set_readys x c : on (set_readys x c) = on c. Proof. reflexivity. Qed.
Lemma rwc_cexec_set_readys x c : cexec (set_readys x c) = cexec c. Proof. reflexivity. Qed.
Lemma rwc_cown0_set_readys x c : cown0 (set_readys x c) = cown0 c. Proof. reflexivity. Qed.
Lemma rwc_cnt_set_readys x c : cnt (set_readys x c) = cnt c. Proof. reflexivity. Qed.
Lemma rwc_llive_set_readys x c : llive (set_readys x c) = llive c. Proof. reflexivity. Qed.
Lemma rwc_ldtors_set_readys x c : ldtors (set_readys x c) = ldtors c. Proof. reflexivity. Qed.
Lemma rwc_fowner_set_readys x c : fowner (set_readys x c) = fowner c. Proof. reflexivity. Qed.
Lemma rwc_ffrees_set_readys x c : ffrees (set_readys x c) = ffrees c. Proof. reflexivity. Qed.
Lemma rwc_cend_set_readys x c : cend (set_readys x c) = cend c. Proof. reflexivity. Qed.
Lemma rwc_resumes_set_readys x c : resumes (set_readys x c) = resumes c. Proof. reflexivity. Qed.
Lemma rwc_readys_set_readys x c : readys (set_readys x c) = x. Proof. reflexivity. Qed.
Lemma rwc_prog_set_cend x c : prog (set_cend x c) = prog c. Proof. reflexivity. Qed.
Lemma rwc_own_set_cend x c : own (set_cend x c) = own c. Proof. reflexivity. Qed.
Lemma rwc_pc_set_cend x c : pc (set_cend x c) = pc c. Proof. reflexivity. Qed.
Lemma rwc_cst_set_cend x c : cst (set_cend x c) = cst c. Proof. reflexivity. Qed.
Lemma rwc_on_set_cend x c : on (set_cend x c) = on c. Proof. reflexivity. Qed.
Lemma rwc_cexec_set_cend x c : cexec (set_cend x c) = cexec c. Proof. reflexivity. Qed.
Lemma rwc_cown0_set_cend x c : cown0 (set_cend x c) = cown0 c. Proof. reflexivity. Qed.
Lemma rwc_cnt_set_cend x c : cnt (set_cend x c) = cnt c. Proof. reflexivity. Qed.
Lemma rwc_llive_set_cend x c : llive (set_cend x c) = llive c. Proof. reflexivity. Qed.
Lemma rwc_ldtors_set_cend x c : ldtors (set_cend x c) = ldtors c. Proof. reflexivity. Qed.
Lemma rwc_fowner_set_cend x c : fowner (set_cend x c) = fowner c. Proof. reflexivity. Qed.
Lemma rwc_ffrees_set_cend x c : ffrees (set_cend x c) = ffrees c. Proof. reflexivity. Qed.
Lemma rwc_cend_set_cend x c : cend (set_cend x c) = x. Proof. reflexivity. Qed.
Lemma rwc_resumes_set_cend x c : resumes (set_cend x c) = resumes c. Proof. reflexivity. Qed.
Lemma rwc_readys_set_cend x c : readys (set_cend x c) = readys c. Proof. reflexivity. Qed.
Lemma rwc_prog_local_dtor  c : prog (local_dtor  c) = prog c. Proof. reflexivity. Qed.
Lemma rwc_own_local_dtor  c : own (local_dtor  c) = own c. Proof. reflexivity. Qed.
Lemma rwc_pc_local_dtor  c : pc (local_dtor  c) = pc c. Proof. reflexivity. Qed.
Lemma rwc_cst_local_dtor  c : cst (local_dtor  c) = cst c. Proof. reflexivity. Qed.
Lemma rwc_on_local_dtor  c : on (local_dtor  c) = on c. Proof. reflexivity. Qed.
Lemma rwc_cexec_local_dtor  c : cexec (local_dtor  c) = cexec c. Proof. reflexivity. Qed.
Lemma rwc_cown0_local_dtor  c : cown0 (local_dtor  c) = cown0 c. Proof. reflexivity. Qed.
Lemma rwc_cnt_local_dtor  c : cnt (local_dtor  c) = cnt c. Proof. reflexivity. Qed.
Lemma rwc_llive_local_dtor  c : llive (local_dtor  c) = false. Proof. reflexivity. Qed.
Lemma rwc_ldtors_local_dtor  c : ldtors (local_dtor  c) = S (ldtors c). Proof. reflexivity. Qed.
Lemma rwc_fowner_local_dtor  c : fowner (local_dtor  c) = fowner c. Proof. reflexivity. Qed.
Lemma rwc_ffrees_local_dtor  c : ffrees (local_dtor  c) = ffrees c. Proof. reflexivity. Qed.
Lemma rwc_cend_local_dtor  c : cend (local_dtor  c) = cend c. Proof. reflexivity. Qed.
Lemma rwc_resumes_local_dtor  c : resumes (local_dtor  c) = resumes c. Proof. reflexivity. Qed.
Lemma rwc_readys_local_dtor  c : readys (local_dtor  c) = readys c. Proof. reflexivity. Qed.
Lemma rwc_prog_frame_free  c : prog (frame_free  c) = prog c. Proof. reflexivity. Qed.
Lemma rwc_own_frame_free  c : own (frame_free  c) = own c. Proof. reflexivity. Qed.
Lemma rwc_pc_frame_free  c : pc (frame_free  c) = pc c. Proof. reflexivity. Qed.
Lemma rwc_cst_frame_free  c : cst (frame_free  c) = cst c. Proof. reflexivity. Qed.
Lemma rwc_on_frame_free  c : on (frame_free  c) = on c. Proof. reflexivity. Qed.
Lemma rwc_cexec_frame_free  c : cexec (frame_free  c) = cexec c. Proof. reflexivity. Qed.
Lemma rwc_cown0_frame_free  c : cown0 (frame_free  c) = cown0 c. Proof. reflexivity. Qed.
Lemma rwc_cnt_frame_free  c : cnt (frame_free  c) = cnt c. Proof. reflexivity. Qed.
Lemma rwc_llive_frame_free  c : llive (frame_free  c) = llive c. Proof. reflexivity. Qed.
Lemma rwc_ldtors_frame_free  c : ldtors (frame_free  c) = ldtors c. Proof. reflexivity. Qed.
Lemma rwc_fowner_frame_free  c : fowner (frame_free  c) = false. Proof. reflexivity. Qed.
Lemma rwc_ffrees_frame_free  c : ffrees (frame_free  c) = S (ffrees c). Proof. reflexivity. Qed.
Lemma rwc_cend_frame_free  c : cend (frame_free  c) = cend c. Proof. reflexivity. Qed.
Lemma rwc_resumes_frame_free  c : resumes (frame_free  c) = resumes c. Proof. reflexivity. Qed.
Lemma rwc_readys_frame_free  c : readys (frame_free  c) = readys c. Proof. reflexivity. Qed.
Lemma rwc_prog_resumed r x c : prog (resumed r x c) = prog c. Proof. reflexivity. Qed.
Lemma rwc_own_resumed r x c : own (resumed r x c) = own c. Proof. reflexivity. Qed.
Lemma rwc_pc_resumed r x c : pc (resumed r x c) = S (pc c). Proof. reflexivity. Qed.
Lemma rwc_cst_resumed r x c : cst (resumed r x c) = x. Proof. reflexivity. Qed.
Lemma rwc_on_resumed r x c : on (resumed r x c) = on c. Proof. reflexivity. Qed.
Lemma rwc_cexec_resumed r x c : cexec (resumed r x c) = cexec c. Proof. reflexivity. Qed.
Lemma rwc_cown0_resumed r x c : cown0 (resumed r x c) = cown0 c. Proof. reflexivity. Qed.
Lemma rwc_cnt_resumed r x c : cnt (resumed r x c) = cnt c. Proof. reflexivity. Qed.
Lemma rwc_llive_resumed r x c : llive (resumed r x c) = llive c. Proof. reflexivity. Qed.
Lemma rwc_ldtors_resumed r x c : ldtors (resumed r x c) = ldtors c. Proof. reflexivity. Qed.
Lemma rwc_fowner_resumed r x c : fowner (resumed r x c) = fowner c. Proof. reflexivity. Qed.
Lemma rwc_ffrees_resumed r x c : ffrees (resumed r x c) = ffrees c. Proof. reflexivity. Qed.
Lemma rwc_cend_resumed r x c : cend (resumed r x c) = cend c. Proof. reflexivity. Qed.
Lemma rwc_resumes_resumed r x c : resumes (resumed r x c) = resumes c ++ [r]. Proof. reflexivity. Qed.
Lemma rwc_readys_resumed r x c : readys (resumed r x c) = readys c. Proof. reflexivity. Qed.
Lemma rwo_oshared_set_ow x c : oshared (set_ow x c) = oshared c. Proof. reflexivity. Qed.
Lemma rwo_olazy_set_ow x c : olazy (set_ow x c) = olazy c. Proof. reflexivity. Qed.
Lemma rwo_ostarted_set_ow x c : ostarted (set_ow x c) = ostarted c. Proof. reflexivity. Qed.
Lemma rwo_ow_set_ow x c : ow (set_ow x c) = x. Proof. reflexivity. Qed.
Lemma rwo_opend_set_ow x c : opend (set_ow x c) = opend c. Proof. reflexivity. Qed.
Lemma rwo_oslot_set_ow x c : oslot (set_ow x c) = oslot c. Proof. reflexivity. Qed.
Lemma rwo_oexec_set_ow x c : oexec (set_ow x c) = oexec c. Proof. reflexivity. Qed.
Lemma rwo_othr_set_ow x c : othr (set_ow x c) = othr c. Proof. reflexivity. Qed.
Lemma rwo_oprod_set_ow x c : oprod (set_ow x c) = oprod c. Proof. reflexivity. Qed.
Lemma rwo_oshared_set_opend x c : oshared (set_opend x c) = oshared c. Proof. reflexivity. Qed.
Lemma rwo_olazy_set_opend x c : olazy (set_opend x c) = olazy c. Proof. reflexivity. Qed.
Lemma rwo_ostarted_set_opend x c : ostarted (set_opend x c) = ostarted c. Proof. reflexivity. Qed.
Lemma rwo_ow_set_opend x c : ow (set_opend x c) = ow c. Proof. reflexivity. Qed.
Lemma rwo_opend_set_opend x c : opend (set_opend x c) = x. Proof. reflexivity. Qed.
Lemma rwo_oslot_set_opend x c : oslot (set_opend x c) = oslot c. Proof. reflexivity. Qed.
Lemma rwo_oexec_set_opend x c : oexec (set_opend x c) = oexec c. Proof. reflexivity. Qed.
Lemma rwo_othr_set_opend x c : othr (set_opend x c) = othr c. Proof. reflexivity. Qed.
Lemma rwo_oprod_set_opend x c : oprod (set_opend x c) = oprod c. Proof. reflexivity. Qed.
Lemma rwo_oshared_set_oslot x c : oshared (set_oslot x c) = oshared c. Proof. reflexivity. Qed.
Lemma rwo_olazy_set_oslot x c : olazy (set_oslot x c) = olazy c. Proof. reflexivity. Qed.
Lemma rwo_ostarted_set_oslot x c : ostarted (set_oslot x c) = ostarted c. Proof. reflexivity. Qed.
Lemma rwo_ow_set_oslot x c : ow (set_oslot x c) = ow c. Proof. reflexivity. Qed.
Lemma rwo_opend_set_oslot x c : opend (set_oslot x c) = opend c. Proof. reflexivity. Qed.
Lemma rwo_oslot_set_oslot x c : oslot (set_oslot x c) = x. Proof. reflexivity. Qed.
Lemma rwo_oexec_set_oslot x c : oexec (set_oslot x c) = oexec c. Proof. reflexivity. Qed.
Lemma rwo_othr_set_oslot x c : othr (set_oslot x c) = othr c. Proof. reflexivity. Qed.
Lemma rwo_oprod_set_oslot x c : oprod (set_oslot x c) = oprod c. Proof. reflexivity. Qed.
Lemma rwo_oshared_set_oexec x c : oshared (set_oexec x c) = oshared c. Proof. reflexivity. Qed.
Lemma rwo_olazy_set_oexec x c : olazy (set_oexec x c) = olazy c. Proof. reflexivity. Qed.
Lemma rwo_ostarted_set_oexec x c : ostarted (set_oexec x c) = ostarted c. Proof. reflexivity. Qed.
Lemma rwo_ow_set_oexec x c : ow (set_oexec x c) = ow c. Proof. reflexivity. Qed.
Lemma rwo_opend_set_oexec x c : opend (set_oexec x c) = opend c. Proof. reflexivity. Qed.
Lemma rwo_oslot_set_oexec x c : oslot (set_oexec x c) = oslot c. Proof. reflexivity. Qed.
Lemma rwo_oexec_set_oexec x c : oexec (set_oexec x c) = x. Proof. reflexivity. Qed.
Lemma rwo_othr_set_oexec x c : othr (set_oexec x c) = othr c. Proof. reflexivity. Qed.
Lemma rwo_oprod_set_oexec x c : oprod (set_oexec x c) = oprod c. Proof. reflexivity. Qed.
Lemma rwo_oshared_set_ostarted x c : oshared (set_ostarted x c) = oshared c. Proof. reflexivity. Qed.
Lemma rwo_olazy_set_ostarted x c : olazy (set_ostarted x c) = olazy c. Proof. reflexivity. Qed.
Lemma rwo_ostarted_set_ostarted x c : ostarted (set_ostarted x c) = x. Proof. reflexivity. Qed.
Lemma rwo_ow_set_ostarted x c : ow (set_ostarted x c) = ow c. Proof. reflexivity. Qed.
Lemma rwo_opend_set_ostarted x c : opend (set_ostarted x c) = opend c. Proof. reflexivity. Qed.
Lemma rwo_oslot_set_ostarted x c : oslot (set_ostarted x c) = oslot c. Proof. reflexivity. Qed.
Lemma rwo_oexec_set_ostarted x c : oexec (set_ostarted x c) = oexec c. Proof. reflexivity. Qed.
Lemma rwo_othr_set_ostarted x c : othr (set_ostarted x c) = othr c. Proof. reflexivity. Qed.
Lemma rwo_oprod_set_ostarted x c : oprod (set_ostarted x c) = oprod c. Proof. reflexivity. Qed.
Lemma rwo_oshared_o_exchange t c : oshared (o_exchange t c) = oshared c. Proof. reflexivity. Qed.
Lemma rwo_olazy_o_exchange t c : olazy (o_exchange t c) = olazy c. Proof. reflexivity. Qed.
Lemma rwo_ostarted_o_exchange t c : ostarted (o_exchange t c) = ostarted c. Proof. reflexivity. Qed.
Lemma rwo_ow_o_exchange t c : ow (o_exchange t c) = WRes. Proof. reflexivity. Qed.
Lemma rwo_opend_o_exchange t c : opend (o_exchange t c) = match ow c with WStack l => l | WRes => [] end. Proof. reflexivity. Qed.
Lemma rwo_oslot_o_exchange t c : oslot (o_exchange t c) = match oslot c with Some r => Some r | None => Some RStop end. Proof. reflexivity. Qed.
Lemma rwo_oexec_o_exchange t c : oexec (o_exchange t c) = oexec c. Proof. reflexivity. Qed.
Lemma rwo_othr_o_exchange t c : othr (o_exchange t c) = Some t. Proof. reflexivity. Qed.
Lemma rwo_oprod_o_exchange t c : oprod (o_exchange t c) = oprod c. Proof. reflexivity. Qed.
Lemma rws_objs_set_objs x c : objs (set_objs x c) = x. Proof. reflexivity. Qed.
Lemma rws_cos_set_objs x c : cos (set_objs x c) = cos c. Proof. reflexivity. Qed.
Lemma rws_qs_set_objs x c : qs (set_objs x c) = qs c. Proof. reflexivity. Qed.
Lemma rws_stk_set_objs x c : stk (set_objs x c) = stk c. Proof. reflexivity. Qed.
Lemma rws_objs_set_cos x c : objs (set_cos x c) = objs c. Proof. reflexivity. Qed.
Lemma rws_cos_set_cos x c : cos (set_cos x c) = x. Proof. reflexivity. Qed.
Lemma rws_qs_set_cos x c : qs (set_cos x c) = qs c. Proof. reflexivity. Qed.
Lemma rws_stk_set_cos x c : stk (set_cos x c) = stk c. Proof. reflexivity. Qed.
Lemma rws_objs_set_qs x c : objs (set_qs x c) = objs c. Proof. reflexivity. Qed.
Lemma rws_cos_set_qs x c : cos (set_qs x c) = cos c. Proof. reflexivity. Qed.
Lemma rws_qs_set_qs x c : qs (set_qs x c) = x. Proof. reflexivity. Qed.
Lemma rws_stk_set_qs x c : stk (set_qs x c) = stk c. Proof. reflexivity. Qed.
Lemma rws_objs_set_stk x c : objs (set_stk x c) = objs c. Proof. reflexivity. Qed.
Lemma rws_cos_set_stk x c : cos (set_stk x c) = cos c. Proof. reflexivity. Qed.
Lemma rws_qs_set_stk x c : qs (set_stk x c) = qs c. Proof. reflexivity. Qed.
Lemma rws_stk_set_stk x c : stk (set_stk x c) = x. Proof. reflexivity. Qed.
Lemma rws_objs_set_co i x c : objs (set_co i x c) = objs c. Proof. reflexivity. Qed.
Lemma rws_cos_set_co i x c : cos (set_co i x c) = upd (cos c) i x. Proof. reflexivity. Qed.
Lemma rws_qs_set_co i x c : qs (set_co i x c) = qs c. Proof. reflexivity. Qed.
Lemma rws_stk_set_co i x c : stk (set_co i x c) = stk c. Proof. reflexivity. Qed.
Lemma rws_objs_set_ob i x c : objs (set_ob i x c) = upd (objs c) i x. Proof. reflexivity. Qed.
Lemma rws_cos_set_ob i x c : cos (set_ob i x c) = cos c. Proof. reflexivity. Qed.
Lemma rws_qs_set_ob i x c : qs (set_ob i x c) = qs c. Proof. reflexivity. Qed.
Lemma rws_stk_set_ob i x c : stk (set_ob i x c) = stk c. Proof. reflexivity. Qed.
Lemma rwc_capt_set_cst x c : capt (set_cst x c) = capt c. Proof. reflexivity. Qed.
Lemma rwc_capt_set_on x c : capt (set_on x c) = capt c. Proof. reflexivity. Qed.
Lemma rwc_capt_set_cexec x c : capt (set_cexec x c) = capt c. Proof. reflexivity. Qed.
Lemma rwc_capt_set_cown0 x c : capt (set_cown0 x c) = capt c. Proof. reflexivity. Qed.
Lemma rwc_capt_set_cnt x c : capt (set_cnt x c) = capt c. Proof. reflexivity. Qed.
Lemma rwc_capt_set_readys x c : capt (set_readys x c) = capt c. Proof. reflexivity. Qed.
Lemma rwc_capt_set_cend x c : capt (set_cend x c) = capt c. Proof. reflexivity. Qed.
Lemma rwc_capt_local_dtor  c : capt (local_dtor  c) = capt c. Proof. reflexivity. Qed.
Lemma rwc_capt_frame_free  c : capt (frame_free  c) = capt c. Proof. reflexivity. Qed.
Lemma rwc_capt_resumed r x c : capt (resumed r x c) = nth_error (prog c) (S (pc c)). Proof. reflexivity. Qed.

#[export] Hint Rewrite rwc_prog_set_cst rwc_own_set_cst rwc_pc_set_cst rwc_cst_set_cst rwc_on_set_cst rwc_cexec_set_cst rwc_cown0_set_cst rwc_cnt_set_cst : aw.
#[export] Hint Rewrite rwc_llive_set_cst rwc_ldtors_set_cst rwc_fowner_set_cst rwc_ffrees_set_cst rwc_cend_set_cst rwc_resumes_set_cst rwc_readys_set_cst rwc_prog_set_on : aw.
#[export] Hint Rewrite rwc_own_set_on rwc_pc_set_on rwc_cst_set_on rwc_on_set_on rwc_cexec_set_on rwc_cown0_set_on rwc_cnt_set_on rwc_llive_set_on : aw.
#[export] Hint Rewrite rwc_ldtors_set_on rwc_fowner_set_on rwc_ffrees_set_on rwc_cend_set_on rwc_resumes_set_on rwc_readys_set_on rwc_prog_set_cexec rwc_own_set_cexec : aw.
#[export] Hint Rewrite rwc_pc_set_cexec rwc_cst_set_cexec rwc_on_set_cexec rwc_cexec_set_cexec rwc_cown0_set_cexec rwc_cnt_set_cexec rwc_llive_set_cexec rwc_ldtors_set_cexec : aw.
#[export] Hint Rewrite rwc_fowner_set_cexec rwc_ffrees_set_cexec rwc_cend_set_cexec rwc_resumes_set_cexec rwc_readys_set_cexec rwc_prog_set_cown0 rwc_own_set_cown0 rwc_pc_set_cown0 : aw.
#[export] Hint Rewrite rwc_cst_set_cown0 rwc_on_set_cown0 rwc_cexec_set_cown0 rwc_cown0_set_cown0 rwc_cnt_set_cown0 rwc_llive_set_cown0 rwc_ldtors_set_cown0 rwc_fowner_set_cown0 : aw.
#[export] Hint Rewrite rwc_ffrees_set_cown0 rwc_cend_set_cown0 rwc_resumes_set_cown0 rwc_readys_set_cown0 rwc_prog_set_cnt rwc_own_set_cnt rwc_pc_set_cnt rwc_cst_set_cnt : aw.
#[export] Hint Rewrite rwc_on_set_cnt rwc_cexec_set_cnt rwc_cown0_set_cnt rwc_cnt_set_cnt rwc_llive_set_cnt rwc_ldtors_set_cnt rwc_fowner_set_cnt rwc_ffrees_set_cnt : aw.
#[export] Hint Rewrite rwc_cend_set_cnt rwc_resumes_set_cnt rwc_readys_set_cnt rwc_prog_set_readys rwc_own_set_readys rwc_pc_set_readys rwc_cst_set_readys rwc_on_set_readys : aw.
#[export] Hint Rewrite rwc_cexec_set_readys rwc_cown0_set_readys rwc_cnt_set_readys rwc_llive_set_readys rwc_ldtors_set_readys rwc_fowner_set_readys rwc_ffrees_set_readys rwc_cend_set_readys : aw.
#[export] Hint Rewrite rwc_resumes_set_readys rwc_readys_set_readys rwc_prog_set_cend rwc_own_set_cend rwc_pc_set_cend rwc_cst_set_cend rwc_on_set_cend rwc_cexec_set_cend : aw.
#[export] Hint Rewrite rwc_cown0_set_cend rwc_cnt_set_cend rwc_llive_set_cend rwc_ldtors_set_cend rwc_fowner_set_cend rwc_ffrees_set_cend rwc_cend_set_cend rwc_resumes_set_cend : aw.
#[export] Hint Rewrite rwc_readys_set_cend rwc_prog_local_dtor rwc_own_local_dtor rwc_pc_local_dtor rwc_cst_local_dtor rwc_on_local_dtor rwc_cexec_local_dtor rwc_cown0_local_dtor : aw.
#[export] Hint Rewrite rwc_cnt_local_dtor rwc_llive_local_dtor rwc_ldtors_local_dtor rwc_fowner_local_dtor rwc_ffrees_local_dtor rwc_cend_local_dtor rwc_resumes_local_dtor rwc_readys_local_dtor : aw.
#[export] Hint Rewrite rwc_prog_frame_free rwc_own_frame_free rwc_pc_frame_free rwc_cst_frame_free rwc_on_frame_free rwc_cexec_frame_free rwc_cown0_frame_free rwc_cnt_frame_free : aw.
#[export] Hint Rewrite rwc_llive_frame_free rwc_ldtors_frame_free rwc_fowner_frame_free rwc_ffrees_frame_free rwc_cend_frame_free rwc_resumes_frame_free rwc_readys_frame_free rwc_prog_resumed : aw.
#[export] Hint Rewrite rwc_own_resumed rwc_pc_resumed rwc_cst_resumed rwc_on_resumed rwc_cexec_resumed rwc_cown0_resumed rwc_cnt_resumed rwc_llive_resumed : aw.
#[export] Hint Rewrite rwc_ldtors_resumed rwc_fowner_resumed rwc_ffrees_resumed rwc_cend_resumed rwc_resumes_resumed rwc_readys_resumed rwo_oshared_set_ow rwo_olazy_set_ow : aw.
#[export] Hint Rewrite rwo_ostarted_set_ow rwo_ow_set_ow rwo_opend_set_ow rwo_oslot_set_ow rwo_oexec_set_ow rwo_othr_set_ow rwo_oprod_set_ow rwo_oshared_set_opend : aw.
#[export] Hint Rewrite rwo_olazy_set_opend rwo_ostarted_set_opend rwo_ow_set_opend rwo_opend_set_opend rwo_oslot_set_opend rwo_oexec_set_opend rwo_othr_set_opend rwo_oprod_set_opend : aw.
#[export] Hint Rewrite rwo_oshared_set_oslot rwo_olazy_set_oslot rwo_ostarted_set_oslot rwo_ow_set_oslot rwo_opend_set_oslot rwo_oslot_set_oslot rwo_oexec_set_oslot rwo_othr_set_oslot : aw.
#[export] Hint Rewrite rwo_oprod_set_oslot rwo_oshared_set_oexec rwo_olazy_set_oexec rwo_ostarted_set_oexec rwo_ow_set_oexec rwo_opend_set_oexec rwo_oslot_set_oexec rwo_oexec_set_oexec : aw.
#[export] Hint Rewrite rwo_othr_set_oexec rwo_oprod_set_oexec rwo_oshared_set_ostarted rwo_olazy_set_ostarted rwo_ostarted_set_ostarted rwo_ow_set_ostarted rwo_opend_set_ostarted rwo_oslot_set_ostarted : aw.
#[export] Hint Rewrite rwo_oexec_set_ostarted rwo_othr_set_ostarted rwo_oprod_set_ostarted rwo_oshared_o_exchange rwo_olazy_o_exchange rwo_ostarted_o_exchange rwo_ow_o_exchange rwo_opend_o_exchange : aw.
#[export] Hint Rewrite rwo_oslot_o_exchange rwo_oexec_o_exchange rwo_othr_o_exchange rwo_oprod_o_exchange rws_objs_set_objs rws_cos_set_objs rws_qs_set_objs rws_stk_set_objs : aw.
#[export] Hint Rewrite rws_objs_set_cos rws_cos_set_cos rws_qs_set_cos rws_stk_set_cos rws_objs_set_qs rws_cos_set_qs rws_qs_set_qs rws_stk_set_qs : aw.
#[export] Hint Rewrite rws_objs_set_stk rws_cos_set_stk rws_qs_set_stk rws_stk_set_stk rws_objs_set_co rws_cos_set_co rws_qs_set_co rws_stk_set_co : aw.
#[export] Hint Rewrite rws_objs_set_ob rws_cos_set_ob rws_qs_set_ob rws_stk_set_ob rwc_capt_set_cst rwc_capt_set_on rwc_capt_set_cexec rwc_capt_set_cown0 : aw.
#[export] Hint Rewrite rwc_capt_set_cnt rwc_capt_set_readys rwc_capt_set_cend rwc_capt_local_dtor rwc_capt_frame_free rwc_capt_resumed : aw.
