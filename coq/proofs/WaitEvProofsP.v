(* Preservation of WaitEvProofs.Inv by the producers' events, part 1 (Set, exchange, Sub(1)). *)
From Coq Require Import List Arith Bool Lia.
Import ListNotations.
From YV Require model.Handoff proofs.HandoffProofs.
From YV Require Import model.WaitEv proofs.WaitEvProofs.

Lemma inv_step_set s i r s' : Inv s -> step s (ESet i r) = Some s' -> Inv s'.
Proof.
  intros [P G] H. prelude P H i.
  all: inversion H; subst s'; clear H; split; [pw_prod P|].
  all: unf; simpl; rewrite set_nth_length.
  all: match goal with Ef : nth_error _ ?i = Some ?f |- context [set_nth ?i ?f' _] => recounts i f' f Ef end.
  all: exact G.
Qed.

Lemma inv_step_xchg s i old s' : Inv s -> step s (EXchg i old) = Some s' -> Inv s'.
Proof.
  intros [P G] H. prelude P H i.
  all: destruct old; simpl in H; try discriminate.
  all: destruct (one s) eqn:Eo; simpl in Hok; try discriminate Hok.
  all: inversion H; subst s'; clear H; split; [pw_prod P|].
  all: try (rewrite Eo; reflexivity).
  all: glob_prod P G.
  all: try (splits; fin).
  all: unfold on in *; rewrite Eo in *; simpl in *.
  all: by_cases s.
Qed.

Lemma inv_step_subp s i new s' : Inv s -> step s (ESubP i new) = Some s' -> Inv s'.
Proof.
  intros [P G] H. prelude P H i.
  destruct (Nat.eqb new (cnt s - 1)) eqn:En; [|discriminate]. apply Nat.eqb_eq in En. subst new.
  destruct (Nat.eqb (cnt s) 1) eqn:E1; [apply Nat.eqb_eq in E1 | apply Nat.eqb_neq in E1].
  all: inversion H; subst s'; clear H; split; [pw_prod P|].
  all: glob_prod P G.
  all: unfold touch; ltb_facts; destruct (alive s) eqn:Ea; destruct (underflow s) eqn:Eu; simpl in *; try discriminate.
  all: by_cases s.
Qed.

