(* Preservation of WaitEvProofs.Inv by the producers' events (Set, exchange, Sub(1), Set(): lock / notify / unlock). *)
From Coq Require Import List Arith Bool Lia.
Import ListNotations.
From YV Require model.Handoff proofs.HandoffProofs.
From YV Require Import model.WaitEv proofs.WaitEvProofs.

(* ---- preservation: producers ------------------------------------------------------------------ *)

Ltac prelude P H i :=
  simpl in H;
  let f := fresh "f" in
  destruct (nth_error (futs _) i) as [f|] eqn:Ef; [|discriminate];
  destruct (P i f Ef) as [Hok Hpos];
  destruct f as [w p sl rg rs]; simpl in H;
  destruct p; try discriminate;
  unfold fokb in Hok; simpl in Hok;
  destruct w, sl, rg, rs; simpl in Hok; try discriminate Hok.

(* the pointwise part when future i is replaced and the waiter did not move *)
Ltac bsolve :=
  simpl in *;
  repeat match goal with
         | |- context [Nat.ltb ?a ?b] => let E := fresh "E" in destruct (Nat.ltb a b) eqn:E; rewrite ?E in *; clear E; simpl in *
         | |- context [Nat.leb ?a ?b] => let E := fresh "E" in destruct (Nat.leb a b) eqn:E; rewrite ?E in *; clear E; simpl in *
         | H : context [Nat.ltb ?a ?b] |- _ => let E := fresh "E" in destruct (Nat.ltb a b) eqn:E; rewrite ?E in *; clear E; simpl in *
         | H : context [Nat.leb ?a ?b] |- _ => let E := fresh "E" in destruct (Nat.leb a b) eqn:E; rewrite ?E in *; clear E; simpl in *
         | b : bool |- _ => destruct b; simpl in *
         end;
  try assumption; try discriminate; try reflexivity.

Ltac pw_prod P :=
  match goal with Ef : nth_error _ ?i = Some _ |- _ =>
    eapply pw_set_nth with (1:=P) (2:=Ef); [reflexivity|reflexivity|..]; simpl;
    [ unfold fokb; simpl; try reflexivity; try assumption
    | unfold posb, cleanb in *; simpl in *; destruct (wp _); simpl in *; try assumption; try discriminate;
      try (destruct (ret _); simpl in *; try assumption; try discriminate); bsolve
    | auto ]
  end.

Ltac glob_prod P G :=
  match type of P with PW ?s => pose proof (reg_split_s s P) as Hsplit; pose proof (count_le_length isA (futs s)) as HleA;
     pose proof (count_le_length freg (futs s)) as HleR end;
  unf; simpl; rewrite ?set_nth_length;
  match goal with Ef : nth_error _ ?i = Some ?f |- context [set_nth ?i ?f' _] => recounts i f' f Ef end;
  destruct G as (G1&G2&G3&G4&G5&G6&G7&G8&G9&G10&G11&G12&G13&G14&G15&GK).

Ltac by_cases s :=
  bounds s; destruct (wp s) eqn:Ewp; simpl in *; dests; try (exfalso; lia); splits; fin.

Lemma inv_step_set s i r s' : Inv s -> step s (ESet i r) = Some s' -> Inv s'.
Proof.
  intros [P G] H. prelude P H i.
  all: inversion H; subst s'; clear H; split; [pw_prod P|].
  all: unf; simpl; rewrite set_nth_length.
  all: match goal with Ef : nth_error _ ?i = Some ?f |- context [set_nth ?i ?f' _] => recounts i f' f Ef end.
  all: exact G.
Qed.

Lemma inv_step_xchg s i old s' : Inv s -> step s (EXchg i old) = Some s' -> Inv s'.
Proof.
  intros [P G] H. prelude P H i.
  all: destruct old; simpl in H; try discriminate.
  all: destruct (one s) eqn:Eo; simpl in Hok; try discriminate Hok.
  all: inversion H; subst s'; clear H; split; [pw_prod P|].
  all: try (rewrite Eo; reflexivity).
  all: glob_prod P G.
  all: try (splits; fin).
  all: unfold on in *; rewrite Eo in *; simpl in *.
  all: by_cases s.
Qed.

Ltac ltb_facts :=
  repeat match goal with
         | H : context [Nat.ltb ?a ?b] |- _ => destruct (Nat.ltb_spec a b)
         | |- context [Nat.ltb ?a ?b] => destruct (Nat.ltb_spec a b)
         end.

Lemma inv_step_subp s i new s' : Inv s -> step s (ESubP i new) = Some s' -> Inv s'.
Proof.
  intros [P G] H. prelude P H i.
  destruct (Nat.eqb new (cnt s - 1)) eqn:En; [|discriminate]. apply Nat.eqb_eq in En. subst new.
  destruct (Nat.eqb (cnt s) 1) eqn:E1; [apply Nat.eqb_eq in E1 | apply Nat.eqb_neq in E1].
  all: inversion H; subst s'; clear H; split; [pw_prod P|].
  all: glob_prod P G.
  all: unfold touch; ltb_facts; destruct (alive s) eqn:Ea; destruct (underflow s) eqn:Eu; simpl in *; try discriminate.
  all: by_cases s.
Qed.

Ltac mtx_cases s H :=
  unfold is_free, holds in H; destruct (mtx s) as [[|?k]|] eqn:Em; simpl in H; try discriminate H;
  try match type of H with context [Nat.eqb ?a ?b] => destruct (Nat.eqb a b) eqn:?; simpl in H; try discriminate H end.

Lemma inv_step_plock s i s' : Inv s -> step s (EPLock i) = Some s' -> Inv s'.
Proof.
  intros [P G] H. prelude P H i. mtx_cases s H.
  all: inversion H; subst s'; clear H; split; [pw_prod P|].
  all: glob_prod P G.
  all: rewrite Em in *; unfold touch; destruct (alive s) eqn:Ea; simpl in *; try discriminate.
  all: by_cases s.
Qed.

Lemma inv_step_pnotify s i s' : Inv s -> step s (EPNotify i) = Some s' -> Inv s'.
Proof.
  intros [P G] H. prelude P H i. mtx_cases s H.
  all: inversion H; subst s'; clear H; split; [pw_prod P|].
  all: glob_prod P G.
  all: rewrite Em in *; unfold touch; destruct (alive s) eqn:Ea; simpl in *; try discriminate.
  all: by_cases s.
Qed.

Lemma inv_step_punlock s i s' : Inv s -> step s (EPUnlock i) = Some s' -> Inv s'.
Proof.
  intros [P G] H. prelude P H i. mtx_cases s H.
  all: inversion H; subst s'; clear H; split; [pw_prod P|].
  all: glob_prod P G.
  all: rewrite Em in *; unfold touch; destruct (alive s) eqn:Ea; simpl in *; try discriminate.
  all: by_cases s.
Qed.
