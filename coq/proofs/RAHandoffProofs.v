(* Race freedom of the unique callback word under release/acquire semantics (sufficiency of side_ok, for
   every execution of the machine), and necessity of each of its five conjuncts (concrete racy executions
   when one order is weakened). *)
From Coq Require Import List Arith Bool Lia.
Import ListNotations.
From YV Require Import lib.RA model.RAHandoff.

Definition b2n (b : bool) : nat := if b then 1 else 0.
Definition p_stored (p : ppc) : bool := match p with P0 => false | _ => true end.
Definition p_xchged (p : ppc) : bool := match p with P0 | P1 => false | _ => true end.
Definition c_wrote (c : cpc) : bool := match c with C0 => false | _ => true end.

Definition msg_ok (s : st) (m : msg) : Prop :=
  mview m 1 <= 1 /\ mview m 2 <= 1 /\
  match mval m with
  | 2 => mview m 1 = 1 /\ p_xchged (pp s) = true
  | 1 => mview m 2 = 1 /\ cp s = CAtt
  | 0 => True
  | _ => False
  end.

Record Inv (s : st) : Prop := {
  i_race : race s = false;
  i_sts : s_ts s = b2n (p_stored (pp s)) + b2n (match cp s with CFin => true | _ => false end);
  i_kts : k_ts s = b2n (c_wrote (cp s)) + b2n (match pp s with PFin => true | _ => false end);
  i_pS : cur (pt s) 1 = b2n (p_stored (pp s));
  i_cK : cur (ct s) 2 = b2n (c_wrote (cp s));
  i_pK : pp s <> PFin -> cur (pt s) 2 <= 1;
  i_cS : cp s <> CFin -> cur (ct s) 1 <= 1;
  i_hist : hist s <> [];
  i_msgs : Forall (msg_ok s) (hist s);
  i_c4 : cp s = C4 -> cur (ct s) 1 = 1 /\ p_stored (pp s) = true;
  i_p2 : pp s = P2 -> cur (pt s) 2 = 1 /\ cp s = CAtt;
  i_pfin : pp s = PFin -> cp s = CAtt;
  i_cfin : cp s = CFin -> p_stored (pp s) = true;
  i_pre : p_xchged (pp s) = false -> Forall (fun m => mval m <> 2) (hist s);
  i_cpre : cp s <> CAtt -> Forall (fun m => mval m <> 1) (hist s)
}.

Lemma inv_init : Inv init.
Proof.
  constructor; simpl; auto; try discriminate; try (intros; discriminate);
    try (constructor; [|constructor]; unfold msg_ok; simpl; unfold vbot; lia);
    try (intros _; constructor; [simpl; discriminate|constructor]).
Qed.

Lemma last_in (h : list msg) d : h <> [] -> In (last h d) h.
Proof.
  induction h as [|x h IH]; [congruence|]. intros _. destruct h as [|y h]; [left; reflexivity|].
  right. apply IH. discriminate.
Qed.

Lemma forall_last (Q : msg -> Prop) h d : h <> [] -> Forall Q h -> Q (last h d).
Proof. intros Hn HF. rewrite Forall_forall in HF. apply HF. apply last_in. assumption. Qed.

Lemma msgs_mono s s' :
  Forall (msg_ok s) (hist s) ->
  (p_xchged (pp s) = true -> p_xchged (pp s') = true) ->
  (cp s = CAtt -> cp s' = CAtt) ->
  Forall (msg_ok s') (hist s).
Proof.
  intros HF H1 H2. eapply Forall_impl; [|exact HF]. intros m (A & B & Cc). split; [exact A|split; [exact B|]].
  destruct (mval m) as [|[|[|n]]]; auto; destruct Cc; auto.
Qed.

Section Suff.
Variable o : orders.
Hypothesis Hside : side_ok o = true.

Lemma side_facts :
  is_acq (o_load o) = true /\ is_acq (o_cas_f o) = true /\ is_rel (o_cas_s o) = true /\
  is_acq (o_xchg o) = true /\ is_rel (o_xchg o) = true.
Proof.
  unfold side_ok in Hside.
  apply andb_true_iff in Hside. destruct Hside as [H1 H5].
  apply andb_true_iff in H1. destruct H1 as [H1 H4].
  apply andb_true_iff in H1. destruct H1 as [H1 H3].
  apply andb_true_iff in H1. destruct H1 as [H1 H2]. auto.
Qed.

Ltac views := unfold a_read, rmw_write, na_access, vjoin, vset, vbot in *; simpl in *.

(* discharge implications whose premise became trivially true or false *)
Ltac spec_hyps :=
  repeat match goal with
         | H : ?a = ?a -> _ |- _ => specialize (H eq_refl)
         | H : ?a <> ?b -> _ |- _ =>
             first [ (let X := fresh in assert (X : a <> b) by discriminate; specialize (H X); clear X)
                   | (let X := fresh in assert (X : a = b) by reflexivity; clear H X) ]
         | H : ?a = ?b -> _ |- _ =>
             (let X := fresh in assert (X : a <> b) by discriminate; clear H X)
         | H : _ /\ _ |- _ => destruct H
         end.

Ltac close :=
  simpl in *; spec_hyps; simpl in *;
  try reflexivity; try discriminate; try congruence; try lia; auto;
  try (intros; spec_hyps; simpl in *; try discriminate; try congruence; try lia; auto; fail);
  try (intros; spec_hyps; simpl in *; repeat split; try discriminate; try congruence; try lia; auto; fail).

Ltac rw_pcs :=
  repeat match goal with
         | E : pp ?s = _, H : context [pp ?s] |- _ => lazymatch H with E => fail | _ => rewrite E in H end
         | E : cp ?s = _, H : context [cp ?s] |- _ => lazymatch H with E => fail | _ => rewrite E in H end
         end.

Ltac mono_msgs Imsgs :=
  apply (msgs_mono _ _ Imsgs); simpl; intros; rw_pcs; simpl in *; try discriminate; try congruence; auto.

Theorem inv_step s e s' : Inv s -> step o s e = Some s' -> Inv s'.
Proof.
  destruct side_facts as (Hl & Hcf & Hcs & Hxa & Hxr).
  intros I H.
  destruct I as [Irace Ists Ikts IpS IcK IpK IcS Ihist Imsgs Ic4 Ip2 Ipfin Icfin Ipre Icpre].
  destruct e; simpl in H.
  - (* PWriteS *)
    destruct (pp s) eqn:Ep; try discriminate. inversion H; subst; clear H.
    destruct (cp s) eqn:Ec; constructor; simpl; rewrite ?Ep, ?Ec; views; rewrite ?Hl, ?Hcf, ?Hcs, ?Hxa, ?Hxr; simpl;
      try solve [close]; try solve [mono_msgs Imsgs].
    all: try solve [rewrite ?Irace, ?IpS, ?Ists; close].
  - (* PXchg *)
    destruct (pp s) eqn:Ep; try discriminate.
    assert (Hlast := forall_last _ _ {| mval := 0; mview := vbot |} Ihist Imsgs).
    assert (Hnot2 := forall_last _ _ {| mval := 0; mview := vbot |} Ihist (Ipre eq_refl)).
    fold (last_msg (hist s)) in Hlast, Hnot2. set (m := last_msg (hist s)) in *.
    unfold rmw_write in H. inversion H; subst; clear H. destruct Hlast as (L1 & L2 & L3).
    rewrite Hxa, Hxr.
    destruct (mval m) as [|[|[|n]]] eqn:Ev; try contradiction; try congruence;
      destruct (cp s) eqn:Ec; constructor; simpl; rewrite ?Ep, ?Ec, ?Ev; views; rewrite ?Hl, ?Hcf, ?Hcs, ?Hxa, ?Hxr; simpl;
      try solve [close];
      try solve [intros Ha; apply app_eq_nil in Ha; destruct Ha; discriminate];
      try solve [apply Forall_app; split;
                 [mono_msgs Imsgs
                 |constructor; [unfold msg_ok; simpl; rewrite ?Ev; views; rewrite ?Hl, ?Hcf, ?Hcs, ?Hxa, ?Hxr; simpl; repeat split; close|constructor]]];
      try solve [intros; apply Forall_app; split; [close|constructor; [simpl; discriminate|constructor]]].
  - (* PReadK *)
    destruct (pp s) eqn:Ep; try discriminate. inversion H; subst; clear H.
    destruct (cp s) eqn:Ec; spec_hyps; try discriminate.
    constructor; simpl; rewrite ?Ep, ?Ec; views; rewrite ?Hl, ?Hcf, ?Hcs, ?Hxa, ?Hxr; simpl; try solve [close]; try solve [mono_msgs Imsgs].
    all: try solve [rewrite ?Irace, ?Ikts; match goal with H : cur (pt _) 2 = 1 |- _ => rewrite H end; close].
  - (* CWriteK *)
    destruct (cp s) eqn:Ec; try discriminate. inversion H; subst; clear H.
    destruct (pp s) eqn:Ep; spec_hyps; try discriminate;
      constructor; simpl; rewrite ?Ep, ?Ec; views; rewrite ?Hl, ?Hcf, ?Hcs, ?Hxa, ?Hxr; simpl; try solve [close]; try solve [mono_msgs Imsgs].
    all: try solve [rewrite ?Irace, ?IcK, ?Ikts; close].
  - (* CLoad *)
    destruct (cp s) eqn:Ec; try discriminate.
    destruct (nth_error (hist s) i) as [m|] eqn:En; [|discriminate].
    destruct (Nat.leb (cur (ct s) 0) i); [|discriminate]. inversion H; subst; clear H.
    assert (Hm : msg_ok s m).
    { rewrite Forall_forall in Imsgs. apply Imsgs. eapply nth_error_In; eauto. }
    assert (Hn1 : mval m <> 1).
    { assert (Hf : Forall (fun m => mval m <> 1) (hist s)) by (apply Icpre; discriminate).
      rewrite Forall_forall in Hf. apply Hf. eapply nth_error_In; eauto. }
    destruct Hm as (M1 & M2 & M3).
    destruct (mval m) as [|[|[|n]]] eqn:Ev; try contradiction; try congruence;
      destruct (pp s) eqn:Ep; spec_hyps; try discriminate;
      constructor; simpl; rewrite ?Ep, ?Ec, ?Ev; views; rewrite ?Hl, ?Hcf, ?Hcs, ?Hxa, ?Hxr; simpl; try solve [close]; try solve [mono_msgs Imsgs].
  - (* CCas *)
    destruct (cp s) eqn:Ec; try discriminate.
    assert (Hlast := forall_last _ _ {| mval := 0; mview := vbot |} Ihist Imsgs).
    assert (Hnot1 : mval (last_msg (hist s)) <> 1).
    { assert (Hf : Forall (fun m => mval m <> 1) (hist s)) by (apply Icpre; discriminate).
      exact (forall_last _ _ _ Ihist Hf). }
    fold (last_msg (hist s)) in Hlast. set (m := last_msg (hist s)) in *.
    destruct Hlast as (L1 & L2 & L3).
    destruct (mval m) as [|[|[|n]]] eqn:Ev; try contradiction; try congruence.
    + (* success *)
      unfold rmw_write in H. inversion H; subst; clear H.
      destruct (is_acq (o_cas_s o)) eqn:Hca;
      destruct (pp s) eqn:Ep; spec_hyps; try discriminate;
        constructor; simpl; rewrite ?Ep, ?Ec, ?Ev; views; rewrite ?Hl, ?Hcf, ?Hcs, ?Hxa, ?Hxr; simpl;
        try solve [close];
        try solve [intros Ha; apply app_eq_nil in Ha; destruct Ha; discriminate];
        try solve [apply Forall_app; split;
                   [mono_msgs Imsgs
                   |constructor; [unfold msg_ok; simpl; views; rewrite ?Hl, ?Hcf, ?Hcs, ?Hxa, ?Hxr; simpl; repeat split; close|constructor]]];
        try solve [intros; apply Forall_app; split; [close|constructor; [simpl; discriminate|constructor]]].
    + (* failure: reads the Result message *)
      inversion H; subst; clear H.
      destruct (pp s) eqn:Ep; spec_hyps; try discriminate;
        constructor; simpl; rewrite ?Ep, ?Ec, ?Ev; views; rewrite ?Hl, ?Hcf, ?Hcs, ?Hxa, ?Hxr; simpl; try solve [close]; try solve [mono_msgs Imsgs].
  - (* CReadS *)
    destruct (cp s) eqn:Ec; try discriminate. inversion H; subst; clear H.
    destruct (pp s) eqn:Ep; spec_hyps; try discriminate;
      constructor; simpl; rewrite ?Ep, ?Ec; views; rewrite ?Hl, ?Hcf, ?Hcs, ?Hxa, ?Hxr; simpl; try solve [close]; try solve [mono_msgs Imsgs].
    all: try solve [rewrite ?Irace, ?Ists; match goal with H : cur (ct _) 1 = 1 |- _ => rewrite H end; close].
Qed.

Theorem inv_run tr : forall s s', Inv s -> run o s tr = Some s' -> Inv s'.
Proof.
  induction tr as [|e tr IH]; simpl; intros s s' I H.
  - inversion H; subst; exact I.
  - destruct (step o s e) as [s1|] eqn:E; [|discriminate]. eapply IH; [|exact H]. eapply inv_step; eauto.
Qed.

Theorem race_free tr s : run o init tr = Some s -> race s = false.
Proof. intros H. exact (i_race _ (inv_run _ _ _ inv_init H)). Qed.

End Suff.

(* ---- necessity: weaken one order, exhibit a racy execution ---------------------------------------- *)
Definition mk (l cs cf x : mo) : orders := {| o_load := l; o_cas_s := cs; o_cas_f := cf; o_xchg := x |}.
Definition racy (o : orders) (tr : list ev) : bool :=
  match run o init tr with Some s => race s | None => false end.

Lemma xchg_release_needed : racy (mk Acq Rel Acq Acq) [PWriteS; PXchg; CWriteK; CLoad 1; CReadS] = true.
Proof. vm_compute. reflexivity. Qed.
Lemma load_acquire_needed : racy (mk Rlx Rel Acq AcqRel) [PWriteS; PXchg; CWriteK; CLoad 1; CReadS] = true.
Proof. vm_compute. reflexivity. Qed.
Lemma cas_fail_acquire_needed :
  racy (mk Acq Rel Rlx AcqRel) [PWriteS; CWriteK; CLoad 0; PXchg; CCas; CReadS] = true.
Proof. vm_compute. reflexivity. Qed.
Lemma cas_release_needed : racy (mk Acq Rlx Acq AcqRel) [CWriteK; CLoad 0; CCas; PWriteS; PXchg; PReadK] = true.
Proof. vm_compute. reflexivity. Qed.
Lemma xchg_acquire_needed : racy (mk Acq Rel Acq Rel) [CWriteK; CLoad 0; CCas; PWriteS; PXchg; PReadK] = true.
Proof. vm_compute. reflexivity. Qed.
