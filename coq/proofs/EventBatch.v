(* EventBatch.v - third part of the C16 proofs: the machine with the two batch operations of a multi-future
   Attach / Consume call (Event.step = Event.step1 + EFAddN / EFSubN) inherits everything proved about the machine of
   unit steps (EventBase, EventProofs), because a batch operation is a run of unit steps. *)
From Coq Require Import List Arith Bool Lia.
Import ListNotations.
From YV Require Import model.Event proofs.EventBase proofs.EventProofs.

Definition is_batch (e : ev) : bool := match e with EFAddN _ _ | EFSubN _ _ => true | _ => false end.

Lemma step_basic s e : is_batch e = false -> step s e = step1 s e.
Proof. destruct e; simpl; intros H; try discriminate; reflexivity. Qed.

(* what a batch step is *)
Lemma step_add_n s js v s' : step s (EFAddN js v) = Some s' ->
  js <> [] /\ v = cnt s + length js /\ run1 s (add_seq js (cnt s)) = Some s'.
Proof.
  simpl. destruct js as [|j r]; [discriminate|]. destruct (Nat.eqb v (cnt s + length (j :: r))) eqn:E; [|discriminate].
  apply Nat.eqb_eq in E. intros H. repeat split; auto. discriminate.
Qed.

Lemma step_sub_n s js v s' : step s (EFSubN js v) = Some s' ->
  js <> [] /\ length js <= cnt s /\ v = cnt s - length js /\ run1 s (sub_seq js (cnt s)) = Some s'.
Proof.
  simpl. destruct js as [|j r]; [discriminate|].
  destruct (Nat.leb (length (j :: r)) (cnt s) && Nat.eqb v (cnt s - length (j :: r))) eqn:E; [|discriminate].
  apply andb_true_iff in E. destruct E as [E1 E2]. apply Nat.leb_le in E1. apply Nat.eqb_eq in E2.
  intros H. repeat split; auto. discriminate.
Qed.

(* ---- the invariant ------------------------------------------------------------------------------------------ *)

Theorem inv_step s e s' : Inv s -> step s e = Some s' -> Inv s'.
Proof.
  intros I H. destruct (is_batch e) eqn:B.
  - destruct e; try discriminate.
    + apply step_add_n in H. destruct H as (_ & _ & H). eapply inv_run1; eauto.
    + apply step_sub_n in H. destruct H as (_ & _ & _ & H). eapply inv_run1; eauto.
  - rewrite step_basic in H by exact B. eapply inv_step1; eauto.
Qed.

Theorem inv_run tr : forall s s', Inv s -> run s tr = Some s' -> Inv s'.
Proof.
  induction tr as [|e tr IH]; simpl; intros s s' I H.
  - inversion H; subst. exact I.
  - destruct (step s e) as [s1|] eqn:E; [|discriminate]. eapply IH; [|exact H]. eapply inv_step; eauto.
Qed.

Theorem inv_reach n tr s : run (init n) tr = Some s -> Inv s.
Proof. apply inv_run. apply inv_init. Qed.

(* ---- effect of the unit steps and of their runs on the counter group ------------------------------------------- *)

Lemma efadd_effect s j v s' : step1 s (EFAdd j v) = Some s' ->
  cnt s' = S (cnt s) /\ uu s' = uu s /\ fired s' = fired s /\ broken s' = broken s || fired s /\ ws s' = ws s.
Proof.
  intros H. unfold step1, ev_w, ev_f in H; cbv beta iota in H.
  destruct (nth_error (fs s) j) as [r|]; [|discriminate]. simpl in H. case_hyp H. inv_some H. simpl.
  rewrite Nat.add_0_r, Nat.add_1_r. auto.
Qed.

Lemma efsuba_effect s j v s' : step1 s (EFSubA j v) = Some s' ->
  cnt s' = cnt s - 1 /\ uu s' = uu s /\ fired s' = fired s || Nat.eqb (cnt s) 1 /\
  broken s' = broken s || Nat.ltb (cnt s) 1 || (Nat.eqb (cnt s) 1 && fired s) /\ ws s' = ws s.
Proof.
  intros H. unfold step1, ev_w, ev_f in H; cbv beta iota in H.
  destruct (nth_error (fs s) j) as [r|]; [|discriminate]. simpl in H. case_hyp H; inv_some H; simpl.
  all: rewrite Nat.sub_0_r, orb_false_r; auto.
Qed.

Lemma add_seq_effect js : forall s s', run1 s (add_seq js (cnt s)) = Some s' ->
  cnt s' = cnt s + length js /\ uu s' = uu s /\ fired s' = fired s /\ ws s' = ws s /\
  broken s' = broken s || (match js with [] => false | _ => fired s end).
Proof.
  induction js as [|j r IH]; intros s s' H; cbn [add_seq run1 length] in *.
  - inv_some H. rewrite Nat.add_0_r, orb_false_r. auto.
  - destruct (step1 s (EFAdd j (S (cnt s)))) as [s1|] eqn:E; [|discriminate].
    destruct (efadd_effect _ _ _ _ E) as (E1 & E2 & E3 & E4 & E5).
    rewrite <- E1 in H. destruct (IH _ _ H) as (H1 & H2 & H3 & H4 & H5).
    rewrite H1, H2, H3, H4, H5, E1, E2, E3, E4, E5. repeat split; auto; try lia.
    destruct r; destruct (broken s), (fired s); reflexivity.
Qed.

Lemma sub_seq_effect js : forall s s', run1 s (sub_seq js (cnt s)) = Some s' -> length js <= cnt s ->
  cnt s' = cnt s - length js /\ uu s' = uu s /\ ws s' = ws s /\
  fired s' = fired s || (match js with [] => false | _ => Nat.eqb (cnt s) (length js) end) /\
  broken s' = broken s || (match js with [] => false | _ => Nat.eqb (cnt s) (length js) && fired s end).
Proof.
  induction js as [|j r IH]; intros s s' H Hle; cbn [sub_seq run1 length] in *.
  - inv_some H. rewrite Nat.sub_0_r, !orb_false_r. auto.
  - destruct (step1 s (EFSubA j (cnt s - 1))) as [s1|] eqn:E; [|discriminate].
    destruct (efsuba_effect _ _ _ _ E) as (E1 & E2 & E3 & E4 & E5).
    rewrite <- E1 in H. assert (Hle1 : length r <= cnt s1) by lia.
    destruct (IH _ _ H Hle1) as (H1 & H2 & H3 & H4 & H5).
    rewrite H1, H2, H3, H4, H5, E1, E2, E3, E4, E5. repeat split; auto; try lia.
    + destruct r as [|j2 r2]; simpl in *.
      * rewrite orb_false_r. reflexivity.
      * replace (Nat.eqb (cnt s) 1) with false by (symmetry; apply Nat.eqb_neq; lia).
        rewrite orb_false_r. f_equal. destruct (Nat.eqb (cnt s - 1) (S (length r2))) eqn:A.
        -- apply Nat.eqb_eq in A. symmetry. apply Nat.eqb_eq. lia.
        -- apply Nat.eqb_neq in A. symmetry. apply Nat.eqb_neq. lia.
    + replace (Nat.ltb (cnt s) 1) with false by (symmetry; apply Nat.ltb_ge; lia). rewrite orb_false_r.
      destruct r as [|j2 r2]; simpl in *.
      * rewrite orb_false_r. reflexivity.
      * replace (Nat.eqb (cnt s) 1) with false by (symmetry; apply Nat.eqb_neq; lia).
        simpl. rewrite !orb_false_r.
        replace (Nat.eqb (cnt s - 1) (S (length r2))) with (Nat.eqb (cnt s) (S (S (length r2)))); [reflexivity|].
        destruct (Nat.eqb (cnt s - 1) (S (length r2))) eqn:A.
        -- apply Nat.eqb_eq in A. apply Nat.eqb_eq. lia.
        -- apply Nat.eqb_neq in A. apply Nat.eqb_neq. lia.
Qed.

(* ---- the rule of use ------------------------------------------------------------------------------------------ *)

Lemma rule_step s e s' r : step s e = Some s' -> broken s = false ->
  rule_from (cnt s) (uu s) (fired s) (e :: r) = negb (broken s') && rule_from (cnt s') (uu s') (fired s') r.
Proof.
  intros H Hb. destruct (is_batch e) eqn:B.
  - destruct e; try discriminate.
    + apply step_add_n in H. destruct H as (Hne & _ & H).
      destruct (add_seq_effect _ _ _ H) as (H1 & H2 & H3 & _ & H5).
      simpl rule_from. rewrite H1, H2, H3, H5, Hb. destruct js; [congruence|]. reflexivity.
    + apply step_sub_n in H. destruct H as (Hne & Hle & _ & H).
      destruct (sub_seq_effect _ _ _ H Hle) as (H1 & H2 & _ & H4 & H5).
      simpl rule_from. rewrite H1, H2, H4, H5, Hb. destruct js as [|j js]; [congruence|].
      replace (Nat.leb (length (j :: js)) (cnt s)) with true by (symmetry; apply Nat.leb_le; exact Hle).
      reflexivity.
  - rewrite step_basic in H by exact B. apply rule_step1; auto.
Qed.

Lemma broken_mono_step s e s' : step s e = Some s' -> broken s = true -> broken s' = true.
Proof.
  intros H Hb. destruct (is_batch e) eqn:B.
  - destruct e; try discriminate.
    + apply step_add_n in H. destruct H as (_ & _ & H). eapply broken_mono1; eauto.
    + apply step_sub_n in H. destruct H as (_ & _ & _ & H). eapply broken_mono1; eauto.
  - rewrite step_basic in H by exact B. eapply broken_mono_step1; eauto.
Qed.

Lemma broken_mono tr : forall s s', run s tr = Some s' -> broken s = true -> broken s' = true.
Proof.
  induction tr as [|e tr IH]; simpl; intros s s' H Hb.
  - inv_some H. auto.
  - destruct (step s e) as [s1|] eqn:E; [|discriminate]. eapply IH; eauto. eapply broken_mono_step; eauto.
Qed.

Lemma rule_run tr : forall s s', run s tr = Some s' -> broken s = false ->
  rule_from (cnt s) (uu s) (fired s) tr = negb (broken s').
Proof.
  induction tr as [|e tr IH]; intros s s' H Hb.
  - simpl in H. inv_some H. rewrite Hb. reflexivity.
  - simpl in H. destruct (step s e) as [s1|] eqn:E; [|discriminate].
    rewrite (rule_step _ _ _ tr E Hb). destruct (broken s1) eqn:Hb1; simpl.
    + rewrite (broken_mono _ _ _ H Hb1). reflexivity.
    + apply IH; auto.
Qed.

Theorem rule_is_not_broken n tr s : run (init n) tr = Some s -> follows_rule n tr = negb (broken s).
Proof. intros H. apply (rule_run tr (init n) s H). reflexivity. Qed.

Lemma rule_ok n tr s : run (init n) tr = Some s -> follows_rule n tr = true -> broken s = false.
Proof. intros H Hr. rewrite (rule_is_not_broken _ _ _ H) in Hr. destruct (broken s); auto; discriminate. Qed.

(* ---- monotonicity of "the count has reached zero" --------------------------------------------------------------- *)

Lemma fired_mono_step s e s' : step s e = Some s' -> fired s = true -> fired s' = true.
Proof.
  intros H Hb. destruct (is_batch e) eqn:B.
  - destruct e; try discriminate.
    + apply step_add_n in H. destruct H as (_ & _ & H). eapply fired_mono1; eauto.
    + apply step_sub_n in H. destruct H as (_ & _ & _ & H). eapply fired_mono1; eauto.
  - rewrite step_basic in H by exact B. eapply fired_mono_step1; eauto.
Qed.

Lemma fired_mono tr : forall s s', run s tr = Some s' -> fired s = true -> fired s' = true.
Proof.
  induction tr as [|e tr IH]; simpl; intros s s' H Hb.
  - inv_some H. auto.
  - destruct (step s e) as [s1|] eqn:E; [|discriminate]. eapply IH; eauto. eapply fired_mono_step; eauto.
Qed.

Lemma run_app_intro tr1 : forall tr2 s s1 s2, run s tr1 = Some s1 -> run s1 tr2 = Some s2 ->
  run s (tr1 ++ tr2) = Some s2.
Proof.
  induction tr1 as [|e tr1 IH]; simpl; intros tr2 s s1 s2 H1 H2.
  - inv_some H1. auto.
  - destruct (step s e) as [s'|]; [|discriminate]. eapply IH; eauto.
Qed.

(* ---- waiters: a batch step does not touch them -------------------------------------------------------------------- *)

Lemma no_late_registration s e s' w r' : is_all (head s) = true -> step s e = Some s' ->
  nth_error (ws s') w = Some r' -> reg r' = true -> exists r, nth_error (ws s) w = Some r /\ reg r = true.
Proof.
  intros Ha H Hn Hr. destruct (is_batch e) eqn:B.
  - destruct e; try discriminate.
    + apply step_add_n in H. destruct H as (_ & _ & H).
      destruct (add_seq_effect _ _ _ H) as (_ & _ & _ & E & _). rewrite E in Hn. eauto.
    + apply step_sub_n in H. destruct H as (_ & Hle & _ & H).
      destruct (sub_seq_effect _ _ _ H Hle) as (_ & _ & E & _). rewrite E in Hn. eauto.
  - rewrite step_basic in H by exact B. eapply no_late_registration1; eauto.
Qed.

Lemma late_waiter_passes s w r e s' :
  is_all (head s) = true -> nth_error (ws s) w = Some r ->
  (pc r = WTry \/ (exists x, pc r = WCas x) \/ (pc r = W0 /\ wk r <> KInline /\ wk r <> KSticky)) ->
  (exists v, e = ETryLd w v) \/ (exists a, e = ETryCas w a) ->
  step s e = Some s' -> exists r', nth_error (ws s') w = Some r' /\ pc r' = WPass.
Proof.
  intros Ha Hn Hp He H. eapply late_waiter_passes1; eauto.
  destruct He as [[v ->]|[a ->]]; exact H.
Qed.

Lemma woken_can_return s w r : nth_error (ws s) w = Some r -> pc r = WParked -> called r = true ->
  (wk r = KBlock -> exists s', step s (ERet w) = Some s') /\
  (wk r = KTimed -> exists s', step s (ETWake w true) = Some s').
Proof. exact (woken_can_return1 s w r). Qed.

(* ---- OneShotEvent alone ---------------------------------------------------------------------------------------- *)

Lemma ose_not_batch e :
  (match e with EAdd _ _ | ESub _ _ | EFAdd _ _ | EFSubA _ _ | EFSubP _ _ | EFAddN _ _ | EFSubN _ _ => false | _ => true end) = true ->
  is_batch e = false.
Proof. destruct e; simpl; auto; discriminate. Qed.

Lemma ose_run tr : forall s s', run s tr = Some s' -> ose_trace tr = true -> run1 s tr = Some s'.
Proof.
  induction tr as [|e tr IH]; simpl; intros s s' H Ho; auto.
  apply andb_true_iff in Ho. destruct Ho as [He Ho]. rewrite step_basic in H by (apply ose_not_batch; exact He).
  destruct (step1 s e) as [s1|]; [|discriminate]. apply IH; auto.
Qed.

Lemma ose_fired tr s s' : run s tr = Some s' -> ose_trace tr = true -> fired s' = true ->
  fired s = true \/ In EUserSet tr.
Proof. intros H Ho. eapply ose_fired1; eauto. apply ose_run; auto. Qed.

(* ---- the batch count is added before the first registration ------------------------------------------------------
   After the Add(n) of a batch every future of the batch is counted (holds a unit) although none of them has its
   callback installed yet; consequently (count = plain units + counted futures) the counter cannot reach zero while
   one of them is neither completed nor given up by the failed path. *)
Lemma add_seq_counts js : forall s s', run1 s (add_seq js (cnt s)) = Some s' ->
  forall j, In j js -> exists r, nth_error (fs s') j = Some r /\ holds r = true /\ ap r = A1.
Proof.
  induction js as [|j0 r0 IH]; intros s s' H j Hin; cbn [add_seq run1 In] in *; [contradiction|].
  destruct (step1 s (EFAdd j0 (S (cnt s)))) as [s1|] eqn:E; [|discriminate].
  assert (E1 : cnt s1 = S (cnt s)) by (apply (efadd_effect _ _ _ _ E)).
  rewrite <- E1 in H.
  destruct (in_dec Nat.eq_dec j r0) as [Hr|Hr]; [eapply IH; eauto|].
  destruct Hin as [<-|Hin]; [|contradiction].
  (* j0 itself: counted by this step, untouched by the rest *)
  unfold step1, ev_w, ev_f in E; cbv beta iota in E.
  destruct (nth_error (fs s) j0) as [q|] eqn:Hq; [|discriminate]. simpl in E. case_hyp E. inv_some E.
  clear E1 IH.
  assert (Hs1 : exists q1, nth_error (fs (do_add 1 0 (set_f j0 (f_holds true A1 (pp q) q) s))) j0 = Some q1 /\
                           holds q1 = true /\ ap q1 = A1).
  { eexists. split; [simpl; eapply nth_upd_same; eauto|]. split; reflexivity. }
  revert Hs1 H Hr. generalize (do_add 1 0 (set_f j0 (f_holds true A1 (pp q) q) s)). clear.
  induction r0 as [|j1 r1 IH]; intros s Hs H Hr; cbn [add_seq run1 In] in *.
  - inv_some H. exact Hs.
  - destruct (step1 s (EFAdd j1 (S (cnt s)))) as [s2|] eqn:E; [|discriminate].
    assert (E1 : cnt s2 = S (cnt s)) by (apply (efadd_effect _ _ _ _ E)). rewrite <- E1 in H.
    eapply IH; [|exact H|tauto].
    destruct Hs as (q1 & Hq1 & Hh & Ha).
    unfold step1, ev_w, ev_f in E; cbv beta iota in E.
    destruct (nth_error (fs s) j1) as [q2|] eqn:Hq2; [|discriminate]. simpl in E. case_hyp E. inv_some E.
    exists q1. simpl. rewrite nth_upd_other by tauto. auto.
Qed.

Theorem batch_counted_before_registration s js v s' : Inv s -> broken s' = false ->
  step s (EFAddN js v) = Some s' ->
  (forall j, In j js -> exists r, nth_error (fs s') j = Some r /\ holds r = true /\ ap r = A1) /\
  cnt s' = cnt s + length js /\ length js <= cnt s'.
Proof.
  intros I Hb H. apply step_add_n in H. destruct H as (_ & _ & H).
  split; [exact (add_seq_counts _ _ _ H)|]. destruct (add_seq_effect _ _ _ H) as (H1 & _). split; [exact H1|lia].
Qed.
