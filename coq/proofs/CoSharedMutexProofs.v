(* CoSharedMutex: the invariant holds in every reachable state; the theorems of C15 about tokens, counts, Try forms,
   parked coroutines and progress. *)
From Coq Require Import List Arith Bool ZArith Lia.
Import ListNotations.
From YV Require Import model.CoSharedMutex proofs.CoSharedMutexLemmas proofs.CoSharedMutexInv
  proofs.CoSharedMutexPres1 proofs.CoSharedMutexPres2 proofs.CoSharedMutexPres3.

Lemma inv_init : forall f rf n, inv (init f rf n).
Proof.
  intros. assert (Z : forall g, g PNew = 0 -> cntl g (repeat init_co n) = 0).
  { intros g Hg. rewrite cntl_repeat. simpl. rewrite Hg. lia. }
  assert (P : forall g m, g PNew = 0 -> pcwl g (repeat init_co n) m = 0).
  { intros g m Hg. unfold pcwl. destruct (nth_error (repeat init_co n) m) eqn:E; auto.
    apply nth_error_In in E. apply repeat_spec in E. subst. auto. }
  constructor; unfold RT, NF, WT, cnt, pcw, pcP; simpl; rewrite ?Z by reflexivity; try lia; try (intros; lia).
  - intros. rewrite P, Z by reflexivity. auto.
  - intros. rewrite P, Z by reflexivity. auto.
  - intros m Hm. rewrite P in Hm by reflexivity. discriminate.
  - intros m. unfold pcPl. destruct (nth_error (repeat init_co n) m) eqn:E; auto.
    apply nth_error_In in E. apply repeat_spec in E. subst. exact I.
Qed.

Lemma inv_step : forall s e s', inv s -> step s e = Some s' -> inv s'.
Proof.
  intros s e s' I H. destruct e.
  - eapply inv_EStart; eauto.
  - eapply inv_EFinish; eauto.
  - eapply inv_EReqS; eauto.
  - eapply inv_EReqW; eauto.
  - eapply inv_ETryS; eauto.
  - eapply inv_ETryW; eauto.
  - eapply inv_ERSAdd; eauto.
  - eapply inv_ERSSlow; eauto.
  - eapply inv_ETSLoad; eauto.
  - eapply inv_ETSCas; eauto.
  - eapply inv_EWLoad; eauto.
  - eapply inv_EWCas; eauto.
  - eapply inv_EWSlow; eauto.
  - eapply inv_EWAdd; eauto.
  - eapply inv_EEnter; eauto.
  - eapply inv_ELeave; eauto.
  - eapply inv_EUSSub; eauto.
  - eapply inv_EUSWait; eauto.
  - eapply inv_EUSRun; eauto.
  - eapply inv_EUWCas; eauto.
  - eapply inv_EUWSlow; eauto.
  - eapply inv_EUWStore; eauto.
  - eapply inv_EUWRun; eauto.
Qed.

Lemma inv_run : forall tr s s', inv s -> run s tr = Some s' -> inv s'.
Proof.
  induction tr; simpl; intros s s' I H.
  - inversion H; subst; auto.
  - destruct (step s a) eqn:E; try discriminate. eapply IHtr; [|eauto]. eapply inv_step; eauto.
Qed.

Lemma inv_reach : forall f rf n tr s, run (init f rf n) tr = Some s -> inv s.
Proof. intros. eapply inv_run; [apply inv_init | eauto]. Qed.

(* ---- the sums of the model vocabulary ------------------------------------------------------------------ *)
Lemma cntl_plus : forall f g l, cntl (fun p => f p + g p) l = cntl f l + cntl g l.
Proof. unfold cntl. induction l; simpl; auto. lia. Qed.
Lemma cnt_wt : forall s, cnt wt_w s = WT s.
Proof.
  intros. unfold WT, cnt, wt_w.
  rewrite (cntl_plus (fun p => own_w p + runw_w p + usrun_w p) store_w),
          (cntl_plus (fun p => own_w p + runw_w p) usrun_w), (cntl_plus own_w runw_w). auto.
Qed.
Lemma cnt_rt : forall s, cnt rt_w s = RT s.
Proof. intros. unfold RT, cnt, rt_w. apply cntl_plus. Qed.
Lemma cnt_nf : forall s, cnt nf_w s = NF s.
Proof. intros. unfold NF, cnt. apply cntl_nf. Qed.

Ltac inv_facts s I :=
  pose proof (i_rsize s I) as Irsize; pose proof (i_sr s I) as Isr; pose proof (i_parkq s I) as Iparkq;
  pose proof (i_parkr s I) as Iparkr; pose proof (i_sw s I) as Isw; pose proof (i_wt s I) as Iwt;
  pose proof (i_nf s I) as Inf; pose proof (i_spin1 s I) as Ispin1; pose proof (i_spin0 s I) as Ispin0;
  pose proof (i_prio_le s I) as Iprio_le; pose proof (i_prio_f s I) as Iprio_f; pose proof (i_prio_n s I) as Iprio_n;
  pose proof (i_pa s I) as Ipa; pose proof (i_pb s I) as Ipb; pose proof (i_pst s I) as Ipst;
  pose proof (i_pc s I) as Ipc; pose proof (i_occr s I) as Ioccr; pose proof (i_occq s I) as Ioccq;
  pose proof (i_first s I) as Ifirst; pose proof (i_runr s I) as Irunr.

Lemma store_sw : forall s, inv s -> sw s = 0 -> cnt store_w s = 0.
Proof.
  intros s I Z. inv_facts s I. unfold WT in *.
  destruct (Nat.eq_dec (cnt store_w s) 0); auto. assert (cnt store_w s = 1) by lia.
  specialize (Ipst H). lia.
Qed.

(* ---- exclusion ----------------------------------------------------------------------------------------- *)
Lemma thm_exclusion : forall f rf n tr s, run (init f rf n) tr = Some s ->
  cnt wt_w s <= 1 /\ (cnt wt_w s = 1 -> cnt rt_w s = 0) /\
  cnt inw_w s <= 1 /\ (cnt inw_w s = 1 -> cnt inr_w s = 0) /\
  (forall c c' x x', get s c = Some x -> get s c' = Some x' -> c <> c' ->
     wt_w (pc x) + wt_w (pc x') <= 1 /\ (wt_w (pc x) = 1 -> rt_w (pc x') = 0)).
Proof.
  intros f rf n tr s H. pose proof (inv_reach _ _ _ _ _ H) as I.
  pose proof (cnt_wt s) as Ew. pose proof (cnt_rt s) as Er.
  pose proof (inw_le_own (cos s)) as Lw. pose proof (inr_le_rtown (cos s)) as Lr.
  inv_facts s I. unfold RT, WT, cnt in *.
  assert (B : cntl wt_w (cos s) = 1 -> cntl rt_w (cos s) = 0).
  { intros W. rewrite Ew in W. specialize (Ipb W). lia. }
  split; [lia|]. split; [exact B|]. split; [lia|]. split.
  - intros W. assert (W1 : cntl wt_w (cos s) = 1) by lia. specialize (B W1). lia.
  - intros c c' x x' G1 G2 Ne. unfold get in *.
    pose proof (cntl_two wt_w (cos s) c c' x x' Ne G1 G2).
    pose proof (cntl_ge wt_w (cos s) c x G1). pose proof (cntl_ge rt_w (cos s) c' x' G2).
    split; [lia|]. intros W. assert (W1 : cntl wt_w (cos s) = 1) by lia. specialize (B W1). lia.
Qed.

(* ---- Try forms (and every other acquisition that does not wait) succeed only when compatible ------------ *)
Definition acquires_excl (e : ev) : Prop :=
  match e with EWCas _ true => True | EWSlow _ 0 0 => True | _ => False end.
Definition acquires_shared (e : ev) : Prop :=
  match e with ETSCas _ true _ _ => True | ERSAdd _ 0 _ => True | _ => False end.

Lemma thm_try_compatible : forall f rf n tr s, run (init f rf n) tr = Some s ->
  forall e s', step s e = Some s' ->
  (acquires_excl e -> cnt wt_w s = 0 /\ cnt rt_w s = 0 /\ sw s = 0 /\ sr s = 0 /\ cnt inw_w s = 0 /\ cnt inr_w s = 0) /\
  (acquires_shared e -> cnt wt_w s = 0 /\ sw s = 0 /\ cnt inw_w s = 0).
Proof.
  intros f rf n tr s H e s' St. pose proof (inv_reach _ _ _ _ _ H) as I.
  pose proof (cnt_wt s) as Ew. pose proof (cnt_rt s) as Er.
  pose proof (inw_le_own (cos s)) as Lw. pose proof (inr_le_rtown (cos s)) as Lr.
  pose proof (store_sw s I) as Ss.
  assert (A : sw s = 0 -> cnt wt_w s = 0 /\ cnt inw_w s = 0).
  { intros Z. specialize (Ss Z). inv_facts s I. specialize (Ipa Z Ss). unfold WT, cnt in *. lia. }
  assert (B : sw s = 0 -> sr s = 0 -> cnt rt_w s = 0 /\ cnt inr_w s = 0).
  { intros Z Z'. inv_facts s I. unfold RT, cnt in *. lia. }
  split; intros Q; destruct e; simpl in Q; try contradiction.
  - destruct ok; try contradiction. unfold step, get in St. case_hyp St; prep_b;
    (assert (Z1 : sw s = 0) by lia; assert (Z2 : sr s = 0) by lia; destruct (A Z1), (B Z1 Z2); tauto).
  - destruct w; try contradiction. destruct r; try contradiction.
    unfold step, get in St. case_hyp St; prep_b;
    (assert (Z1 : sw s = 0) by lia; assert (Z2 : sr s = 0) by lia; destruct (A Z1), (B Z1 Z2); tauto).
  - destruct w; try contradiction. unfold step, get in St. case_hyp St; prep_b;
    (assert (Z1 : sw s = 0) by lia; destruct (A Z1); tauto).
  - destruct ok; try contradiction. unfold step, get in St. case_hyp St; prep_b;
    (assert (Z1 : sw s = 0) by lia; destruct (A Z1); tauto).
Qed.

(* ---- counts -------------------------------------------------------------------------------------------- *)
Lemma thm_counts : forall f rf n tr s, run (init f rf n) tr = Some s ->
  (* readers: the low half of the word *)
  rsize s = length (rq s) /\
  sr s = cnt rt_w s + cnt nt_w s + rsize s /\
  cnt parkr_w s = rsize s + cnt infl_w s /\
  (* writers: the high half *)
  cnt parkq_w s = length (wq s) + cnt runw_w s /\
  sw s = cnt own_w s + cnt nf_w s + cnt parkq_w s /\
  cnt nf_w s <= 1 /\
  (* no writer: every reader still in transit owns a credit *)
  (sw s = 0 -> rpass s = cnt nt_w s /\ rsize s = 0 /\ wq s = [] /\ cnt d_w s = 0 /\ rwait s = 0%Z) /\
  (* a writer owns: no credit, no debt *)
  (cnt wt_w s = 1 -> rpass s = 0 /\ cnt rt_w s = 0 /\ cnt d_w s = 0 /\ rwait s = 0%Z) /\
  (* writers present, none owns: readers_wait (+ the pending add of the first writer) = the debt *)
  (cnt wt_w s = 0 -> sw s <> 0 ->
     cnt nf_w s = 1 /\ rpass s <= cnt nt_w s /\
     (rwait s + Z.of_nat (cnt addr_w s) = Z.of_nat (cnt rt_w s + rpass s + cnt d_w s))%Z /\
     (cnt parkf_w s = 1 -> (rwait s >= 1)%Z)) /\
  (* FIFO bookkeeping *)
  wprio s <= length (wq s) /\
  (fifo s = true -> rsize s = 0 -> spin s = false -> wprio s = length (wq s)) /\
  (fifo s = false -> wprio s = 0) /\
  (spin s = true <-> cnt add_w s + cnt store_w s = 1).
Proof.
  intros f rf n tr s H. pose proof (inv_reach _ _ _ _ _ H) as I.
  pose proof (cnt_wt s) as Ew. pose proof (cnt_rt s) as Er. pose proof (cnt_nf s) as En.
  pose proof (store_sw s I) as Ss.
  inv_facts s I. rewrite Ew, Er, En. unfold RT, NF, WT in *.
  split; [assumption|]. split; [lia|]. split; [lia|]. split; [lia|]. split; [lia|]. split; [lia|].
  split.
  { intros Z. specialize (Ipa Z (Ss Z)). destruct Ipa as (? & ? & ? & Hw & ? & ? & ?).
    repeat split; try lia. destruct (wq s); auto; simpl in Hw; lia. }
  split.
  { intros W. specialize (Ipb W). lia. }
  split.
  { intros W Z. specialize (Ipc W Z). destruct Ipc as (? & ? & ? & P4 & ?).
    split; [lia|]. split; [lia|]. split; [lia|]. intros. apply P4. lia. }
  split; [lia|]. split.
  { intros Fi Rz Sp. apply Iprio_f; auto. specialize (Ispin0 Sp). lia. }
  split; [assumption|]. split.
  - exact Ispin1.
  - intros Sp. destruct (spin s) eqn:E; auto. specialize (Ispin0 eq_refl). lia.
Qed.
