(* Layer 3 of the When invariants: the output promise is set at most once, by the elected input or by the
   destructor; what each of them puts there. *)
From Coq Require Import List Arith Bool NArith Lia.
Import ListNotations.
From YV Require Import model.When proofs.WhenProofs proofs.WhenProofs2.

Definition post_set (p : pc) : bool := match p with PDec | PDtor _ | PPub | PFin => true | _ => false end.

Record IO (s : st) : Prop := {
  o_len : outs s = [] \/ exists o, outs s = [o];
  o_pvalid : pvalid s = true <-> outs s = [];
  o_pset : forall j y, nth_error (ins s) j = Some y -> ipc y = PSet -> win s = Some j /\ outs s = [];
  o_cons : forall o, In o (outs s) -> odtor o = false ->
           exists x, win s = Some (oby o) /\ nth_error (ins s) (oby o) = Some x /\
                     oval o = OOne (ires x) /\ post_set (ipc x) = true;
  o_dtor : forall o, In o (outs s) -> odtor o = true -> dt s = Some (oby o) /\ win s = None /\ deleted s = 1;
  o_win : forall w x, win s = Some w -> nth_error (ins s) w = Some x -> ipc x <> PSet ->
          post_set (ipc x) = true /\ exists o, outs s = [o] /\ odtor o = false /\ oby o = w;
  o_winlt : forall w, win s = Some w -> w < n s;
  o_ppub : forall d y, nth_error (ins s) d = Some y -> ipc y = PPub -> pvalid s = true;
  o_deleted : deleted s = 1 -> outs s <> [];
  o_noel : has_election (sg s) = false -> deleted s = 0 -> outs s = [] /\ win s = None
}.

Lemma IO_init g k : k > 0 -> IO (init g k).
Proof.
  intros Hk. constructor; simpl; auto; try discriminate; try contradiction.
  - destruct k; [lia|]. simpl. tauto.
  - intros j y H Hp. apply nth_repeat in H. subst. discriminate.
  - intros d y H Hp. apply nth_repeat in H. subst. discriminate.
Qed.

Lemma IO_ext s s' :
  sg s' = sg s -> n s' = n s -> ins s' = ins s -> outs s' = outs s -> pvalid s' = pvalid s ->
  win s' = win s -> dt s' = dt s -> deleted s' = deleted s -> IO s -> IO s'.
Proof.
  intros E1 E2 E3 E4 E5 E6 E7 E8 [A B C D E F G H K L].
  constructor; rewrite ?E1, ?E2, ?E3, ?E4, ?E5, ?E6, ?E7, ?E8; auto.
Qed.

(* an update of input i that keeps outs / win / pvalid / dt / deleted *)
Lemma IO_frame s i x x' :
  IO s -> nth_error (ins s) i = Some x -> ires x' = ires x \/ win s <> Some i ->
  (ipc x' = PSet <-> ipc x = PSet) ->
  (post_set (ipc x) = true -> post_set (ipc x') = true) ->
  (ipc x' = PPub -> ipc x = PPub) ->
  IO (set_in i x' s).
Proof.
  intros [A B C D E F G H K L] Hx Hr Hs Hp Hpub.
  constructor; simpl; auto.
  - intros j y Hj Hy. rewrite nth_upd in Hj. destruct (Nat.eqb_spec j i) as [->|Hne].
    + rewrite Hx in Hj. simpl in Hj. inv Hj. apply (C i x Hx). tauto.
    + eauto.
  - intros o Ho Hd. destruct (D o Ho Hd) as (x0 & Hw0 & Hn0 & Hv0 & Hp0).
    destruct (Nat.eq_dec (oby o) i) as [Ei|Ne].
    + rewrite Ei in *. rewrite Hx in Hn0. inv Hn0. exists x'. repeat split; auto.
      * rewrite nth_upd, Nat.eqb_refl, Hx. reflexivity.
      * destruct Hr as [Hr|Hr]; [congruence|contradiction].
    + exists x0. repeat split; auto. rewrite nth_upd_neq; auto.
  - intros w y Hw0 Hy Hne. rewrite nth_upd in Hy. destruct (Nat.eqb_spec w i) as [->|Hn].
    + rewrite Hx in Hy. simpl in Hy. inv Hy.
      assert (Hxs : ipc x <> PSet) by tauto.
      destruct (F i x Hw0 Hx Hxs) as (Hps & o & Ho). split; eauto.
    + eauto.
  - intros d y Hd Hy. rewrite nth_upd in Hd. destruct (Nat.eqb_spec d i) as [->|Hn].
    + rewrite Hx in Hd. simpl in Hd. inv Hd. eauto.
    + eauto.
Qed.

Lemma IO_set_pc s i x x' :
  IO s -> nth_error (ins s) i = Some x -> ires x' = ires x ->
  ipc x <> PSet -> ipc x' <> PSet -> ipc x' <> PPub ->
  (post_set (ipc x) = true -> post_set (ipc x') = true) -> IO (set_in i x' s).
Proof.
  intros J Hx Hr H1 H2 H3 H4. apply IO_frame with x; auto; try tauto.
Qed.

Lemma begin_pc_props g r :
  let p := if owned g then strat_entry g r else PCons in p <> PSet /\ p <> PPub /\ p <> PIdle.
Proof.
  destruct (begin_pc_cases g r) as [(H & _)|[(H & _)|(H & _)]]; simpl in *; rewrite H; repeat split; discriminate.
Qed.

Lemma strat_entry_props g r :
  strat_entry g r <> PSet /\ strat_entry g r <> PPub /\ strat_entry g r <> PIdle.
Proof.
  destruct (strat_entry_cases g r) as [H|(H & _)]; rewrite H; repeat split; discriminate.
Qed.

Lemma IO_begin s i x x0 :
  IO s -> nth_error (ins s) i = Some x -> ipc x = PIdle -> ires x0 = ires x -> IO (begin i x0 s).
Proof.
  intros J Hx Hp Hr. unfold begin.
  destruct (begin_pc_props (sg s) (ires x0)) as (P1 & P2 & P3).
  apply IO_set_pc with x; simpl; auto; rewrite Hp; try discriminate.
Qed.

Lemma IO_complete s i r s' : I1 s -> IO s -> step s (EComplete i r) = Some s' -> IO s'.
Proof.
  intros I J H. start H i x Hx. case_step H; inv H.
  all: assert (Hp : ipc x = PIdle) by (eapply loc1_idle_w; [apply (i_loc _ I _ _ Hx)|congruence]).
  all: apply IO_frame with x; simpl; auto; try tauto; try (rewrite Hp; intuition discriminate).
  all: right; intros Hw; destruct (o_win _ J _ _ Hw Hx) as (Hps & _); rewrite Hp in *; discriminate.
Qed.

Lemma IO_xchg s i old s' : I1 s -> IO s -> step s (EXchg i old) = Some s' -> IO s'.
Proof.
  intros I J H. start H i x Hx.
  destruct (word_eqb old (iw x)) eqn:E; [apply word_eqb_eq in E; subst old|discriminate].
  case_step H; inv H.
  all: assert (Hp : ipc x = PIdle) by (eapply loc1_idle_w; [apply (i_loc _ I _ _ Hx)|congruence]).
  - apply IO_set_pc with x; simpl; auto; rewrite Hp; discriminate.
  - apply IO_begin with x; auto.
Qed.

Lemma IO_reg s i ok s' : I1 s -> IO s -> step s (EReg i ok) = Some s' -> IO s'.
Proof.
  intros I J H. simpl in H. destruct (Nat.eqb_spec i (nreg s)) as [->|]; [|discriminate].
  destruct (nth_error (ins s) (nreg s)) as [x|] eqn:Hx; [|discriminate].
  case_step H; inv H.
  all: assert (Hp : ipc x = PIdle) by (eapply loc1_idle_reg; [apply (i_loc _ I _ _ Hx)|lia]).
  - apply IO_ext with (set_in (nreg s) (with_iw WC x) s); try reflexivity.
    apply IO_set_pc with x; simpl; auto; rewrite Hp; discriminate.
  - apply IO_ext with (begin (nreg s) x s); try reflexivity. apply IO_begin with x; auto.
Qed.

Lemma IO_store_slot i r s : IO s -> IO (store_slot i r s).
Proof.
  intros J. unfold store_slot. destruct (sg s); auto; try destruct (ovalue r); auto.
  all: eapply IO_ext; [..|exact J]; reflexivity.
Qed.

Lemma IO_free s i s' : I1 s -> IO s -> step s (EFree i) = Some s' -> IO s'.
Proof.
  intros I J H. start H i x Hx. case_step H; inv H.
  apply IO_store_slot.
  destruct (strat_entry_props (sg s) (rd x)) as (P1 & P2 & P3).
  apply IO_set_pc with x; simpl; auto; rewrite Heqp; try discriminate.
Qed.

Definition elects (s : st) (e : ev) : bool :=
  match e with
  | EXchgDone _ old => negb old
  | EXchgState _ old =>
      match sg s with SAnyFF => negb (N.eqb old 2) | SAnyLF => negb (N.odd old) | _ => false end
  | ESubState _ old => N.eqb old 2
  | _ => false
  end.

Lemma not_ended_no_dtor s i x :
  I1 s -> nth_error (ins s) i = Some x -> ended (ipc x) = false -> dt s = None.
Proof.
  intros I Hx He. destruct (dt s) as [d|] eqn:Hd; auto.
  destruct (i_dt_some _ I _ Hd) as (Hc & _).
  pose proof (all_ended _ I Hc _ _ Hx). congruence.
Qed.

Lemma not_ended_outs_cons s i x o :
  I1 s -> IO s -> nth_error (ins s) i = Some x -> ended (ipc x) = false -> In o (outs s) -> odtor o = false.
Proof.
  intros I J Hx He Ho. destruct (odtor o) eqn:Hd; auto.
  destruct (o_dtor _ J _ Ho Hd) as (Hdt & _). rewrite (not_ended_no_dtor _ _ _ I Hx He) in Hdt. discriminate.
Qed.

Lemma IO_elected s i x :
  I1 s -> IO s -> nth_error (ins s) i = Some x -> ipc x = PRmw -> win s = None -> IO (elected i x s).
Proof.
  intros I J Hx Hp Hw. pose proof J as [A B C D E F G H K L].
  assert (Ho : outs s = []).
  { destruct A as [A|(o & A)]; auto. exfalso.
    assert (Hin : In o (outs s)) by (rewrite A; left; reflexivity).
    assert (Hd : odtor o = false) by (eapply not_ended_outs_cons; eauto; rewrite Hp; reflexivity).
    destruct (D o Hin Hd) as (x0 & Hw0 & _). congruence. }
  assert (Hdt : dt s = None) by (eapply not_ended_no_dtor; eauto; rewrite Hp; reflexivity).
  unfold elected. constructor; simpl; auto.
  - intros j y Hj Hy. rewrite nth_upd in Hj. destruct (Nat.eqb_spec j i) as [->|Hne]; auto.
    destruct (C j y Hj Hy). congruence.
  - rewrite Ho. contradiction.
  - rewrite Ho. contradiction.
  - intros w y Hw0 Hy Hne. inv Hw0. rewrite nth_upd, Nat.eqb_refl, Hx in Hy. simpl in Hy. inv Hy. simpl in Hne. congruence.
  - intros w Hw0. inv Hw0. rewrite <- (i_len _ I). eapply nth_lt; eauto.
  - intros d y Hd Hy. rewrite nth_upd in Hd. destruct (Nat.eqb_spec d i) as [->|Hn]; eauto.
    rewrite Hx in Hd. simpl in Hd. inv Hd. discriminate.
  - intros Hel. destruct (l_pel _ _ _ _ _ _ _ _ (i_loc _ I _ _ Hx)) as (He & _); auto. congruence.
Qed.

Lemma IO_setout s i x r :
  I1 s -> IO s -> nth_error (ins s) i = Some x -> ipc x = PSet -> r = ires x ->
  IO (goto i PDec x (set_outs (outs s ++ [{| oby := i; odtor := false; oval := OOne r |}])
                       (set_pvalid false s))).
Proof.
  intros I J Hx Hp Hr. pose proof J as [A B C D E F G H K L].
  destruct (C i x Hx Hp) as (Hw & Ho).
  assert (Hdt : dt s = None) by (eapply not_ended_no_dtor; eauto; rewrite Hp; reflexivity).
  unfold goto. constructor; simpl; rewrite ?Ho; simpl; auto.
  - right. eauto.
  - split; discriminate.
  - intros j y Hj Hy. rewrite nth_upd in Hj. destruct (Nat.eqb_spec j i) as [->|Hne].
    + rewrite Hx in Hj. simpl in Hj. inv Hj. discriminate.
    + destruct (C j y Hj Hy). congruence.
  - intros o [<-|[]] _. simpl. exists (with_ipc PDec x). repeat split; auto.
    + rewrite nth_upd, Nat.eqb_refl, Hx. reflexivity.
    + simpl. congruence.
  - intros o [<-|[]] Hd. discriminate.
  - intros w y Hw0 Hy Hne. rewrite Hw in Hw0. inv Hw0.
    rewrite nth_upd, Nat.eqb_refl, Hx in Hy. simpl in Hy. inv Hy. split; auto. eauto.
  - intros d y Hd Hy. exfalso. rewrite nth_upd in Hd. destruct (Nat.eqb_spec d i) as [->|Hn].
    + rewrite Hx in Hd. simpl in Hd. inv Hd. discriminate.
    + pose proof (l_pdtor _ _ _ _ _ _ _ _ (i_loc _ I _ _ Hd)) as Hd'. rewrite Hy in Hd'. specialize (Hd' eq_refl). congruence.
  - discriminate.
  - intros Hel. destruct (l_pel _ _ _ _ _ _ _ _ (i_loc _ I _ _ Hx)) as (He & _); auto. congruence.
Qed.

Lemma rd_owned_live s i x :
  I1 s -> I2 s -> nth_error (ins s) i = Some x -> ended (ipc x) = false -> owned (sg s) = true -> rd x = ires x.
Proof.
  intros I J Hx He Ho. pose proof (not_ended_no_dtor _ _ _ I Hx He) as Hd.
  destruct (i_dt_none _ I Hd) as (_ & Hdp & _).
  destruct (i2_loc _ J _ _ Hx) as [F _]. rewrite Ho, Hdp in F. simpl in F.
  unfold rd. rewrite F. reflexivity.
Qed.

Lemma IO_mid s e s' :
  I1 s -> I2 s -> IO s -> step s e = Some s' -> (elects s e = true -> win s = None) ->
  match e with
  | ELdDone _ _ | EXchgDone _ _ | ELdState _ _ | EXchgState _ _ | ECasState _ _ | ESubState _ _ | ESetOut _ => True
  | _ => False
  end -> IO s'.
Proof.
  intros I I' J H Hel He. destruct e; try contradiction; clear He.
  all: start H i x Hx; case_step H; inv H.
  all: simpl in Hel; repeat match goal with H : sg ?s0 = _ |- _ => rewrite H in Hel end; simpl in Hel.
  all: try match goal with |- IO (elected ?i ?x ?s1) =>
         apply IO_ext with (elected i x s); [reflexivity..|];
         apply IO_elected; auto; apply Hel;
         repeat match goal with H : _ = false |- _ => rewrite H end; reflexivity end.
  all: try match goal with Hx : nth_error (ins ?s0) ?i = Some ?x |- IO (goto ?i ?p ?x ?s1) =>
         match p with
         | PDec => idtac | PRmw => idtac
         | (if _ then _ else _) => idtac
         end;
         apply IO_ext with (goto i p x s0); [reflexivity..|];
         unfold goto; apply IO_set_pc with x; simpl; auto; rewrite ?Heqp; try discriminate;
         repeat match goal with |- context [if ?b then _ else _] => destruct b end; try discriminate
       end.
  (* ESetOut *)
  all: match goal with |- IO (goto ?i PDec ?x (set_outs (_ ++ [{| oby := _; odtor := _; oval := OOne ?r |}]) _)) =>
    match goal with Hx : nth_error (ins ?s0) i = Some x |- _ =>
    apply IO_ext with (goto i PDec x (set_outs (outs s0 ++ [{| oby := i; odtor := false; oval := OOne r |}])
                                        (set_pvalid false s0))); [reflexivity..|] end end.
  all: apply IO_setout; auto.
  eapply rd_owned_live; eauto. rewrite Heqp. reflexivity.
Qed.

(* a step of the destructor thread that does not publish *)
Lemma IO_dtor_move s i x p del' :
  I1 s -> IO s -> nth_error (ins s) i = Some x -> post_set (ipc x) = true -> post_set p = true ->
  deleted s = 0 -> (del' = 1 -> outs s <> []) -> (del' = 0 \/ del' = 1) ->
  (p = PPub -> pvalid s = true) ->
  IO (set_deleted del' (goto i p x (set_dt (Some i) s))).
Proof.
  intros I J Hx Hps Hpp Hdel Hd1 Hd01 Hpub. pose proof J as [A B C D E F G H K L].
  unfold goto. constructor; simpl; auto.
  - intros j y Hj Hy. rewrite nth_upd in Hj. destruct (Nat.eqb_spec j i) as [->|Hne]; eauto.
    rewrite Hx in Hj. simpl in Hj. inv Hj. simpl in Hy. rewrite Hy in Hpp. discriminate.
  - intros o Ho Hd. destruct (D o Ho Hd) as (x0 & Hw0 & Hn0 & Hv0 & Hp0).
    destruct (Nat.eq_dec (oby o) i) as [Ei|Ne].
    + rewrite Ei in *. rewrite Hx in Hn0. inv Hn0. exists (with_ipc p x0). repeat split; auto.
      rewrite nth_upd, Nat.eqb_refl, Hx. reflexivity.
    + exists x0. repeat split; auto. rewrite nth_upd_neq; auto.
  - intros o Ho Hd. destruct (E o Ho Hd) as (_ & _ & Hdd). congruence.
  - intros w y Hw0 Hy Hne. rewrite nth_upd in Hy. destruct (Nat.eqb_spec w i) as [->|Hn]; eauto.
    rewrite Hx in Hy. simpl in Hy. inv Hy. simpl in *.
    assert (Hxs : ipc x <> PSet) by (intros Ex; rewrite Ex in Hps; discriminate).
    destruct (F i x Hw0 Hx Hxs) as (_ & o & Ho). split; eauto.
  - intros d y Hd Hy. rewrite nth_upd in Hd. destruct (Nat.eqb_spec d i) as [->|Hn]; eauto.
    rewrite Hx in Hd. simpl in Hd. inv Hd. auto.
Qed.

Lemma dec_pc_post_set : post_set PDec = true.
Proof. reflexivity. Qed.

Lemma IO_dec s i old s' : I1 s -> IO s -> step s (EDec i old) = Some s' -> IO s'.
Proof.
  intros I J H. start H i x Hx. case_step H; inv H.
  all: apply Nat.eqb_eq in Heqb.
  - (* the last reference *)
    assert (Hdn : dt s = None).
    { destruct (dt s) eqn:E; auto. destruct (i_dt_some _ I _ E). lia. }
    destruct (i_dt_none _ I Hdn) as (Hdel & _ & _).
    assert (Hnoel : has_election (sg s) = false -> pvalid s = true).
    { intros Hel. destruct (o_noel _ J Hel Hdel) as (Ho & _). apply (o_pvalid _ J). exact Ho. }
    assert (Hpv : pvalid s = false -> outs s <> []).
    { intros Hpv Ho. apply (o_pvalid _ J) in Ho. congruence. }
    unfold dtor_entry.
    destruct (sg s) eqn:Esg; simpl; try destruct (pvalid s) eqn:Epv; simpl.
    all: match goal with
         | |- IO (set_deleted ?d (goto ?i ?p ?x ?s1)) =>
             apply IO_ext with (set_deleted d (goto i p x (set_dt (Some i) s))); [reflexivity..|];
             rewrite Hdel; apply IO_dtor_move; auto; try (rewrite Heqp; reflexivity); try discriminate
         | |- IO (goto ?i ?p ?x ?s1) =>
             apply IO_ext with (set_deleted 0 (goto i p x (set_dt (Some i) s)));
             [try reflexivity; simpl; congruence..|];
             apply IO_dtor_move; auto; try (rewrite Heqp; reflexivity); try discriminate
         end.
    all: try (intros _; first [apply Hnoel; reflexivity | exfalso; specialize (Hnoel eq_refl); discriminate]).
  - apply IO_ext with (goto i PFin x s); try reflexivity.
    unfold goto. apply IO_set_pc with x; simpl; auto; rewrite ?Heqp; try discriminate.
Qed.

Lemma IO_with_ifree s k y v : IO s -> nth_error (ins s) k = Some y -> IO (set_in k (with_ifree v y) s).
Proof. intros J Hy. apply IO_frame with y; simpl; auto; tauto. Qed.

Lemma IO_dfree s i k s' : I1 s -> IO s -> step s (EDFree i k) = Some s' -> IO s'.
Proof.
  intros I J H. unfold step in H. destruct (nth_error (ins s) i) as [x|] eqn:Hx; [|discriminate].
  destruct (ipc x) as [| | | | | |k'| |] eqn:Hp; try discriminate.
  destruct (Nat.eqb_spec k k') as [Ek|]; [subst k'|discriminate].
  destruct (nth_error (ins s) k) as [y|] eqn:Hy; [|discriminate].
  destruct (l_pdk _ _ _ _ _ _ _ _ (i_loc _ I _ _ Hx) _ Hp) as (Hown & Hk & Hdp).
  assert (Hdt : dt s = Some i) by (apply (l_pdtor _ _ _ _ _ _ _ _ (i_loc _ I _ _ Hx)); rewrite Hp; reflexivity).
  destruct (l_dt _ _ _ _ _ _ _ _ (i_loc _ I _ _ Hx) Hdt) as (_ & Hdel & _). rewrite Hp in Hdel. simpl in Hdel.
  fold (collecting s) in H.
  set (y' := with_ifree (S (ifree y)) y) in *.
  set (s1 := set_in k y' s) in *.
  assert (I1s : I1 s1) by (apply I1_with_ifree; auto).
  assert (J1 : IO s1) by (apply IO_with_ifree; auto).
  cbv zeta in H.
  match type of H with match ?t with _ => _ end = _ => destruct t as [x'|] eqn:Hx' end; [|discriminate].
  injection H as Hs'. subst s'.
  assert (Hx1 : nth_error (ins s1) i = Some x') by (destruct (collecting s); exact Hx').
  assert (Hp' : ipc x' = PDtor k).
  { unfold s1 in Hx1. simpl in Hx1. rewrite nth_upd in Hx1. destruct (Nat.eqb_spec i k) as [->|].
    - rewrite Hy in Hx1. simpl in Hx1. injection Hx1 as Hz. subst x'. simpl. congruence.
    - congruence. }
  assert (Hpv : collecting s = true -> pvalid s = true).
  { unfold collecting. destruct (sg s) eqn:Esg; auto. intros _.
    destruct (o_noel _ J) as (Ho & _); auto; try (rewrite Esg; reflexivity). apply (o_pvalid _ J). exact Ho. }
  assert (Hnpv : collecting s = false -> outs s <> []).
  { unfold collecting. destruct (sg s) eqn:Esg; try discriminate; intros Hc Ho; apply (o_pvalid _ J) in Ho; congruence. }
  match goal with |- IO (finish_if_fin ?p0 _) => set (p := p0) end.
  assert (Hpp : post_set p = true /\ (p = PPub -> collecting s = true) /\ (p = PFin -> collecting s = false)).
  { subst p. repeat match goal with |- context [if ?b then _ else _] => destruct b eqn:? end;
      repeat split; auto; discriminate. }
  destruct Hpp as (Hps & Hpub & Hfin). clearbody p.
  apply IO_ext with (set_deleted (if pc_fin p then 1 else 0) (goto i p x' (set_dt (Some i) s1))).
  1-8: unfold finish_if_fin; destruct p, (collecting s); simpl; auto; congruence.
  apply IO_dtor_move; auto.
  - rewrite Hp'. reflexivity.
  - destruct p; simpl; try discriminate. intros _. apply Hnpv. auto.
  - destruct (pc_fin p); auto.
Qed.

Lemma IO_publish s i s' : I1 s -> IO s -> step s (EPublish i) = Some s' -> IO s'.
Proof.
  intros I J H. start H i x Hx. case_step H; inv H.
  pose proof J as [A B C D E F G Hh K L].
  assert (Hdt : dt s = Some i) by (apply (l_pdtor _ _ _ _ _ _ _ _ (i_loc _ I _ _ Hx)); rewrite Heqp; reflexivity).
  destruct (l_dt _ _ _ _ _ _ _ _ (i_loc _ I _ _ Hx) Hdt) as (_ & Hdel & _). rewrite Heqp in Hdel. simpl in Hdel.
  destruct (i_dt_some _ I _ Hdt) as (Hc0 & _).
  pose proof (Hh i x Hx Heqp) as Hpv.
  assert (Ho : outs s = []) by (apply B; auto).
  assert (Hw : win s = None).
  { destruct (win s) as [w|] eqn:Hw; auto. exfalso.
    pose proof (G w eq_refl) as Hlt. rewrite <- (i_len _ I) in Hlt.
    destruct (nth_error (ins s) w) as [xw|] eqn:Hxw; [|apply nth_error_None in Hxw; lia].
    pose proof (all_ended _ I Hc0 _ _ Hxw) as He.
    assert (Hne : ipc xw <> PSet) by (intros Ex; rewrite Ex in He; discriminate).
    destruct (F w xw eq_refl Hxw Hne) as (_ & o & Ho' & _). congruence. }
  unfold goto. constructor; simpl; rewrite ?Ho; simpl; auto.
  - right; eauto.
  - split; discriminate.
  - intros j y Hj Hy. exfalso. rewrite nth_upd in Hj. destruct (Nat.eqb_spec j i) as [->|Hne].
    + rewrite Hx in Hj. simpl in Hj. inv Hj. discriminate.
    + pose proof (all_ended _ I Hc0 _ _ Hj) as He. rewrite Hy in He. discriminate.
  - intros o [<-|[]] Hd. discriminate.
  - intros o [<-|[]] _. simpl. rewrite Hdel. auto.
  - rewrite Hw. discriminate.
  - intros d y Hd Hy. exfalso. rewrite nth_upd in Hd. destruct (Nat.eqb_spec d i) as [->|Hn].
    + rewrite Hx in Hd. simpl in Hd. inv Hd. discriminate.
    + pose proof (l_pdtor _ _ _ _ _ _ _ _ (i_loc _ I _ _ Hd)) as Hd'. rewrite Hy in Hd'. specialize (Hd' eq_refl). congruence.
  - discriminate.
  - intros _ Hd. rewrite Hdel in Hd. discriminate.
Qed.

Theorem IO_step s e s' :
  I1 s -> I2 s -> IO s -> (elects s e = true -> win s = None) -> step s e = Some s' -> IO s'.
Proof.
  intros I I' J Hel H. destruct e.
  - eapply IO_complete; eauto.
  - eapply IO_xchg; eauto.
  - eapply IO_reg; eauto.
  - eapply IO_free; eauto.
  - eapply IO_mid; eauto; exact Logic.I.
  - eapply IO_mid; eauto; exact Logic.I.
  - eapply IO_mid; eauto; exact Logic.I.
  - eapply IO_mid; eauto; exact Logic.I.
  - eapply IO_mid; eauto; exact Logic.I.
  - eapply IO_mid; eauto; exact Logic.I.
  - eapply IO_mid; eauto; exact Logic.I.
  - eapply IO_dec; eauto.
  - eapply IO_dfree; eauto.
  - eapply IO_publish; eauto.
Qed.
