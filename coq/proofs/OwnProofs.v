(* Lifetime accounting of a pipeline (model/Own.v): for every interleaving of the consumer that builds and
   attaches steps with the chain that fires them, any length, with or without functor invocation (skipped
   callbacks, throwing callbacks and rejected submissions all follow the same teardown):
   no released core or destroyed functor is ever touched, every core is released exactly once and only after it
   was published, every functor is destroyed exactly once, no functor is invoked twice. *)
From Coq Require Import List Arith Bool Lia Sorted.
Import ListNotations.
From YV Require Import model.Own.

Definition firing_late (f : fph) : bool := match f with FCallerFreed | FFnDead => true | _ => false end.

Record Inv (s : st) : Prop := {
  v_errs : errs s = 0;
  v_att : (built s = 0 /\ att s = 0) \/ S (att s) = built s \/ S (S (att s)) = built s;
  v_done : done s <= built s;
  v_idle : done s = built s -> fire s = FIdle;
  v_freed : match done s with
            | 0 => freed s = 0
            | S d => if firing_late (fire s) then freed s = S d
                     else freed s = d \/ (freed s = S d /\ closed s = true /\ S d = built s)
            end;
  v_fn : fn_dtors s + b2n (negb (src_fn s) && negb (Nat.eqb (done s) 0)) =
         done s + b2n (match fire s with FFnDead => true | _ => false end);
  v_src : fire s <> FIdle -> has_fn s (done s) = true;
  v_calls : Forall (fun i => i < done s + b2n (negb (match fire s with FIdle => true | _ => false end))) (calls s);
  v_sorted : StronglySorted lt (calls s);
  v_closed : closed s = true -> S (att s) = built s
}.

Lemma inv_init sf : Inv (init sf).
Proof.
  constructor; simpl; auto; try lia; try discriminate; try constructor;
    try (destruct sf; reflexivity); try congruence.
Qed.

Lemma sorted_app_last l x : StronglySorted lt l -> Forall (fun i => i < x) l -> StronglySorted lt (l ++ [x]).
Proof.
  induction l as [|a l IH]; simpl; intros Hs Hf.
  - constructor; constructor.
  - inversion Hs; subst. inversion Hf; subst. constructor.
    + apply IH; assumption.
    + apply Forall_app. split; [assumption|constructor; [assumption|constructor]].
Qed.

Ltac bools :=
  repeat match goal with
         | H : _ && _ = true |- _ => apply andb_true_iff in H; destruct H
         | H : _ || _ = true |- _ => apply orb_true_iff in H
         | H : negb _ = true |- _ => apply negb_true_iff in H
         | H : Nat.eqb _ _ = true |- _ => apply Nat.eqb_eq in H
         | H : Nat.eqb _ _ = false |- _ => apply Nat.eqb_neq in H
         | H : Nat.leb _ _ = true |- _ => apply Nat.leb_le in H
         | H : Nat.ltb _ _ = true |- _ => apply Nat.ltb_lt in H
         | H : Bool.eqb _ _ = true |- _ => apply Bool.eqb_prop in H
         end.

Ltac fwd Vcalls := eapply Forall_impl; [|exact Vcalls]; cbv beta; cbn [b2n negb]; intros; lia.

Ltac proj := unfold has_fn; cbn [src_fn built att done fire freed fn_dtors calls closed errs b2n negb andb].

Ltac fin Vcalls :=
  proj; cbn [Nat.eqb negb andb b2n] in *;
  first [ lia | assumption | discriminate | congruence | reflexivity
        | (intros; first [lia | congruence | reflexivity | discriminate | assumption])
        | fwd Vcalls
        | (left; first [lia | assumption]) | (right; repeat split; first [lia | assumption]) ].

Theorem inv_step s e s' : Inv s -> step s e = Some s' -> Inv s'.
Proof.
  intros I H. destruct I as [Verr Vatt Vdone Vidle Vfreed Vfn Vsrc Vcalls Vsorted Vclosed].
  destruct e; unfold step in H.
  - (* ENew *)
    destruct (closed s) eqn:Ecl; [discriminate|].
    destruct (Nat.eqb (built s) 0 || Nat.eqb (S (att s)) (built s)) eqn:Eb; [|discriminate].
    injection H as <-. bools.
    assert (Hb : built s = 0 \/ S (att s) = built s) by (destruct Eb; bools; auto).
    constructor; proj; try solve [fin Vcalls].
    all: try solve [destruct (done s) as [|d]; [assumption|]; destruct (firing_late (fire s)); [assumption|]; destruct Vfreed as [?|[? [? ?]]]; [left; assumption|congruence]].
  - (* EAttach *)
    destruct (Nat.eqb (S (S (att s))) (built s)) eqn:Ea; [|discriminate].
    destruct (Bool.eqb ok (Nat.leb (done s) (S (att s) - 1))) eqn:Eo; [|discriminate].
    injection H as <-. bools.
    constructor; proj; try solve [fin Vcalls].
    all: try solve [intros Hc; specialize (Vclosed Hc); lia].
  - (* ECall *)
    destruct (Nat.eqb i (done s) && Nat.ltb i (built s) && has_fn s i && (Nat.eqb i 0 || Nat.leb i (att s))) eqn:Eg;
      [|discriminate].
    destruct (fire s) eqn:Ef; try discriminate. injection H as <-. bools. subst i.
    assert (Hfr : negb (Nat.eqb (done s) 0) && negb (Nat.eqb (S (freed s)) (done s)) = false).
    { destruct (done s) as [|d] eqn:Ed; [reflexivity|]. simpl in Vfreed. simpl.
      destruct Vfreed as [Hv|[Hv [_ Hb]]].
      - rewrite Hv, Nat.eqb_refl. reflexivity.
      - lia. }
    constructor; proj; rewrite ?Ef in *; try solve [fin Vcalls].
    all: try solve [destruct (done s) as [|d] eqn:Ed; simpl in *; [lia|]; destruct Vfreed as [Hv|[Hv [_ Hb]]]; [rewrite Hv, Nat.eqb_refl; simpl; lia|lia]].
    all: try solve [apply Forall_app; split; [fwd Vcalls|constructor; [simpl; lia|constructor]]].
    all: try solve [apply sorted_app_last; [assumption|]; fwd Vcalls].
  - (* EFreeCaller *)
    destruct (Nat.eqb i (done s) && Nat.ltb i (built s) && negb (Nat.eqb i 0) && Nat.leb i (att s)) eqn:Eg;
      [|discriminate].
    destruct (fire s) eqn:Ef; try discriminate; injection H as <-; bools; subst i.
    all: destruct (done s) as [|d] eqn:Ed; [congruence|]; simpl in Vfreed.
    all: assert (Hfr : freed s = d) by (destruct Vfreed as [?|[? [? ?]]]; [assumption|lia]).
    all: constructor; proj; rewrite ?Ef, ?Ed in *; try solve [fin Vcalls].
    all: try (rewrite Hfr, Nat.eqb_refl; simpl; lia).
  - (* EFnDtor *)
    destruct (Nat.eqb i (done s) && Nat.ltb i (built s) && has_fn s i) eqn:Eg; [|discriminate].
    bools. subst i.
    destruct (fire s) eqn:Ef; destruct (done s) as [|d] eqn:Ed; try discriminate; injection H as <-.
    all: constructor; proj; rewrite ?Ef, ?Ed in *; try solve [fin Vcalls].
  - (* EPublish *)
    destruct (Nat.eqb i (done s) && Nat.ltb i (built s)) eqn:Eg; [|discriminate]. bools. subst i.
    destruct (fire s) eqn:Ef; try discriminate.
    + destruct (has_fn s (done s)) eqn:Eh; [discriminate|]. injection H as <-.
      assert (Hd0 : done s = 0 /\ src_fn s = false).
      { unfold has_fn in Eh. destruct (done s); [auto|discriminate]. }
      destruct Hd0 as [Hd0 Hsf].
      constructor; proj; rewrite ?Ef, ?Hd0, ?Hsf in *; try solve [fin Vcalls].
    + injection H as <-.
      constructor; proj; rewrite ?Ef in *; try solve [fin Vcalls].
      all: try solve [destruct (done s) as [|d] eqn:Ed; simpl in *; left; assumption].
      all: try solve [assert (Hs := Vsrc ltac:(discriminate)); unfold has_fn in Hs; destruct (done s) as [|d] eqn:Ed; simpl in *; [rewrite Hs in *; simpl in *; lia|lia]].
  - (* EClose *)
    destruct (negb (closed s) && negb (Nat.eqb (built s) 0) && Nat.eqb (S (att s)) (built s)) eqn:Eg; [|discriminate].
    injection H as <-. bools.
    constructor; proj; try solve [fin Vcalls].
    all: try solve [destruct (done s) as [|d]; [assumption|]; destruct (firing_late (fire s)); [assumption|]; destruct Vfreed as [?|[? [? ?]]]; [left; assumption|right; auto]].
  - (* EFinalFree *)
    destruct (closed s && Nat.eqb (done s) (built s) && Nat.ltb (freed s) (built s)) eqn:Eg; [|discriminate].
    injection H as <-. bools.
    match goal with Hd : done s = built s |- _ => pose proof (Vidle Hd) as Hf end.
    assert (Hfr : S (freed s) = built s).
    { destruct (done s) as [|d] eqn:Ed; [lia|]. rewrite Hf in Vfreed. simpl in Vfreed.
      destruct Vfreed as [Hv|[Hv _]]; lia. }
    constructor; proj; rewrite ?Hf in *; try solve [fin Vcalls].
    all: try solve [rewrite Hfr, Nat.eqb_refl; simpl; lia].
    all: try solve [destruct (done s) as [|d] eqn:Ed; [lia|]; simpl; right; split; [lia|auto]].
    all: try solve [destruct (built s) as [|b] eqn:Eb; [lia|]; assert (freed s = b) by lia; subst b; rewrite Nat.eqb_refl; simpl; lia].
    all: try solve [intros _; apply Vclosed; assumption].
Qed.

Theorem inv_run tr : forall s s', Inv s -> run s tr = Some s' -> Inv s'.
Proof.
  induction tr as [|e tr IH]; simpl; intros s s' I H.
  - inversion H; subst; exact I.
  - destruct (step s e) as [s1|] eqn:E; [|discriminate]. eapply IH; [|exact H]. eapply inv_step; eauto.
Qed.

Theorem reach_inv sf tr s : run (init sf) tr = Some s -> Inv s.
Proof. apply inv_run. apply inv_init. Qed.

(* no released core, destroyed functor or already released caller is ever touched *)
Lemma no_errors s : Inv s -> errs s = 0.
Proof. intros I. exact (v_errs _ I). Qed.

(* a core is released only after it was published, and cores are published only after they were built *)
Lemma freed_after_published s : Inv s -> freed s <= done s /\ done s <= built s.
Proof.
  intros I. split; [|exact (v_done _ I)]. pose proof (v_freed _ I) as V.
  destruct (done s) as [|d]; [lia|]. destruct (firing_late (fire s)); [lia|]. destruct V as [?|[? _]]; lia.
Qed.

(* complete runs: every core released (exactly once: the counter moves only forward by one per release event
   and no release was an error), every functor destroyed exactly once *)
Lemma terminal_clean s : Inv s -> terminal s = true ->
  freed s = built s /\ done s = built s /\ fn_dtors s + b2n (negb (src_fn s)) = built s /\ 1 <= built s.
Proof.
  intros I Ht. unfold terminal in Ht. bools.
  pose proof (freed_after_published s I) as [A B].
  assert (Hd : done s = built s) by lia.
  pose proof (v_idle _ I Hd) as Hf. pose proof (v_fn _ I) as Vf. rewrite Hf in Vf. simpl in Vf.
  pose proof (v_closed _ I) as Vc.
  match goal with Hc : closed s = true |- _ => specialize (Vc Hc) end.
  destruct (Nat.eqb (done s) 0) eqn:E0; bools; [lia|].
  rewrite andb_true_r in Vf. repeat split; lia.
Qed.

Lemma invoked_at_most_once s : Inv s -> NoDup (calls s).
Proof.
  intros I. pose proof (v_sorted _ I) as Hs. induction Hs as [|a l Hs IH Hf]; constructor; auto.
  intros Hin. rewrite Forall_forall in Hf. specialize (Hf _ Hin). lia.
Qed.
