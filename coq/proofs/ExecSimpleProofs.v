(* Call xor Drop for the four executors, in one vocabulary (ExecSimple.exec_contract):
   Inline and Manual from the transition systems of model/ExecSimple.v (proved here), Strand from C07's theorems
   (proofs/StrandProofs.v), FairThreadPool from C08's (proofs/PoolProofs.v). *)
From Coq Require Import List Arith Bool Lia Permutation.
Import ListNotations.
From YV Require Import model.ExecSimple.
From YV Require model.Strand proofs.StrandProofs model.Pool proofs.PoolProofs.

(* ------------------------------------------------------------------------------------ lists *)

Lemma memn_false j l : memn j l = false -> ~ In j l.
Proof.
  unfold memn. intros H Hin. assert (existsb (Nat.eqb j) l = true); [|congruence].
  apply existsb_exists. exists j. split; [assumption|apply Nat.eqb_refl].
Qed.

Lemma memn_true j l : memn j l = true -> In j l.
Proof.
  unfold memn. intros H. apply existsb_exists in H. destruct H as [x [Hin Hx]]. apply Nat.eqb_eq in Hx. subst. assumption.
Qed.

Lemma NoDup_snoc {A} (l : list A) x : NoDup l -> ~ In x l -> NoDup (l ++ [x]).
Proof.
  intros. apply NoDup_rev in H. rewrite <- (rev_involutive (l ++ [x])). apply NoDup_rev. rewrite rev_app_distr. cbn.
  constructor; [|assumption]. rewrite <- in_rev. assumption.
Qed.

Lemma NoDup_app_l {A} (l1 l2 : list A) : NoDup (l1 ++ l2) -> NoDup l1.
Proof.
  induction l2 as [|x r IH] using rev_ind; intros H; [rewrite app_nil_r in H; assumption|].
  apply IH. rewrite app_assoc in H. apply NoDup_rev in H. rewrite rev_app_distr in H. cbn in H.
  inversion H. subst. rewrite <- (rev_involutive (l1 ++ r)). apply NoDup_rev. assumption.
Qed.

Lemma remove_one_incl j l : incl (remove_one j l) l.
Proof.
  induction l as [|x r IH]; cbn; [apply incl_refl|].
  destruct (Nat.eqb x j); [apply incl_tl, incl_refl|]. intros y [Hy|Hy]; [left; assumption|right; apply IH; assumption].
Qed.

Lemma count_nodup {A} (dec : forall a b : A, {a = b} + {a <> b}) l j : NoDup l -> count_occ dec l j <= 1.
Proof. intros H. apply (proj1 (NoDup_count_occ dec l) H). Qed.

Lemma count_nodup_in {A} (dec : forall a b : A, {a = b} + {a <> b}) l j : NoDup l -> In j l -> count_occ dec l j = 1.
Proof. intros H Hin. apply (proj1 (NoDup_count_occ' dec l) H). assumption. Qed.

Lemma count_app_nodup {A} (dec : forall a b : A, {a = b} + {a <> b}) l1 l2 j :
  NoDup (l1 ++ l2) -> count_occ dec l1 j + count_occ dec l2 j <= 1.
Proof. intros H. rewrite <- count_occ_app. apply count_nodup. assumption. Qed.

(* ------------------------------------------------------------------------------------ Inline and Manual *)

Definition sinv (s : sst) : Prop :=
  NoDup (s_all s) /\ incl (s_running s) (s_called s) /\
  match s_kind s with
  | KInline false => s_called s = s_all s /\ s_queue s = [] /\ s_dropped s = []
  | KInline true => s_dropped s = s_all s /\ s_queue s = [] /\ s_called s = [] /\ s_running s = []
  | KManual => s_called s ++ s_queue s = s_all s /\ s_dropped s = []
  end.

Lemma sinv_init k : sinv (sinit k).
Proof.
  unfold sinv, sinit; cbn. split; [constructor|]. split; [apply incl_refl|]. destruct k as [[|]|]; repeat split.
Qed.

Lemma sinv_step s e s' : sinv s -> sstep s e = Some s' -> sinv s'.
Proof.
  intros [Hn [Hr Hk]] H. destruct e as [j| |j]; cbn in H.
  - destruct (memn j (s_all s)) eqn:Hm; [discriminate|]. apply memn_false in Hm.
    destruct (s_kind s) as [[|]|] eqn:Ek; inversion H; subst; unfold sinv; cbn; try rewrite Ek.
    + destruct Hk as [Hd [Hq [Hc Hrun]]]. split; [apply NoDup_snoc; assumption|]. split; [assumption|].
      rewrite Hd. repeat split; assumption.
    + destruct Hk as [Hc [Hq Hd]]. split; [apply NoDup_snoc; assumption|]. split.
      * intros x [Hx|Hx]; [subst; apply in_or_app; right; left; reflexivity|apply in_or_app; left; apply Hr; assumption].
      * rewrite Hc. repeat split; assumption.
    + destruct Hk as [Hc Hd]. split; [apply NoDup_snoc; assumption|]. split; [assumption|].
      rewrite app_assoc, Hc. split; [reflexivity|assumption].
  - destruct (s_kind s) as [[|]|] eqn:Ek; try discriminate. destruct (s_queue s) as [|j q] eqn:Eq; [discriminate|].
    inversion H; subst; unfold sinv; cbn; try rewrite Ek. destruct Hk as [Hc Hd]. split; [assumption|]. split.
    + intros x [Hx|Hx]; [subst; apply in_or_app; right; left; reflexivity|apply in_or_app; left; apply Hr; assumption].
    + rewrite <- app_assoc. cbn. split; assumption.
  - destruct (memn j (s_running s)) eqn:Hm; [|discriminate]. inversion H; subst; unfold sinv; cbn.
    split; [assumption|]. split.
    + eapply incl_tran; [apply remove_one_incl|assumption].
    + destruct (s_kind s) as [[|]|]; try assumption.
      destruct Hk as [Hd [Hq [Hc Hrun]]]. rewrite Hrun in Hm. discriminate.
Qed.

Lemma sinv_run tr : forall s s', sinv s -> srun s tr = Some s' -> sinv s'.
Proof.
  induction tr as [|e r IH]; intros s s' Hi H; cbn in H.
  - inversion H. subst. assumption.
  - destruct (sstep s e) as [s1|] eqn:Hs; [|discriminate]. eapply IH; [|exact H]. eapply sinv_step; eassumption.
Qed.

Lemma srun_kind tr : forall s s', srun s tr = Some s' -> s_kind s' = s_kind s.
Proof.
  induction tr as [|e r IH]; intros s s' H; cbn in H.
  - inversion H. reflexivity.
  - destruct (sstep s e) as [s1|] eqn:Hs; [|discriminate]. rewrite (IH _ _ H).
    destruct e as [j| |j]; cbn in Hs.
    + destruct (memn j (s_all s)); [discriminate|]. destruct (s_kind s) as [[|]|]; inversion Hs; reflexivity.
    + destruct (s_kind s) as [[|]|]; try discriminate. destruct (s_queue s); [discriminate|]. inversion Hs. reflexivity.
    + destruct (memn j (s_running s)); [|discriminate]. inversion Hs. reflexivity.
Qed.

(* Inline (alive or stopped) and Manual keep the executor contract in every run; "refusing" is Alive() = false *)
Theorem simple_contract : forall k tr s, srun (sinit k) tr = Some s ->
  exec_contract Nat.eq_dec (s_all s) (s_called s) (s_dropped s) (kalive k = false) (squiescent s).
Proof.
  intros k tr s H. pose proof (sinv_run _ _ _ (sinv_init k) H) as [Hn [Hr Hk]].
  pose proof (srun_kind _ _ _ H) as Ek. cbn in Ek. rewrite Ek in Hk. unfold exec_contract, squiescent.
  destruct k as [[|]|].
  - destruct Hk as [Hd [Hq [Hc Hrun]]]. rewrite Hc, Hd. cbn [count_occ In]. repeat split.
    + intros j. apply count_nodup. assumption.
    + intros j [[]|Hj]. assumption.
    + intros _ j Hj. apply count_nodup_in; assumption.
  - destruct Hk as [Hc [Hq Hd]]. rewrite Hc, Hd. cbn [count_occ In]. repeat split.
    + intros j. rewrite Nat.add_0_r. apply count_nodup. assumption.
    + intros j [Hj|[]]. assumption.
    + intros Hx. contradiction Hx. reflexivity.
    + intros _ j Hj. rewrite Nat.add_0_r. apply count_nodup_in; assumption.
  - destruct Hk as [Hc Hd]. rewrite Hd. cbn [count_occ In]. rewrite <- Hc in Hn. repeat split.
    + intros j. rewrite Nat.add_0_r. apply count_nodup. eapply NoDup_app_l. exact Hn.
    + intros j [Hj|[]]. rewrite <- Hc. apply in_or_app. left. assumption.
    + intros Hx. contradiction Hx. reflexivity.
    + intros [Hq _] j Hj. rewrite Hq, app_nil_r in Hc, Hn. rewrite Nat.add_0_r. apply count_nodup_in; [assumption|].
      rewrite Hc. assumption.
Qed.

(* the executors' own characteristics: Inline runs the job inside Submit, a stopped Inline drops everything, Manual calls in
   submission order exactly what has been popped by Drain *)
Theorem simple_shapes : forall k tr s, srun (sinit k) tr = Some s ->
  match k with
  | KInline false => s_called s = s_all s /\ s_dropped s = []
  | KInline true => s_dropped s = s_all s /\ s_called s = []
  | KManual => s_called s ++ s_queue s = s_all s /\ s_dropped s = []
  end.
Proof.
  intros k tr s H. pose proof (sinv_run _ _ _ (sinv_init k) H) as [Hn [Hr Hk]].
  pose proof (srun_kind _ _ _ H) as Ek. cbn in Ek. rewrite Ek in Hk.
  destruct k as [[|]|]; tauto.
Qed.

(* ------------------------------------------------------------------------------------ Strand (C07) *)

Definition sjob_dec : forall a b : Strand.job, {a = b} + {a <> b}.
Proof. unfold Strand.job. decide equality; apply Nat.eq_dec. Defined.

(* "refusing" for a strand: its underlying executor refused an activation (started it by Drop) — the strand has no Stop
   of its own (src/exe/strand.cpp) *)
Theorem strand_contract : forall n tr s, Strand.run (Strand.init n) tr = Some s ->
  exec_contract sjob_dec (Strand.pushed s) (Strand.called s) (Strand.dropped s)
                (Strand.refused s > 0) (Strand.quiescent s = true).
Proof.
  intros n tr s H. pose proof (StrandProofs.inv_reach n tr s H) as Hi.
  destruct (StrandProofs.at_most_once s Hi) as [Hnd [Hincl _]].
  unfold exec_contract. repeat split.
  - intros j. apply count_app_nodup. assumption.
  - intros j Hj. apply Hincl. apply in_or_app. assumption.
  - intros Hd. destruct (Strand.refused s) eqn:Er; [|lia].
    destruct (StrandProofs.drop_only_if_refused s Hi Er) as [Hd' _]. contradiction.
  - intros Hq j Hj. destruct (StrandProofs.none_lost_idle s Hi Hq) as [Hp [Hnd' _]].
    rewrite <- count_occ_app. apply count_nodup_in; [assumption|]. eapply Permutation_in; eassumption.
Qed.

(* ------------------------------------------------------------------------------------ FairThreadPool (C08) *)

Lemma pool_drops_only_stopped : forall s, PoolProofs.Inv s -> Pool.drops s <> [] -> Pool.stopped s = true.
Proof.
  intros s Hi Hd. unfold Pool.drops in Hd.
  destruct (Pool.hdrops s) as [|h hs] eqn:Eh.
  - cbn in Hd. apply (PoolProofs.i_rejstop _ _ Hi). intros Hr.
    pose proof (PoolProofs.i_rej _ _ Hi) as Hp. rewrite Hr in Hp. apply Permutation_nil in Hp.
    apply app_eq_nil in Hp. destruct Hp as [Hp _]. contradiction.
  - assert (Hk : Pool.kind s = Pool.KHard /\ Pool.tpc s <> Pool.TIdle).
    { destruct (Pool.kind s) eqn:Ek; [| |destruct (Pool.tpc s) eqn:Et]; try (split; [reflexivity|discriminate]);
        exfalso.
      - destruct (PoolProofs.i_k_hard _ _ Hi) as [_ Hh]; [left; rewrite Ek; discriminate|]. rewrite Eh in Hh. discriminate.
      - destruct (PoolProofs.i_k_hard _ _ Hi) as [_ Hh]; [left; rewrite Ek; discriminate|]. rewrite Eh in Hh. discriminate.
      - destruct (PoolProofs.i_k_hard _ _ Hi) as [_ Hh]; [right; assumption|]. rewrite Eh in Hh. discriminate. }
    destruct Hk as [Hk Ht]. apply (PoolProofs.i_k_stop _ _ Hi Ht). rewrite Hk. discriminate.
Qed.

(* "refusing" for the pool: the stopped bit of _jobs_count is set (Stop / SoftStop / HardStop took effect); a pool with
   n > 0 workers; "nothing in flight" includes HardStop's drop loop being over *)
Theorem pool_contract : forall n k tr s, Pool.run (Pool.init n k) tr = Some s -> n > 0 ->
  exec_contract Nat.eq_dec (Pool.accepted s ++ Pool.rejected s) (Pool.calls s) (Pool.drops s)
                (Pool.stopped s = true) (Pool.quiescent s /\ Pool.stolen s = []).
Proof.
  intros n k tr s H Hn. pose proof (PoolProofs.inv_reach n k tr s H) as Hi.
  destruct (PoolProofs.r_call_xor_drop n k tr s H) as [[H1 [H2 [H3 H4]]] H5].
  unfold exec_contract. repeat split.
  - exact H1.
  - intros j [Hj|Hj].
    + apply in_or_app. left. apply (H2 j Hj).
    + unfold Pool.drops in Hj. apply in_app_or in Hj. destruct Hj as [Hj|Hj].
      * apply in_or_app. left. apply (H4 j Hj).
      * apply in_or_app. right. apply (H3 j Hj).
  - apply pool_drops_only_stopped. assumption.
  - intros [Hq Hs] j Hj. apply (H5 Hq Hs Hn j Hj).
Qed.
