(* PoolProofs.v -- invariant of the Pool transition system and the facts the C08 theorems are made of.
   Everything holds for every event sequence: any number of workers, submitters and jobs, every schedule,
   spurious wake-ups included. *)
From Coq Require Import List Arith Bool Lia Permutation.
Import ListNotations.
From YV Require Import gen.Gen_pool_consts lib.PoolBits model.Pool.

(* ---- lists of worker states ------------------------------------------------------------------------------ *)

Fixpoint taken_jobs (l : list wpc) : list job :=
  match l with
  | [] => []
  | WTaken j :: r => j :: taken_jobs r
  | _ :: r => taken_jobs r
  end.

Definition tj (p : wpc) : list job := match p with WTaken j => [j] | _ => [] end.

Lemma taken_jobs_cons p l : taken_jobs (p :: l) = tj p ++ taken_jobs l.
Proof. destruct p; reflexivity. Qed.

Lemma cntp_upd f l : forall w a b, nth_error l w = Some a ->
  cntp f (upd w b l) + b2n (f a) = cntp f l + b2n (f b).
Proof.
  induction l as [|p l IH]; intros [|w] a b H; simpl in *; try discriminate.
  - inversion H; subst. destruct (f a), (f b); simpl; lia.
  - specialize (IH _ _ b H). lia.
Qed.

Lemma cntp_nth f l : forall w a, nth_error l w = Some a -> b2n (f a) <= cntp f l.
Proof.
  induction l as [|p l IH]; intros [|w] a H; simpl in *; try discriminate.
  - inversion H; subst. destruct (f a); simpl; lia.
  - specialize (IH _ _ H). lia.
Qed.

Lemma upd_upd {A} (l : list A) : forall w x y, upd w x (upd w y l) = upd w x l.
Proof. induction l as [|p l IH]; intros [|w] x y; simpl; auto. rewrite IH. reflexivity. Qed.

Lemma nth_upd {A} (l : list A) : forall w a x, nth_error l w = Some a -> nth_error (upd w x l) w = Some x.
Proof. induction l as [|p l IH]; intros [|w] a x H; simpl in *; try discriminate; eauto. Qed.

Lemma NoDup_app_one {A} (l : list A) x : NoDup l -> ~ In x l -> NoDup (l ++ [x]).
Proof.
  intros N H. apply (Permutation_NoDup (l := x :: l)); [apply Permutation_cons_append|constructor; auto].
Qed.

Lemma upd_length {A} (l : list A) : forall w x, length (upd w x l) = length l.
Proof. induction l; intros [|w] x; simpl; auto. Qed.

Lemma taken_upd l : forall w a b, nth_error l w = Some a ->
  Permutation (tj a ++ taken_jobs (upd w b l)) (tj b ++ taken_jobs l).
Proof.
  induction l as [|p l IH]; intros [|w] a b H; try discriminate H.
  - simpl in H. inversion H; subst. change (upd 0 b (a :: l)) with (b :: l).
    rewrite !taken_jobs_cons. apply Permutation_app_swap_app.
  - simpl in H. specialize (IH _ _ b H). change (upd (S w) b (p :: l)) with (p :: upd w b l).
    rewrite !taken_jobs_cons.
    rewrite (Permutation_app_swap_app (tj a) (tj p)), (Permutation_app_swap_app (tj b) (tj p)).
    apply Permutation_app_head. exact IH.
Qed.

Lemma single_upd {A} (l : list A) w a b : length l = 1 -> nth_error l w = Some a -> l = [a] /\ upd w b l = [b].
Proof.
  destruct l as [|p [|q l]]; simpl; try discriminate. intros _.
  destruct w as [|w]; simpl; [intros H; inversion H; auto|]. destruct w; discriminate.
Qed.

Lemma cntp_map_wake_waiting l : cntp is_waiting (map wake l) = 0.
Proof. induction l as [|p l IH]; simpl; auto. destruct p; simpl; auto. Qed.
Lemma cntp_map_wake_active l : cntp is_active (map wake l) = cntp is_active l + cntp is_waiting l.
Proof. induction l as [|p l IH]; simpl; auto. destruct p; simpl; lia. Qed.
Lemma cntp_map_wake_notify l : cntp is_notify (map wake l) = cntp is_notify l.
Proof. induction l as [|p l IH]; simpl; auto. destruct p; simpl; lia. Qed.
Lemma cntp_map_wake_exited l : cntp is_exited (map wake l) = cntp is_exited l.
Proof. induction l as [|p l IH]; simpl; auto. destruct p; simpl; lia. Qed.
Lemma cntp_map_wake_busy l : cntp is_busy (map wake l) = cntp is_busy l.
Proof. induction l as [|p l IH]; simpl; auto. destruct p; simpl; lia. Qed.
Lemma taken_map_wake l : taken_jobs (map wake l) = taken_jobs l.
Proof. induction l as [|p l IH]; simpl; auto. destruct p; simpl; congruence. Qed.

(* every worker is in exactly one class *)
Lemma cntp_total l :
  cntp is_active l + cntp is_waiting l + cntp is_notify l + cntp is_exited l = length l.
Proof. induction l as [|p l IH]; simpl; auto. destruct p; simpl; lia. Qed.

Lemma busy_le_active l : cntp is_busy l <= cntp is_active l.
Proof. induction l as [|p l IH]; simpl; auto. destruct p; simpl; lia. Qed.

Lemma busy_taken l : cntp is_busy l = 0 -> taken_jobs l = [].
Proof. induction l as [|p l IH]; simpl; auto. destruct p; simpl; auto; intros; discriminate. Qed.

Lemma cntp_repeat_locked f n : cntp f (repeat WLocked n) = n * b2n (f WLocked).
Proof. induction n; simpl; auto. Qed.
Lemma taken_repeat_locked n : taken_jobs (repeat WLocked n) = [].
Proof. induction n; simpl; auto. Qed.

Lemma mem_false j l : mem j l = false -> ~ In j l.
Proof.
  unfold mem. intros H Hin. assert (existsb (Nat.eqb j) l = true); [|congruence].
  apply existsb_exists. exists j. split; auto. apply Nat.eqb_refl.
Qed.
Lemma mem_true j l : mem j l = true -> In j l.
Proof.
  unfold mem. intros H. apply existsb_exists in H. destruct H as [x [Hin Hx]]. apply Nat.eqb_eq in Hx. subst; auto.
Qed.

Lemma remove1_perm j l : In j l -> Permutation l (j :: remove1 j l).
Proof.
  induction l as [|x l IH]; simpl; [tauto|]. intros H.
  destruct (Nat.eqb x j) eqn:E.
  - apply Nat.eqb_eq in E. subst. reflexivity.
  - destruct H as [H|H]; [subst; rewrite Nat.eqb_refl in E; discriminate|].
    rewrite perm_swap. apply perm_skip. auto.
Qed.

(* ---- the invariant ----------------------------------------------------------------------------------------- *)

Record InvG (strict : bool) (s : st) : Prop := {
  (* the word encodes the abstract fields: bits 2.. = cnt, bit 1 = want, bit 0 = stopped *)
  i_enc : jc s = word (cnt s) (want s) (stopped s);
  i_bad : bad s = false;
  (* the counter counts the jobs queued, held by a worker, or stolen by HardStop (which does not decrement) *)
  i_cnt : cnt s = length (queue s) + cntp is_busy (workers s) + length (hdrops s) + length (stolen s);
  (* jobs leave the queue in the order they were accepted *)
  i_fifo : accepted s = takes s ++ queue s ++ hdrops s ++ stolen s;
  i_takes : Permutation (takes s) (calls s ++ taken_jobs (workers s));
  i_takes1 : length (workers s) = 1 -> takes s = calls s ++ taken_jobs (workers s);
  i_rej : Permutation (rejected s) (rdrops s ++ pdrop s);
  i_nodup : NoDup (accepted s ++ rejected s);
  (* no missed notify_all: once stopped, a sleeping worker has a notify_all coming *)
  i_s1 : stopped s = true -> tpc s = TNotify \/ cntp is_notify (workers s) > 0 \/ cntp is_waiting (workers s) = 0;
  (* a worker leaves only a stopped pool with an empty queue *)
  i_s2 : cntp is_exited (workers s) + cntp is_notify (workers s) > 0 -> stopped s = true /\ queue s = [];
  (* a pending SoftStop means there is still a job to finish *)
  i_s3 : want s = true -> kind s = KSoft /\ tpc s <> TIdle /\ (strict = true -> stopped s = false -> cnt s > 0);
  (* no missed notify_one: a queued job and a sleeping worker mean somebody is awake or a notify is coming *)
  i_s4 : queue s <> [] -> cntp is_waiting (workers s) > 0 -> cntp is_active (workers s) + pnotify s > 0;
  i_k_idle : tpc s = TIdle -> stopped s = false /\ want s = false;
  i_k_hard : kind s <> KHard \/ tpc s = TIdle -> stolen s = [] /\ hdrops s = [];
  i_k_stop : tpc s <> TIdle -> kind s <> KSoft -> stopped s = true;
  i_k_soft : tpc s <> TIdle -> kind s = KSoft -> stopped s = true \/ want s = true;
  i_k_ntf : tpc s = TNotify -> stopped s = true;
  i_acc : tpc s <> TIdle -> exists later, accepted s = acc_at_stop s ++ later /\ (kind s <> KSoft -> later = []);
  i_rejstop : rejected s <> [] -> stopped s = true;
  i_stolen : tpc s <> TIdle -> kind s = KHard -> stolen_all s = hdrops s ++ stolen s;
  i_sets : kind s = KSoft -> Forall (fun p => p = (0, 0)) (stop_sets s)
}.

(* [InvG false] is the state of affairs inside a worker's critical section, between the decrement :79 and the test :81 *)
Definition Inv := InvG true.

Lemma inv_init n k : Inv (init n k).
Proof.
  constructor; simpl; rewrite ?cntp_repeat_locked, ?taken_repeat_locked; simpl;
    try solve [auto | lia | intros; discriminate | intros; congruence | constructor].
  all: try solve [intros H; exfalso; lia].
Qed.

(* ---- the word against the abstract fields ------------------------------------------------------------------ *)

Lemma enc_was_stop s : jc s = word (cnt s) (want s) (stopped s) -> was_stop s = stopped s.
Proof. unfold was_stop, kStopTest. intros ->. rewrite land_1. destruct (stopped s); reflexivity. Qed.
Lemma enc_want_stop s : jc s = word (cnt s) (want s) (stopped s) -> want_stop s = want s.
Proof. unfold want_stop, kWantTest. intros ->. rewrite land_2. destruct (want s); reflexivity. Qed.
Lemma enc_no_jobs s : jc s = word (cnt s) (want s) (stopped s) -> no_jobs s = (cnt s =? 0).
Proof. unfold no_jobs, kShift. intros ->. rewrite shiftr_2. reflexivity. Qed.
Lemma enc_lor_stop s : jc s = word (cnt s) (want s) (stopped s) ->
  Nat.lor (jc s) kStopBit = word (cnt s) (want s) true.
Proof. unfold kStopBit. intros ->. apply lor_1. Qed.
Lemma enc_lor_want s : jc s = word (cnt s) (want s) (stopped s) ->
  Nat.lor (jc s) kWantBit = word (cnt s) true (stopped s).
Proof. unfold kWantBit. intros ->. apply lor_2. Qed.
Lemma enc_inc s : jc s = word (cnt s) (want s) (stopped s) ->
  jc s + kJobInc = word (S (cnt s)) (want s) (stopped s).
Proof. unfold kJobInc, word. intros ->. lia. Qed.
Lemma enc_dec s : jc s = word (cnt s) (want s) (stopped s) -> cnt s > 0 ->
  (jc s <? kJobDec) = false /\ jc s - kJobDec = word (cnt s - 1) (want s) (stopped s).
Proof.
  unfold kJobDec, word. intros -> H. split; [apply Nat.ltb_ge|]; lia.
Qed.
Lemma enc_shiftr s : jc s = word (cnt s) (want s) (stopped s) -> Nat.shiftr (jc s) kShift = cnt s.
Proof. unfold kShift. intros ->. apply shiftr_2. Qed.

(* the encoding lemma of the design: the three predicates of the source, evaluated on the word, are the abstract
   fields *)
Lemma encoding s : Inv s ->
  jc s = 4 * cnt s + 2 * b2n (want s) + b2n (stopped s) /\
  was_stop s = stopped s /\ want_stop s = want s /\ no_jobs s = (cnt s =? 0).
Proof.
  intros I. pose proof (i_enc _ s I) as E. split; [exact E|].
  split; [apply enc_was_stop|split; [apply enc_want_stop|apply enc_no_jobs]]; exact E.
Qed.

(* ---- preservation -------------------------------------------------------------------------------------------- *)

Local Arguments Nat.shiftr : simpl never.
Local Arguments Nat.lor : simpl never.
Local Arguments Nat.land : simpl never.

Ltac wk H b :=
  pose proof (cntp_upd is_waiting _ _ _ b H) as HcW;
  pose proof (cntp_upd is_notify _ _ _ b H) as HcN;
  pose proof (cntp_upd is_exited _ _ _ b H) as HcE;
  pose proof (cntp_upd is_busy _ _ _ b H) as HcB;
  pose proof (cntp_upd is_active _ _ _ b H) as HcA;
  pose proof (taken_upd _ _ _ b H) as HcT;
  pose proof (fun L => single_upd _ _ _ b L H) as HcS;
  pose proof (cntp_nth is_waiting _ _ _ H) as HgW;
  pose proof (cntp_nth is_notify _ _ _ H) as HgN;
  pose proof (cntp_nth is_busy _ _ _ H) as HgB;
  pose proof (cntp_nth is_active _ _ _ H) as HgA;
  simpl b2n in *; simpl tj in *; simpl app in *.

Ltac dI I :=
  destruct I as [Ienc Ibad Icnt Ififo Itakes Itakes1 Irej Inodup Is1 Is2 Is3 Is4 Ikidle Ikhard Ikstop Iksoft Ikntf
                 Iacc Irejstop Istolen Isets].

Ltac single_case :=
  match goal with
  | HS : length ?l = 1 -> ?l = _ /\ _ = _ |- length _ = 1 -> _ =>
      let L := fresh "L" in intros L; rewrite ?map_length, ?upd_length in L;
      destruct (HS L) as [HS1 HS2]; rewrite HS2; rewrite HS1 in *; simpl in *
  end.

Ltac or3 X :=
  let D := fresh "D" in
  destruct X as [D|[D|D]]; [left; solve [assumption | lia | congruence]
                           | right; left; solve [assumption | lia]
                           | right; right; solve [assumption | lia]].

Lemma inv_spurious s w : Inv s -> nth_error (workers s) w = Some WWaiting ->
  Inv (set_workers (upd w WLocked (workers s)) s).
Proof.
  intros I H. dI I. wk H WLocked.
  constructor; simpl; try assumption.
  - lia.
  - rewrite HcT. exact Itakes.
  - single_case. auto.
  - intros Hs. or3 (Is1 Hs).
  - intros Hs. apply Is2. lia.
  - intros. lia.
Qed.

Lemma inv_notify_some s w p : Inv s -> pnotify s = S p -> nth_error (workers s) w = Some WWaiting ->
  Inv (set_pnotify p (set_workers (upd w WLocked (workers s)) s)).
Proof.
  intros I Hp H. dI I. wk H WLocked.
  constructor; simpl; try assumption.
  - lia.
  - rewrite HcT. exact Itakes.
  - single_case. auto.
  - intros Hs. or3 (Is1 Hs).
  - intros Hs. apply Is2. lia.
  - intros. lia.
Qed.

Lemma inv_notify_none s p : Inv s -> pnotify s = S p -> cntp is_waiting (workers s) = 0 ->
  Inv (set_pnotify p s).
Proof.
  intros I Hp H. dI I.
  constructor; simpl; try assumption.
  intros. lia.
Qed.

Lemma inv_drop_rej s j : Inv s -> In j (pdrop s) ->
  Inv (set_rdrops (rdrops s ++ [j]) (set_pdrop (remove1 j (pdrop s)) s)).
Proof.
  intros I H. dI I.
  constructor; simpl; try assumption.
  rewrite Irej. rewrite <- app_assoc. apply Permutation_app_head.
  rewrite (remove1_perm _ _ H) at 1. reflexivity.
Qed.

Lemma inv_call s w j : Inv s -> nth_error (workers s) w = Some (WTaken j) ->
  Inv (set_calls (calls s ++ [j]) (set_workers (upd w (WRunning j) (workers s)) s)).
Proof.
  intros I H. dI I. wk H (WRunning j).
  constructor; simpl; try assumption.
  - lia.
  - rewrite Itakes. rewrite <- app_assoc. apply Permutation_app_head. simpl. symmetry. exact HcT.
  - single_case. rewrite app_nil_r. auto.
  - intros Hs. or3 (Is1 Hs).
  - intros Hs. apply Is2. lia.
  - intros. lia.
Qed.

Lemma inv_notify_all_w s w : Inv s -> nth_error (workers s) w = Some WNotify ->
  Inv (set_workers (map wake (upd w WExited (workers s))) s).
Proof.
  intros I H. dI I. wk H WExited.
  constructor; simpl;
    rewrite ?cntp_map_wake_waiting, ?cntp_map_wake_active, ?cntp_map_wake_notify, ?cntp_map_wake_exited,
            ?cntp_map_wake_busy, ?taken_map_wake; try assumption.
  - lia.
  - rewrite HcT. exact Itakes.
  - rewrite map_length. single_case. auto.
  - intros Hs. right; right; reflexivity.
  - intros Hs. apply Is2. lia.
  - intros. lia.
Qed.

Lemma inv_notify_all_t s : Inv s -> tpc s = TNotify ->
  Inv (set_tpc TDone (set_workers (map wake (workers s)) s)).
Proof.
  intros I E. dI I. rewrite E in *.
  constructor; simpl;
    rewrite ?cntp_map_wake_waiting, ?cntp_map_wake_active, ?cntp_map_wake_notify, ?cntp_map_wake_exited,
            ?cntp_map_wake_busy, ?taken_map_wake; try assumption.
  - rewrite map_length. exact Itakes1.
  - intros Hs. right; right; reflexivity.
  - intros HW. destruct (Is3 HW) as [? [? ?]]. repeat split; auto. discriminate.
  - intros. lia.
  - discriminate.
  - intros [D|D]; [apply Ikhard; left; exact D|discriminate].
  - intros _. apply Ikstop. discriminate.
  - intros _. apply Iksoft. discriminate.
  - discriminate.
  - intros _. apply Iacc. discriminate.
  - intros _. apply Istolen. discriminate.
Qed.

Lemma inv_drop_stolen s j r : Inv s -> tpc s = TDone -> stolen s = j :: r ->
  Inv (set_hdrops (hdrops s ++ [j]) (set_stolen r s)).
Proof.
  intros I E Hs. dI I. rewrite E, Hs in *.
  assert (Hk : kind s = KHard).
  { destruct (kind s) eqn:K; auto; destruct Ikhard as [D _]; try discriminate; left; discriminate. }
  constructor; simpl; rewrite ?E, ?Hs; try assumption.
  - rewrite app_length. simpl in *. lia.
  - rewrite <- app_assoc. exact Ififo.
  - intros [D|D]; [congruence|discriminate].
  - intros _ _. rewrite <- app_assoc. apply Istolen; [discriminate|exact Hk].
Qed.

Lemma inv_wait s : Inv s -> tpc s = TDone -> Inv (set_tpc TWaited s).
Proof.
  intros I E. dI I. rewrite E in *.
  constructor; simpl; try assumption.
  - intros Hs. or3 (Is1 Hs).
  - intros HW. destruct (Is3 HW) as [? [? ?]]. repeat split; auto. discriminate.
  - discriminate.
  - intros [D|D]; [apply Ikhard; left; exact D|discriminate].
  - intros _. apply Ikstop. discriminate.
  - intros _. apply Iksoft. discriminate.
  - discriminate.
  - intros _. apply Iacc. discriminate.
  - intros _. apply Istolen. discriminate.
Qed.

Lemma inv_submit_rej s j : Inv s -> ~ In j (accepted s ++ rejected s) -> stopped s = true ->
  Inv (set_rejected (rejected s ++ [j]) (set_pdrop (pdrop s ++ [j]) s)).
Proof.
  intros I Hn Hst. dI I.
  constructor; simpl; try assumption.
  - rewrite app_assoc. apply Permutation_app_tail. exact Irej.
  - rewrite app_assoc. apply NoDup_app_one; assumption.
  - intros _. exact Hst.
Qed.

Lemma inv_submit_acc s j : Inv s -> ~ In j (accepted s ++ rejected s) -> stopped s = false ->
  Inv (set_accepted (accepted s ++ [j]) (set_pnotify (S (pnotify s))
        (set_cnt (S (cnt s)) (set_jc (jc s + kJobInc) (set_queue (queue s ++ [j]) s))))).
Proof.
  intros I Hn Hst. dI I.
  assert (Hidle : kind s <> KSoft -> tpc s = TIdle).
  { intros K. destruct (tpc s) eqn:T; auto; rewrite Ikstop in Hst; try discriminate; auto. }
  assert (Hhs : stolen s = [] /\ hdrops s = []).
  { apply Ikhard. destruct (kind s) eqn:K; try (left; discriminate). right. apply Hidle. discriminate. }
  destruct Hhs as [Hs0 Hh0].
  constructor; simpl; try assumption.
  - apply enc_inc. exact Ienc.
  - rewrite app_length. simpl. lia.
  - rewrite Ififo, Hs0, Hh0, !app_nil_r, app_assoc. reflexivity.
  - apply (Permutation_NoDup (l := (accepted s ++ rejected s) ++ [j])).
    + rewrite <- !app_assoc. apply Permutation_app_head. apply Permutation_app_comm.
    + apply NoDup_app_one; assumption.
  - intros Hx. destruct (Is2 Hx) as [D _]. congruence.
  - intros HW. destruct (Is3 HW) as [? [? ?]]. repeat split; auto. intros. lia.
  - intros. lia.
  - intros T. destruct (Iacc T) as [later [E1 E2]]. exists (later ++ [j]). split.
    + rewrite E1, app_assoc. reflexivity.
    + intros K. rewrite (Hidle K) in T. congruence.
Qed.

Lemma Forall_app_one {A} (P : A -> Prop) l x : Forall P l -> P x -> Forall P (l ++ [x]).
Proof. intros. apply Forall_app. split; auto. Qed.

Lemma inv_stop_stop s : Inv s -> tpc s = TIdle -> kind s = KStop ->
  Inv (set_tpc TNotify (mark_stop (set_acc_at_stop (accepted s) s))).
Proof.
  intros I E K. dI I. destruct (Ikidle E) as [Hst Hw]. destruct Ikhard as [Hs0 Hh0]; [right; exact E|].
  constructor; simpl; rewrite ?K; try assumption.
  - rewrite enc_lor_stop by exact Ienc. reflexivity.
  - intros _. left. reflexivity.
  - intros Hx. destruct (Is2 Hx). congruence.
  - intros HW. congruence.
  - discriminate.
  - intros _. auto.
  - reflexivity.
  - intros _ D. discriminate.
  - reflexivity.
  - intros _. exists []. rewrite app_nil_r. auto.
  - reflexivity.
  - intros _ D. discriminate.
  - discriminate.
Qed.

Lemma inv_stop_soft_now s : Inv s -> tpc s = TIdle -> kind s = KSoft -> cnt s = 0 ->
  Inv (set_tpc TNotify (mark_stop (set_acc_at_stop (accepted s) s))).
Proof.
  intros I E K C0. dI I. destruct (Ikidle E) as [Hst Hw]. destruct Ikhard as [Hs0 Hh0]; [right; exact E|].
  constructor; simpl; rewrite ?K; try assumption.
  - rewrite enc_lor_stop by exact Ienc. reflexivity.
  - intros _. left. reflexivity.
  - intros Hx. destruct (Is2 Hx). congruence.
  - intros HW. congruence.
  - discriminate.
  - intros _. auto.
  - reflexivity.
  - intros _ _. left. reflexivity.
  - reflexivity.
  - intros _. exists []. rewrite app_nil_r. split; auto.
  - reflexivity.
  - intros _ D. discriminate.
  - intros _. apply Forall_app_one; [apply Isets; exact K|].
    rewrite enc_shiftr by exact Ienc. f_equal; lia.
Qed.

Lemma inv_stop_soft_later s : Inv s -> tpc s = TIdle -> kind s = KSoft -> cnt s <> 0 ->
  Inv (set_tpc TDone (set_want true (set_jc (Nat.lor (jc s) kWantBit) (set_acc_at_stop (accepted s) s)))).
Proof.
  intros I E K C0. dI I. destruct (Ikidle E) as [Hst Hw]. destruct Ikhard as [Hs0 Hh0]; [right; exact E|].
  constructor; simpl; rewrite ?K; try assumption.
  - rewrite enc_lor_want by exact Ienc. reflexivity.
  - intros D. congruence.
  - intros _. repeat split; auto; try discriminate. intros. lia.
  - discriminate.
  - intros _. auto.
  - intros _ D. congruence.
  - intros _ _. right. reflexivity.
  - discriminate.
  - intros _. exists []. rewrite app_nil_r. split; auto.
  - intros _ D. discriminate.
  - intros _. apply Isets. exact K.
Qed.

Lemma inv_stop_hard s : Inv s -> tpc s = TIdle -> kind s = KHard ->
  Inv (set_tpc TNotify (set_stolen_all (queue s) (set_stolen (queue s) (set_queue []
        (mark_stop (set_acc_at_stop (accepted s) s)))))).
Proof.
  intros I E K. dI I. destruct (Ikidle E) as [Hst Hw]. destruct Ikhard as [Hs0 Hh0]; [right; exact E|].
  constructor; simpl; rewrite ?K, ?Hh0; try assumption.
  - rewrite enc_lor_stop by exact Ienc. reflexivity.
  - rewrite Icnt, Hs0, Hh0. simpl. lia.
  - rewrite Ififo, Hs0, Hh0, !app_nil_r. reflexivity.
  - intros _. left. reflexivity.
  - intros Hx. auto.
  - intros HW. congruence.
  - intros D. congruence.
  - discriminate.
  - intros [D|D]; [congruence|discriminate].
  - reflexivity.
  - intros _ D. discriminate.
  - reflexivity.
  - intros _. exists []. rewrite app_nil_r. auto.
  - reflexivity.
  - reflexivity.
  - discriminate.
Qed.

(* :78-79 -- the worker re-takes the lock after a Call and decrements; it is then at the loop head *)
Lemma inv_dec s w j : Inv s -> nth_error (workers s) w = Some (WRunning j) ->
  dec_job s = set_cnt (cnt s - 1) (set_jc (jc s - kJobDec) s) /\
  InvG false (set_workers (upd w WLocked (workers s)) (set_cnt (cnt s - 1) (set_jc (jc s - kJobDec) s))).
Proof.
  intros I H. dI I. wk H WLocked.
  assert (C : cnt s > 0) by lia.
  destruct (enc_dec s Ienc C) as [D1 D2].
  split; [unfold dec_job; rewrite D1; reflexivity|].
  constructor; simpl; try assumption.
  - lia.
  - rewrite HcT. exact Itakes.
  - single_case. auto.
  - intros Hs. or3 (Is1 Hs).
  - intros Hs. apply Is2. lia.
  - intros HW. destruct (Is3 HW) as [? [? ?]]. repeat split; auto. intros; discriminate.
  - intros. lia.
Qed.

Lemma loop_body_upd w x s : loop_body w (set_workers (upd w x (workers s)) s) = loop_body w s.
Proof.
  unfold loop_body, no_jobs, want_stop, was_stop. simpl.
  destruct (queue s); [destruct (_ && _); [|destruct (negb _)]|]; unfold mark_stop; simpl; rewrite ?upd_upd;
    reflexivity.
Qed.

(* :74-88 from the loop head *)
Lemma inv_loop_body b s w : InvG b s -> nth_error (workers s) w = Some WLocked -> Inv (loop_body w s).
Proof.
  intros I H. dI I.
  unfold loop_body. rewrite (enc_no_jobs s Ienc), (enc_want_stop s Ienc), (enc_was_stop s Ienc).
  destruct (queue s) as [|j q] eqn:Q.
  - destruct ((cnt s =? 0) && want s) eqn:T1; [|destruct (stopped s) eqn:T2].
    + (* Stop(lock) *)
      apply andb_true_iff in T1. destruct T1 as [C0 HW]. apply Nat.eqb_eq in C0.
      destruct (Is3 HW) as [K [T _]].
      wk H WNotify.
      constructor; simpl; rewrite ?Q; try assumption.
      * rewrite enc_lor_stop by exact Ienc. reflexivity.
      * simpl in *. lia.
      * rewrite HcT. exact Itakes.
      * single_case. auto.
      * intros _. right; left. lia.
      * intros _. auto.
      * intros _. repeat split; auto. intros; discriminate.
      * intros D; congruence.
      * intros D; congruence.
      * reflexivity.
      * intros _ _. left. reflexivity.
      * reflexivity.
      * reflexivity.
      * intros _. apply Forall_app_one; [apply Isets; exact K|].
        rewrite enc_shiftr by exact Ienc. simpl in *. f_equal; lia.
    + (* return *)
      wk H WExited.
      constructor; simpl; rewrite ?Q, ?T2; try assumption.
      * simpl in *. lia.
      * rewrite HcT. exact Itakes.
      * single_case. auto.
      * intros _. or3 (Is1 eq_refl).
      * intros _. auto.
      * intros HW. destruct (Is3 HW) as [? [? ?]]. repeat split; auto. intros; discriminate.
      * intros D; congruence.
    + (* wait *)
      wk H WWaiting.
      constructor; simpl; rewrite ?Q, ?T2; try assumption.
      * simpl in *. lia.
      * rewrite HcT. exact Itakes.
      * single_case. auto.
      * discriminate.
      * intros Hx. apply Is2. lia.
      * intros HW. destruct (Is3 HW) as [? [? ?]]. repeat split; auto. intros _ _.
        rewrite HW, andb_true_r in T1. apply Nat.eqb_neq in T1. lia.
      * intros D; congruence.
  - (* pop *)
    wk H (WTaken j).
    constructor; simpl; rewrite ?Q; try assumption.
    + simpl in *. lia.
    + rewrite Ififo, <- (app_assoc (takes s) [j]). reflexivity.
    + rewrite HcT, Itakes. rewrite <- app_assoc. apply Permutation_app_head. symmetry.
      apply Permutation_cons_append.
    + single_case. rewrite app_nil_r in Itakes1. rewrite Itakes1; auto.
    + intros Hs. or3 (Is1 Hs).
    + intros Hx. destruct Is2 as [_ D]; [lia|discriminate].
    + intros HW. destruct (Is3 HW) as [? [? ?]]. repeat split; auto. intros _ _. simpl in *. lia.
    + intros. lia.
Qed.

Theorem inv_step s e s' : Inv s -> step s e = Some s' -> Inv s'.
Proof.
  intros I H. pose proof (i_enc _ _ I) as Ienc. destruct e; simpl in H.
  - (* ESubmit *)
    destruct (mem j (accepted s ++ rejected s)) eqn:M; [discriminate|]. apply mem_false in M.
    rewrite (enc_was_stop s Ienc) in H. destruct (stopped s) eqn:S; inversion H; subst.
    + apply inv_submit_rej; auto.
    + apply inv_submit_acc; auto.
  - (* ENotifyOne *)
    destruct (pnotify s) eqn:P; [discriminate|]. destruct w as [w|].
    + destruct (nth_error (workers s) w) as [[]|] eqn:N; try discriminate. inversion H; subst.
      eapply inv_notify_some; eauto.
    + destruct (cntp is_waiting (workers s) =? 0) eqn:C; [|discriminate]. apply Nat.eqb_eq in C.
      inversion H; subst. eapply inv_notify_none; eauto.
  - (* EDropRej *)
    destruct (mem j (pdrop s)) eqn:M; [|discriminate]. apply mem_true in M. inversion H; subst.
    apply inv_drop_rej; auto.
  - (* EWork *)
    destruct (nth_error (workers s) w) as [[]|] eqn:N; try discriminate; inversion H; subst; clear H.
    + eapply inv_loop_body; eauto.
    + destruct (inv_dec s w j I N) as [D1 D2]. rewrite D1.
      rewrite <- (loop_body_upd w WLocked). eapply inv_loop_body; [exact D2|].
      simpl. eapply nth_upd; eauto.
  - (* ECall *)
    destruct (nth_error (workers s) w) as [[]|] eqn:N; try discriminate.
    destruct (Nat.eqb j j0) eqn:E; [|discriminate]. apply Nat.eqb_eq in E. subst j0. inversion H; subst.
    apply inv_call; auto.
  - (* ENotifyAllW *)
    destruct (nth_error (workers s) w) as [[]|] eqn:N; try discriminate. inversion H; subst.
    apply inv_notify_all_w; auto.
  - (* EStop *)
    destruct (tpc s) eqn:T; try discriminate. destruct (kind s) eqn:K.
    + inversion H; subst. apply inv_stop_stop; auto.
    + rewrite (enc_no_jobs s Ienc) in H. destruct (cnt s =? 0) eqn:C; inversion H; subst.
      * apply Nat.eqb_eq in C. apply inv_stop_soft_now; auto.
      * apply Nat.eqb_neq in C. apply inv_stop_soft_later; auto.
    + inversion H; subst. apply inv_stop_hard; auto.
  - (* ENotifyAllT *)
    destruct (tpc s) eqn:T; try discriminate. inversion H; subst. apply inv_notify_all_t; auto.
  - (* EDropStolen *)
    destruct (tpc s) eqn:T; try discriminate. destruct (stolen s) as [|j' r] eqn:S; try discriminate.
    destruct (Nat.eqb j j') eqn:E; [|discriminate]. apply Nat.eqb_eq in E. subst j'. inversion H; subst.
    eapply inv_drop_stolen; eauto.
  - (* EWait *)
    destruct (tpc s) eqn:T; try discriminate. destruct (stolen s) eqn:S; try discriminate.
    destruct (cntp is_exited (workers s) =? length (workers s)); [|discriminate]. inversion H; subst.
    apply inv_wait; auto.
  - (* ESpurious *)
    destruct (nth_error (workers s) w) as [[]|] eqn:N; try discriminate. inversion H; subst.
    apply inv_spurious; auto.
Qed.

Theorem inv_run tr : forall s s', Inv s -> run s tr = Some s' -> Inv s'.
Proof.
  induction tr as [|e tr IH]; simpl; intros s s' I H.
  - inversion H; subst; exact I.
  - destruct (step s e) as [s1|] eqn:E; [|discriminate]. eapply IH; [|exact H]. eapply inv_step; eauto.
Qed.

Theorem inv_reach n k tr s : run (init n k) tr = Some s -> Inv s.
Proof. apply inv_run. apply inv_init. Qed.

(* ---- facts that need no invariant: the worker vector, and what can still happen once all workers have exited --- *)

Lemma cntp_le f l : cntp f l <= length l.
Proof. induction l as [|p l IH]; simpl; auto. destruct (f p); lia. Qed.

Lemma all_ex_nth l : cntp is_exited l = length l -> forall w a, nth_error l w = Some a -> a = WExited.
Proof.
  induction l as [|p l IH]; intros E [|w] a H; simpl in *; try discriminate.
  - inversion H; subst. pose proof (cntp_le is_exited l). destruct a; simpl in *; auto; lia.
  - pose proof (cntp_le is_exited l). apply (IH) with (w := w); auto. destruct (is_exited p); lia.
Qed.

Lemma all_ex_map_wake l : cntp is_exited l = length l -> map wake l = l.
Proof.
  induction l as [|p l IH]; simpl; auto. intros E. pose proof (cntp_le is_exited l).
  destruct p; simpl in *; try lia. rewrite IH; auto.
Qed.

Lemma loop_body_fields w s :
  length (workers (loop_body w s)) = length (workers s) /\ tpc (loop_body w s) = tpc s /\
  calls (loop_body w s) = calls s.
Proof.
  unfold loop_body. destruct (queue s); [destruct (_ && _); [|destruct (was_stop s)]|]; unfold mark_stop; simpl;
    rewrite upd_length; auto.
Qed.

Lemma dec_job_fields s : workers (dec_job s) = workers s /\ tpc (dec_job s) = tpc s /\ calls (dec_job s) = calls s.
Proof. unfold dec_job. destruct (jc s <? kJobDec); simpl; auto. Qed.

Lemma step_length s e s' : step s e = Some s' -> length (workers s') = length (workers s).
Proof.
  intros H. destruct e; simpl in H;
    repeat match type of H with
           | context [match ?x with _ => _ end] => destruct x eqn:?; try discriminate H
           | context [if ?x then _ else _] => destruct x eqn:?; try discriminate H
           end;
    inversion H; subst; clear H; unfold mark_stop; simpl; rewrite ?map_length, ?upd_length; auto.
  - destruct (loop_body_fields w s) as [L _]. exact L.
  - destruct (loop_body_fields w (dec_job s)) as [L _]. destruct (dec_job_fields s) as [D _]. rewrite L, D. auto.
Qed.

Lemma run_length tr : forall s s', run s tr = Some s' -> length (workers s') = length (workers s).
Proof.
  induction tr as [|e tr IH]; simpl; intros s s' H; [inversion H; auto|].
  destruct (step s e) as [s1|] eqn:E; [|discriminate]. rewrite (IH _ _ H). eapply step_length; eauto.
Qed.

Lemma init_length n k : length (workers (init n k)) = n.
Proof. simpl. apply repeat_length. Qed.

(* once every worker has returned, no step changes a worker or calls a job *)
Lemma step_all_exited s e s' : all_exited s -> step s e = Some s' ->
  workers s' = workers s /\ calls s' = calls s.
Proof.
  unfold all_exited. intros A H. pose proof (all_ex_nth _ A) as N.
  destruct e; simpl in H;
    repeat match type of H with
           | context [match nth_error ?l ?w with _ => _ end] =>
               let E := fresh "E" in destruct (nth_error l w) as [[]|] eqn:E; try discriminate H;
               try (apply N in E; discriminate E)
           | context [match ?x with _ => _ end] => destruct x eqn:?; try discriminate H
           | context [if ?x then _ else _] => destruct x eqn:?; try discriminate H
           end;
    inversion H; subst; clear H; unfold mark_stop; simpl; rewrite ?all_ex_map_wake; auto.
Qed.

Lemma run_all_exited tr : forall s s', all_exited s -> run s tr = Some s' ->
  all_exited s' /\ calls s' = calls s.
Proof.
  induction tr as [|e tr IH]; simpl; intros s s' A H; [inversion H; subst; auto|].
  destruct (step s e) as [s1|] eqn:E; [|discriminate].
  destruct (step_all_exited _ _ _ A E) as [W C].
  assert (A1 : all_exited s1) by (unfold all_exited in *; rewrite W; exact A).
  destruct (IH _ _ A1 H) as [A2 C2]. split; [exact A2|congruence].
Qed.

Lemma step_tpc_waited s e s' : step s e = Some s' -> tpc s' = TWaited -> tpc s = TWaited \/ all_exited s.
Proof.
  intros H T. destruct e; simpl in H;
    repeat match type of H with
           | context [match ?x with _ => _ end] => destruct x eqn:?; try discriminate H
           | context [if ?x then _ else _] => destruct x eqn:?; try discriminate H
           end;
    inversion H; subst; clear H; unfold mark_stop in *; simpl in *; try discriminate T; auto;
    try solve [left; congruence].
  - destruct (loop_body_fields w s) as [_ [L _]]. left. congruence.
  - destruct (loop_body_fields w (dec_job s)) as [_ [L _]]. destruct (dec_job_fields s) as [_ [D _]]. left. congruence.
  - right. unfold all_exited. apply Nat.eqb_eq. assumption.
Qed.

Lemma waited_exited_run tr : forall s s', (tpc s = TWaited -> all_exited s) -> run s tr = Some s' ->
  tpc s' = TWaited -> all_exited s'.
Proof.
  induction tr as [|e tr IH]; simpl; intros s s' J H; [inversion H; subst; auto|].
  destruct (step s e) as [s1|] eqn:E; [|discriminate].
  apply (IH s1); auto. intros T.
  assert (A : all_exited s) by (destruct (step_tpc_waited _ _ _ E T); auto).
  destruct (step_all_exited _ _ _ A E) as [W _]. unfold all_exited in *. rewrite W. exact A.
Qed.

(* ---- consequences, in the terms of the property ------------------------------------------------------------ *)

Notation cnt_of := (count_occ Nat.eq_dec).

(* where every submitted job is, as equations between numbers of occurrences *)
Lemma accounting s j : Inv s ->
  cnt_of (accepted s) j + cnt_of (rejected s) j <= 1 /\
  cnt_of (accepted s) j = cnt_of (calls s) j + cnt_of (taken_jobs (workers s)) j + cnt_of (queue s) j +
                          cnt_of (hdrops s) j + cnt_of (stolen s) j /\
  cnt_of (rejected s) j = cnt_of (rdrops s) j + cnt_of (pdrop s) j.
Proof.
  intros I. dI I. unfold job in *. split; [|split].
  - rewrite <- count_occ_app. apply NoDup_count_occ. exact Inodup.
  - rewrite Ififo, !count_occ_app.
    rewrite (Permutation_count_occ Nat.eq_dec) in Itakes. rewrite (Itakes j), count_occ_app. lia.
  - rewrite (Permutation_count_occ Nat.eq_dec) in Irej. rewrite (Irej j), count_occ_app. lia.
Qed.

Lemma cnt_in l j : In j l <-> cnt_of l j > 0.
Proof. apply count_occ_In. Qed.

(* safety: never Called twice, never Dropped twice, never both; only accepted jobs are Called or dropped by
   HardStop, only rejected jobs are dropped by Submit *)
Lemma at_most_once s : Inv s ->
  (forall j, cnt_of (calls s) j + cnt_of (drops s) j <= 1) /\
  (forall j, In j (calls s) -> In j (accepted s) /\ ~ In j (rejected s)) /\
  (forall j, In j (rdrops s) -> In j (rejected s) /\ ~ In j (accepted s)) /\
  (forall j, In j (hdrops s) -> In j (accepted s) /\ kind s = KHard).
Proof.
  intros I. unfold drops. repeat split; intros; pose proof (accounting s j I) as [A [B C]];
    rewrite ?cnt_in, ?count_occ_app in *; unfold job in *; try lia.
  destruct (kind s) eqn:K; auto; destruct (i_k_hard _ _ I) as [_ D]; try (left; congruence);
      rewrite D in H; simpl in H; lia.
Qed.

Lemma quiescent_empty s : Inv s -> quiescent s -> workers s <> [] ->
  queue s = [] /\ taken_jobs (workers s) = [].
Proof.
  intros I [Qn [Qd [Qa Qf]]] Wn. dI I.
  pose proof (busy_le_active (workers s)). pose proof (cntp_total (workers s)).
  split; [|apply busy_taken; lia].
  destruct (queue s) as [|j q] eqn:Q; auto. exfalso.
  destruct (cntp is_waiting (workers s)) eqn:W.
  - assert (L : length (workers s) > 0) by (destruct (workers s); [congruence|simpl; lia]).
    destruct Is2 as [_ D]; [lia|discriminate].
  - assert (cntp is_active (workers s) + pnotify s > 0) by (apply Is4; [discriminate|lia]). lia.
Qed.

(* at rest, every submitted job has been Called exactly once or Dropped exactly once *)
Lemma call_xor_drop s : Inv s -> quiescent s -> stolen s = [] -> workers s <> [] ->
  forall j, In j (accepted s ++ rejected s) ->
    cnt_of (calls s) j + cnt_of (drops s) j = 1 /\
    (In j (rejected s) -> cnt_of (calls s) j = 0) /\
    (In j (accepted s) -> kind s <> KHard -> cnt_of (calls s) j = 1).
Proof.
  intros I Q R Wn j Hin. destruct (quiescent_empty s I Q Wn) as [Q0 T0].
  destruct Q as [_ [Qd _]]. pose proof (accounting s j I) as [A [B C]].
  rewrite Q0, T0, R, Qd in *. simpl in *. unfold drops.
  rewrite cnt_in, !count_occ_app in *. unfold job in *. repeat split; try lia.
  rewrite cnt_in. intros Ha K. destruct (i_k_hard _ _ I) as [_ D]; [left; exact K|]. rewrite D in *. simpl in *. lia.
Qed.

(* Stop / SoftStop: whatever was accepted -- in particular whatever was accepted before the stop step -- is Called *)
Lemma stop_runs_accepted s : Inv s -> kind s <> KHard -> tpc s <> TIdle ->
  incl (acc_at_stop s) (accepted s) /\
  (kind s = KStop -> accepted s = acc_at_stop s) /\
  (quiescent s -> workers s <> [] ->
   forall j, In j (accepted s) -> cnt_of (calls s) j = 1 /\ cnt_of (drops s) j = 0).
Proof.
  intros I K T. destruct (i_acc _ _ I T) as [later [E1 E2]]. split; [|split].
  - rewrite E1. apply incl_appl. apply incl_refl.
  - intros Ks. rewrite E1, E2, app_nil_r; congruence.
  - intros Q Wn j Hin.
    destruct (i_k_hard _ _ I) as [S0 _]; [left; exact K|].
    destruct (call_xor_drop s I Q S0 Wn j) as [X [_ Y]]; [apply in_or_app; auto|].
    specialize (Y Hin K). lia.
Qed.

(* HardStop: the jobs that were in the queue at the stop step are never Called and, when the stop call is over, have
   each been Dropped exactly once; it drops nothing else *)
Lemma hardstop_drops_queued s : Inv s -> kind s = KHard -> tpc s <> TIdle ->
  stolen_all s = hdrops s ++ stolen s /\
  incl (stolen_all s) (accepted s) /\
  (forall j, In j (stolen_all s) -> cnt_of (calls s) j = 0 /\ cnt_of (drops s) j <= 1) /\
  (stolen s = [] -> hdrops s = stolen_all s /\
                    forall j, In j (stolen_all s) -> cnt_of (drops s) j = 1).
Proof.
  intros I K T. pose proof (i_stolen _ _ I T K) as E.
  assert (Inc : incl (stolen_all s) (accepted s)).
  { rewrite E, (i_fifo _ _ I). intros x Hx. apply in_or_app. right. apply in_or_app. right. exact Hx. }
  split; [exact E|split; [exact Inc|split]].
  - intros j Hj. pose proof (accounting s j I) as [A [B C]]. unfold drops.
    assert (X : cnt_of (stolen_all s) j > 0) by (apply cnt_in; exact Hj).
    rewrite E, count_occ_app in X.
    apply Inc in Hj. apply cnt_in in Hj. rewrite count_occ_app. unfold job in *. lia.
  - intros S0. rewrite S0, app_nil_r in E. split; [congruence|].
    intros j Hj. pose proof (accounting s j I) as [A [B C]]. unfold drops.
    assert (X : cnt_of (hdrops s) j > 0) by (apply cnt_in; rewrite <- E; exact Hj).
    apply Inc in Hj. apply cnt_in in Hj. rewrite S0 in *. simpl in *.
    rewrite count_occ_app. unfold job in *. lia.
Qed.

Lemma softstop_only_when_idle s : Inv s -> kind s = KSoft -> Forall (fun p => p = (0, 0)) (stop_sets s).
Proof. intros I. apply (i_sets _ _ I). Qed.

(* the flag is set by mark_stop only, and mark_stop records the moment *)
Lemma stop_flag_recorded s e s' : step s e = Some s' -> stopped s = false -> stopped s' = true ->
  stop_sets s' = stop_sets s ++ [(Nat.shiftr (jc s) kShift, length (queue s) + cntp is_busy (workers s'))] \/
  exists w, e = EWork w /\ exists p, stop_sets s' = stop_sets s ++ [p].
Proof.
  intros H F T. destruct e; simpl in H;
    repeat match type of H with
           | context [match ?x with _ => _ end] => destruct x eqn:?; try discriminate H
           | context [if ?x then _ else _] => destruct x eqn:?; try discriminate H
           end;
    inversion H; subst; clear H; unfold mark_stop in *; simpl in *; try congruence; auto.
  - right. exists w. split; auto. revert T. unfold loop_body.
    destruct (queue s); [destruct (_ && _); [|destruct (was_stop s)]|]; unfold mark_stop; simpl; try congruence.
    eauto.
  - right. exists w. split; auto. revert T. unfold loop_body, dec_job.
    destruct (jc s <? kJobDec); simpl;
    (destruct (queue s); [destruct (_ && _); [|destruct (was_stop _)]|]); unfold mark_stop; simpl; try congruence;
    eauto.
Qed.

(* Wait returned => every worker has returned; then no job is running and none will ever be Called *)
Lemma wait_means_done s : all_exited s ->
  cntp is_busy (workers s) = 0 /\
  forall tr s', run s tr = Some s' -> all_exited s' /\ calls s' = calls s.
Proof.
  intros A. split.
  - unfold all_exited in A. pose proof (cntp_total (workers s)). pose proof (busy_le_active (workers s)). lia.
  - intros tr s'. apply run_all_exited. exact A.
Qed.

Lemma all_exited_queue_empty s : Inv s -> all_exited s -> workers s <> [] -> queue s = [].
Proof.
  intros I A Wn. unfold all_exited in A.
  assert (L : length (workers s) > 0) by (destruct (workers s); [congruence|simpl; lia]).
  destruct (i_s2 _ _ I) as [_ D]; [lia|exact D].
Qed.

(* jobs leave the queue in acceptance order (any number of workers); with one worker that is the order of Calls *)
Lemma fifo s : Inv s ->
  (exists rest, accepted s = takes s ++ rest) /\
  (length (workers s) = 1 -> exists rest, accepted s = calls s ++ rest).
Proof.
  intros I. split.
  - eexists. apply (i_fifo _ _ I).
  - intros L. rewrite (i_fifo _ _ I), (i_takes1 _ _ I L), <- app_assoc. eexists. reflexivity.
Qed.

(* no missed wake-up: when nothing is in flight and the stop call is over, no worker is left sleeping *)
Lemma no_stuck_worker s : Inv s -> quiescent s -> stopper_done s -> all_exited s.
Proof.
  intros I [Qn [Qd [Qa Qf]]] [Td S0]. dI I. unfold all_exited.
  pose proof (cntp_total (workers s)). pose proof (busy_le_active (workers s)).
  assert (T : tpc s <> TIdle /\ tpc s <> TNotify) by (destruct Td as [D|D]; rewrite D; split; discriminate).
  destruct T as [T1 T2].
  destruct (stopped s) eqn:St.
  - destruct (Is1 eq_refl) as [D|[D|D]]; [congruence|lia|lia].
  - assert (K : kind s = KSoft) by (destruct (kind s) eqn:K; auto; exfalso; assert (false = true) by (apply Ikstop; congruence); discriminate).
    destruct (Iksoft T1 K) as [D|HW]; [congruence|].
    destruct (Is3 HW) as [_ [_ C]]. specialize (C eq_refl eq_refl).
    destruct (Ikhard) as [_ Hh]; [left; congruence|]. rewrite Hh, S0 in Icnt. simpl in Icnt.
    destruct (cntp is_waiting (workers s)) eqn:W; [lia|].
    assert (cntp is_active (workers s) + pnotify s > 0); [|lia].
    apply Is4; [|lia]. destruct (queue s); [simpl in *; lia|discriminate].
Qed.

Lemma submit_outcome s j s' : Inv s -> step s (ESubmit j) = Some s' ->
  (stopped s = true /\ rejected s' = rejected s ++ [j] /\ accepted s' = accepted s) \/
  (stopped s = false /\ accepted s' = accepted s ++ [j] /\ rejected s' = rejected s).
Proof.
  intros I H. simpl in H. destruct (mem j _); [discriminate|].
  rewrite (enc_was_stop s (i_enc _ _ I)) in H. destruct (stopped s); inversion H; subst; simpl; auto.
Qed.

Lemma never_wraps s : Inv s -> bad s = false.
Proof. intros I. apply (i_bad _ _ I). Qed.

(* ---- the same facts for the states reachable from [init n k] (the form used by props/Properties_C08.v) --------- *)

Lemma run_kind tr : forall s0 s1, run s0 tr = Some s1 -> kind s1 = kind s0.
Proof.
  induction tr as [|e tr IH]; simpl; intros s0 s1 H; [inversion H; auto|].
  destruct (step s0 e) as [s2|] eqn:E; [|discriminate]. rewrite (IH _ _ H). clear IH H.
  destruct e; simpl in E;
    repeat match type of E with
           | context [match ?x with _ => _ end] => destruct x eqn:?; try discriminate E
           | context [if ?x then _ else _] => destruct x eqn:?; try discriminate E
           end;
    inversion E; subst; clear E; unfold loop_body, dec_job, mark_stop; simpl; auto;
    repeat match goal with
           | |- context [match ?x with _ => _ end] => destruct x; simpl; auto
           | |- context [if ?x then _ else _] => destruct x; simpl; auto
           end.
Qed.

Lemma reach_nonempty n k tr s : run (init n k) tr = Some s -> n > 0 -> workers s <> [].
Proof.
  intros H N E. pose proof (run_length tr _ _ H) as L. rewrite init_length, E in L. simpl in L. lia.
Qed.

Lemma r_encoding n k tr s : run (init n k) tr = Some s ->
  jc s = 4 * cnt s + 2 * b2n (want s) + b2n (stopped s) /\
  was_stop s = stopped s /\ want_stop s = want s /\ no_jobs s = (cnt s =? 0) /\ bad s = false.
Proof.
  intros H. pose proof (encoding s (inv_reach n k tr s H)) as [A [B [C D]]].
  repeat split; auto. exact (never_wraps s (inv_reach n k tr s H)).
Qed.

Lemma r_call_xor_drop n k tr s : run (init n k) tr = Some s ->
  ((forall j, cnt_of (calls s) j + cnt_of (drops s) j <= 1) /\
   (forall j, In j (calls s) -> In j (accepted s) /\ ~ In j (rejected s)) /\
   (forall j, In j (rdrops s) -> In j (rejected s) /\ ~ In j (accepted s)) /\
   (forall j, In j (hdrops s) -> In j (accepted s) /\ kind s = KHard)) /\
  (quiescent s -> stolen s = [] -> n > 0 ->
   forall j, In j (accepted s ++ rejected s) ->
     cnt_of (calls s) j + cnt_of (drops s) j = 1 /\
     (In j (rejected s) -> cnt_of (calls s) j = 0) /\
     (In j (accepted s) -> kind s <> KHard -> cnt_of (calls s) j = 1)).
Proof.
  intros H. split.
  - exact (at_most_once s (inv_reach n k tr s H)).
  - intros Q S0 N. apply (call_xor_drop s (inv_reach n k tr s H) Q S0). eapply reach_nonempty; eauto.
Qed.

Lemma r_stop_runs_accepted n k tr s : run (init n k) tr = Some s -> kind s <> KHard -> tpc s <> TIdle ->
  incl (acc_at_stop s) (accepted s) /\
  (kind s = KStop -> accepted s = acc_at_stop s) /\
  (quiescent s -> n > 0 -> forall j, In j (accepted s) -> cnt_of (calls s) j = 1 /\ cnt_of (drops s) j = 0).
Proof.
  intros H K T. destruct (stop_runs_accepted s (inv_reach n k tr s H) K T) as [A [B C]].
  split; [exact A|split; [exact B|]]. intros Q N. apply C; auto. eapply reach_nonempty; eauto.
Qed.

Lemma r_softstop_only_when_idle n tr s : run (init n KSoft) tr = Some s ->
  Forall (fun p => p = (0, 0)) (stop_sets s).
Proof.
  intros H. apply (softstop_only_when_idle s (inv_reach n KSoft tr s H)). rewrite (run_kind _ _ _ H). reflexivity.
Qed.

Lemma r_wait_means_done n k tr s : run (init n k) tr = Some s ->
  (tpc s = TWaited -> all_exited s) /\
  (all_exited s ->
     cntp is_busy (workers s) = 0 /\ (n > 0 -> queue s = []) /\
     forall tr' s', run s tr' = Some s' -> all_exited s' /\ calls s' = calls s).
Proof.
  intros H. split.
  - apply (waited_exited_run tr (init n k) s); auto. simpl. discriminate.
  - intros A. destruct (wait_means_done s A) as [B C]. split; [exact B|split; [|exact C]].
    intros N. apply (all_exited_queue_empty s (inv_reach n k tr s H) A). eapply reach_nonempty; eauto.
Qed.

Lemma r_fifo n k tr s : run (init n k) tr = Some s ->
  (exists rest, accepted s = takes s ++ rest) /\
  (n = 1 -> exists rest, accepted s = calls s ++ rest).
Proof.
  intros H. destruct (fifo s (inv_reach n k tr s H)) as [A B]. split; [exact A|].
  intros N. apply B. rewrite (run_length tr _ _ H), init_length. exact N.
Qed.
