(* Proofs of the C09 statements (props/Properties_C09.v) from the invariant and its consequences. *)
From Coq Require Import List Arith Bool NArith.
Import ListNotations.
From YV Require Import model.When proofs.WhenProofs proofs.WhenProofs2 proofs.WhenProofs3 proofs.WhenProofs4
  proofs.WhenProofs5 proofs.WhenInv proofs.WhenTheorems.

Definition all_like (g : strat) : Prop :=
  g = SAllNone \/ g = SAllFF \/ g = STupNone \/ g = STupFF \/ g = SJoinNone \/ g = SJoinFF.

Lemma all_like_fits g k : all_like g -> fits g k.
Proof. intros [->|[->|[->|[->|[->| ->]]]]]; exact I. Qed.

Lemma reach_facts g k tr s : k > 0 -> all_like g -> run (init g k) tr = Some s -> Inv s /\ IP s /\ sg s = g /\ n s = k.
Proof. intros Hk Hg H. apply reach_inv; auto using all_like_fits. exists tr. exact H. Qed.

(* The output promise is set at most once in every run, exactly once in every complete run, and no step is ever
   taken that the real code could not survive (Set on an invalid promise, Value() of a failed Result, counter
   underflow). *)
Lemma p09_once :
  forall g k tr s, k > 0 -> all_like g -> run (init g k) tr = Some s ->
  length (outs s) <= 1 /\ (terminal s = true -> length (outs s) = 1) /\ crashed s = false.
Proof. intros g k tr s Hk Hg H. destruct (reach_facts g k tr s Hk Hg H) as (V & P & _). exact (once s V P). Qed.

(* WHEN, as a property of the step that sets the promise: it is either the destructor's publish — possible only
   once the reference counter is 0, in the step sequence of the decrement that took it there — or the Set
   inside the consume step of the input that was elected by `_done`. *)
Lemma p09_when_step :
  forall g k tr s e s', k > 0 -> all_like g -> run (init g k) tr = Some s -> step s e = Some s' ->
  outs s' <> outs s ->
  (exists i, e = EPublish i /\ count s = 0 /\ dt s = Some i /\ outs s = []) \/
  (exists i x, e = ESetOut i /\ nth_error (ins s) i = Some x /\ ipc x = PSet /\ win s = Some i /\ outs s = []).
Proof.
  intros g k tr s e s' Hk Hg H Hs Hne. destruct (reach_facts g k tr s Hk Hg H) as (V & P & _).
  destruct e; try (exfalso; apply Hne; apply (step_quiet _ _ _ Hs); exact Logic.I).
  - right. simpl in Hs. destruct (nth_error (ins s) i) as [x|] eqn:Hx; [|discriminate].
    destruct (ipc x) eqn:Hp; try discriminate.
    destruct (o_pset _ (vo _ V) _ _ Hx Hp) as (Hw & Ho). exists i, x. auto.
  - left. simpl in Hs. destruct (nth_error (ins s) i) as [x|] eqn:Hx; [|discriminate].
    destruct (ipc x) eqn:Hp; try discriminate.
    destruct (at_publish _ _ _ V Hx Hp) as (_ & Ho & _ & Hc & Hd & _). exists i. auto.
Qed.

(* WHEN, as a property of the state.  Policy None, or FirstFail when no input failed: the promise was set by the
   destructor, i.e. at the last decrement, after the consume step of every input, and (FirstFail) then every
   input is a value.  FirstFail when some input failed: it was set inside the consume step of a failing input,
   the one that is first in the modification order of `_done`. *)
Lemma p09_when :
  forall g k tr s o, k > 0 -> all_like g -> run (init g k) tr = Some s -> outs s = [o] ->
  (odtor o = true ->
     count s = 0 /\ dt s = Some (oby o) /\ (forall j x, nth_error (ins s) j = Some x -> ipc x = PFin) /\
     (is_ff g = true -> forall j x, nth_error (ins s) j = Some x -> ovalue (ires x) = true)) /\
  (odtor o = false ->
     is_ff g = true /\
     exists x, nth_error (ins s) (oby o) = Some x /\ ofailing (ires x) = true /\ hd_error (elog s) = Some (oby o)) /\
  (is_ff g = false -> odtor o = true) /\
  (is_ff g = true -> forall j x, nth_error (ins s) j = Some x -> ofailing (ires x) = true -> odtor o = false).
Proof.
  intros g k tr s o Hk Hg H Ho. destruct (reach_facts g k tr s Hk Hg H) as (V & P & Esg & _).
  assert (A : odtor o = true ->
     count s = 0 /\ dt s = Some (oby o) /\ (forall j x, nth_error (ins s) j = Some x -> ipc x = PFin) /\
     (is_ff g = true -> forall j x, nth_error (ins s) j = Some x -> ovalue (ires x) = true)).
  { intros Hd. destruct (set_by_destructor _ _ V Ho Hd) as (Hdt & Hc & _ & _ & Hall).
    repeat split; auto. intros Hff. pose proof (dtor_content _ _ V P Ho Hd) as C. rewrite Esg in C.
    destruct Hg as [->|[->|[->|[->|[->| ->]]]]]; simpl in Hff; try discriminate; tauto. }
  assert (B : odtor o = false ->
     is_ff g = true /\
     exists x, nth_error (ins s) (oby o) = Some x /\ ofailing (ires x) = true /\ hd_error (elog s) = Some (oby o)).
  { intros Hd. destruct (set_in_consume _ _ V Ho Hd) as (x & _ & Hx & _ & _ & C). rewrite Esg in C.
    destruct Hg as [->|[->|[->|[->|[->| ->]]]]]; try contradiction; split; try reflexivity; exists x; tauto. }
  split; [exact A|split; [exact B|split]].
  - intros Hff. destruct (odtor o) eqn:Hd; auto. destruct (B eq_refl) as (Hff' & _). congruence.
  - intros Hff j x Hx Hf. destruct (odtor o) eqn:Hd; auto.
    destruct (A eq_refl) as (_ & _ & _ & Hv). specialize (Hv Hff _ _ Hx).
    destruct (ires x) as [[]|]; simpl in *; congruence.
Qed.

(* "As soon as": at the moment an input wins `_done` (its exchange returns false) no other failing input has got
   past its own check of `_done`, i.e. no failing input's consume step has ended before — and nothing was set
   before.  Hence the promise is set before the consume step of any input that completes later. *)
Lemma p09_first_in_real_time :
  forall g k tr s i s', k > 0 -> all_like g -> run (init g k) tr = Some s ->
  step s (EXchgDone i false) = Some s' ->
  win s = None /\ outs s = [] /\
  forall j x, nth_error (ins s) j = Some x -> ofailing (ires x) = true -> pre_el (ipc x) = true.
Proof.
  intros g k tr s i s' Hk Hg H Hs. destruct (reach_facts g k tr s Hk Hg H) as (V & P & Esg & _).
  destruct (election_first _ _ _ V Hs eq_refl) as (Hw & Ho & Hall). repeat split; auto.
  intros j x Hx Hf. apply (Hall j x Hx). unfold participant. rewrite Hf. destruct (is_ff (sg s)); reflexivity.
Qed.

(* WHAT, no failure / policy None: element i of the output is the Result (FirstFail: the value) of input i,
   for every completion order — the order of [ins s] is the index order, whatever the order of the events. *)
Lemma p09_value :
  forall g k tr s o, k > 0 -> all_like g -> run (init g k) tr = Some s -> outs s = [o] -> odtor o = true ->
  (match g with SJoinNone | SJoinFF => oval o = OUnit | _ => oval o = OVec (map ires (ins s)) end) /\
  (forall j x, nth_error (ins s) j = Some x -> ires x <> None).
Proof.
  intros g k tr s o Hk Hg H Ho Hd. destruct (reach_facts g k tr s Hk Hg H) as (V & P & Esg & _).
  pose proof (dtor_content _ _ V P Ho Hd) as C. rewrite Esg in C.
  destruct (set_by_destructor _ _ V Ho Hd) as (_ & Hc & _ & _ & Hall).
  split.
  - destruct Hg as [->|[->|[->|[->|[->| ->]]]]]; tauto.
  - intros j x Hx. eapply ended_has_result; eauto using v1. rewrite (Hall _ _ Hx). reflexivity.
Qed.

Lemma p09_value_order_independent :
  forall g k tr1 tr2 s1 s2 o1 o2, k > 0 -> all_like g ->
  run (init g k) tr1 = Some s1 -> run (init g k) tr2 = Some s2 ->
  outs s1 = [o1] -> outs s2 = [o2] -> odtor o1 = true -> odtor o2 = true ->
  map ires (ins s1) = map ires (ins s2) -> oval o1 = oval o2.
Proof.
  intros g k tr1 tr2 s1 s2 o1 o2 Hk Hg H1 H2 Ho1 Ho2 Hd1 Hd2 E.
  destruct (p09_value g k tr1 s1 o1 Hk Hg H1 Ho1 Hd1) as (C1 & _).
  destruct (p09_value g k tr2 s2 o2 Hk Hg H2 Ho2 Hd2) as (C2 & _).
  destruct Hg as [->|[->|[->|[->|[->| ->]]]]]; congruence.
Qed.

(* WHAT, FirstFail with a failure: the error / exception of the input that won the `_done` exchange — a failing
   input, first in the modification order of `_done`. *)
Lemma p09_error :
  forall g k tr s o, k > 0 -> all_like g -> run (init g k) tr = Some s -> outs s = [o] -> odtor o = false ->
  exists x, nth_error (ins s) (oby o) = Some x /\ ofailing (ires x) = true /\ oval o = OOne (ires x) /\
            hd_error (elog s) = Some (oby o).
Proof.
  intros g k tr s o Hk Hg H Ho Hd. destruct (reach_facts g k tr s Hk Hg H) as (V & P & Esg & _).
  destruct (set_in_consume _ _ V Ho Hd) as (x & _ & Hx & Hv & _ & C). rewrite Esg in C.
  exists x. destruct Hg as [->|[->|[->|[->|[->| ->]]]]]; try contradiction; tauto.
Qed.

(* Every input is consumed at most once and released at most once at any moment, and exactly once in every
   complete run — whether or not the output had already been decided (no hypothesis on [outs]). *)
Lemma p09_inputs_released :
  forall g k tr s, k > 0 -> all_like g -> run (init g k) tr = Some s ->
  forall j x, nth_error (ins s) j = Some x ->
  ifree x <= 1 /\ icons x <= 1 /\ (terminal s = true -> ifree x = 1 /\ icons x = 1).
Proof. intros g k tr s Hk Hg H. destruct (reach_facts g k tr s Hk Hg H) as (V & _). exact (released s V). Qed.

(* Nothing is lost: once every input has completed and been registered and no consume step is in progress, the run
   is complete (so by c09_once the output has been set). *)
Lemma p09_never_lost :
  forall g k tr s, k > 0 -> all_like g -> run (init g k) tr = Some s ->
  nreg s = n s ->
  (forall j x, nth_error (ins s) j = Some x -> iw x = WR /\ (ipc x = PIdle \/ ipc x = PFin)) ->
  terminal s = true.
Proof. intros g k tr s Hk Hg H. destruct (reach_facts g k tr s Hk Hg H) as (V & _). exact (no_stuck s V). Qed.

(* An empty input set yields an invalid future (and nothing else ever happens); a non-empty one a valid future. *)
Lemma p09_empty_invalid :
  forall g, ovalid (init g 0) = false /\ (forall e, step (init g 0) e = None) /\
            forall k, k > 0 -> ovalid (init g k) = true.
Proof.
  intros g. destruct (empty_invalid g) as (A & B). repeat split; auto. intros k Hk. apply nonempty_valid. exact Hk.
Qed.

