(* The facts the C11 theorems are made of: consequences of WaitEvProofs.Inv, for every n >= 1, every schedule. *)
From Coq Require Import List Arith Bool Lia.
Import ListNotations.
From YV Require model.Handoff proofs.HandoffProofs.
From YV Require Import model.WaitEv proofs.WaitEvProofs proofs.WaitEvProofsP proofs.WaitEvProofsP2 proofs.WaitEvProofsW.

(* ---- the invariant is inductive ------------------------------------------------------------------ *)

Theorem inv_step s e s' : Inv s -> step s e = Some s' -> Inv s'.
Proof.
  intros I H. destruct e.
  - eapply inv_step_set; eauto.
  - eapply inv_step_xchg; eauto.
  - eapply inv_step_subp; eauto.
  - eapply inv_step_plock; eauto.
  - eapply inv_step_pnotify; eauto.
  - eapply inv_step_punlock; eauto.
  - eapply inv_step_ldw; eauto.
  - eapply inv_step_casw; eauto.
  - eapply inv_step_subw; eauto.
  - eapply inv_step_wlock; eauto.
  - eapply inv_step_waitenter; eauto.
  - eapply inv_step_timeout; eauto.
  - eapply inv_step_waitret; eauto.
  - eapply inv_step_wunlock; eauto.
  - eapply inv_step_ret; eauto.
Qed.

Definition good_cfg (n_ : nat) (one_ : bool) : Prop := 1 <= n_ /\ (one_ = true -> n_ = 1).

Lemma nth_repeat (x : fut) k j f : nth_error (repeat x k) j = Some f -> f = x.
Proof. intros H. apply nth_error_In in H. apply repeat_spec in H. exact H. Qed.

Lemma inv_init n_ one_ timed_ : good_cfg n_ one_ -> Inv (init n_ one_ timed_).
Proof.
  intros [Hn Ho]. split.
  - intros j f Ef. simpl in Ef. apply nth_repeat in Ef. subst f. split; reflexivity.
  - unfold Glob, K, NL, K0, S3, D4, rd, on, tm, tmo, nt, parked, cA, cH, cL, cN, cU, cF, cZ, cReg. simpl.
    rewrite !count_repeat, repeat_length. simpl. rewrite !Nat.mul_0_r.
    destruct one_; simpl; splits; try lia; try reflexivity; auto; intros; try lia; try discriminate.
Qed.

Theorem inv_run tr : forall s s', Inv s -> run s tr = Some s' -> Inv s'.
Proof.
  induction tr as [|e tr IH]; simpl; intros s s' I H.
  - inversion H; subst; exact I.
  - destruct (step s e) as [s1|] eqn:E; [|discriminate]. eapply IH; [|exact H]. eapply inv_step; eauto.
Qed.

Theorem inv_reach n_ one_ timed_ tr s :
  good_cfg n_ one_ -> run (init n_ one_ timed_) tr = Some s -> Inv s.
Proof. intros Hc. apply inv_run. apply inv_init. exact Hc. Qed.

(* the configuration never changes *)
Ltac case_step H :=
  repeat match type of H with
         | context [match ?x with _ => _ end] => destruct x eqn:?; simpl in H; try discriminate H
         | context [if ?x then _ else _] => destruct x eqn:?; simpl in H; try discriminate H
         end.

Lemma step_config s e s' : step s e = Some s' -> n s' = n s /\ one s' = one s /\ timed s' = timed s.
Proof.
  intros H. destruct e; simpl in H; unfold with_futs, with_wp in H; case_step H; inversion H; subst; simpl; auto.
Qed.

Lemma run_config tr : forall s s', run s tr = Some s' -> n s' = n s /\ one s' = one s /\ timed s' = timed s.
Proof.
  induction tr as [|e tr IH]; simpl; intros s s' H.
  - inversion H; auto.
  - destruct (step s e) as [s1|] eqn:E; [|discriminate]. destruct (step_config _ _ _ E) as (A & B & C).
    destruct (IH _ _ H) as (A' & B' & C'). repeat split; congruence.
Qed.

(* ---- at the return ------------------------------------------------------------------------------ *)

Lemma returned_done s b : Inv s -> ret s = Some b -> wp s = WDone.
Proof.
  intros [_ G] Hr. unfold Glob, K, K0 in G. destruct G as (_&_&_&_&_&_&_&_&_&_&_&_&_&_&_&_&GK).
  destruct (wp s); try reflexivity; dests; congruence.
Qed.

Lemma returned_clean s b : Inv s -> ret s = Some b ->
  forall i f, nth_error (futs s) i = Some f ->
  fokb (one s) f = true /\ cleanb f = true /\ (b = true -> fw f = WR).
Proof.
  intros I Hr i f Ef. pose proof (returned_done s b I Hr) as Hw. destruct I as [P _].
  destruct (P i f Ef) as [Hk Hp]. rewrite Hw, Hr in Hp. simpl in Hp.
  apply andb_true_iff in Hp. destruct Hp as [Hc Hb]. repeat split; auto.
  intros ->. simpl in Hb. apply HandoffProofs.word_eqb_eq in Hb. exact Hb.
Qed.

(* true (or the return of an untimed Wait) => every word is Result *)
Lemma true_all_ready s : Inv s -> ret s = Some true ->
  forall i f, nth_error (futs s) i = Some f -> fw f = WR.
Proof. intros I Hr i f Ef. apply (returned_clean s true I Hr i f Ef). reflexivity. Qed.

Lemma false_timed_out s : Inv s -> ret s = Some false -> timed s = true /\ timedout s = true.
Proof.
  intros I Hr. pose proof (returned_done s false I Hr) as Hw. destruct I as [_ G].
  unfold Glob, K, K0, tm, tmo in G. destruct G as (_&_&_&_&_&_&_&_&_&_&_&_&_&_&_&_&GK). rewrite Hw, Hr in GK.
  destruct GK as (_&_&_&GK). specialize (GK eq_refl). destruct GK as [A B].
  destruct (timed s), (timedout s); simpl in *; try discriminate; auto.
Qed.

Lemma untimed_returns_true s b : Inv s -> timed s = false -> ret s = Some b -> b = true.
Proof.
  intros I Ht Hr. destruct b; [reflexivity|]. destruct (false_timed_out s I Hr) as [A _]. congruence.
Qed.

Lemma timeout_only_timed s : Inv s -> timedout s = true -> timed s = true.
Proof.
  intros [_ G] Ht. unfold Glob, tm, tmo in G. destruct G as (_&_&_&_&_&_&_&_&_&_&_&_&_&G14&_).
  rewrite Ht in G14. specialize (G14 eq_refl). destruct (timed s); [reflexivity|discriminate].
Qed.

(* ---- nobody touches the event after the return ------------------------------------------------------ *)

Definition touches (e : ev) : bool :=
  match e with ESubP _ _ | EPLock _ | EPNotify _ | EPUnlock _ => true | _ => false end.

Lemma no_bad_touch s : Inv s -> bad_touch s = 0 /\ underflow s = false.
Proof.
  intros [_ G]. unfold Glob in G. destruct G as (_&_&_&_&_&G6&G7&_). split; [exact G6|].
  destruct (underflow s); [discriminate|reflexivity].
Qed.

Lemma alive_iff s : Inv s -> (alive s = true <-> wp s <> WDone).
Proof.
  intros [_ G]. unfold Glob in G. destruct G as (_&_&_&_&_&_&_&_&_&_&_&_&_&_&G15&_).
  destruct (alive s), (wp s); simpl in G15; split; intros; try congruence; try discriminate; try lia.
Qed.

Lemma touch_while_alive s e s' : Inv s -> step s e = Some s' -> touches e = true -> alive s = true.
Proof.
  intros I H Ht. destruct (alive s) eqn:Ea; [reflexivity|exfalso].
  assert (Hw : wp s = WDone).
  { destruct (alive_iff s I) as [_ B]. destruct (wp s) eqn:Ew; try reflexivity; rewrite B in Ea; congruence. }
  destruct I as [P G].
  assert (Hcl : forall i f, nth_error (futs s) i = Some f -> cleanb f = true).
  { intros i f Ef. destruct (P i f Ef) as [_ Hp]. rewrite Hw in Hp. simpl in Hp.
    destruct (ret s); [|discriminate]. apply andb_true_iff in Hp. apply Hp. }
  destruct e; try discriminate; simpl in H.
  all: destruct (nth_error (futs s) i) as [f|] eqn:Ef; [|discriminate].
  all: specialize (Hcl i f Ef); unfold cleanb in Hcl; destruct (fp f); try discriminate;
       apply andb_true_iff in Hcl; destruct Hcl; discriminate.
Qed.

(* ---- no lost wake-up --------------------------------------------------------------------------------- *)

Definition finished (f : fut) : bool := match fp f with PDoneE | PFin => true | _ => false end.

(* Once every producer has finished, a parked waiter can always leave its wait: the flag is set, it has been notified and
   the mutex is free — no completion slips between the waiter's check and its sleep. *)
Lemma no_lost_wakeup s : Inv s -> parked s = true ->
  (forall i f, nth_error (futs s) i = Some f -> finished f = true) ->
  exists s', step s EWaitRet = Some s'.
Proof.
  intros [P G] Hp Hfin.
  assert (HA : cA s = 0).
  { apply count_zero_all. intros j g Eg. specialize (Hfin j g Eg). destruct (P j g Eg) as [Hk _].
    unfold fokb, finished, isA in *. destruct g as [w p sl rg rs]; simpl in *.
    destruct w, p, sl, rg, rs; simpl in *; try discriminate; reflexivity. }
  assert (HH : cH s = 0 /\ cL s = 0 /\ cN s = 0 /\ cU s = 0).
  { repeat split; apply count_zero_all; intros j g Eg; specialize (Hfin j g Eg);
      unfold finished, isH, isL, isN, isU in *; destruct (fp g); try discriminate; reflexivity. }
  destruct HH as (HH & HL & HN & HU).
  pose proof (reg_split_s s P) as Hsplit. pose proof (mPW (mtx s)) as HPW. bounds s.
  unfold parked in Hp. simpl. destruct (wp s) eqn:Ewp; try discriminate.
  - (* first wait *)
    unf; rewrite Ewp in *; simpl in *; dests.
    assert (Hr : b2n (ready s) = 1 /\ b2n (notified s) = 1 /\ mP (mtx s) = 0 /\ mW (mtx s) = 0).
    { destruct (one s); simpl in *; repeat split; lia. }
    destruct Hr as (Hr & Hn & Hm1 & Hm2).
    unfold is_free. destruct (mtx s) as [[|k]|]; simpl in *; try lia.
    destruct (ready s), (notified s); simpl in *; try lia. eauto.
  - (* final wait *)
    unf; rewrite Ewp in *; simpl in *; dests.
    assert (Hr : b2n (ready s) = 1 /\ b2n (notified s) = 1 /\ mP (mtx s) = 0 /\ mW (mtx s) = 0).
    { destruct (one s); simpl in *; repeat split; lia. }
    destruct Hr as (Hr & Hn & Hm1 & Hm2).
    unfold is_free. destruct (mtx s) as [[|k]|]; simpl in *; try lia.
    destruct (ready s), (notified s); simpl in *; try lia. eauto.
Qed.

(* ---- the futures are intact: composition with the C01 model -------------------------------------------- *)

Lemma intact_shape s b : Inv s -> ret s = Some b ->
  forall i f, nth_error (futs s) i = Some f ->
  (fw f = WE /\ (fp f = PInit /\ fslot f = None \/ fp f = PStored /\ exists r, fslot f = Some r)) \/
  (fw f = WR /\ (fp f = PDoneE \/ fp f = PFin) /\ exists r, fslot f = Some r).
Proof.
  intros I Hr i f Ef. destruct (returned_clean s b I Hr i f Ef) as (Hk & Hc & _).
  unfold fokb, cleanb in *. destruct f as [w p sl rg rs]; simpl in *.
  destruct w, p, sl, rg, rs; simpl in *; try discriminate; eauto 8.
  all: destruct (one s); simpl in *; try discriminate; eauto 8.
Qed.

Lemma intact_handoff s b : Inv s -> ret s = Some b ->
  forall i f k, nth_error (futs s) i = Some f -> HandoffProofs.Inv (proj k f).
Proof.
  intros I Hr i f k Ef. destruct (intact_shape s b I Hr i f Ef) as [(Hw & [(Hp & Hs)|(Hp & r & Hs)])|(Hw & [Hp|Hp] & r & Hs)].
  all: destruct f as [w p sl rg rs]; simpl in *; subst; split; [reflexivity|split; constructor].
Qed.

(* whoever consumes future i afterwards gets all C01 guarantees *)
Lemma later_consumer s b : Inv s -> ret s = Some b ->
  forall i f k tr' h, nth_error (futs s) i = Some f -> Handoff.run (proj k f) tr' = Some h ->
  HandoffProofs.Inv h.
Proof.
  intros I Hr i f k tr' h Ef Hrun. eapply HandoffProofs.inv_run; [|exact Hrun]. eapply intact_handoff; eauto.
Qed.

(* the C01 model never overwrites a constructed slot: what a later consumer receives is the value that producer i
   stored, also when it had stored it before the call returned *)
Lemma handoff_slot_stable h e h' r :
  HandoffProofs.Inv h -> Handoff.step h e = Some h' -> Handoff.slot h = Some r -> Handoff.slot h' = Some r.
Proof.
  (* written so that it survives additions of consumer events / states to Handoff *)
  intros [Ib _] H Hs.
  assert (Hw : Handoff.slot (Handoff.wake h) = Some r).
  { unfold Handoff.wake. destruct (Handoff.cpc h); try exact Hs; destruct (Handoff.signalled h); exact Hs. }
  assert (Hp : Handoff.ppc h <> 0).
  { unfold HandoffProofs.invb in Ib. intros E. rewrite E, Hs in Ib. simpl in Ib. discriminate. }
  destruct e; simpl in H; try (destruct t);
    unfold Handoff.do_free, Handoff.upd_cpc, Handoff.upd_w, Handoff.add_token in H;
    case_step H; inversion H; subst; simpl; first [exact Hs | exact Hw | congruence].
Qed.

Lemma handoff_run_slot tr : forall h h' r,
  HandoffProofs.Inv h -> Handoff.run h tr = Some h' -> Handoff.slot h = Some r -> Handoff.slot h' = Some r.
Proof.
  induction tr as [|e tr IH]; simpl; intros h h' r I H Hs.
  - inversion H; subst; exact Hs.
  - destruct (Handoff.step h e) as [h1|] eqn:E; [|discriminate].
    eapply IH; [eapply HandoffProofs.inv_step; eauto|exact H|eapply handoff_slot_stable; eauto].
Qed.

(* ---- the statements of Properties_C11.v ------------------------------------------------------------- *)

Lemma c11p_wait_all_ready :
  forall n_ one_ tr s b, good_cfg n_ one_ -> run (init n_ one_ false) tr = Some s -> ret s = Some b ->
  b = true /\ forall i f, nth_error (futs s) i = Some f -> fw f = WR /\ exists r, fslot f = Some r.
Proof.
  intros n_ one_ tr s b Hc Hrun Hr. pose proof (inv_reach _ _ _ _ _ Hc Hrun) as I.
  destruct (run_config _ _ _ Hrun) as (_ & _ & Ht). simpl in Ht.
  pose proof (untimed_returns_true s b I Ht Hr) as ->. split; [reflexivity|].
  intros i f Ef. pose proof (true_all_ready s I Hr i f Ef) as Hw. split; [exact Hw|].
  destruct (intact_shape s true I Hr i f Ef) as [(Hw' & _)|(_ & _ & Hs)]; [congruence|exact Hs].
Qed.

Lemma c11p_true_iff_all_ready :
  forall n_ one_ timed_ tr s, good_cfg n_ one_ -> run (init n_ one_ timed_) tr = Some s -> ret s = Some true ->
  forall i f, nth_error (futs s) i = Some f -> fw f = WR /\ exists r, fslot f = Some r.
Proof.
  intros n_ one_ timed_ tr s Hc Hrun Hr i f Ef. pose proof (inv_reach _ _ _ _ _ Hc Hrun) as I.
  pose proof (true_all_ready s I Hr i f Ef) as Hw. split; [exact Hw|].
  destruct (intact_shape s true I Hr i f Ef) as [(Hw' & _)|(_ & _ & Hs)]; [congruence|exact Hs].
Qed.

Lemma c11p_false_only_after_timeout :
  forall n_ one_ timed_ tr s, good_cfg n_ one_ -> run (init n_ one_ timed_) tr = Some s -> ret s = Some false ->
  timed_ = true /\ timedout s = true.
Proof.
  intros n_ one_ timed_ tr s Hc Hrun Hr. pose proof (inv_reach _ _ _ _ _ Hc Hrun) as I.
  destruct (run_config _ _ _ Hrun) as (_ & _ & Ht). simpl in Ht.
  destruct (false_timed_out s I Hr) as [A B]. split; congruence.
Qed.

Lemma c11p_no_touch_after_return :
  forall n_ one_ timed_ tr s, good_cfg n_ one_ -> run (init n_ one_ timed_) tr = Some s ->
  bad_touch s = 0 /\
  forall e s', step s e = Some s' -> touches e = true -> alive s = true.
Proof.
  intros n_ one_ timed_ tr s Hc Hrun. pose proof (inv_reach _ _ _ _ _ Hc Hrun) as I. split.
  - apply (no_bad_touch s I).
  - intros e s' H Ht. exact (touch_while_alive s e s' I H Ht).
Qed.

Lemma c11p_future_intact :
  forall n_ one_ timed_ tr s b, good_cfg n_ one_ -> run (init n_ one_ timed_) tr = Some s -> ret s = Some b ->
  forall i f, nth_error (futs s) i = Some f ->
  ((fw f = WE /\ (fp f = PInit /\ fslot f = None \/ fp f = PStored /\ exists r, fslot f = Some r)) \/
   (fw f = WR /\ (fp f = PDoneE \/ fp f = PFin) /\ exists r, fslot f = Some r)) /\
  forall k, HandoffProofs.Inv (proj k f).
Proof.
  intros n_ one_ timed_ tr s b Hc Hrun Hr i f Ef. pose proof (inv_reach _ _ _ _ _ Hc Hrun) as I. split.
  - exact (intact_shape s b I Hr i f Ef).
  - intros k. exact (intact_handoff s b I Hr i f k Ef).
Qed.

Lemma c11p_later_consumer_c01 :
  forall n_ one_ timed_ tr s b, good_cfg n_ one_ -> run (init n_ one_ timed_) tr = Some s -> ret s = Some b ->
  forall i f k tr' h, nth_error (futs s) i = Some f -> Handoff.run (proj k f) tr' = Some h ->
  (forall v, In v (Handoff.cbs h ++ Handoff.gots h) -> exists r, v = Some r /\ Handoff.slot h = Some r) /\
  (length (Handoff.cbs h) <= 1 /\ Handoff.frees h <= 1 /\ length (Handoff.tokens h) <= 1) /\
  (Handoff.ppc h = 2 ->
   (Handoff.cpc h = Handoff.CAttached -> Handoff.tokens h = [Handoff.P]) /\
   (Handoff.cpc h = Handoff.CInline -> Handoff.tokens h = [Handoff.C]) /\
   (Handoff.cpc h = Handoff.CWaiting -> Handoff.signalled h = true)) /\
  (Handoff.terminal h = true ->
   exists r, Handoff.slot h = Some r /\ Handoff.frees h = 1 /\ Handoff.alive h = false /\
   match Handoff.kd h with
   | Handoff.KAttach | Handoff.KConnect => Handoff.cbs h = [Some r]
   | Handoff.KSilent => Handoff.cbs h = []
   | Handoff.KGet => Handoff.cbs h = [] /\ exists l, Handoff.gots h = l ++ [Some r]
   end) /\
  (forall r, fslot f = Some r -> Handoff.slot h = Some r).
Proof.
  intros n_ one_ timed_ tr s b Hc Hrun Hr i f k tr' h Ef Hh. pose proof (inv_reach _ _ _ _ _ Hc Hrun) as I.
  pose proof (later_consumer s b I Hr i f k tr' h Ef Hh) as Ih.
  split; [exact (HandoffProofs.delivered_is_set h Ih)|].
  split; [exact (HandoffProofs.at_most_once h Ih)|].
  split; [|split; [exact (HandoffProofs.terminal_exact h Ih)|]].
  - intros Hp2. pose proof (HandoffProofs.not_lost h Ih Hp2) as X.
    repeat split; intros Hcp; rewrite Hcp in X; exact X.
  - intros r Hs. exact (handoff_run_slot tr' (proj k f) h r (intact_handoff s b I Hr i f k Ef) Hh Hs).
Qed.

Lemma c11p_counter_never_underflows :
  forall n_ one_ timed_ tr s, good_cfg n_ one_ -> run (init n_ one_ timed_) tr = Some s -> underflow s = false.
Proof.
  intros n_ one_ timed_ tr s Hc Hrun. exact (proj2 (no_bad_touch s (inv_reach _ _ _ _ _ Hc Hrun))).
Qed.

Lemma c11p_untimed_never_times_out :
  forall n_ one_ tr s, good_cfg n_ one_ -> run (init n_ one_ false) tr = Some s -> timedout s = false.
Proof.
  intros n_ one_ tr s Hc Hrun. pose proof (inv_reach _ _ _ _ _ Hc Hrun) as I.
  destruct (run_config _ _ _ Hrun) as (_ & _ & Ht). simpl in Ht.
  destruct (timedout s) eqn:E; [|reflexivity]. pose proof (timeout_only_timed s I E). congruence.
Qed.

Lemma c11p_no_lost_wakeup :
  forall n_ one_ timed_ tr s, good_cfg n_ one_ -> run (init n_ one_ timed_) tr = Some s ->
  parked s = true -> (forall i f, nth_error (futs s) i = Some f -> finished f = true) ->
  exists s', step s EWaitRet = Some s'.
Proof.
  intros n_ one_ timed_ tr s Hc Hrun. exact (no_lost_wakeup s (inv_reach _ _ _ _ _ Hc Hrun)).
Qed.
