(* RecursiveMutex / RecursiveTimedMutex: invariant of the Rc machine (repaired text) and the C18 lemmas.
   All traces, any number of fibers, any recursion depth, any timeouts. *)
From Coq Require Import List Arith Bool Lia.
Import ListNotations.
From YV Require Import model.FiberSync proofs.FiberSyncLemmas.
Import Rc.

Definition good (v : variant) : Prop := v_rc_notify v = true /\ v_rc_while v = true /\ v_rt_while v = true.

Definition lockwait (p : pc) : Prop := match p with InLock | InTimed _ _ => True | Idle => False end.

Definition ok_res (r : res) : Prop :=
  match r with
  | RTry _ false j => j = true          (* a failed try_lock: another fiber owned the mutex *)
  | RTimed _ false dl t => dl <= t      (* a failed timed lock: its deadline has passed *)
  | _ => True
  end.

Record Inv (s : st) : Prop := {
  r_own : forall g, In g (holders s) -> g = owner s;
  r_cnt : cnt s = length (holders s);
  r_q : forall f, In f (q s) -> lockwait (pcs s f);
  r_nh : forall f, In f (holders s) -> pcs s f = Idle;
  r_wake : cnt s = 0 -> q s <> [] -> exists g, lockwait (pcs s g) /\ ~ In g (q s);
  r_log : Forall ok_res (log s)
}.

Lemma inv_init : Inv init.
Proof. constructor; simpl; auto; try contradiction; try congruence. Qed.

Lemma In_rem1 g f l : In g (rem1 f l) -> In g l.
Proof.
  induction l as [|x l IH]; simpl; [auto|]. destruct (Nat.eqb x f); simpl; intuition.
Qed.

Lemma length_rem1 f l : In f l -> S (length (rem1 f l)) = length l.
Proof.
  induction l as [|x l IH]; simpl; [contradiction|]. destruct (Nat.eqb_spec x f); [reflexivity|].
  intros [E|H]; [congruence|]. simpl. rewrite IH; auto.
Qed.

Ltac pc_goal :=
  intros;
  repeat match goal with
         | H : In _ (_ ++ [_]) |- _ => apply In_app1 in H; destruct H
         | H : In _ (rem _ _) |- _ => apply In_rem in H; destruct H
         | H : In _ (_ :: _) |- _ => destruct H
         | H : _ \/ _ |- _ => destruct H
         | H : _ /\ _ |- _ => destruct H
         end;
  subst; unfold upd in *;
  repeat match goal with
         | |- context [Nat.eqb ?a ?b] => destruct (Nat.eqb_spec a b); subst
         | H : context [Nat.eqb ?a ?b] |- _ => destruct (Nat.eqb_spec a b); subst
         end;
  simpl in *; try contradiction; try congruence; try discriminate; try lia; eauto.

Lemma blocked_false s f : blocked s f = false -> cnt s = 0 \/ owner s = f.
Proof.
  unfold blocked. intros H. apply andb_false_iff in H. destruct H as [H|H]; apply negb_false_iff in H; boolp; auto.
Qed.

Lemma blocked_true s f : blocked s f = true -> cnt s <> 0 /\ owner s <> f.
Proof. unfold blocked. intros H. boolp. auto. Qed.

Lemma set_now_inv s t : Inv s -> Inv (set_now s t).
Proof. intros I. destruct I. constructor; simpl; auto. Qed.
Lemma set_sm_inv s m : Inv s -> Inv (set_sm s m).
Proof. intros I. destruct I. constructor; simpl; auto. Qed.
Lemma add_log_inv s r : Inv s -> ok_res r -> Inv (add_log s r).
Proof. intros I H. destruct I. constructor; simpl; auto. Qed.

Lemma not_lockwait_not_in_q s f : Inv s -> ~ lockwait (pcs s f) -> ~ In f (q s).
Proof. intros I H J. apply H. apply (r_q s I). exact J. Qed.

Lemma lockwait_not_holder s f : Inv s -> lockwait (pcs s f) -> ~ In f (holders s).
Proof. intros I H J. apply (r_nh s I) in J. rewrite J in H. exact H. Qed.

(* LockHelper when the mutex is free or already ours; the fiber becomes idle *)
Lemma acquire_inv s f :
  Inv s -> blocked s f = false -> ~ In f (q s) -> Inv (set_pc (acquire s f) f Idle).
Proof.
  intros I B Hq. apply blocked_false in B. destruct I. constructor; simpl; auto; try solve [pc_goal].
  - intros g [<-|Hg]; [reflexivity|]. destruct B as [B|B]; [|rewrite <- B; auto].
    rewrite r_cnt0 in B. destruct (holders s); [contradiction|discriminate].
Qed.

Lemma acquire_idle_inv s f :
  Inv s -> blocked s f = false -> pcs s f = Idle -> Inv (acquire s f).
Proof.
  intros I B P. apply blocked_false in B. destruct I. constructor; simpl; auto; try solve [pc_goal].
  - intros g [<-|Hg]; [reflexivity|]. destruct B as [B|B]; [|rewrite <- B; auto].
    rewrite r_cnt0 in B. destruct (holders s); [contradiction|discriminate].
Qed.

Lemma park_inv s f p :
  Inv s -> cnt s <> 0 -> lockwait p -> ~ In f (holders s) -> Inv (set_pc (set_q s (q s ++ [f])) f p).
Proof. intros I C L H. destruct I. constructor; simpl; auto; try solve [pc_goal]. Qed.

Lemma leave_q_inv s f : Inv s -> In f (q s) -> Inv (set_pc (set_q s (rem f (q s))) f Idle).
Proof.
  intros I Hf. destruct I. constructor; simpl; auto; try solve [pc_goal].
  intros C Hne. assert (Q : q s <> []) by (intro E; rewrite E in Hf; contradiction).
  destruct (r_wake0 C Q) as [g [Hg Hn]]. exists g. split.
  - rewrite upd_neq; [assumption|]. intro. subst. contradiction.
  - rewrite In_rem. tauto.
Qed.

Lemma set_q_rem_id s f : ~ In f (q s) -> set_q s (rem f (q s)) = s.
Proof. intros H. unfold set_q. rewrite rem_not_In by assumption. destruct s; reflexivity. Qed.

Lemma lock_head_inv v s f first :
  Inv s -> first = true \/ v_rc_while v = true -> ~ In f (q s) -> (blocked s f = true -> ~ In f (holders s)) ->
  Inv (lock_head v s f first).
Proof.
  intros I Hv Hq Hh. unfold lock_head.
  assert (C : blocked s f && (first || v_rc_while v) = blocked s f).
  { destruct Hv as [->| ->]; simpl; rewrite ?orb_true_r, andb_true_r; reflexivity. }
  rewrite C. destruct (blocked s f) eqn:B.
  - apply blocked_true in B. apply park_inv; simpl; auto. tauto.
  - apply add_log_inv; [|exact Logic.I]. apply acquire_inv; auto.
Qed.

Lemma timed_head_inv v s f tm first :
  Inv s -> first = true \/ v_rt_while v = true -> ~ In f (q s) -> ~ lockwait (pcs s f) \/ ~ In f (q s) ->
  (blocked s f = true -> ~ In f (holders s)) ->
  (forall g, In g (q s) -> g <> f) ->
  Inv (timed_head v s f tm first).
Proof.
  intros I Hv Hq _ Hh _. unfold timed_head.
  assert (C : blocked s f && (first || v_rt_while v) = blocked s f).
  { destruct Hv as [->| ->]; simpl; rewrite ?orb_true_r, andb_true_r; reflexivity. }
  rewrite C. destruct (blocked s f) eqn:B.
  - destruct (Nat.leb (deadline (now s) tm) (now s)) eqn:L.
    + boolp. apply add_log_inv; [|simpl; assumption].
      apply blocked_true in B.
      destruct I. constructor; simpl; auto; try solve [pc_goal].
    + apply blocked_true in B.
      change (Inv (set_sm (set_pc (set_q s (q s ++ [f])) f (InTimed tm (deadline (now s) tm)))
                          (sm_sleep (sm s) (deadline (now s) tm) f))).
      apply set_sm_inv. apply park_inv; simpl; auto. tauto.
  - apply add_log_inv; [|exact Logic.I]. apply acquire_inv; auto.
Qed.

Lemma release_inv v s f pick s' :
  v_rc_notify v = true -> Inv s -> In f (holders s) -> release v s f pick = Some s' ->
  Inv s' /\ pcs s' = pcs s /\ log s' = log s.
Proof.
  intros Hv I Hf. unfold release.
  pose proof (length_rem1 f (holders s) Hf) as HL.
  destruct (cnt s) as [|c] eqn:C; [discriminate|].
  pose proof (r_cnt s I) as RC. rewrite C in RC.
  destruct c as [|c].
  - rewrite Hv. destruct (notify_one (q s) pick) as [[q' gone]|] eqn:N; [|discriminate].
    intros H. inv H. simpl. split; [|auto].
    apply notify_one_spec in N.
    assert (HR : rem1 f (holders s) = []) by (destruct (rem1 f (holders s)); [reflexivity|simpl in HL; lia]).
    destruct I. constructor; simpl; auto; rewrite ?HR; simpl; try contradiction; auto.
    + destruct N as [[_ [-> _]]|[g [Hg [-> _]]]]; [contradiction|].
      intros x Hx. apply In_rem in Hx. apply r_q0. tauto.
    + intros _ Hne. destruct N as [[_ [-> _]]|[g [Hg [-> _]]]]; [congruence|].
      exists g. split; [auto|apply not_In_rem].
  - intros H. inv H. simpl. split; [|auto].
    destruct I. constructor; simpl; auto.
    + intros g Hg. apply r_own0. eapply In_rem1. exact Hg.
    + lia.
    + intros g Hg. apply r_nh0. eapply In_rem1. exact Hg.
    + discriminate.
Qed.

Lemma step_inv v s e s' : good v -> Inv s -> step v s e = Some s' -> Inv s'.
Proof.
  intros [Hn [Hw Ht]] I H. destruct e as [f t|f o]; unfold step in H.
  - destruct (Nat.leb (now s) t) eqn:L; [|discriminate]. cbv zeta in H.
    pose proof (set_now_inv s t I) as I1.
    remember (set_now s t) as s1 eqn:E1. clear E1 I L.
    destruct (pcs s1 f) as [| |tm dl] eqn:PC.
    + some_inv. assumption.
    + destruct (mem f (q s1)) eqn:M; [discriminate|]. some_inv. boolp.
      apply lock_head_inv; auto. intros _. apply lockwait_not_holder; auto. rewrite PC. exact Logic.I.
    + destruct (wait_status f (q s1) (Some dl) t) as [r|] eqn:W; [|discriminate].
      apply wait_status_spec in W.
      assert (HH : ~ In f (holders s1)) by (apply lockwait_not_holder; auto; rewrite PC; exact Logic.I).
      destruct r; some_inv.
      * destruct W as [[_ Hq]|[E _]]; [|discriminate].
        rewrite set_q_rem_id by assumption.
        apply timed_head_inv; simpl; auto.
        -- apply set_sm_inv. assumption.
        -- intros g Hg ->. contradiction.
      * destruct W as [[E _]|[_ [Hin [d [E Hd]]]]]; [discriminate|]. inv E.
        apply add_log_inv; [|simpl; lia].
        change (Inv (set_sm (set_pc (set_q s1 (rem f (q s1))) f Idle) (sm_after (v_sl_guard v) (sm s1) d t))).
        apply set_sm_inv. apply leave_q_inv; assumption.
  - destruct (Nat.eqb f 0); [discriminate|].
    destruct (pcs s f) eqn:PC; try discriminate.
    assert (HQ : ~ In f (q s)) by (apply not_lockwait_not_in_q; auto; rewrite PC; auto).
    destruct o as [| |pick|tm].
    + some_inv. apply lock_head_inv; auto. intros B Hf. apply blocked_true in B.
      apply (r_own s I) in Hf. destruct B. congruence.
    + destruct (blocked s f) eqn:B; some_inv.
      * apply add_log_inv; auto. simpl. apply blocked_true in B. destruct B as [B1 B2].
        pose proof (r_cnt s I) as RC. destruct (holders s) as [|h l] eqn:EH; [simpl in RC; lia|].
        simpl. assert (h = owner s) by (apply (r_own s I); rewrite EH; left; reflexivity).
        subst h. apply Nat.eqb_neq in B2. rewrite B2. reflexivity.
      * apply add_log_inv; [|exact Logic.I]. apply acquire_idle_inv; auto.
    + destruct (mem f (holders s)) eqn:M; [|discriminate]. boolp.
      destruct (release v s f pick) as [s1|] eqn:R; [|discriminate]. some_inv.
      apply release_inv in R; auto. destruct R as [I1 _]. apply add_log_inv; [assumption|exact Logic.I].
    + some_inv. apply timed_head_inv; auto.
      * intros B Hf. apply blocked_true in B. apply (r_own s I) in Hf. destruct B. congruence.
      * intros g Hg ->. contradiction.
Qed.

Lemma run_inv v tr : good v -> forall s s', Inv s -> run v s tr = Some s' -> Inv s'.
Proof.
  intros Hv. induction tr as [|e tr IH]; simpl; intros s s' I H.
  - inv H. assumption.
  - destruct (step v s e) as [s1|] eqn:E; [|discriminate]. eapply IH; [|exact H]. eapply step_inv; eauto.
Qed.

Lemma reach_inv v tr s : good v -> run v init tr = Some s -> Inv s.
Proof. intros Hv H. eapply run_inv; eauto. apply inv_init. Qed.

(* ================================================================== the C18 statements about Rc *)
Definition quiescent (s : st) : Prop := forall g, resumable s g = false.

(* holders_compatible: all outstanding acquisitions belong to one fiber, the recorded owner, and the
   recursion count is their number *)
Lemma holders_compatible s f g : Inv s -> In f (holders s) -> In g (holders s) -> f = g.
Proof. intros I Hf Hg. rewrite (r_own s I f Hf), (r_own s I g Hg). reflexivity. Qed.

Lemma holder_really_holds s f :
  Inv s -> In f (holders s) -> owner s = f /\ cnt s = count_occ Nat.eq_dec (holders s) f /\ cnt s <> 0.
Proof.
  intros I Hf. pose proof (r_own s I) as O. pose proof (r_cnt s I) as C.
  split; [symmetry; auto|]. split.
  - rewrite C. assert (A : forall l, (forall g, In g l -> g = f) -> length l = count_occ Nat.eq_dec l f).
    { induction l as [|x l IH]; simpl; intros H; [reflexivity|].
      destruct (Nat.eq_dec x f) as [E|E]; [f_equal; apply IH; auto|exfalso; apply E; apply H; auto]. }
    apply A. intros g Hg. rewrite (O g Hg). symmetry. auto.
  - rewrite C. destruct (holders s); [contradiction|discriminate].
Qed.

Definition winner (r : res) : option fid :=
  match r with
  | RLock f => Some f
  | RTry f true _ => Some f
  | RTimed f true _ _ => Some f
  | _ => None
  end.

Lemma list_neq_cons {A} (x : A) l : l <> x :: l.
Proof. intro H. apply (f_equal (@length A)) in H. simpl in H. lia. Qed.

Lemma lock_head_winner v s f first r g :
  log (lock_head v s f first) = r :: log s -> winner r = Some g -> In g (holders (lock_head v s f first)).
Proof.
  unfold lock_head. destruct (blocked s f && _); simpl; intros E W.
  - exfalso. exact (list_neq_cons _ _ E).
  - inv E. inv W. left. reflexivity.
Qed.

Lemma timed_head_winner v s f tm first r g :
  log (timed_head v s f tm first) = r :: log s -> winner r = Some g -> In g (holders (timed_head v s f tm first)).
Proof.
  unfold timed_head. destruct (blocked s f && _); [destruct (Nat.leb _ _)|]; simpl; intros E W.
  - inv E. discriminate.
  - exfalso. exact (list_neq_cons _ _ E).
  - inv E. inv W. left. reflexivity.
Qed.

Lemma step_winner v s e s' r g :
  step v s e = Some s' -> log s' = r :: log s -> winner r = Some g -> In g (holders s').
Proof.
  intros H. destruct e as [f t|f o]; unfold step in H.
  - destruct (Nat.leb (now s) t); [|discriminate]. cbv zeta in H.
    assert (EL : log (set_now s t) = log s) by reflexivity.
    remember (set_now s t) as s1 eqn:E1. clear E1. rewrite <- EL. clear EL.
    destruct (pcs s1 f) as [| |tm dl] eqn:PC.
    + some_inv. intros E. exfalso. exact (list_neq_cons _ _ E).
    + destruct (mem f (q s1)); [discriminate|]. some_inv. apply lock_head_winner.
    + destruct (wait_status f (q s1) (Some dl) t) as [[]|]; some_inv.
      * intros E W. eapply timed_head_winner; [exact E|exact W].
      * simpl. intros E W. inv E. discriminate.
  - destruct (Nat.eqb f 0); [discriminate|]. destruct (pcs s f) eqn:PC; try discriminate.
    destruct o as [| |pick|tm].
    + some_inv. apply lock_head_winner.
    + destruct (blocked s f); some_inv; simpl; intros E W; inv E; inv W. left. reflexivity.
    + destruct (mem f (holders s)); [|discriminate]. destruct (release v s f pick) eqn:R; [|discriminate]. some_inv.
      simpl. intros E W. inv E. discriminate.
    + some_inv. apply timed_head_winner.
Qed.

Lemma results_ok s : Inv s -> Forall ok_res (log s).
Proof. apply r_log. Qed.

(* blocked_eventually_woken *)
Lemma blocked_woken s f :
  Inv s -> quiescent s -> pcs s f = InLock -> exists h, In h (holders s) /\ h <> f.
Proof.
  intros I Q P. pose proof (Q f) as R. unfold resumable in R. rewrite P in R. boolp.
  assert (NE : q s <> []) by (intro E; rewrite E in R; contradiction).
  destruct (cnt s) as [|c] eqn:C.
  - destruct (r_wake s I C NE) as [g [Hg Hn]]. pose proof (Q g) as Rg. unfold resumable in Rg.
    destruct (pcs s g); simpl in Hg; try contradiction; [|discriminate]. boolp. contradiction.
  - pose proof (r_cnt s I) as RC. rewrite C in RC. destruct (holders s) as [|h l] eqn:EH; [discriminate|].
    exists h. split; [left; reflexivity|]. intro. subst h.
    assert (X : In f (holders s)) by (rewrite EH; left; reflexivity).
    apply (r_nh s I) in X. congruence.
Qed.
