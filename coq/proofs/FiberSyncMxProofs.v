(* Mutex / TimedMutex / ConditionVariable / sleep: invariant of the Mx machine and the C18 lemmas about it.
   Everything here holds for ALL traces (schedules), any number of fibers, any timeouts. *)
From Coq Require Import List Arith Bool Lia.
Import ListNotations.
From YV Require Import model.FiberSync proofs.FiberSyncLemmas.
Import Mx.

Definition lockwait (p : pc) : Prop := match p with InLock _ | InTimed _ _ => True | _ => False end.

(* a client that holds the mutex is not inside a lock operation or a wait (it may sleep) *)
Definition restful (p : pc) : Prop := match p with Idle | InSleep _ => True | _ => False end.

Definition cont_ok (k : cont) (now : nat) : Prop :=
  match k with
  | KLock => True
  | KCv true _ => True
  | KCv false None => False
  | KCv false (Some d) => d <= now
  end.

(* what the property text demands of every result *)
Definition ok_res (r : res) : Prop :=
  match r with
  | RTry _ false j => j = true                   (* a failed try_lock: somebody else held the mutex *)
  | RTimed _ false dl t => dl <= t               (* a failed timed lock: its deadline has passed *)
  | RCv _ false None _ => False                  (* an untimed wait never reports a timeout *)
  | RCv _ false (Some dl) t => dl <= t           (* a timed wait that reports timeout ends at/after its deadline *)
  | RSleep _ dl t => dl <= t                     (* sleep_until returns at/after its deadline *)
  | _ => True
  end.

Record Inv (s : st) : Prop := {
  i_hold : (holders s = [] /\ occ s = false) \/ (exists h, holders s = [h] /\ occ s = true);
  i_q : forall f, In f (q s) -> lockwait (pcs s f);
  i_cvq : forall f, In f (cvq s) -> exists dl, pcs s f = InCv dl;
  i_wake : occ s = false -> q s <> [] -> exists g, lockwait (pcs s g) /\ ~ In g (q s);
  i_cont : forall f k, pcs s f = InLock k -> cont_ok k (now s);
  i_nh : forall f, In f (holders s) -> restful (pcs s f);
  i_log : Forall ok_res (log s)
}.

Lemma inv_init : Inv init.
Proof.
  constructor; simpl; auto; try contradiction; try congruence; try discriminate.
Qed.

Lemma cont_ok_mono k a b : cont_ok k a -> a <= b -> cont_ok k b.
Proof. destruct k as [|[] [d|]]; simpl; auto. lia. Qed.

(* an idle fiber, or one parked on the condition variable / asleep, is in no lock queue *)
Lemma not_lockwait_not_in_q s f : Inv s -> ~ lockwait (pcs s f) -> ~ In f (q s).
Proof. intros I H J. apply H. apply (i_q s I). exact J. Qed.

Lemma not_cv_not_in_cvq s f : Inv s -> (forall dl, pcs s f <> InCv dl) -> ~ In f (cvq s).
Proof. intros I H J. destruct (i_cvq s I f J) as [dl E]. exact (H dl E). Qed.

Lemma not_restful_not_holder s f : Inv s -> ~ restful (pcs s f) -> ~ In f (holders s).
Proof. intros I H J. apply H. apply (i_nh s I). exact J. Qed.

Ltac pc_goal :=
  intros;
  repeat match goal with
         | H : In _ (_ ++ [_]) |- _ => apply In_app1 in H; destruct H
         | H : In _ (rem _ _) |- _ => apply In_rem in H; destruct H
         | H : In _ (_ :: _) |- _ => destruct H
         | H : _ \/ _ |- _ => destruct H
         | H : _ /\ _ |- _ => destruct H
         end;
  subst; unfold upd in *;
  repeat match goal with
         | |- context [Nat.eqb ?a ?b] => destruct (Nat.eqb_spec a b); subst
         | H : context [Nat.eqb ?a ?b] |- _ => destruct (Nat.eqb_spec a b); subst
         end;
  simpl in *; try contradiction; try congruence; try discriminate; eauto.

(* ---- virtual time moves on *)
Lemma set_now_inv s t : Inv s -> now s <= t -> Inv (set_now s t).
Proof.
  intros I L. destruct I. constructor; simpl; auto.
  intros f k H. eapply cont_ok_mono; eauto.
Qed.

Lemma hold_acquire s f : Inv s -> occ s = false -> exists h, f :: holders s = [h] /\ true = true.
Proof. intros I O. destruct (i_hold s I) as [[H _]|[h [_ H]]]; [rewrite H; eauto|congruence]. Qed.

(* ---- Mutex::lock, from the call or after a wake-up *)
Lemma do_lock_inv s f k :
  Inv s -> ~ In f (q s) -> ~ In f (cvq s) -> ~ In f (holders s) -> cont_ok k (now s) -> Inv (do_lock s f k).
Proof.
  intros I Hq Hc Hh Hk. unfold do_lock. destruct (occ s) eqn:O.
  - (* park *)
    destruct I. constructor; simpl; auto; try solve [pc_goal].
  - (* acquire *)
    pose proof (hold_acquire s f I O) as HA.
    destruct I. constructor; simpl; auto; try solve [pc_goal].
    constructor; [|assumption]. destruct k as [|[] [d|]]; simpl in *; auto.
Qed.

(* ---- TimedMutex::TimedWaitHelper at its test: repaired text, or the first test of either text *)
Lemma timed_head_inv v s f tm first :
  Inv s -> ~ In f (q s) -> ~ In f (cvq s) -> ~ In f (holders s) ->
  first = true \/ v_tm_while v = true -> Inv (timed_head v s f tm first).
Proof.
  intros I Hq Hc Hh Hv. unfold timed_head.
  assert (C : occ s && (first || v_tm_while v) = occ s).
  { destruct Hv as [->| ->]; simpl; rewrite ?orb_true_r, andb_true_r; reflexivity. }
  rewrite C. clear C Hv. destruct (occ s) eqn:O.
  - destruct (Nat.leb (deadline (now s) tm) (now s)) eqn:L.
    + (* Sleep returns at once: timeout *)
      boolp. destruct I. constructor; simpl; auto; try solve [pc_goal].
    + (* park with a deadline *)
      destruct I. constructor; simpl; auto; try solve [pc_goal].
  - (* free: take it *)
    pose proof (hold_acquire s f I O) as HA.
    destruct I. constructor; simpl; auto; try solve [pc_goal].
    constructor; [exact Logic.I|assumption].
Qed.

(* ---- Mutex::unlock by a holder *)
Lemma release_inv s f pick s' :
  Inv s -> In f (holders s) -> release s f pick = Some s' ->
  Inv s' /\ pcs s' = pcs s /\ cvq s' = cvq s /\ now s' = now s /\ log s' = log s /\ occ s' = false /\
  holders s' = [] /\ (forall g, In g (q s') -> In g (q s)).
Proof.
  intros I Hf. unfold release. destruct (notify_one (q s) pick) as [[q' gone]|] eqn:N; [|discriminate].
  intros H. inv H. simpl.
  assert (HR : rem f (holders s) = []).
  { destruct (i_hold s I) as [[H _]|[h [H _]]].
    - rewrite H in Hf. contradiction.
    - rewrite H in *. destruct Hf as [->|[]]. apply rem_single. }
  apply notify_one_spec in N.
  assert (SUB : forall g, In g q' -> In g (q s)).
  { destruct N as [[_ [-> _]]|[g [Hg [-> _]]]]; [contradiction|].
    intros x Hx. apply In_rem in Hx. tauto. }
  split; [|repeat (split; [solve [auto]|]); exact SUB].
  destruct I. constructor; simpl; auto.
  - intros _ Hne. destruct N as [[_ [-> _]]|[g [Hg [-> _]]]]; [congruence|].
    exists g. split; [auto|apply not_In_rem].
  - rewrite HR. contradiction.
Qed.

(* ---- changing the program counter of a fiber that is in no queue and is not the wake-up witness *)
Lemma set_pc_inv s f p :
  Inv s -> ~ In f (q s) -> ~ In f (cvq s) -> ~ lockwait (pcs s f) -> (forall k, p <> InLock k) ->
  (In f (holders s) -> restful p) -> Inv (set_pc s f p).
Proof.
  intros I Hq Hc Hl Hp Hr. destruct I. constructor; simpl; auto; try solve [pc_goal].
  - intros O Hne. destruct (i_wake0 O Hne) as [g [Hg Hn]]. exists g. split; [|assumption].
    rewrite upd_neq; [assumption|]. intro. subst. contradiction.
  - intros g k. unfold upd. destruct (Nat.eqb_spec g f); [intros E; exfalso; exact (Hp k E)|eauto].
Qed.

Lemma add_log_inv s r : Inv s -> ok_res r -> Inv (add_log s r).
Proof. intros I H. destruct I. constructor; simpl; auto. Qed.

Lemma set_sm_inv s m : Inv s -> Inv (set_sm s m).
Proof. intros I. destruct I. constructor; simpl; auto. Qed.

(* a fiber leaves the lock queue by timeout *)
Lemma leave_q_inv s f :
  Inv s -> In f (q s) -> Inv (set_pc (set_q s (rem f (q s))) f Idle).
Proof.
  intros I Hf. destruct I. constructor; simpl; auto; try solve [pc_goal].
  - intros g Hg. rewrite upd_neq; [auto|]. intro. subst.
    destruct (i_cvq0 _ Hg) as [dl E]. specialize (i_q0 _ Hf). rewrite E in i_q0. exact i_q0.
  - intros O Hne. assert (Q : q s <> []) by (intro E; rewrite E in Hf; contradiction).
    destruct (i_wake0 O Q) as [g [Hg Hn]]. exists g. split.
    + rewrite upd_neq; [assumption|]. intro. subst. contradiction.
    + rewrite In_rem. tauto.
Qed.

(* a notified waiter is dequeued already: rem is the identity *)
Lemma set_q_rem_id s f : ~ In f (q s) -> set_q s (rem f (q s)) = s.
Proof. intros H. unfold set_q. rewrite rem_not_In by assumption. destruct s; reflexivity. Qed.
Lemma set_cvq_rem_id s f : ~ In f (cvq s) -> set_cvq s (rem f (cvq s)) = s.
Proof. intros H. unfold set_cvq. rewrite rem_not_In by assumption. destruct s; reflexivity. Qed.

(* the condition variable queue shrinks *)
Lemma set_cvq_sub_inv s l : Inv s -> (forall g, In g l -> In g (cvq s)) -> Inv (set_cvq s l).
Proof. intros I H. destruct I. constructor; simpl; auto. Qed.

Lemma cv_park_inv s f dl :
  Inv s -> ~ In f (q s) -> ~ lockwait (pcs s f) -> ~ In f (holders s) ->
  Inv (set_pc (set_cvq s (cvq s ++ [f])) f (InCv dl)).
Proof.
  intros I Hq Hl Hh. destruct I. constructor; simpl; auto; try solve [pc_goal].
  - intros O Hne. destruct (i_wake0 O Hne) as [g [Hg Hn]]. exists g. split; [|assumption].
    rewrite upd_neq; [assumption|]. intro. subst. contradiction.
Qed.

Lemma acquire_inv s f : Inv s -> occ s = false -> pcs s f = Idle -> Inv (acquire s f).
Proof.
  intros I O P. pose proof (hold_acquire s f I O) as HA.
  destruct I. constructor; simpl; auto; try solve [pc_goal].
  intros g [<-|Hg]; [rewrite P; exact Logic.I|auto].
Qed.

Lemma idle_facts s f :
  Inv s -> pcs s f = Idle -> ~ In f (q s) /\ ~ In f (cvq s) /\ ~ lockwait (pcs s f).
Proof.
  intros I P. repeat split.
  - apply not_lockwait_not_in_q; auto. rewrite P. auto.
  - apply not_cv_not_in_cvq; auto. intros d. rewrite P. discriminate.
  - rewrite P. auto.
Qed.

(* no fiber is inside a timed lock operation: the plain Mutex / ConditionVariable fragment *)
Definition notimed (s : st) : Prop := forall f tm dl, pcs s f <> InTimed tm dl.
Definition untimed (e : ev) : Prop := match e with EOp _ (OTimed _) => False | _ => True end.

(* ---- one step: for the repaired TimedWaitHelper, or for any text as long as no timed lock is used *)
Lemma step_inv v s e s' :
  v_tm_while v = true \/ notimed s -> Inv s -> step v s e = Some s' -> Inv s'.
Proof.
  intros Hv I H. destruct e as [f t|f o]; unfold step in H.
  - (* ERun *)
    destruct (Nat.leb (now s) t) eqn:L; [|discriminate]. boolp. cbv zeta in H.
    pose proof (set_now_inv s t I L) as I1.
    assert (N : now (set_now s t) = t) by reflexivity.
    assert (Hv1 : v_tm_while v = true \/ notimed (set_now s t)) by exact Hv.
    remember (set_now s t) as s1 eqn:E1. clear E1 I L Hv.
    destruct (pcs s1 f) as [|k|tm dl|dl|dl] eqn:PC.
    + some_inv. assumption.
    + destruct (mem f (q s1)) eqn:M; [discriminate|]. some_inv. boolp.
      apply do_lock_inv; auto.
      * apply not_cv_not_in_cvq; auto. intros d. rewrite PC. discriminate.
      * apply not_restful_not_holder; auto. rewrite PC. auto.
      * eapply (i_cont s1 I1). exact PC.
    + destruct (wait_status f (q s1) (Some dl) t) as [r|] eqn:W; [|discriminate].
      apply wait_status_spec in W.
      assert (HC : ~ In f (cvq s1)) by (apply not_cv_not_in_cvq; auto; intros d; rewrite PC; discriminate).
      assert (HH : ~ In f (holders s1)) by (apply not_restful_not_holder; auto; rewrite PC; auto).
      destruct r; some_inv.
      * destruct W as [[_ Hn]|[E _]]; [|discriminate].
        rewrite set_q_rem_id by assumption.
        destruct Hv1 as [Hv1|Hv1]; [|exfalso; exact (Hv1 _ _ _ PC)].
        apply timed_head_inv; simpl; auto. apply set_sm_inv. assumption.
      * destruct W as [[E _]|[_ [Hin [d [E Hd]]]]]; [discriminate|]. inv E.
        apply add_log_inv; [|simpl; lia].
        change (Inv (set_sm (set_pc (set_q s1 (rem f (q s1))) f Idle) (sm_after (v_sl_guard v) (sm s1) d (now s1)))).
        apply set_sm_inv. apply leave_q_inv; assumption.
    + destruct (wait_status f (cvq s1) dl t) as [r|] eqn:W; [|discriminate]. some_inv.
      apply wait_status_spec in W.
      apply do_lock_inv; simpl.
      * apply set_sm_inv. apply set_cvq_sub_inv; [assumption|]. intros g Hg. apply In_rem in Hg. tauto.
      * apply not_lockwait_not_in_q; auto. rewrite PC. auto.
      * apply not_In_rem.
      * apply not_restful_not_holder; auto. rewrite PC. auto.
      * destruct W as [[-> _]|[-> [_ [d [-> Hd]]]]]; simpl; [auto|lia].
    + destruct (fired dl t) eqn:F; [|discriminate]. some_inv. unfold fired in F. boolp.
      apply add_log_inv; [|simpl; lia].
      apply set_pc_inv; auto.
      * apply not_lockwait_not_in_q; auto. rewrite PC. auto.
      * apply not_cv_not_in_cvq; auto. intros d. rewrite PC. discriminate.
      * rewrite PC. auto.
      * discriminate.
      * intros _. exact Logic.I.
  - (* EOp *)
    destruct (pcs s f) eqn:PC; try discriminate.
    destruct (idle_facts s f I PC) as [HQ [HC HL]].
    destruct o as [| |pick|tm|tm pick|pick| |dl].
    + (* lock *)
      destruct (mem f (holders s)) eqn:M; [discriminate|]. some_inv. boolp.
      apply do_lock_inv; simpl; auto.
    + (* try_lock *)
      destruct (mem f (holders s)) eqn:M; [discriminate|]. boolp.
      destruct (occ s) eqn:O; some_inv.
      * apply add_log_inv; auto. simpl.
        destruct (i_hold s I) as [[_ E]|[h [E _]]]; [congruence|rewrite E; reflexivity].
      * apply add_log_inv; [|exact Logic.I]. apply acquire_inv; auto.
    + (* unlock *)
      destruct (mem f (holders s)) eqn:M; [|discriminate]. boolp.
      destruct (release s f pick) as [s1|] eqn:R; [|discriminate]. some_inv.
      apply release_inv in R; auto. destruct R as [I1 _].
      apply add_log_inv; [assumption|exact Logic.I].
    + (* try_lock_for / until *)
      destruct (mem f (holders s)) eqn:M; [discriminate|]. some_inv. boolp.
      apply timed_head_inv; auto.
    + (* cv wait *)
      destruct (mem f (holders s)) eqn:M; [|discriminate]. boolp.
      destruct (release s f pick) as [s1|] eqn:R; [|discriminate].
      apply release_inv in R; auto.
      destruct R as [I1 [P1 [C1 [N1 [L1 [O1 [H1 SUB]]]]]]].
      assert (HQ1 : ~ In f (q s1)) by (intro X; apply HQ; auto).
      assert (HC1 : ~ In f (cvq s1)) by (rewrite C1; assumption).
      assert (HL1 : ~ lockwait (pcs s1 f)) by (rewrite P1; assumption).
      assert (HH1 : ~ In f (holders s1)) by (rewrite H1; auto).
      destruct tm as [tm|]; some_inv.
      * destruct (Nat.leb (deadline (now s1) tm) (now s1)) eqn:D; some_inv; boolp.
        -- apply do_lock_inv; simpl; auto. apply set_sm_inv. assumption.
        -- change (Inv (set_sm (set_pc (set_cvq s1 (cvq s1 ++ [f])) f (InCv (Some (deadline (now s1) tm))))
                               (sm_sleep (sm s1) (deadline (now s1) tm) f))).
           apply set_sm_inv. apply cv_park_inv; auto.
      * apply cv_park_inv; auto.
    + (* notify_one *)
      destruct (notify_one (cvq s) pick) as [[l gone]|] eqn:NO; [|discriminate]. some_inv.
      apply add_log_inv; [|exact Logic.I]. apply set_sm_inv. apply set_cvq_sub_inv; [assumption|].
      apply notify_one_spec in NO. destruct NO as [[_ [-> _]]|[g [_ [-> _]]]]; [contradiction|].
      intros x Hx. apply In_rem in Hx. tauto.
    + (* notify_all *)
      some_inv. apply add_log_inv; [|exact Logic.I]. apply set_sm_inv. apply set_cvq_sub_inv; [assumption|].
      contradiction.
    + (* sleep *)
      destruct (Nat.leb dl (now s)) eqn:D; some_inv; boolp.
      * apply add_log_inv; [assumption|simpl; assumption].
      * change (Inv (set_sm (set_pc s f (InSleep dl)) (sm_sleep (sm s) dl f))).
        apply set_sm_inv. apply set_pc_inv; auto; [discriminate|intros _; exact Logic.I].
Qed.

Lemma run_inv v tr : v_tm_while v = true -> forall s s', Inv s -> run v s tr = Some s' -> Inv s'.
Proof.
  intros Hv. induction tr as [|e tr IH]; simpl; intros s s' I H.
  - inv H. assumption.
  - destruct (step v s e) as [s1|] eqn:E; [|discriminate]. eapply IH; [|exact H]. eapply step_inv; eauto.
Qed.

Lemma reach_inv v tr s : v_tm_while v = true -> run v init tr = Some s -> Inv s.
Proof. intros Hv H. eapply run_inv; eauto. apply inv_init. Qed.

(* ---- the untimed fragment keeps [notimed] *)
Lemma do_lock_notimed s f k : notimed s -> notimed (do_lock s f k).
Proof.
  intros H g tm dl. unfold do_lock. destruct (occ s); simpl; unfold upd; destruct (Nat.eqb g f); try discriminate; apply H.
Qed.

Lemma step_notimed v s e s' : notimed s -> untimed e -> step v s e = Some s' -> notimed s'.
Proof.
  intros HN HU H. destruct e as [f t|f o]; unfold step in H.
  - destruct (Nat.leb (now s) t); [|discriminate]. cbv zeta in H.
    assert (HN1 : notimed (set_now s t)) by exact HN.
    remember (set_now s t) as s1 eqn:E1. clear E1 HN.
    destruct (pcs s1 f) as [|k|tm dl|dl|dl] eqn:PC.
    + some_inv. assumption.
    + destruct (mem f (q s1)); [discriminate|]. some_inv. apply do_lock_notimed. assumption.
    + exfalso. exact (HN1 _ _ _ PC).
    + destruct (wait_status f (cvq s1) dl t); [|discriminate]. some_inv. apply do_lock_notimed.
      intros g tm d. simpl. apply HN1.
    + destruct (fired dl t); [|discriminate]. some_inv. intros g tm d. simpl. unfold upd.
      destruct (Nat.eqb g f); [discriminate|apply HN1].
  - destruct (pcs s f) eqn:PC; try discriminate.
    destruct o as [| |pick|tm|tm pick|pick| |dl]; simpl in HU; try contradiction.
    + destruct (mem f (holders s)); [discriminate|]. some_inv. apply do_lock_notimed. assumption.
    + destruct (mem f (holders s)); [discriminate|]. destruct (occ s); some_inv; intros g tm d; simpl; apply HN.
    + destruct (mem f (holders s)); [|discriminate]. unfold release in H.
      destruct (notify_one (q s) pick) as [[q' gone]|]; [|discriminate]. some_inv. intros g tm d. simpl. apply HN.
    + destruct (mem f (holders s)); [|discriminate]. unfold release in H.
      destruct (notify_one (q s) pick) as [[q' gone]|]; [|discriminate].
      destruct tm as [tm|]; [destruct (Nat.leb _ _)|]; some_inv.
      * apply do_lock_notimed. intros g tm' d. simpl. apply HN.
      * intros g tm' d. simpl. unfold upd. destruct (Nat.eqb g f); [discriminate|apply HN].
      * intros g tm' d. simpl. unfold upd. destruct (Nat.eqb g f); [discriminate|apply HN].
    + destruct (notify_one (cvq s) pick) as [[l gone]|]; [|discriminate]. some_inv. intros g tm d. simpl. apply HN.
    + some_inv. intros g tm d. simpl. apply HN.
    + destruct (Nat.leb dl (now s)); some_inv; intros g tm d; simpl; [apply HN|].
      unfold upd. destruct (Nat.eqb g f); [discriminate|apply HN].
Qed.

Lemma run_inv_untimed v tr :
  Forall untimed tr -> forall s s', Inv s -> notimed s -> run v s tr = Some s' -> Inv s' /\ notimed s'.
Proof.
  induction tr as [|e tr IH]; simpl; intros HU s s' I HN H.
  - inv H. auto.
  - inv HU. destruct (step v s e) as [s1|] eqn:E; [|discriminate].
    apply (IH H3 s1 s'); [| |exact H].
    + eapply step_inv; eauto.
    + eapply step_notimed; eauto.
Qed.

Lemma reach_inv_untimed v tr s : Forall untimed tr -> run v init tr = Some s -> Inv s.
Proof.
  intros HU H. eapply run_inv_untimed; eauto; [apply inv_init|]. intros f tm dl. discriminate.
Qed.

(* ================================================================== the C18 statements about Mx *)

Definition quiescent (s : st) : Prop := forall g, resumable s g = false.

(* holders_compatible + the concrete flag agrees with the clients' belief *)
Lemma holders_compatible s : Inv s -> length (holders s) <= 1.
Proof. intros I. destruct (i_hold s I) as [[-> _]|[h [-> _]]]; simpl; lia. Qed.

Lemma holder_really_holds s f : Inv s -> In f (holders s) -> holders s = [f] /\ occ s = true.
Proof.
  intros I H. destruct (i_hold s I) as [[E _]|[h [E O]]]; rewrite E in *; [contradiction|].
  destruct H as [->|[]]. auto.
Qed.

Lemma free_iff_no_holder s : Inv s -> (occ s = false <-> holders s = []).
Proof.
  intros I. destruct (i_hold s I) as [[E O]|[h [E O]]]; rewrite E, O; split; congruence.
Qed.

(* the fiber a result entry reports a successful acquisition for *)
Definition winner (r : res) : option fid :=
  match r with
  | RLock f => Some f
  | RTry f true _ => Some f
  | RTimed f true _ _ => Some f
  | RCv f _ _ _ => Some f            (* wait returns with the mutex re-acquired *)
  | _ => None
  end.

Lemma list_neq_cons {A} (x : A) l : l <> x :: l.
Proof. intro H. apply (f_equal (@length A)) in H. simpl in H. lia. Qed.

Lemma do_lock_winner s f k r g :
  log (do_lock s f k) = r :: log s -> winner r = Some g -> In g (holders (do_lock s f k)).
Proof.
  unfold do_lock. destruct (occ s); simpl; intros E W.
  - exfalso. exact (list_neq_cons _ _ E).
  - inv E. destruct k; simpl in W; inv W; left; reflexivity.
Qed.

Lemma timed_head_winner v s f tm first r g :
  log (timed_head v s f tm first) = r :: log s -> winner r = Some g -> In g (holders (timed_head v s f tm first)).
Proof.
  unfold timed_head. destruct (occ s && (first || v_tm_while v)); [destruct (Nat.leb _ _)|]; simpl; intros E W.
  - inv E. discriminate.
  - exfalso. exact (list_neq_cons _ _ E).
  - inv E. inv W. left. reflexivity.
Qed.

(* whenever a step reports that f acquired the mutex, f is a holder afterwards *)
Lemma step_winner v s e s' r g :
  step v s e = Some s' -> log s' = r :: log s -> winner r = Some g -> In g (holders s').
Proof.
  intros H. destruct e as [f t|f o]; unfold step in H.
  - destruct (Nat.leb (now s) t); [|discriminate]. cbv zeta in H.
    assert (EL : log (set_now s t) = log s) by reflexivity.
    remember (set_now s t) as s1 eqn:E1. clear E1. rewrite <- EL. clear EL.
    destruct (pcs s1 f) as [|k|tm dl|dl|dl] eqn:PC.
    + some_inv. intros E. exfalso. exact (list_neq_cons _ _ E).
    + destruct (mem f (q s1)); [discriminate|]. some_inv. apply do_lock_winner.
    + destruct (wait_status f (q s1) (Some dl) t) as [[]|]; some_inv.
      * intros E W. eapply timed_head_winner; [exact E|exact W].
      * simpl. intros E W. inv E. discriminate.
    + destruct (wait_status f (cvq s1) dl t); [|discriminate]. some_inv.
      intros E W. eapply do_lock_winner; [exact E|exact W].
    + destruct (fired dl t); [|discriminate]. some_inv. simpl. intros E W. inv E. discriminate.
  - destruct (pcs s f) eqn:PC; try discriminate.
    destruct o as [| |pick|tm|tm pick|pick| |dl].
    + destruct (mem f (holders s)); [discriminate|]. some_inv. apply do_lock_winner.
    + destruct (mem f (holders s)); [discriminate|]. destruct (occ s); some_inv; simpl; intros E W; inv E; inv W.
      left. reflexivity.
    + destruct (mem f (holders s)); [|discriminate]. destruct (release s f pick); [|discriminate]. some_inv.
      simpl. intros E W. inv E. discriminate.
    + destruct (mem f (holders s)); [discriminate|]. some_inv. apply timed_head_winner.
    + destruct (mem f (holders s)); [|discriminate]. unfold release in H.
      destruct (notify_one (q s) pick) as [[q' gone]|]; [|discriminate].
      destruct tm as [tm|]; [destruct (Nat.leb _ _)|]; some_inv.
      * intros E W. eapply do_lock_winner; [exact E|exact W].
      * simpl. intros E. exfalso. exact (list_neq_cons _ _ E).
      * simpl. intros E. exfalso. exact (list_neq_cons _ _ E).
    + destruct (notify_one (cvq s) pick) as [[l gone]|]; [|discriminate]. some_inv. simpl. intros E W. inv E. discriminate.
    + some_inv. simpl. intros E W. inv E. discriminate.
    + destruct (Nat.leb dl (now s)); some_inv; simpl; intros E W; [inv E; discriminate|].
      exfalso. exact (list_neq_cons _ _ E).
Qed.

(* blocked_eventually_woken: in a quiescent state nobody is parked in lock() on a mutex that no client holds *)
Lemma blocked_woken s f k :
  Inv s -> quiescent s -> pcs s f = InLock k -> exists h, holders s = [h] /\ h <> f.
Proof.
  intros I Q P. pose proof (Q f) as R. unfold resumable in R. rewrite P in R. boolp.
  assert (NE : q s <> []) by (intro E; rewrite E in R; contradiction).
  destruct (occ s) eqn:O.
  - destruct (i_hold s I) as [[_ E]|[h [E _]]]; [congruence|]. exists h. split; [assumption|].
    intro. subst h. assert (X : In f (holders s)) by (rewrite E; left; reflexivity).
    apply (i_nh s I) in X. rewrite P in X. exact X.
  - destruct (i_wake s I O NE) as [g [Hg Hn]]. pose proof (Q g) as Rg. unfold resumable in Rg.
    destruct (pcs s g); simpl in Hg; try contradiction; [|discriminate].
    boolp. contradiction.
Qed.

(* notify_wakes_blocked_waiter *)
Lemma cv_waiter_resumable s w l : Inv s -> In w (cvq s) -> ~ In w l -> forall s', pcs s' = pcs s -> cvq s' = l -> resumable s' w = true.
Proof.
  intros I Hw Hn s' P C. destruct (i_cvq s I w Hw) as [dl E]. unfold resumable. rewrite P, E, C.
  destruct dl; [reflexivity|]. apply negb_true_iff. apply mem_false. assumption.
Qed.

Lemma notify_one_wakes v s f pick s' :
  Inv s -> step v s (EOp f (ONotifyOne pick)) = Some s' -> cvq s <> [] ->
  exists w, In w (cvq s) /\ (exists dl, pcs s w = InCv dl) /\ ~ In w (cvq s') /\ resumable s' w = true.
Proof.
  intros I H NE. unfold step in H. destruct (pcs s f); try discriminate.
  destruct (notify_one (cvq s) pick) as [[l gone]|] eqn:NO; [|discriminate]. some_inv.
  apply notify_one_spec in NO. destruct NO as [[E _]|[w [Hw [-> _]]]]; [congruence|].
  exists w. split; [assumption|]. split; [apply (i_cvq s I); assumption|]. split; [simpl; apply not_In_rem|].
  eapply cv_waiter_resumable; eauto. apply not_In_rem.
Qed.

Lemma notify_one_enabled v s f pick :
  pcs s f = Idle -> pick < length (cvq s) -> exists s', step v s (EOp f (ONotifyOne pick)) = Some s'.
Proof.
  intros P L. unfold step. rewrite P. destruct (cvq s) as [|x l] eqn:E; [simpl in L; lia|].
  destruct (notify_one_total (x :: l) pick) as [g [-> _]]; [discriminate|assumption|]. eauto.
Qed.

Lemma notify_all_wakes v s f s' :
  Inv s -> step v s (EOp f ONotifyAll) = Some s' ->
  cvq s' = [] /\ forall w, In w (cvq s) -> (exists dl, pcs s w = InCv dl) /\ resumable s' w = true.
Proof.
  intros I H. unfold step in H. destruct (pcs s f); try discriminate. some_inv. split; [reflexivity|].
  intros w Hw. split; [apply (i_cvq s I); assumption|].
  eapply (cv_waiter_resumable s w []); eauto.
Qed.

(* every fiber blocked in an untimed wait is in the queue a notify looks at, or has been notified already *)
Lemma cv_blocked_in_queue s f : pcs s f = InCv None -> resumable s f = false -> In f (cvq s).
Proof. intros P R. unfold resumable in R. rewrite P in R. boolp. assumption. Qed.

(* try_failure_justified / timed_wait_not_early, over the whole history *)
Lemma results_ok s : Inv s -> Forall ok_res (log s).
Proof. apply i_log. Qed.
