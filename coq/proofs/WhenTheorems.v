(* The facts the C09 / C10 theorems are made of, derived from the invariant (proofs/WhenInv.v). *)
From Coq Require Import List Arith Bool NArith Lia.
Import ListNotations.
From YV Require Import model.When proofs.WhenProofs proofs.WhenProofs2 proofs.WhenProofs3 proofs.WhenProofs4
  proofs.WhenProofs5 proofs.WhenInv.

Local Arguments store_slot : simpl never.

Definition reach (g : strat) (k : nat) (s : st) : Prop := exists tr, run (init g k) tr = Some s.

Lemma run_static tr : forall s0 s, run s0 tr = Some s -> sg s = sg s0 /\ n s = n s0.
Proof.
  induction tr as [|e tr IH]; simpl; intros s0 s H.
  - inv H. auto.
  - destruct (step s0 e) as [s1|] eqn:Es; [|discriminate].
    destruct (IH _ _ H). destruct (step_static _ _ _ Es). split; congruence.
Qed.

Lemma reach_inv g k s : k > 0 -> fits g k -> reach g k s -> Inv s /\ IP s /\ sg s = g /\ n s = k.
Proof.
  intros Hk Hf (tr & H). destruct (run_static _ _ _ H) as (E1 & E2).
  split; [eapply Inv_reach; eauto|split; [eapply IP_reach; eauto|split; assumption]].
Qed.

(* ---- exactly once --------------------------------------------------------------------------------- *)

Lemma once s : Inv s -> IP s ->
  length (outs s) <= 1 /\ (terminal s = true -> length (outs s) = 1) /\ crashed s = false.
Proof.
  intros V P. pose proof (vo _ V) as J. split; [|split].
  - destruct (o_len _ J) as [E|(o & E)]; rewrite E; simpl; lia.
  - intros Ht. unfold terminal in Ht. repeat (apply andb_true_iff in Ht; destruct Ht as (Ht & ?)).
    apply Nat.eqb_eq in H. pose proof (o_deleted _ J H) as Hne.
    destruct (o_len _ J) as [E|(o & E)]; [contradiction|]. rewrite E. reflexivity.
  - exact (p_crash _ P).
Qed.

Lemma outs_step s e s' : step s e = Some s' -> exists l, outs s' = outs s ++ l.
Proof.
  intros H.
  assert (Hq : match e with ESetOut _ | EPublish _ => False | _ => True end -> exists l, outs s' = outs s ++ l).
  { intros He. destruct (step_quiet _ _ _ H He) as (E & _). exists []. rewrite app_nil_r. exact E. }
  destruct e; try (apply Hq; exact Logic.I); clear Hq.
  - start H i x Hx. case_step H; inv H; simpl; eauto.
  - start H i x Hx. case_step H; inv H; simpl; eauto.
Qed.

Lemma outs_run tr : forall s s', run s tr = Some s' -> exists l, outs s' = outs s ++ l.
Proof.
  induction tr as [|e tr IH]; simpl; intros s s' H.
  - inv H. exists []. rewrite app_nil_r. reflexivity.
  - destruct (step s e) as [s1|] eqn:E; [|discriminate].
    destruct (outs_step _ _ _ E) as (l1 & E1). destruct (IH _ _ H) as (l2 & E2).
    exists (l1 ++ l2). rewrite E2, E1, app_assoc. reflexivity.
Qed.

Lemma later_no_effect s tr s' o : Inv s -> outs s = [o] -> run s tr = Some s' -> outs s' = [o].
Proof.
  intros V Ho H. pose proof (Inv_run _ _ _ V H) as V'. destruct (outs_run _ _ _ H) as (l & E).
  rewrite Ho in E. destruct (o_len _ (vo _ V')) as [E'|(o' & E')]; rewrite E' in E; simpl in E.
  - discriminate.
  - injection E as E1 E2. subst o'. exact E'.
Qed.

(* ---- set by the destructor: when, and what -------------------------------------------------------- *)

Lemma set_by_destructor s o : Inv s -> outs s = [o] -> odtor o = true ->
  dt s = Some (oby o) /\ count s = 0 /\ deleted s = 1 /\ win s = None /\
  forall j x, nth_error (ins s) j = Some x -> ipc x = PFin.
Proof.
  intros V Ho Hd. assert (Hin : In o (outs s)) by (rewrite Ho; left; reflexivity).
  destruct (o_dtor _ (vo _ V) _ Hin Hd) as (Hdt & Hw & Hdel).
  destruct (deleted_all_fin _ V Hdel) as (d & Hdt' & Hc & Hall). auto.
Qed.

Lemma firstn_all_len {A} (l : list A) m : m = length l -> firstn m l = l.
Proof. intros ->. apply firstn_all. Qed.

Lemma dtor_content s o : Inv s -> IP s -> outs s = [o] -> odtor o = true ->
  match sg s with
  | SAllNone | STupNone => oval o = OVec (map ires (ins s))
  | SAllFF | STupFF =>
      oval o = OVec (map ires (ins s)) /\ forall j x, nth_error (ins s) j = Some x -> ovalue (ires x) = true
  | SJoinNone => oval o = OUnit
  | SJoinFF => oval o = OUnit /\ forall j x, nth_error (ins s) j = Some x -> ovalue (ires x) = true
  | SAnyFF => exists f y, nth_error (ins s) f = Some y /\ oval o = OOne (ires y) /\ ofailing (ires y) = true /\
                          hd_error (elog s) = Some f /\
                          forall j x, nth_error (ins s) j = Some x -> ofailing (ires x) = true
  | SAnyNone | SAnyLF => False
  end.
Proof.
  intros V P Ho Hd. destruct (set_by_destructor _ _ V Ho Hd) as (Hdt & Hc & Hdel & Hw & Hall).
  assert (Hin : In o (outs s)) by (rewrite Ho; left; reflexivity).
  pose proof (p_pub _ P _ Hin Hd) as Hv. pose proof (unelected_all_ended _ V Hw Hc) as Hu.
  pose proof (v1 _ V) as I. pose proof (v2 _ V) as I2.
  assert (Hacc : owned (sg s) = true -> acc s = map ires (ins s)).
  { intros Hown. rewrite (i2_acc _ I2). rewrite (p_len _ P _ Hin Hd Hown).
    rewrite firstn_all_len; auto. symmetry. apply (i_len _ I). }
  assert (Hslots : forall g, sg s = g ->
            (forall x, ipc x = PFin -> (forall j, nth_error (ins s) j = Some x -> True) -> True) -> True) by auto.
  assert (Hsl : (forall j x, nth_error (ins s) j = Some x -> slot_val (sg s) x = ires x) -> slots s = map ires (ins s)).
  { intros Hsv. apply list_ext.
    - rewrite (i2_slen _ I2), map_length. symmetry. apply (i_len _ I).
    - intros j Hj. rewrite (i2_slen _ I2), <- (i_len _ I) in Hj.
      destruct (nth_error (ins s) j) as [x|] eqn:Hx; [|apply nth_error_None in Hx; lia].
      rewrite (l2_slot _ _ _ _ _ (i2_loc _ I2 _ _ Hx)), (Hsv _ _ Hx).
      symmetry. apply map_nth_error. exact Hx. }
  unfold publish_content in Hv.
  destruct (sg s) eqn:Hg; simpl in Hv; auto.
  - rewrite Hv, Hacc; auto.
  - split; auto. rewrite Hv, Hacc; auto.
  - rewrite Hv, Hsl; auto. intros j x Hx. simpl. rewrite (Hall _ _ Hx). reflexivity.
  - split; auto. rewrite Hv, Hsl; auto. intros j x Hx. simpl. rewrite (Hall _ _ Hx), (Hu _ _ Hx). reflexivity.
  - destruct Hu as (f & y & Hf & Hy & Hs & Hfy & Hh & Hallf). exists f, y. repeat split; auto. congruence.
Qed.

(* ---- set inside a consume step: by whom ----------------------------------------------------------- *)

Lemma set_in_consume s o : Inv s -> outs s = [o] -> odtor o = false ->
  exists x, win s = Some (oby o) /\ nth_error (ins s) (oby o) = Some x /\ oval o = OOne (ires x) /\
            post_set (ipc x) = true /\
    match sg s with
    | SAllFF | SJoinFF | STupFF => ofailing (ires x) = true /\ hd_error (elog s) = Some (oby o)
    | SAnyNone => hd_error (elog s) = Some (oby o)
    | SAnyFF => ovalue (ires x) = true /\ find (val_at s) (elog s) = Some (oby o)
    | SAnyLF =>
        (ovalue (ires x) = true /\ find (val_at s) (elog s) = Some (oby o)) \/
        (ofailing (ires x) = true /\ state s = 0%N /\ (exists rest, elog s = rest ++ [oby o]) /\
         forall j y, nth_error (ins s) j = Some y -> ofailing (ires y) = true)
    | _ => False
    end.
Proof.
  intros V Ho Hd. assert (Hin : In o (outs s)) by (rewrite Ho; left; reflexivity).
  destruct (o_cons _ (vo _ V) _ Hin Hd) as (x & Hw & Hx & Hv & Hp).
  exists x. repeat split; auto.
  pose proof (vf _ V) as F. unfold fam in F. pose proof (v1 _ V) as I.
  assert (Hdone : IFd s -> exists w, win s = Some w /\ hd_error (elog s) = Some w /\ (is_ff (sg s) = true -> fail_at s w = true)).
  { intros D. destruct (done s) eqn:Hdn; [apply (d_true _ D Hdn)|].
    destruct (d_false _ D Hdn) as (Hw' & _). congruence. }
  destruct (sg s) eqn:Hg.
  - congruence.
  - destruct (Hdone F) as (w & Hw' & Hh & Hf). assert (w = oby o) by congruence. subst w.
    split; auto. specialize (Hf eq_refl). unfold fail_at in Hf. rewrite Hx in Hf. exact Hf.
  - congruence.
  - destruct (Hdone F) as (w & Hw' & Hh & Hf). assert (w = oby o) by congruence. subst w.
    split; auto. specialize (Hf eq_refl). unfold fail_at in Hf. rewrite Hx in Hf. exact Hf.
  - congruence.
  - destruct (Hdone F) as (w & Hw' & Hh & Hf). assert (w = oby o) by congruence. subst w.
    split; auto. specialize (Hf eq_refl). unfold fail_at in Hf. rewrite Hx in Hf. exact Hf.
  - destruct (Hdone F) as (w & Hw' & Hh & Hf). congruence.
  - destruct (N.eq_dec (state s) 2) as [H2|H2].
    + destruct (f_two _ F H2) as (w & Hw' & Hvw & Hfw). assert (w = oby o) by congruence. subst w.
      unfold val_at in Hvw. rewrite Hx in Hvw. auto.
    + destruct (f_not2 _ F H2) as (Hw' & _). congruence.
  - destruct (N.odd (state s)) eqn:Hodd.
    + destruct (a_odd _ F Hodd) as (w & Hw' & Hvw & Hfw). assert (w = oby o) by congruence. subst w.
      unfold val_at in Hvw. rewrite Hx in Hvw. left. auto.
    + destruct (a_even _ F Hodd) as (B1 & B2 & B3 & B4 & B5 & B6).
      destruct (N.eq_dec (state s) 0) as [H0|H0]; [|rewrite (B5 H0) in Hw; discriminate].
      destruct (B6 H0) as (w & rest & Hw' & Hfw & He). assert (w = oby o) by congruence. subst w.
      unfold fail_at in Hfw. rewrite Hx in Hfw. right. repeat split; eauto.
      intros j y Hy.
      assert (Hns : cnt subbed (ins s) = length (ins s)).
      { pose proof (cnt_le subbed (ins s)). rewrite H0 in B1. unfold nsub in B1. rewrite (i_len _ I) in *. lia. }
      pose proof (cnt_all subbed (ins s) Hns _ _ Hy) as Hs. unfold subbed in Hs.
      apply andb_true_iff in Hs. tauto.
Qed.

(* ---- inputs: consumed and released exactly once ------------------------------------------------- *)

Lemma released s : Inv s -> forall j x, nth_error (ins s) j = Some x ->
  ifree x <= 1 /\ icons x <= 1 /\ (terminal s = true -> ifree x = 1 /\ icons x = 1).
Proof.
  intros V j x Hx. pose proof (v1 _ V) as I. pose proof (v2 _ V) as I2.
  pose proof (l_cons _ _ _ _ _ _ _ _ (i_loc _ I _ _ Hx)) as Hc.
  pose proof (l2_free _ _ _ _ _ (i2_loc _ I2 _ _ Hx)) as Hf.
  split; [|split].
  - rewrite Hf. destruct (owned (sg s)), (j <? dprog s), (post_free (ipc x)); lia.
  - rewrite Hc. destruct (begun (ipc x)); lia.
  - intros Ht. unfold terminal in Ht. repeat (apply andb_true_iff in Ht; destruct Ht as (Ht & ?)).
    apply Nat.eqb_eq in H. destruct (deleted_all_fin _ V H) as (d & Hdt & Hc0 & Hall).
    rewrite (Hall _ _ Hx) in *. simpl in *. split; auto.
    rewrite Hf. destruct (owned (sg s)) eqn:Hown; auto.
    assert (Hdp : dprog s = n s).
    { destruct (i_dt_some _ I _ Hdt) as (_ & Hlt). rewrite <- (i_len _ I) in Hlt.
      destruct (nth_error (ins s) d) as [y|] eqn:Hy; [|apply nth_error_None in Hy; lia].
      destruct (l_dt _ _ _ _ _ _ _ _ (i_loc _ I _ _ Hy) Hdt) as (_ & _ & Hdp).
      apply Hdp; auto. rewrite (Hall _ _ Hy). reflexivity. }
    pose proof (nth_lt _ _ _ Hx) as Hlt. rewrite (i_len _ I) in Hlt.
    assert (E : j <? dprog s = true) by (apply Nat.ltb_lt; lia). rewrite E. reflexivity.
Qed.

(* nothing is lost: when every input has completed and been registered and no consume step is in progress,
   the run is complete *)
Lemma no_stuck s : Inv s ->
  nreg s = n s ->
  (forall j x, nth_error (ins s) j = Some x -> iw x = WR /\ (ipc x = PIdle \/ ipc x = PFin)) ->
  terminal s = true.
Proof.
  intros V Hr Hq. pose proof (v1 _ V) as I.
  assert (Hfin : forall j x, nth_error (ins s) j = Some x -> ipc x = PFin).
  { intros j x Hx. destruct (Hq _ _ Hx) as (Hw & [Hp|Hp]); auto. exfalso.
    apply (l_lost _ _ _ _ _ _ _ _ (i_loc _ I _ _ Hx)); auto.
    rewrite Hr, <- (i_len _ I). eapply nth_lt; eauto. }
  assert (Hcnt : cnt xended (ins s) = length (ins s)).
  { clear - Hfin. induction (ins s) as [|a l IH]; auto. unfold cnt in *. simpl.
    assert (Ea : xended a = true) by (unfold xended; rewrite (Hfin 0 a eq_refl); reflexivity).
    rewrite Ea. simpl. f_equal. apply IH. intros j x Hj. apply (Hfin (S j) x Hj). }
  pose proof (i_count _ I) as Hc. rewrite Hcnt, (i_len _ I) in Hc.
  assert (Hc0 : count s = 0) by lia.
  destruct (dt s) as [d|] eqn:Hdt.
  2: { destruct (i_dt_none _ I Hdt) as (_ & _ & Hpos). pose proof (v_pos _ V). specialize (Hpos H). lia. }
  destruct (i_dt_some _ I _ Hdt) as (_ & Hlt). rewrite <- (i_len _ I) in Hlt.
  destruct (nth_error (ins s) d) as [y|] eqn:Hy; [|apply nth_error_None in Hy; lia].
  destruct (l_dt _ _ _ _ _ _ _ _ (i_loc _ I _ _ Hy) Hdt) as (_ & Hdel & _).
  rewrite (Hfin _ _ Hy) in Hdel. simpl in Hdel.
  unfold terminal. rewrite Hr, Hdel, Nat.eqb_refl. simpl.
  assert (Hn : (n s =? 0) = false) by (apply Nat.eqb_neq; pose proof (v_pos _ V); lia). rewrite Hn. simpl.
  rewrite andb_true_r. apply forallb_nth. intros j x Hx. rewrite (Hfin _ _ Hx). reflexivity.
Qed.

(* the decrement is never an underflow *)
Lemma dec_enabled s j x : Inv s -> nth_error (ins s) j = Some x -> ipc x = PDec -> count s >= 1.
Proof.
  intros V Hx Hp. pose proof (v1 _ V) as I. pose proof (i_count _ I) as Hc.
  assert (Hlt : cnt xended (ins s) < length (ins s)) by (eapply cnt_lt; eauto; unfold xended; rewrite Hp; reflexivity).
  rewrite (i_len _ I) in Hlt. lia.
Qed.

(* ---- the election happens before any other participant has finished its own election step -------- *)

Lemma election_first s e s' : Inv s -> step s e = Some s' -> elects s e = true ->
  win s = None /\ outs s = [] /\
  match e with
  | EXchgDone i _ => forall j x, nth_error (ins s) j = Some x -> participant (sg s) x = true -> pre_el (ipc x) = true
  | EXchgState i _ => forall j x, nth_error (ins s) j = Some x -> ovalue (ires x) = true -> pre_el (ipc x) = true
  | ESubState i _ => forall j x, nth_error (ins s) j = Some x -> j <> i -> subbed x = true
  | _ => True
  end.
Proof.
  intros V H He. pose proof (fam_elects _ _ _ V H He) as Hw. pose proof (v1 _ V) as I. pose proof (vo _ V) as J.
  pose proof (vf _ V) as F. unfold fam in F.
  assert (Hel : forall i x, nth_error (ins s) i = Some x -> ipc x = PRmw -> outs s = []).
  { intros i x Hx Hp. destruct (o_len _ J) as [A|(o & A)]; auto. exfalso.
    assert (Hin : In o (outs s)) by (rewrite A; left; reflexivity).
    assert (Hd : odtor o = false) by (eapply not_ended_outs_cons; eauto; rewrite Hp; reflexivity).
    destruct (o_cons _ J o Hin Hd) as (x0 & Hw0 & _). congruence. }
  destruct e; simpl in He; try discriminate.
  - (* EXchgDone *)
    simpl in H. destruct (nth_error (ins s) i) as [x|] eqn:Hx; [|discriminate]. case_step H; simpl in He; try discriminate.
    apply andb_true_iff in Heqb. destruct Heqb as (Hu & Hv). apply eqb_prop in Hv.
    repeat split; eauto.
    assert (D : IFd s) by (destruct (sg s); simpl in Hu; try discriminate; exact F).
    destruct (d_false _ D (eq_sym Hv)) as (_ & _ & Hall). exact Hall.
  - (* EXchgState *)
    simpl in H. destruct (nth_error (ins s) i) as [x|] eqn:Hx; [|discriminate].
    destruct (ipc x) eqn:Hp; try discriminate.
    destruct (N.eqb old (state s) && ovalue (ires x)) eqn:Hb; [|discriminate].
    apply andb_true_iff in Hb. destruct Hb as (Ho & Hval). apply N.eqb_eq in Ho. subst old.
    repeat split; eauto.
    destruct (sg s) eqn:Hg; try discriminate.
    + destruct (N.eqb (state s) 2) eqn:E2; simpl in He; try discriminate. apply N.eqb_neq in E2.
      destruct (f_not2 _ F E2) as (_ & _ & Hall). exact Hall.
    + destruct (N.odd (state s)) eqn:Eo; simpl in He; try discriminate.
      destruct (a_even _ F Eo) as (_ & _ & Hall & _). exact Hall.
  - (* ESubState *)
    simpl in H. destruct (nth_error (ins s) i) as [x|] eqn:Hx; [|discriminate].
    destruct (ipc x) eqn:Hp; try discriminate. destruct (sg s) eqn:Hg; try discriminate.
    destruct (ofailing (ires x) && N.eqb old (state s)) eqn:Hb; [|discriminate].
    apply andb_true_iff in Hb. destruct Hb as (Hfail & Ho). apply N.eqb_eq in Ho. apply N.eqb_eq in He.
    assert (Hs2 : state s = 2%N) by congruence.
    repeat split; eauto.
    assert (Hev : N.odd (state s) = false) by (rewrite Hs2; reflexivity).
    destruct (a_even _ F Hev) as (B1 & _).
    assert (Hsx : subbed x = false) by (unfold subbed; rewrite Hp, andb_false_r; reflexivity).
    assert (Hns : nsub s = n s - 1) by (rewrite Hs2 in B1; lia).
    intros j y Hy Hne. destruct (subbed y) eqn:Hsy; auto. exfalso.
    (* two inputs that have not been counted: impossible, only one is missing *)
    unfold nsub in Hns. rewrite <- (i_len _ I) in Hns.
    assert (Hc2 : cnt subbed (ins s) + 2 <= length (ins s)).
    { clear - Hx Hy Hne Hsx Hsy. revert i j Hx Hy Hne.
      induction (ins s) as [|a l IH]; intros i j Hx Hy Hne; [destruct i; discriminate|].
      unfold cnt in *. destruct i as [|i], j as [|j]; simpl in *; try congruence.
      - inv Hx. rewrite Hsx. pose proof (cnt_lt subbed l j y Hy Hsy). unfold cnt in *. lia.
      - inv Hy. rewrite Hsy. pose proof (cnt_lt subbed l i x Hx Hsx). unfold cnt in *. lia.
      - assert (Hne' : j <> i) by congruence. specialize (IH i j Hx Hy Hne').
        destruct (subbed a); simpl; lia. }
    pose proof (nth_lt _ _ _ Hx). lia.
Qed.

(* ---- the empty input set ------------------------------------------------------------------------- *)

Lemma empty_invalid g : ovalid (init g 0) = false /\ forall e, step (init g 0) e = None.
Proof.
  split; [reflexivity|]. intros e. destruct e; simpl; auto; try (destruct i; reflexivity).
Qed.

Lemma nonempty_valid g k : k > 0 -> ovalid (init g k) = true.
Proof. intros H. simpl. destruct k; [lia|reflexivity]. Qed.
