(* The complete invariant of the When transition system, its preservation along every run, and what the
   destructor publishes. *)
From Coq Require Import List Arith Bool NArith Lia.
Import ListNotations.
From YV Require Import model.When proofs.WhenProofs proofs.WhenProofs2 proofs.WhenProofs3 proofs.WhenProofs4
  proofs.WhenProofs5.

Local Arguments store_slot : simpl never.

Lemma step_static s e s' : step s e = Some s' -> sg s' = sg s /\ n s' = n s.
Proof.
  intros H. destruct e.
  13: { unfold step in H. destruct (nth_error (ins s) i) as [x|]; [|discriminate].
        destruct (ipc x); try discriminate. destruct (Nat.eqb k k0); [|discriminate].
        destruct (nth_error (ins s) k) as [y|]; [|discriminate]. cbv zeta in H.
        match type of H with match ?t with _ => _ end = _ => destruct t as [x'|] end; [|discriminate].
        injection H as <-. unfold finish_if_fin.
        repeat match goal with |- context [if ?b then _ else _] => destruct b end;
        repeat match goal with |- context [match ?b with _ => _ end] => destruct b end; split; reflexivity. }
  all: simpl in H.
  3: destruct (Nat.eqb i (nreg s)); [|discriminate].
  all: destruct (nth_error (ins s) i) as [x|]; [|discriminate].
  all: try (destruct (word_eqb old (iw x)); [|discriminate]).
  all: case_step H; inv H.
  all: unfold finish_if_fin, dtor_entry;
       try (destruct (store_slot_fields i (rd x) (set_in i (with_ifree (S (ifree x)) (with_ipc (strat_entry (sg s) (rd x)) x)) s))
              as (E1 & E2 & _); rewrite E1, E2);
       repeat match goal with |- context [match ?b with _ => _ end] => destruct b eqn:? end; split; simpl; congruence.
Qed.

Definition fam (s : st) : Prop :=
  match sg s with
  | SAllNone | STupNone | SJoinNone => win s = None
  | SAllFF | SJoinFF | STupFF | SAnyNone => IFd s
  | SAnyFF => IFf s
  | SAnyLF => IFl s
  end.

Record Inv (s : st) : Prop := {
  v_pos : n s > 0;
  v1 : I1 s;
  v2 : I2 s;
  vo : IO s;
  ve : elog_ok s;
  vf : fam s
}.

(* the only assumption on the number of inputs: 2*n fits size_t (Any<LastFail> stores it in `_state`) *)
Definition fits (g : strat) (k : nat) : Prop :=
  match g with SAnyLF => (N.of_nat (2 * k) < two64)%N | _ => True end.

Lemma Inv_init g k : k > 0 -> fits g k -> Inv (init g k).
Proof.
  intros Hk Hf. constructor.
  - exact Hk.
  - apply I1_init.
  - apply I2_init.
  - apply IO_init. exact Hk.
  - apply elog_ok_init.
  - unfold fam. simpl. destruct g; auto using IFd_init, IFf_init. apply IFl_init; auto.
Qed.

Lemma fam_elects s e s' : Inv s -> step s e = Some s' -> elects s e = true -> win s = None.
Proof.
  intros [Hn I I' J El F] H He. unfold fam in F.
  destruct (sg s) eqn:Hg.
  4,6,7: eapply IFd_elects; eauto; rewrite Hg; reflexivity.
  2: eapply IFd_elects; eauto; rewrite Hg; reflexivity.
  4: eapply IFf_elects; eauto.
  4: eapply IFl_elects; eauto.
  all: destruct e; simpl in He; try discriminate; rewrite ?Hg in He; try discriminate.
  all: simpl in H; destruct (nth_error (ins s) i) as [x|]; [|discriminate]; rewrite ?Hg in H; case_step H.
Qed.

Lemma win_none_step s e s' :
  has_election (sg s) = false -> win s = None -> step s e = Some s' -> win s' = None.
Proof.
  intros Hg Hw H. destruct e.
  13: { unfold step in H. destruct (nth_error (ins s) i) as [x|]; [|discriminate].
        destruct (ipc x); try discriminate. destruct (Nat.eqb k k0); [|discriminate].
        destruct (nth_error (ins s) k) as [y|]; [|discriminate]. cbv zeta in H.
        match type of H with match ?t with _ => _ end = _ => destruct t as [x'|] end; [|discriminate].
        injection H as <-. unfold finish_if_fin.
        repeat match goal with |- context [if ?b then _ else _] => destruct b end;
        repeat match goal with |- context [match ?b with _ => _ end] => destruct b end; exact Hw. }
  all: simpl in H.
  3: destruct (Nat.eqb i (nreg s)); [|discriminate].
  all: destruct (nth_error (ins s) i) as [x|]; [|discriminate].
  all: try (destruct (word_eqb old (iw x)); [|discriminate]).
  all: case_step H; inv H.
  all: try (simpl in Hg; discriminate Hg).
  all: try (destruct (sg s); simpl in *; discriminate).
  all: unfold finish_if_fin, dtor_entry, store_slot;
       repeat match goal with |- context [match ?b with _ => _ end] => destruct b eqn:? end; exact Hw.
Qed.

Theorem Inv_step s e s' : Inv s -> step s e = Some s' -> Inv s'.
Proof.
  intros V H. pose proof V as [Hn I I' J El F]. destruct (step_static _ _ _ H) as (Eg & En).
  constructor.
  - rewrite En. exact Hn.
  - eapply I1_step; eauto.
  - eapply I2_step; eauto.
  - eapply IO_step; eauto. intros He. eapply fam_elects; eauto.
  - eapply elog_ok_step; eauto.
  - unfold fam in *. rewrite Eg. destruct (sg s) eqn:Hg; simpl in F;
      try (eapply win_none_step; eauto; rewrite Hg; reflexivity).
    + eapply IFd_step; eauto. rewrite Hg. reflexivity.
    + eapply IFd_step; eauto. rewrite Hg. reflexivity.
    + eapply IFd_step; eauto. rewrite Hg. reflexivity.
    + eapply IFd_step; eauto. rewrite Hg. reflexivity.
    + eapply IFf_step with (s := s); eauto.
    + eapply IFl_step with (s := s); eauto.
Qed.

Theorem Inv_run tr : forall s s', Inv s -> run s tr = Some s' -> Inv s'.
Proof.
  induction tr as [|e tr IH]; simpl; intros s s' V H.
  - inv H. exact V.
  - destruct (step s e) as [s1|] eqn:E; [|discriminate]. eapply IH; [|exact H]. eapply Inv_step; eauto.
Qed.

Theorem Inv_reach g k tr s : k > 0 -> fits g k -> run (init g k) tr = Some s -> Inv s.
Proof. intros Hk Hf. apply Inv_run. apply Inv_init; auto. Qed.

(* ---- after the combinator is deleted nothing can happen ---------------------------------------- *)

Lemma deleted_all_fin s : Inv s -> deleted s = 1 ->
  exists d, dt s = Some d /\ count s = 0 /\ forall j x, nth_error (ins s) j = Some x -> ipc x = PFin.
Proof.
  intros V Hd. pose proof (v1 _ V) as I.
  destruct (dt s) as [d|] eqn:Hdt.
  2: { destruct (i_dt_none _ I Hdt) as (H0 & _). congruence. }
  destruct (i_dt_some _ I _ Hdt) as (Hc & Hlt). exists d. repeat split; auto.
  intros j x Hx. pose proof (all_ended _ I Hc _ _ Hx) as He.
  destruct (ipc x) eqn:Hp; simpl in He; try discriminate; auto.
  - assert (Hj : dt s = Some j) by (apply (l_pdtor _ _ _ _ _ _ _ _ (i_loc _ I _ _ Hx)); rewrite Hp; reflexivity).
    destruct (l_dt _ _ _ _ _ _ _ _ (i_loc _ I _ _ Hx) Hj) as (_ & Hdel & _). rewrite Hp in Hdel. simpl in Hdel. congruence.
  - assert (Hj : dt s = Some j) by (apply (l_pdtor _ _ _ _ _ _ _ _ (i_loc _ I _ _ Hx)); rewrite Hp; reflexivity).
    destruct (l_dt _ _ _ _ _ _ _ _ (i_loc _ I _ _ Hx) Hj) as (_ & Hdel & _). rewrite Hp in Hdel. simpl in Hdel. congruence.
Qed.

Theorem dead s e : Inv s -> deleted s = 1 -> step s e = None.
Proof.
  intros V Hd. destruct (deleted_all_fin _ V Hd) as (d & Hdt & Hc & Hall). pose proof (v1 _ V) as I.
  destruct (step s e) as [s'|] eqn:H; auto. exfalso. destruct e.
  13: { unfold step in H. destruct (nth_error (ins s) i) as [x|] eqn:Hx; [|discriminate].
        rewrite (Hall _ _ Hx) in H. discriminate. }
  all: simpl in H.
  3: destruct (Nat.eqb_spec i (nreg s)) as [Ei|]; [|discriminate].
  all: destruct (nth_error (ins s) i) as [x|] eqn:Hx; [|discriminate].
  all: pose proof (Hall _ _ Hx) as Hp; rewrite ?Hp in H; try discriminate.
  all: destruct (l_begun _ _ _ _ _ _ _ _ (i_loc _ I _ _ Hx)) as (Hw & Hr & Hres); [rewrite Hp; discriminate|].
  - destruct (ires x); [discriminate|congruence].
  - rewrite Hw in H. destruct old; simpl in H; try discriminate. destruct (ires x); discriminate.
  - lia.
Qed.

(* ---- the moment the destructor publishes --------------------------------------------------------- *)

Lemma at_publish s i x : Inv s -> nth_error (ins s) i = Some x -> ipc x = PPub ->
  pvalid s = true /\ outs s = [] /\ win s = None /\ count s = 0 /\ dt s = Some i /\ deleted s = 0.
Proof.
  intros V Hx Hp. pose proof (v1 _ V) as I. pose proof (vo _ V) as J.
  assert (Hdt : dt s = Some i) by (apply (l_pdtor _ _ _ _ _ _ _ _ (i_loc _ I _ _ Hx)); rewrite Hp; reflexivity).
  destruct (l_dt _ _ _ _ _ _ _ _ (i_loc _ I _ _ Hx) Hdt) as (_ & Hdel & _). rewrite Hp in Hdel. simpl in Hdel.
  destruct (i_dt_some _ I _ Hdt) as (Hc0 & _).
  pose proof (o_ppub _ J _ _ Hx Hp) as Hpv.
  assert (Ho : outs s = []) by (apply (o_pvalid _ J); auto).
  repeat split; auto.
  destruct (win s) as [w|] eqn:Hw; auto. exfalso.
  pose proof (o_winlt _ J w Hw) as Hlt. rewrite <- (i_len _ I) in Hlt.
  destruct (nth_error (ins s) w) as [xw|] eqn:Hxw; [|apply nth_error_None in Hxw; lia].
  pose proof (all_ended _ I Hc0 _ _ Hxw) as He.
  assert (Hne : ipc xw <> PSet) by (intros Ex; rewrite Ex in He; discriminate).
  destruct (o_win _ J w xw Hw Hxw Hne) as (_ & o & Ho' & _). congruence.
Qed.

(* when nobody was elected and every consume step has ended: what the inputs must have been *)
Lemma unelected_all_ended s :
  Inv s -> win s = None -> count s = 0 ->
  match sg s with
  | SAllFF | SJoinFF | STupFF => forall j x, nth_error (ins s) j = Some x -> ovalue (ires x) = true
  | SAnyNone | SAnyLF => False
  | SAnyFF => exists f y, fwin s = Some f /\ nth_error (ins s) f = Some y /\ saved s = ires y /\
                          ofailing (ires y) = true /\ hd_error (elog s) = Some f /\
                          forall j x, nth_error (ins s) j = Some x -> ofailing (ires x) = true
  | _ => True
  end.
Proof.
  intros V Hw Hc. pose proof (v1 _ V) as I. pose proof (vf _ V) as F. unfold fam in F.
  assert (Hall := all_ended _ I Hc).
  assert (Hres : forall j x, nth_error (ins s) j = Some x -> ires x <> None)
    by (intros j x Hx; eapply ended_has_result; eauto).
  assert (Hnp : forall j x, nth_error (ins s) j = Some x -> pre_el (ipc x) = false)
    by (intros j x Hx; specialize (Hall _ _ Hx); destruct (ipc x); simpl in *; congruence).
  assert (Hex : exists x0, nth_error (ins s) 0 = Some x0).
  { destruct (nth_error (ins s) 0) eqn:E; eauto. apply nth_error_None in E. rewrite (i_len _ I) in E.
    pose proof (v_pos _ V). lia. }
  destruct Hex as (x0 & Hx0).
  assert (Hdf : uses_done (sg s) = true -> IFd s -> done s = false).
  { intros _ D. destruct (done s) eqn:Hd; auto. destruct (d_true _ D Hd) as (w & Hw' & _). congruence. }
  destruct (sg s) eqn:Hg; auto.
  - (* All<FirstFail> *)
    intros j x Hx. destruct (d_false _ F (Hdf eq_refl F)) as (_ & _ & Hpre).
    destruct (ires x) as [[]|] eqn:Hr; auto; exfalso.
    3: apply (Hres _ _ Hx Hr).
    all: assert (Hp : participant (sg s) x = true) by (unfold participant; rewrite Hg, Hr; reflexivity);
         rewrite Hg in Hpre; rewrite Hg in Hp; pose proof (Hpre _ _ Hx Hp); pose proof (Hnp _ _ Hx); congruence.
  - intros j x Hx. destruct (d_false _ F (Hdf eq_refl F)) as (_ & _ & Hpre).
    destruct (ires x) as [[]|] eqn:Hr; auto; exfalso.
    3: apply (Hres _ _ Hx Hr).
    all: assert (Hp : participant (sg s) x = true) by (unfold participant; rewrite Hg, Hr; reflexivity);
         rewrite Hg in Hpre; rewrite Hg in Hp; pose proof (Hpre _ _ Hx Hp); pose proof (Hnp _ _ Hx); congruence.
  - intros j x Hx. destruct (d_false _ F (Hdf eq_refl F)) as (_ & _ & Hpre).
    destruct (ires x) as [[]|] eqn:Hr; auto; exfalso.
    3: apply (Hres _ _ Hx Hr).
    all: assert (Hp : participant (sg s) x = true) by (unfold participant; rewrite Hg, Hr; reflexivity);
         rewrite Hg in Hpre; rewrite Hg in Hp; pose proof (Hpre _ _ Hx Hp); pose proof (Hnp _ _ Hx); congruence.
  - (* Any<None> *)
    destruct (d_false _ F (Hdf eq_refl F)) as (_ & _ & Hpre).
    assert (Hp : participant (sg s) x0 = true) by (unfold participant; rewrite Hg; reflexivity).
    rewrite Hg in Hpre, Hp. pose proof (Hpre _ _ Hx0 Hp). pose proof (Hnp _ _ Hx0). congruence.
  - (* Any<FirstFail> *)
    destruct (f_range _ F) as [H0|[H1|H2]].
    + destruct (f_zero _ F H0) as (_ & _ & Hpre). pose proof (Hpre _ _ Hx0). pose proof (Hnp _ _ Hx0). congruence.
    + assert (Hn2 : state s <> 2%N) by (rewrite H1; discriminate).
      destruct (f_not2 _ F Hn2) as (_ & _ & Hpre).
      destruct (fwin s) as [f|] eqn:Hf; [|exfalso; apply (f_one _ F H1); auto].
      destruct (f_fwin _ F f Hf) as (Ff & Fh & y & Fy & Fs).
      exists f, y. repeat split; auto.
      * unfold fail_at in Ff. rewrite Fy in Ff. exact Ff.
      * intros j x Hx. destruct (ires x) as [[]|] eqn:Hr; auto; exfalso.
        -- assert (Hv : ovalue (ires x) = true) by (rewrite Hr; reflexivity).
           pose proof (Hpre _ _ Hx Hv). pose proof (Hnp _ _ Hx). congruence.
        -- apply (Hres _ _ Hx Hr).
    + destruct (f_two _ F H2) as (w & Hw' & _). congruence.
  - (* Any<LastFail> *)
    destruct (N.odd (state s)) eqn:Hodd.
    + destruct (a_odd _ F Hodd) as (w & Hw' & _). congruence.
    + destruct (a_even _ F Hodd) as (B1 & _ & B3 & _ & _ & B6).
      destruct (N.eq_dec (state s) 0) as [H0|H0].
      * destruct (B6 H0) as (w & rest & Hw' & _). congruence.
      * assert (Hlt : nsub s < n s) by (rewrite B1 in H0; lia).
        unfold nsub in Hlt. rewrite <- (i_len _ I) in Hlt.
        assert (Hex : exists j x, nth_error (ins s) j = Some x /\ subbed x = false).
        { destruct (Nat.eq_dec (cnt subbed (ins s)) (length (ins s))) as [E|E]; [lia|].
          clear - E. induction (ins s) as [|a l IH]; [exfalso; apply E; reflexivity|].
          unfold cnt in *. simpl in E. destruct (subbed a) eqn:Ea.
          - simpl in E. destruct IH as (j & x & Hj & Hs); [congruence|]. exists (S j), x. auto.
          - exists 0, a. auto. }
        destruct Hex as (j & x & Hx & Hs). unfold subbed in Hs. rewrite (Hnp _ _ Hx) in Hs. simpl in Hs.
        rewrite andb_true_r in Hs.
        destruct (ires x) as [[]|] eqn:Hr; simpl in Hs; try discriminate.
        -- assert (Hv : ovalue (ires x) = true) by (rewrite Hr; reflexivity).
           pose proof (B3 _ _ Hx Hv). pose proof (Hnp _ _ Hx). congruence.
        -- apply (Hres _ _ Hx Hr).
Qed.

(* ---- no step the real code cannot survive; what the destructor put into the promise ------------ *)

Record IP (s : st) : Prop := {
  p_crash : crashed s = false;
  p_pub : forall o, In o (outs s) -> odtor o = true -> oval o = fst (publish_content s);
  p_len : forall o, In o (outs s) -> odtor o = true -> owned (sg s) = true -> length (acc s) = n s
}.

Lemma IP_init g k : IP (init g k).
Proof. constructor; simpl; auto; contradiction. Qed.

Lemma step_quiet s e s' :
  step s e = Some s' ->
  match e with ESetOut _ | EPublish _ => False | _ => True end ->
  outs s' = outs s /\ crashed s' = crashed s.
Proof.
  intros H He. destruct e; try contradiction; clear He.
  12: { unfold step in H. destruct (nth_error (ins s) i) as [x|]; [|discriminate].
        destruct (ipc x); try discriminate. destruct (Nat.eqb k k0); [|discriminate].
        destruct (nth_error (ins s) k) as [y|]; [|discriminate]. cbv zeta in H.
        match type of H with match ?t with _ => _ end = _ => destruct t as [x'|] end; [|discriminate].
        injection H as <-. unfold finish_if_fin.
        repeat match goal with |- context [if ?b then _ else _] => destruct b end;
        repeat match goal with |- context [match ?b with _ => _ end] => destruct b end; split; reflexivity. }
  all: simpl in H.
  3: destruct (Nat.eqb i (nreg s)); [|discriminate].
  all: destruct (nth_error (ins s) i) as [x|]; [|discriminate].
  all: try (destruct (word_eqb old (iw x)); [|discriminate]).
  all: case_step H; inv H.
  all: unfold finish_if_fin, dtor_entry, store_slot;
       repeat match goal with |- context [match ?b with _ => _ end] => destruct b eqn:? end; split; reflexivity.
Qed.

Lemma all_values_map (l : list inp) m :
  (forall j x, nth_error l j = Some x -> ovalue (ires x) = true) -> all_values (map ires (firstn m l)) = true.
Proof.
  revert m; induction l as [|a l IH]; intros [|m] H; simpl; auto.
  rewrite (H 0 a eq_refl). apply IH. intros j x Hj. apply (H (S j) x Hj).
Qed.

Theorem IP_step s e s' : Inv s -> IP s -> step s e = Some s' -> IP s'.
Proof.
  intros V [Pc Pp Pl] H. pose proof (v1 _ V) as I. pose proof (vo _ V) as J.
  assert (Hother : match e with ESetOut _ | EPublish _ => False | _ => True end -> IP s').
  { intros He. destruct (step_quiet _ _ _ H He) as (Eo & Ec).
    constructor; rewrite ?Eo, ?Ec; auto.
    - intros o Ho Hd. exfalso. destruct (o_dtor _ J _ Ho Hd) as (_ & _ & Hdel).
      rewrite (dead _ e V Hdel) in H. discriminate.
    - intros o Ho Hd. exfalso. destruct (o_dtor _ J _ Ho Hd) as (_ & _ & Hdel).
      rewrite (dead _ e V Hdel) in H. discriminate. }
  destruct e; try (apply Hother; exact Logic.I); clear Hother.
  - (* ESetOut *)
    start H i x Hx. case_step H; inv H.
    all: destruct (o_pset _ J _ _ Hx Heqp) as (_ & Ho).
    all: assert (Hpv : pvalid s = true) by (apply (o_pvalid _ J); auto).
    all: constructor; simpl; rewrite ?Ho, ?Hpv, ?Pc; simpl; auto.
    all: intros o [<-|[]] Hd; discriminate.
  - (* EPublish *)
    start H i x Hx. case_step H; inv H.
    destruct (at_publish _ _ _ V Hx Heqp) as (Hpv & Ho & Hw & Hc & Hdt & Hdel).
    pose proof (unelected_all_ended _ V Hw Hc) as Hu.
    assert (Hb : b = false).
    { unfold publish_content in Heqp0. destruct (sg s) eqn:Hg; inv Heqp0; auto; try contradiction.
      - rewrite (i2_acc _ (v2 _ V)). rewrite all_values_map; auto.
      - destruct Hu as (f & y & _ & _ & Hs & Hf & _). rewrite Hs. destruct (ires y); [reflexivity|discriminate]. }
    constructor; simpl; rewrite ?Ho, ?Hpv, ?Pc, ?Hb; simpl; auto.
    + intros o [<-|[]] _. simpl.
      change (publish_content (set_deleted (S (deleted s)) (goto i PFin x
               (set_outs [{| oby := i; odtor := true; oval := c |}]
                  (set_pvalid false (set_crashed false s))))))
        with (publish_content s). rewrite Heqp0. reflexivity.
    + intros o [<-|[]] _ Hown.
      rewrite (i2_acc_len _ (v2 _ V) Hown).
      * apply (l_ppub _ _ _ _ _ _ _ _ (i_loc _ I _ _ Hx) Heqp Hown).
      * unfold collecting. rewrite Hpv. destruct (sg s); reflexivity.
Qed.

Theorem IP_run tr : forall s s', Inv s -> IP s -> run s tr = Some s' -> IP s'.
Proof.
  induction tr as [|e tr IH]; simpl; intros s s' V P H.
  - inv H. exact P.
  - destruct (step s e) as [s1|] eqn:E; [|discriminate].
    eapply IH; [eapply Inv_step; eauto|eapply IP_step; eauto|exact H].
Qed.

Theorem IP_reach g k tr s : k > 0 -> fits g k -> run (init g k) tr = Some s -> IP s.
Proof. intros Hk Hf. apply IP_run; [apply Inv_init; auto|apply IP_init]. Qed.
