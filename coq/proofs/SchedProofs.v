(* SchedProofs.v — proofs about the scheduler / injector machine of model/Sched.v.
   Part 1: one simulation lemma (injective renaming of fiber ids + shift of the virtual clock + different position in the
           id allocator) from which c17_id_renaming, c17_time_shift and c17_checkpoint follow.
   Part 2: the draws are consumed in order (c17_draws_counted) and nothing else of the engine is read.
   Part 3: sanity invariants (clock monotone, scheduler nodes linked at most once, a sleeper is not resumed early). *)
From Coq Require Import List Arith Bool NArith Lia.
Import ListNotations.
From YV Require Import model.Sched.

Set Implicit Arguments.

(* ================================================================== Part 1: simulation *)
Section Sim.

Variable rho : fid -> fid.
Hypothesis rho_inj : forall a b, rho a = rho b -> a = b.
Variable D : N.          (* the clock of the second run is D ahead *)
Variable dn : nat.       (* the second run has created dn more fibers before *)

Lemma eqb_rho : forall a b, Nat.eqb (rho a) (rho b) = Nat.eqb a b.
Proof.
  intros a b. destruct (Nat.eqb_spec a b) as [->|Hn].
  - apply Nat.eqb_refl.
  - apply Nat.eqb_neq. intro H. apply Hn, rho_inj, H.
Qed.

Definition xl (l : list fid) : list fid := map rho l.
Definition xpend (p : pending) : pending :=
  match p with
  | PNone => PNone
  | PSleep ns => PSleep (ns + D)
  | PTimed q ns => PTimed q (ns + D)
  end.
Definition xfiber (r : fiber) : fiber :=
  {| prog := prog r; fs := fs r; alive := alive r; joiner := option_map rho (joiner r); pend := xpend (pend r);
     lastcas := lastcas r; lastto := lastto r |}.
Definition xfl (l : list (fid * fiber)) := map (fun fr => (rho (fst fr), xfiber (snd fr))) l.
Definition xsm (m : list (N * list fid)) := map (fun kb => ((fst kb + D)%N, xl (snd kb))) m.
Definition xwq (w : list (qid * list fid)) := map (fun qb => (fst qb, xl (snd qb))) w.
Definition xsl (l : list (nat * fid)) := map (fun sg => (fst sg, rho (snd sg))) l.

Definition xst (s : st) : st :=
  {| now := (now s + D)%N; runq := xl (runq s); sleepm := xsm (sleepm s); waitq := xwq (waitq s);
     locked := locked s; fibers := xfl (fibers s); slots := xsl (slots s); cur := option_map rho (cur s);
     rc := rc s; inj := inj s; nsp := nsp s + dn; crashed := crashed s; epoch := (epoch s + D)%N |}.

Definition xobs (o : obs) : obs :=
  match o with
  | OResume f t => OResume (rho f) (t + D)
  | OCas f b => OCas (rho f) b
  | OTimed f b => OTimed (rho f) b
  | OVal f v => OVal (rho f) v
  | o' => o'
  end.

(* ---------------------------------------------------------------- list helpers *)
Lemma rm_x : forall g l, rm (rho g) (xl l) = xl (rm g l).
Proof.
  intros g l. unfold rm, xl. induction l as [|a l IH]; simpl; auto.
  rewrite eqb_rho. destruct (Nat.eqb a g); simpl; rewrite IH; auto.
Qed.

Lemma mem_x : forall g l, mem (rho g) (xl l) = mem g l.
Proof.
  intros g l. unfold mem, xl. induction l as [|a l IH]; simpl; auto.
  rewrite eqb_rho, IH. auto.
Qed.

Lemma remove_nth_map : forall A B (f : A -> B) i l, remove_nth i (map f l) = map f (remove_nth i l).
Proof.
  intros A B f i l. revert i. induction l as [|a l IH]; intros [|i]; simpl; auto. rewrite IH. auto.
Qed.

Lemma nth_error_xl : forall l i, nth_error (xl l) i = option_map rho (nth_error l i).
Proof. intros. unfold xl. apply nth_error_map. Qed.

Lemma xl_app : forall a b, xl (a ++ b) = xl a ++ xl b.
Proof. intros. unfold xl. apply map_app. Qed.

Lemma xl_len : forall l, length (xl l) = length l.
Proof. intros. unfold xl. apply map_length. Qed.

Lemma fget_x : forall f l, fget (rho f) (xfl l) = option_map xfiber (fget f l).
Proof.
  intros f l. induction l as [|[g r] l IH]; simpl; auto.
  rewrite eqb_rho. destruct (Nat.eqb g f); auto.
Qed.

Lemma fupd_x : forall f u u' l, (forall r, xfiber (u r) = u' (xfiber r)) ->
  xfl (fupd f u l) = fupd (rho f) u' (xfl l).
Proof.
  intros f u u' l Hu. induction l as [|[g r] l IH]; simpl; auto.
  rewrite eqb_rho. destruct (Nat.eqb g f); simpl.
  - rewrite Hu. auto.
  - rewrite IH. auto.
Qed.

Lemma fdel_x : forall f l, xfl (fdel f l) = fdel (rho f) (xfl l).
Proof.
  intros f l. induction l as [|[g r] l IH]; simpl; auto.
  rewrite eqb_rho. destruct (Nat.eqb g f); simpl; auto. rewrite IH. auto.
Qed.

Lemma xfl_app : forall a b, xfl (a ++ b) = xfl a ++ xfl b.
Proof. intros. unfold xfl. apply map_app. Qed.

Lemma sget_x : forall k l, sget k (xsl l) = option_map rho (sget k l).
Proof.
  intros k l. induction l as [|[a g] l IH]; simpl; auto. destruct (Nat.eqb a k); auto.
Qed.

Lemma sdel_x : forall k l, xsl (sdel k l) = sdel k (xsl l).
Proof.
  intros k l. induction l as [|[a g] l IH]; simpl; auto. destruct (Nat.eqb a k); simpl; auto. rewrite IH. auto.
Qed.

Lemma wget_x : forall q w, wget q (xwq w) = xl (wget q w).
Proof.
  intros q w. induction w as [|[a b] w IH]; simpl; auto. destruct (qid_eqb a q); auto.
Qed.

Lemma is_nil_map : forall A B (f : A -> B) l, is_nil (map f l) = is_nil l.
Proof. intros A B f [|a l]; reflexivity. Qed.

Lemma wset_x : forall q v w, xwq (wset q v w) = wset q (xl v) (xwq w).
Proof.
  intros q v w. induction w as [|[a b] w IH]; simpl.
  - unfold xl. rewrite is_nil_map. destruct (is_nil v); reflexivity.
  - destruct (qid_eqb a q); simpl.
    + unfold xl. rewrite is_nil_map. destruct (is_nil v); reflexivity.
    + rewrite IH. auto.
Qed.

Lemma cmp_shift : forall a b, ((a + D) ?= (b + D))%N = (a ?= b)%N.
Proof.
  intros a b. destruct (N.compare_spec a b), (N.compare_spec (a + D) (b + D)); auto; lia.
Qed.
Lemma eqb_shift : forall a b, ((a + D) =? (b + D))%N = (a =? b)%N.
Proof.
  intros a b. destruct (N.eqb_spec a b), (N.eqb_spec (a + D) (b + D)); auto; lia.
Qed.
Lemma leb_shift : forall a b, ((a + D) <=? (b + D))%N = (a <=? b)%N.
Proof.
  intros a b. destruct (N.leb_spec a b), (N.leb_spec (a + D) (b + D)); auto; lia.
Qed.

Lemma sm_push_x : forall ns f m, xsm (sm_push ns f m) = sm_push (ns + D) (rho f) (xsm m).
Proof.
  intros ns f m. induction m as [|[k b] m IH]; simpl; auto.
  rewrite cmp_shift. destruct (ns ?= k)%N; simpl; auto.
  - rewrite xl_app. auto.
  - rewrite IH. auto.
Qed.

Lemma sm_find_x : forall ns m, sm_find (ns + D) (xsm m) = option_map xl (sm_find ns m).
Proof.
  intros ns m. induction m as [|[k b] m IH]; simpl; auto.
  rewrite eqb_shift. destruct (k =? ns)%N; auto.
Qed.

Lemma sm_erase_x : forall ns m, xsm (sm_erase ns m) = sm_erase (ns + D) (xsm m).
Proof.
  intros ns m. induction m as [|[k b] m IH]; simpl; auto.
  rewrite eqb_shift. destruct (k =? ns)%N; simpl; auto. rewrite IH. auto.
Qed.

Lemma wake_x : forall t m, wake (t + D) (xsm m) = (xl (fst (wake t m)), xsm (snd (wake t m))).
Proof.
  intros t m. induction m as [|[k b] m IH]; simpl; auto.
  rewrite leb_shift. destruct (k <=? t)%N; simpl; auto.
  rewrite IH. destruct (wake t m) as [w r']. simpl. rewrite xl_app. auto.
Qed.

Lemma xsm_rm : forall g m,
  xsm (map (fun kb => (fst kb, rm g (snd kb))) m) = map (fun kb => (fst kb, rm (rho g) (snd kb))) (xsm m).
Proof.
  intros g m. unfold xsm. rewrite !map_map. apply map_ext. intros [k b]. simpl. rewrite rm_x. auto.
Qed.

(* ---------------------------------------------------------------- machine helpers *)
Variable cf : cfg.
Variable draws : nat -> N.

Lemma xfiber_fs : forall r v, xfiber (with_fs r v) = with_fs (xfiber r) v.
Proof. reflexivity. Qed.
Lemma xfiber_prog : forall r v, xfiber (with_prog r v) = with_prog (xfiber r) v.
Proof. reflexivity. Qed.

Lemma updf_x : forall f u u' s, (forall r, xfiber (u r) = u' (xfiber r)) ->
  xst (updf f u s) = updf (rho f) u' (xst s).
Proof.
  intros f u u' s Hu. unfold updf, xst, set_fibers; simpl. rewrite (fupd_x f u u' (fibers s) Hu). auto.
Qed.

Lemma schedule_x : forall g s, xst (schedule g s) = schedule (rho g) (xst s).
Proof.
  intros g s. unfold schedule, updf, xst, set_fibers, set_runq; simpl.
  rewrite xl_app. rewrite (fupd_x g (fun r => with_fs r FWaiting) (fun r => with_fs r FWaiting)); auto.
Qed.

Lemma erase_sched_x : forall g s, xst (erase_sched g s) = erase_sched (rho g) (xst s).
Proof.
  intros g s. unfold erase_sched, xst, set_sleepm, set_runq; simpl. rewrite rm_x, xsm_rm. auto.
Qed.

Lemma sched_and_remove_x : forall g s, xst (sched_and_remove g s) = sched_and_remove (rho g) (xst s).
Proof.
  intros g s. unfold sched_and_remove. simpl. rewrite fget_x.
  destruct (fget g (fibers s)) as [r|]; simpl; auto.
  destruct (fstate_eqb (fs r) FWaiting); auto.
  rewrite schedule_x, erase_sched_x. auto.
Qed.

Lemma wq_x : forall q s, wq q (xst s) = xl (wq q s).
Proof. intros. unfold wq. simpl. apply wget_x. Qed.

Lemma set_wq_x : forall q v s, xst (set_wq q v s) = set_wq q (xl v) (xst s).
Proof. intros. unfold set_wq, xst, set_waitq; simpl. rewrite wset_x. auto. Qed.

Lemma suspend_x : forall f s, xst (suspend f s) = suspend (rho f) (xst s).
Proof.
  intros f s. unfold suspend, updf, xst, set_cur, set_fibers; simpl.
  rewrite (fupd_x f (fun r => with_fs r FSuspended) (fun r => with_fs r FSuspended)); auto.
Qed.

Definition xres (r : st * list obs) : st * list obs := (xst (fst r), map xobs (snd r)).

Lemma poll_x : forall l s,
  poll cf draws (xl l) (xst s) =
  (option_map rho (fst (fst (fst (poll cf draws l s)))), snd (fst (fst (poll cf draws l s))),
   xst (snd (fst (poll cf draws l s))), map xobs (snd (poll cf draws l s))).
Proof.
  intros l s. unfold poll, draw. cbn [fst snd rc xst]. rewrite xl_len, nth_error_xl. reflexivity.
Qed.

Lemma notify_one_x : forall q s, notify_one cf draws q (xst s) = xres (notify_one cf draws q s).
Proof.
  intros q s. unfold notify_one. rewrite wq_x. unfold xl at 1. rewrite is_nil_map.
  destruct (is_nil (wq q s)); [reflexivity|].
  fold (xl (wq q s)). rewrite poll_x.
  destruct (poll cf draws (wq q s) s) as [[[og i] s1] o]. cbn [fst snd].
  destruct og as [g|]; cbn [option_map]; unfold xres; cbn [fst snd].
  - rewrite sched_and_remove_x, set_wq_x. unfold xl at 2. rewrite <- remove_nth_map. reflexivity.
  - rewrite map_app. reflexivity.
Qed.

Lemma fold_sar_x : forall l s,
  xst (fold_left (fun s' g => sched_and_remove g s') l s) =
  fold_left (fun s' g => sched_and_remove g s') (xl l) (xst s).
Proof.
  intros l. induction l as [|g l IH]; intros s; simpl; auto.
  rewrite IH, sched_and_remove_x. auto.
Qed.

Lemma notify_all_x : forall q s, xst (notify_all q s) = notify_all q (xst s).
Proof.
  intros q s. unfold notify_all. rewrite fold_sar_x, set_wq_x, wq_x. unfold xl. rewrite map_rev. reflexivity.
Qed.

Lemma inject_x : forall f s, inject cf draws (rho f) (xst s) = xres (inject cf draws f s).
Proof.
  intros f s. unfold inject, draw, xres. cbn [fst snd rc inj xst].
  destruct (freq cf <=? inj s)%N; cbn [fst snd]; [|reflexivity].
  rewrite suspend_x. f_equal. f_equal. unfold xst, set_runq, set_inj, set_rc; cbn. rewrite xl_app. reflexivity.
Qed.

Lemma timed_finish_x : forall f q ns s,
  timed_finish (rho f) q (ns + D) (xst s) = xres (timed_finish f q ns s).
Proof.
  intros f q ns s. unfold timed_finish, xres. cbn [fst snd map]. f_equal.
  cbn [sleepm xst]. rewrite sm_find_x.
  set (s1 := match sm_find ns (sleepm s) with
             | Some b => if is_nil b then set_sleepm s (sm_erase ns (sleepm s)) else s
             | None => s
             end).
  assert (H1 : match option_map xl (sm_find ns (sleepm s)) with
               | Some b => if is_nil b then set_sleepm (xst s) (sm_erase (ns + D) (xsm (sleepm s))) else xst s
               | None => xst s
               end = xst s1).
  { unfold s1. destruct (sm_find ns (sleepm s)) as [b|]; cbn [option_map]; auto.
    unfold xl. rewrite is_nil_map. destruct (is_nil b); auto.
    unfold xst, set_sleepm; cbn. rewrite sm_erase_x. reflexivity. }
  rewrite H1. rewrite wq_x, mem_x, rm_x.
  rewrite (updf_x f (fun r => with_lastto (with_pend r PNone) (mem f (wq q s1)))
                  (fun r => with_lastto (with_pend r PNone) (mem f (wq q s1)))); auto.
  destruct (mem f (wq q s1)); auto. rewrite set_wq_x. auto.
Qed.

Variable alloc1 alloc2 : nat -> fid.
Hypothesis alloc_rel : forall k, alloc2 (k + dn) = rho (alloc1 k).

Lemma crash_x : forall c s, crash c (xst s) = xres (crash c s).
Proof. reflexivity. Qed.

Lemma existsb_locked : forall m s, existsb (Nat.eqb m) (locked (xst s)) = existsb (Nat.eqb m) (locked s).
Proof. reflexivity. Qed.

Ltac xupd := match goal with
  | |- context [xst (updf ?f ?u ?s)] => rewrite (updf_x f u u s) by reflexivity
  end.

Lemma tbase_x : forall ab s, tbase ab (xst s) = (tbase ab s + D)%N.
Proof. intros [] s; reflexivity. Qed.

Lemma do_action_x : forall f r a rest s,
  do_action cf draws alloc2 (rho f) (xfiber r) a rest (xst s) = xres (do_action cf draws alloc1 f r a rest s).
Proof.
  intros f r a rest s.
  assert (Hpop : xst (updf f (fun r' => with_prog r' rest) s) = updf (rho f) (fun r' => with_prog r' rest) (xst s)).
  { apply updf_x. reflexivity. }
  destruct a; unfold do_action; rewrite <- ?Hpop.
  - (* AInject *) apply inject_x.
  - (* AWeak *)
    destruct (casf cf =? 0)%N.
    + unfold xres; cbn [fst snd map]. rewrite (updf_x f (fun r' => with_lastcas r' true) (fun r' => with_lastcas r' true)); reflexivity.
    + unfold draw, xres. cbn [fst snd rc xst map].
      set (v := (draws (rc s) mod casf cf)%N). f_equal.
      rewrite (updf_x f (fun r' => with_lastcas r' (negb (v =? 0)%N)) (fun r' => with_lastcas r' (negb (v =? 0)%N))) by reflexivity.
      reflexivity.
  - (* ALogCas *) reflexivity.
  - (* AYield *)
    unfold xres; cbn [fst snd map]. rewrite suspend_x. f_equal. f_equal.
    unfold xst, set_runq; cbn. rewrite xl_app. reflexivity.
  - (* AEpoch *) reflexivity.
  - (* ASleep *)
    rewrite tbase_x. cbn [now xst]. replace (tbase ab s + D + d)%N with (tbase ab s + d + D)%N by lia. rewrite leb_shift.
    destruct (tbase ab s + d <=? now s)%N; [reflexivity|].
    unfold xres; cbn [fst snd map]. rewrite suspend_x. f_equal. f_equal.
    rewrite (updf_x f (fun r' => with_pend r' (PSleep (tbase ab s + d))) (fun r' => with_pend r' (PSleep (tbase ab s + d + D)))) by reflexivity.
    f_equal. unfold xst, set_sleepm; cbn. rewrite sm_push_x. reflexivity.
  - (* APark *)
    unfold xres; cbn [fst snd map]. rewrite suspend_x, set_wq_x, xl_app, wq_x. reflexivity.
  - (* ATimedPark *)
    set (pop := updf f (fun r' => with_prog r' rest) s).
    set (s1 := set_wq q (wq q pop ++ [f]) pop).
    assert (Hs1 : set_wq q (wq q (xst pop) ++ [rho f]) (xst pop) = xst s1).
    { unfold s1. rewrite set_wq_x, xl_app, wq_x. reflexivity. }
    rewrite Hs1. unfold draw. rewrite tbase_x. cbn [rc now xst].
    set (v := (draws (rc s1) mod slpt cf)%N).
    replace (tbase ab s + D + d + v)%N with (tbase ab s + d + v + D)%N by lia.
    rewrite leb_shift.
    change (set_rc (xst s1) (S (rc s1))) with (xst (set_rc s1 (S (rc s1)))).
    set (s2 := set_rc s1 (S (rc s1))).
    rewrite <- (updf_x f (fun r' => with_pend r' (PTimed q (tbase ab s + d + v)))
                         (fun r' => with_pend r' (PTimed q (tbase ab s + d + v + D))) s2) by reflexivity.
    set (s3 := updf f (fun r' => with_pend r' (PTimed q (tbase ab s + d + v))) s2).
    destruct (tbase ab s + d + v <=? now s)%N; unfold xres; cbn [fst snd].
    + reflexivity.
    + rewrite suspend_x. f_equal. f_equal.
      unfold xst, set_sleepm; cbn. rewrite sm_push_x. reflexivity.
  - (* ALogTimed *) reflexivity.
  - (* ANotifyOne *) apply notify_one_x.
  - (* ANotifyAll *) unfold xres; cbn [fst snd map]. rewrite notify_all_x. reflexivity.
  - (* ALock *)
    rewrite existsb_locked. destruct (existsb (Nat.eqb m) (locked s)).
    + unfold xres; cbn [fst snd map]. rewrite suspend_x, set_wq_x, xl_app, wq_x. reflexivity.
    + reflexivity.
  - (* AUnlock *)
    rewrite <- notify_one_x. reflexivity.
  - (* ASpawn *)
    cbn [slots xst]. rewrite sget_x. destruct (sget slot (slots s)); cbn [option_map]; [reflexivity|].
    unfold xres; cbn [fst snd map nsp xst]. rewrite schedule_x. rewrite alloc_rel. f_equal. f_equal.
    unfold xst, set_nsp, set_slots, set_fibers; cbn. rewrite xfl_app. reflexivity.
  - (* AJoin *)
    cbn [slots xst]. rewrite sget_x. destruct (sget slot (slots s)) as [g|]; cbn [option_map]; [|reflexivity].
    rewrite eqb_rho. destruct (Nat.eqb g f); [reflexivity|].
    cbn [fibers xst]. rewrite fget_x. destruct (fget g (fibers s)) as [rg|]; cbn [option_map]; [|reflexivity].
    change (fs (xfiber rg)) with (fs rg). destruct (fstate_eqb (fs rg) FCompleted).
    + unfold xres; cbn [fst snd map]. f_equal. unfold xst, set_slots, set_fibers; cbn. rewrite fdel_x, sdel_x. reflexivity.
    + unfold xres; cbn [fst snd map]. rewrite suspend_x. f_equal. f_equal.
      rewrite (updf_x g (fun r' => with_joiner r' (Some f)) (fun r' => with_joiner r' (Some (rho f)))) by reflexivity. reflexivity.
  - (* ADetach *)
    cbn [slots xst]. rewrite sget_x. destruct (sget slot (slots s)) as [g|]; cbn [option_map]; [|reflexivity].
    rewrite eqb_rho. destruct (Nat.eqb g f); [reflexivity|].
    cbn [fibers xst]. rewrite fget_x. destruct (fget g (fibers s)) as [rg|]; cbn [option_map]; [|reflexivity].
    change (fs (xfiber rg)) with (fs rg). destruct (fstate_eqb (fs rg) FCompleted).
    + unfold xres; cbn [fst snd map]. f_equal. unfold xst, set_slots, set_fibers; cbn. rewrite fdel_x, sdel_x. reflexivity.
    + unfold xres; cbn [fst snd map]. f_equal.
      rewrite (updf_x g (fun r' => with_alive r' false) (fun r' => with_alive r' false)) by reflexivity.
      f_equal. unfold xst, set_slots; cbn. rewrite sdel_x. reflexivity.
  - (* ACheck *) reflexivity.
  - (* ALogVal *) reflexivity.
Qed.

Lemma do_exit_x : forall f r s, xst (do_exit f r s) = do_exit (rho f) (xfiber r) (xst s).
Proof.
  intros f r s. unfold do_exit. cbn [joiner alive xfiber].
  set (s1 := updf f (fun r' => with_fs r' FCompleted) s).
  assert (H1 : updf (rho f) (fun r' => with_fs r' FCompleted) (xst s) = xst s1).
  { unfold s1. symmetry. apply updf_x. reflexivity. }
  rewrite H1.
  destruct (joiner r) as [j|]; cbn [option_map]; destruct (alive r);
    rewrite <- ?schedule_x; unfold xst, set_cur, set_fibers; cbn; rewrite ?fdel_x; reflexivity.
Qed.

Lemma fiber_step_x : forall f s,
  fiber_step cf draws alloc2 (rho f) (xst s) = xres (fiber_step cf draws alloc1 f s).
Proof.
  intros f s. unfold fiber_step. cbn [fibers xst]. rewrite fget_x.
  destruct (fget f (fibers s)) as [r|]; cbn [option_map]; [|reflexivity].
  cbn [pend xfiber prog].
  destruct (pend r) as [|ns|q ns]; cbn [xpend].
  - destruct (prog r) as [|a rest].
    + unfold xres; cbn [fst snd map]. rewrite do_exit_x. reflexivity.
    + apply do_action_x.
  - destruct (prog r) as [|a rest].
    + unfold xres; cbn [fst snd map]. rewrite do_exit_x. reflexivity.
    + apply do_action_x.
  - apply timed_finish_x.
Qed.

Lemma first_key_x : forall m, first_key (xsm m) = option_map (fun k => (k + D)%N) (first_key m).
Proof. intros [|[k b] m]; reflexivity. Qed.

Definition xopt (r : option (st * list obs)) : option (st * list obs) := option_map xres r.

Lemma advance_x : forall s, advance (xst s) = xst (advance s).
Proof.
  intros s. unfold advance. cbn [runq sleepm xst]. unfold xl. rewrite is_nil_map.
  destruct (is_nil (runq s)); auto. rewrite first_key_x.
  destruct (first_key (sleepm s)) as [k|]; cbn [option_map]; auto.
  cbn [now xst]. rewrite leb_shift. destruct (now s <=? k)%N; reflexivity.
Qed.

Lemma wakeup_x : forall s, wakeup (xst s) = xst (wakeup s).
Proof.
  intros s. unfold wakeup. cbn [now sleepm runq xst]. rewrite wake_x. cbn [fst snd].
  unfold xst, set_sleepm, set_runq; cbn. rewrite xl_app. reflexivity.
Qed.

Lemma resume_next_x : forall s, resume_next cf draws (xst s) = xopt (resume_next cf draws s).
Proof.
  intros s. unfold resume_next. cbn [runq xst]. unfold xl at 1. rewrite is_nil_map.
  destruct (is_nil (runq s)); [reflexivity|].
  rewrite poll_x.
  destruct (poll cf draws (runq s) s) as [[[og i] s3] o]. cbn [fst snd].
  destruct og as [f|]; cbn [option_map xopt].
  - unfold xres; cbn [fst snd]. f_equal. f_equal.
    + cbn [now xst]. replace (now s3 + D + tick cf)%N with (now s3 + tick cf + D)%N by lia.
      set (t := (now s3 + tick cf)%N).
      rewrite (updf_x f (fun r => with_pend (with_fs r FRunning) match pend r with PSleep _ => PNone | p => p end)
                        (fun r => with_pend (with_fs r FRunning) match pend r with PSleep _ => PNone | p => p end)).
      * f_equal. unfold xst, set_now, set_cur, set_runq; cbn. unfold xl. rewrite remove_nth_map. reflexivity.
      * intros r. destruct r as [p fs0 al jo pe lc lt]. destruct pe; reflexivity.
    + rewrite map_app. cbn [map xobs now xst]. replace (now s3 + D + tick cf)%N with (now s3 + tick cf + D)%N by lia. reflexivity.
  - unfold xres; cbn [fst snd]. rewrite map_app. reflexivity.
Qed.

Lemma sched_step_x : forall s, sched_step cf draws (xst s) = xopt (sched_step cf draws s).
Proof.
  intros s. unfold sched_step. cbn [runq sleepm xst]. unfold xl, xsm. rewrite !is_nil_map.
  destruct (is_nil (runq s) && is_nil (sleepm s)); [reflexivity|].
  fold (xl (runq s)). fold (xsm (sleepm s)).
  change (wakeup (advance (xst s))) with (wakeup (advance (xst s))).
  rewrite <- resume_next_x, <- wakeup_x, <- advance_x. reflexivity.
Qed.

Lemma step_x : forall s, step cf draws alloc2 (xst s) = xopt (step cf draws alloc1 s).
Proof.
  intros s. unfold step. cbn [crashed cur xst].
  destruct (crashed s); [reflexivity|].
  destruct (cur s) as [f|]; cbn [option_map].
  - unfold xopt; cbn [option_map]. rewrite fiber_step_x. reflexivity.
  - apply sched_step_x.
Qed.

Lemma run_x : forall fuel s,
  run cf draws alloc2 fuel (xst s) = map xobs (run cf draws alloc1 fuel s).
Proof.
  induction fuel as [|fuel IH]; intros s; cbn [run]; [reflexivity|].
  rewrite step_x. destruct (step cf draws alloc1 s) as [[s' o]|]; cbn [xopt option_map xres fst snd]; [|reflexivity].
  rewrite IH, map_app. reflexivity.
Qed.

Lemma steps_x : forall fuel s,
  steps cf draws alloc2 fuel (xst s) = xst (steps cf draws alloc1 fuel s).
Proof.
  induction fuel as [|fuel IH]; intros s; cbn [steps]; [reflexivity|].
  rewrite step_x. destruct (step cf draws alloc1 s) as [[s' o]|]; cbn [xopt option_map xres fst snd]; [|reflexivity].
  apply IH.
Qed.

End Sim.

(* ---------------------------------------------------------------- the three invariances, stated without the
   combined transformation *)
Definition injective (rho : fid -> fid) := forall a b, rho a = rho b -> a = b.

Definition ren_fiber (rho : fid -> fid) (r : fiber) : fiber :=
  {| prog := prog r; fs := fs r; alive := alive r; joiner := option_map rho (joiner r); pend := pend r;
     lastcas := lastcas r; lastto := lastto r |}.
Definition ren_st (rho : fid -> fid) (s : st) : st :=
  {| now := now s; runq := map rho (runq s);
     sleepm := map (fun kb => (fst kb, map rho (snd kb))) (sleepm s);
     waitq := map (fun qb => (fst qb, map rho (snd qb))) (waitq s);
     locked := locked s;
     fibers := map (fun fr => (rho (fst fr), ren_fiber rho (snd fr))) (fibers s);
     slots := map (fun sg => (fst sg, rho (snd sg))) (slots s);
     cur := option_map rho (cur s); rc := rc s; inj := inj s; nsp := nsp s; crashed := crashed s; epoch := epoch s |}.
Definition ren_obs (rho : fid -> fid) (o : obs) : obs :=
  match o with
  | OResume f t => OResume (rho f) t
  | OCas f b => OCas (rho f) b
  | OTimed f b => OTimed (rho f) b
  | OVal f v => OVal (rho f) v
  | o' => o'
  end.

Definition shift_pend (D : N) (p : pending) : pending :=
  match p with
  | PNone => PNone
  | PSleep ns => PSleep (ns + D)
  | PTimed q ns => PTimed q (ns + D)
  end.
Definition shift_fiber (D : N) (r : fiber) : fiber :=
  {| prog := prog r; fs := fs r; alive := alive r; joiner := joiner r; pend := shift_pend D (pend r);
     lastcas := lastcas r; lastto := lastto r |}.
(* _time and every absolute deadline (keys of the sleep map, deadlines of the waits in progress) move by D *)
Definition shift_st (D : N) (s : st) : st :=
  {| now := (now s + D)%N; runq := runq s;
     sleepm := map (fun kb => ((fst kb + D)%N, snd kb)) (sleepm s);
     waitq := waitq s; locked := locked s;
     fibers := map (fun fr => (fst fr, shift_fiber D (snd fr))) (fibers s);
     slots := slots s; cur := cur s; rc := rc s; inj := inj s; nsp := nsp s; crashed := crashed s;
     epoch := (epoch s + D)%N |}.
Definition shift_obs (D : N) (o : obs) : obs :=
  match o with
  | OResume f t => OResume f (t + D)
  | o' => o'
  end.

Lemma map_id' : forall A (f : A -> A) l, (forall x, f x = x) -> map f l = l.
Proof. intros A f l H. induction l as [|a l IH]; simpl; auto. rewrite H, IH. auto. Qed.

Lemma xst_ren : forall rho s, xst rho 0 0 s = ren_st rho s.
Proof.
  intros rho s. unfold xst, ren_st. rewrite !N.add_0_r, Nat.add_0_r. f_equal.
  - unfold xsm. apply map_ext. intros [k b]. simpl. rewrite N.add_0_r. reflexivity.
  - unfold xfl. apply map_ext. intros [f r]. simpl. f_equal. unfold xfiber, ren_fiber. f_equal.
    destruct (pend r); simpl; rewrite ?N.add_0_r; reflexivity.
Qed.

Lemma xobs_ren : forall rho o, xobs rho 0 o = ren_obs rho o.
Proof. intros rho [] ; simpl; rewrite ?N.add_0_r; reflexivity. Qed.

Lemma xst_shift : forall D s, xst (fun x => x) D 0 s = shift_st D s.
Proof.
  intros D s. unfold xst, shift_st. rewrite Nat.add_0_r. f_equal.
  - unfold xl. apply map_id.
  - unfold xsm. apply map_ext. intros [k b]. simpl. unfold xl. rewrite map_id. reflexivity.
  - unfold xwq. apply map_id'. intros [q b]. simpl. unfold xl. rewrite map_id. reflexivity.
  - unfold xfl. apply map_ext. intros [f r]. simpl. f_equal. unfold xfiber, shift_fiber. f_equal.
    destruct (joiner r); reflexivity.
  - unfold xsl. apply map_id'. intros [a g]. reflexivity.
  - destruct (cur s); reflexivity.
Qed.

Lemma xobs_shift : forall D o, xobs (fun x => x) D o = shift_obs D o.
Proof. intros D []; reflexivity. Qed.

(* The switch trace is equivariant under any injective renaming of the fiber ids (ids differ between runs because
   the id counter is process-global). *)
Theorem id_renaming : forall rho, injective rho ->
  forall cf draws alloc fuel s,
  run cf draws (fun k => rho (alloc k)) fuel (ren_st rho s) = map (ren_obs rho) (run cf draws alloc fuel s).
Proof.
  intros rho Hinj cf draws alloc fuel s. rewrite <- xst_ren.
  rewrite (@run_x rho Hinj 0%N 0 cf draws alloc (fun k => rho (alloc k))).
  - apply map_ext. apply xobs_ren.
  - intros k. rewrite Nat.add_0_r. reflexivity.
Qed.

(* Shifting _time and all absolute deadlines by D leaves the trace unchanged (the time stamps move by D). *)
Theorem time_shift : forall D cf draws alloc fuel s,
  run cf draws alloc fuel (shift_st D s) = map (shift_obs D) (run cf draws alloc fuel s).
Proof.
  intros D cf draws alloc fuel s. rewrite <- xst_shift.
  rewrite (@run_x (fun x => x) (fun a b H => H) D 0 cf draws alloc alloc).
  - apply map_ext. apply xobs_shift.
  - intros k. rewrite Nat.add_0_r. reflexivity.
Qed.

(* A quiescent point: the driver d is running, nothing is queued, asleep, parked, locked or joinable. *)
Definition quiescent_at (s : st) (d : fid) (r : fiber) : Prop :=
  cur s = Some d /\ runq s = [] /\ sleepm s = [] /\ waitq s = [] /\ locked s = [] /\ slots s = [] /\
  fibers s = [(d, r)] /\ crashed s = false /\
  fs r = FRunning /\ alive r = true /\ joiner r = None /\ pend r = PNone.

(* Two runs that are at a quiescent point with the same remaining driver program (and client variables), the same
   random count and the same injector state continue identically: whatever else differs -- the clock (by D), the
   fiber ids (by rho), how many fibers were created before (by dn) -- does not matter.  (random count, injector
   state) is exactly what ForwardToFaultRandomCount / SetInjectorState restore. *)
Theorem checkpoint : forall rho, injective rho -> forall D dn cf draws alloc1 alloc2,
  (forall k, alloc2 (k + dn) = rho (alloc1 k)) ->
  forall s1 s2 d1 r1 r2,
  quiescent_at s1 d1 r1 -> quiescent_at s2 (rho d1) r2 ->
  prog r2 = prog r1 -> lastcas r2 = lastcas r1 -> lastto r2 = lastto r1 ->
  rc s2 = rc s1 -> inj s2 = inj s1 -> now s2 = (now s1 + D)%N -> nsp s2 = nsp s1 + dn ->
  epoch s2 = (epoch s1 + D)%N ->
  forall fuel, run cf draws alloc2 fuel s2 = map (xobs rho D) (run cf draws alloc1 fuel s1).
Proof.
  intros rho Hinj D dn cf draws alloc1 alloc2 Hal s1 s2 d1 r1 r2 Q1 Q2 Hp Hc Ht Hrc Hinj' Hnow Hnsp Hep fuel.
  rewrite <- (@run_x rho Hinj D dn cf draws alloc1 alloc2 Hal).
  f_equal.
  destruct Q1 as (C1 & R1 & S1 & W1 & L1 & T1 & F1 & X1 & A1 & B1 & J1 & P1).
  destruct Q2 as (C2 & R2 & S2 & W2 & L2 & T2 & F2 & X2 & A2 & B2 & J2 & P2).
  destruct s1, s2. simpl in *. subst. unfold xst. simpl. f_equal.
  destruct r1, r2. simpl in *. subst. reflexivity.
Qed.

(* ================================================================== Part 2: the draws are consumed in order *)
Fixpoint draw_idx (o : list obs) : list nat :=
  match o with
  | [] => []
  | ODraw k _ _ :: r => k :: draw_idx r
  | _ :: r => draw_idx r
  end.

Definition draw_ok (draws : nat -> N) (e : obs) : Prop :=
  match e with ODraw k max v => v = (draws k mod max)%N | _ => True end.

Lemma draw_idx_app : forall a b, draw_idx (a ++ b) = draw_idx a ++ draw_idx b.
Proof.
  induction a as [|e a IH]; intros b; simpl; auto. destruct e; simpl; rewrite ?IH; auto.
Qed.

Section Draws.

Variable cf : cfg.
Variable draws : nat -> N.
Variable alloc : nat -> fid.

(* a result (s', o) of something started in s: either no draw, or exactly the draw number rc s *)
Definition dspec (s : st) (res : st * list obs) : Prop :=
  Forall (draw_ok draws) (snd res) /\
  ((draw_idx (snd res) = [] /\ rc (fst res) = rc s) \/ (draw_idx (snd res) = [rc s] /\ rc (fst res) = S (rc s))).

Lemma rc_sar : forall g s, rc (sched_and_remove g s) = rc s.
Proof.
  intros g s. unfold sched_and_remove. destruct (fget g (fibers s)) as [r|]; auto.
  destruct (fstate_eqb (fs r) FWaiting); reflexivity.
Qed.

Lemma rc_fold_sar : forall l s, rc (fold_left (fun s' g => sched_and_remove g s') l s) = rc s.
Proof. induction l as [|g l IH]; intros s; simpl; auto. rewrite IH. apply rc_sar. Qed.

Lemma rc_notify_all : forall q s, rc (notify_all q s) = rc s.
Proof. intros. unfold notify_all. rewrite rc_fold_sar. reflexivity. Qed.

Lemma dspec_nodraw : forall s s' o, rc s' = rc s -> draw_idx o = [] -> Forall (draw_ok draws) o -> dspec s (s', o).
Proof. intros. split; auto. Qed.

Lemma notify_one_d : forall q s, dspec s (notify_one cf draws q s).
Proof.
  intros q s. unfold notify_one. destruct (is_nil (wq q s)).
  - apply dspec_nodraw; auto.
  - unfold poll, draw. destruct (nth_error (wq q s) _) as [g|].
    + split; simpl.
      * repeat constructor.
      * right. split; auto. rewrite rc_sar. reflexivity.
    + split; simpl.
      * repeat constructor.
      * right. auto.
Qed.

Lemma inject_d : forall f s, dspec s (inject cf draws f s).
Proof.
  intros f s. unfold inject. destruct (freq cf <=? inj s)%N.
  - unfold draw. split; simpl.
    + repeat constructor.
    + right. auto.
  - apply dspec_nodraw; simpl; auto. repeat constructor.
Qed.

Lemma timed_finish_d : forall f q ns s, dspec s (timed_finish f q ns s).
Proof.
  intros f q ns s. unfold timed_finish. apply dspec_nodraw; simpl; auto.
  destruct (sm_find ns (sleepm s)) as [b|]; [destruct (is_nil b)|];
    match goal with |- context [if ?c then _ else _] => destruct c end; reflexivity.
Qed.

Lemma dspec_rc : forall s1 s2 res, rc s1 = rc s2 -> dspec s1 res -> dspec s2 res.
Proof. intros s1 s2 res H [Hf Hd]. split; auto. rewrite <- H. auto. Qed.

Lemma do_action_d : forall f r a rest s, dspec s (do_action cf draws alloc f r a rest s).
Proof.
  intros f r a rest s.
  destruct a; unfold do_action.
  - eapply dspec_rc; [|apply inject_d]. reflexivity.
  - destruct (casf cf =? 0)%N.
    + apply dspec_nodraw; simpl; auto. repeat constructor.
    + unfold draw. split; simpl.
      * repeat constructor.
      * right. auto.
  - apply dspec_nodraw; simpl; auto. repeat constructor.
  - apply dspec_nodraw; simpl; auto.
  - apply dspec_nodraw; simpl; auto.
  - destruct (tbase ab s + d <=? now s)%N; apply dspec_nodraw; simpl; auto.
  - apply dspec_nodraw; simpl; auto.
  - unfold draw. destruct (_ <=? now s)%N; (split; simpl; [repeat constructor | right; auto]).
  - apply dspec_nodraw; simpl; auto. repeat constructor.
  - eapply dspec_rc; [|apply notify_one_d]. reflexivity.
  - apply dspec_nodraw; simpl; auto. rewrite rc_notify_all. reflexivity.
  - destruct (existsb (Nat.eqb m) (locked s)); apply dspec_nodraw; simpl; auto.
  - eapply dspec_rc; [|apply notify_one_d]. reflexivity.
  - destruct (sget slot (slots s)); apply dspec_nodraw; simpl; auto; repeat constructor.
  - destruct (sget slot (slots s)) as [g|]; [|apply dspec_nodraw; simpl; auto; repeat constructor].
    destruct (Nat.eqb g f); [apply dspec_nodraw; simpl; auto; repeat constructor|].
    destruct (fget g (fibers s)) as [rg|]; [|apply dspec_nodraw; simpl; auto; repeat constructor].
    destruct (fstate_eqb (fs rg) FCompleted); apply dspec_nodraw; simpl; auto.
  - destruct (sget slot (slots s)) as [g|]; [|apply dspec_nodraw; simpl; auto; repeat constructor].
    destruct (Nat.eqb g f); [apply dspec_nodraw; simpl; auto; repeat constructor|].
    destruct (fget g (fibers s)) as [rg|]; [|apply dspec_nodraw; simpl; auto; repeat constructor].
    destruct (fstate_eqb (fs rg) FCompleted); apply dspec_nodraw; simpl; auto.
  - apply dspec_nodraw; simpl; auto. repeat constructor.
  - apply dspec_nodraw; simpl; auto. repeat constructor.
Qed.

Lemma rc_do_exit : forall f r s, rc (do_exit f r s) = rc s.
Proof.
  intros f r s. unfold do_exit. destruct (joiner r); destruct (alive r); reflexivity.
Qed.

Lemma fiber_step_d : forall f s, dspec s (fiber_step cf draws alloc f s).
Proof.
  intros f s. unfold fiber_step. destruct (fget f (fibers s)) as [r|].
  - destruct (pend r).
    + destruct (prog r); [apply dspec_nodraw; simpl; auto; apply rc_do_exit | apply do_action_d].
    + destruct (prog r); [apply dspec_nodraw; simpl; auto; apply rc_do_exit | apply do_action_d].
    + apply timed_finish_d.
  - apply dspec_nodraw; simpl; auto. repeat constructor.
Qed.

Lemma rc_advance : forall s, rc (advance s) = rc s.
Proof.
  intros s. unfold advance. destruct (is_nil (runq s)); auto.
  destruct (first_key (sleepm s)); auto. destruct (now s <=? n)%N; reflexivity.
Qed.

Lemma rc_wakeup : forall s, rc (wakeup s) = rc s.
Proof. reflexivity. Qed.

Lemma resume_next_d : forall s res, resume_next cf draws s = Some res -> dspec s res.
Proof.
  intros s res. unfold resume_next. destruct (is_nil (runq s)).
  - intros H. inversion H. apply dspec_nodraw; simpl; auto. repeat constructor.
  - unfold poll, draw. destruct (nth_error (runq s) _) as [f|]; intros H; inversion H; clear H.
    + split; simpl.
      * repeat constructor.
      * right. rewrite ?draw_idx_app. simpl. auto.
    + split; simpl.
      * repeat constructor.
      * right. rewrite ?draw_idx_app. simpl. auto.
Qed.

Lemma step_d : forall s res, step cf draws alloc s = Some res -> dspec s res.
Proof.
  intros s res. unfold step. destruct (crashed s); [discriminate|].
  destruct (cur s) as [f|].
  - intros H. inversion H. apply fiber_step_d.
  - unfold sched_step. destruct (is_nil (runq s) && is_nil (sleepm s)); [discriminate|].
    intros H. apply resume_next_d in H. eapply dspec_rc; [|exact H].
    rewrite rc_wakeup, rc_advance. reflexivity.
Qed.

(* The k-th GetRandNumber call consumes draw k: along any run the indices of the draws are consecutive, starting at
   the random count of the initial state and ending at the random count of the final state; the values are the
   engine's outputs reduced modulo the requested bound. *)
Theorem draws_counted : forall fuel s,
  draw_idx (run cf draws alloc fuel s) = seq (rc s) (rc (steps cf draws alloc fuel s) - rc s) /\
  rc s <= rc (steps cf draws alloc fuel s) /\
  Forall (draw_ok draws) (run cf draws alloc fuel s).
Proof.
  induction fuel as [|fuel IH]; intros s; cbn [run steps].
  - rewrite Nat.sub_diag. simpl. auto.
  - destruct (step cf draws alloc s) as [[s' o]|] eqn:E.
    + destruct (step_d s E) as [Hf Hd]. cbn [fst snd] in *.
      destruct (IH s') as (I1 & I2 & I3).
      rewrite draw_idx_app, I1, Forall_app.
      destruct Hd as [[Hi Hr]|[Hi Hr]]; rewrite Hi, Hr in *.
      * simpl. auto.
      * split; [|split; auto; lia].
        replace (rc (steps cf draws alloc fuel s') - rc s) with (S (rc (steps cf draws alloc fuel s') - S (rc s))) by lia.
        reflexivity.
    + rewrite Nat.sub_diag. simpl. auto.
Qed.

End Draws.

(* Nothing else of the engine is read: a step looks only at output number rc s. *)
Section DrawsExt.

Variable cf : cfg.
Variable d1 d2 : nat -> N.
Variable alloc : nat -> fid.

Lemma step_ext : forall s, d1 (rc s) = d2 (rc s) -> step cf d1 alloc s = step cf d2 alloc s.
Proof.
  intros s H. unfold step. destruct (crashed s); auto. destruct (cur s) as [f|].
  - f_equal. unfold fiber_step. destruct (fget f (fibers s)) as [r|]; auto.
    assert (Hact : forall a rest, do_action cf d1 alloc f r a rest s = do_action cf d2 alloc f r a rest s).
    { intros a rest. destruct a; unfold do_action, inject, notify_one, poll, draw; cbn [rc updf set_fibers set_locked set_wq set_waitq];
        rewrite ?H; reflexivity. }
    destruct (pend r); auto; destruct (prog r); auto.
  - unfold sched_step. destruct (is_nil (runq s) && is_nil (sleepm s)); auto.
    unfold resume_next, poll, draw. rewrite rc_wakeup, rc_advance, H. reflexivity.
Qed.

Theorem run_ext : forall fuel s, (forall k, rc s <= k -> d1 k = d2 k) ->
  run cf d1 alloc fuel s = run cf d2 alloc fuel s.
Proof.
  induction fuel as [|fuel IH]; intros s H; cbn [run]; auto.
  rewrite <- (step_ext s) by (apply H; lia).
  destruct (step cf d1 alloc s) as [[s' o]|] eqn:E; auto.
  f_equal. apply IH. intros k Hk. apply H.
  destruct (@step_d cf d1 alloc s _ E) as [_ [[_ Hr]|[_ Hr]]]; cbn [fst] in Hr; lia.
Qed.

End DrawsExt.

(* ================================================================== Part 3: sanity invariants *)
Section Clock.

Variable cf : cfg.
Variable draws : nat -> N.
Variable alloc : nat -> fid.

Lemma now_sar : forall g s, now (sched_and_remove g s) = now s.
Proof.
  intros g s. unfold sched_and_remove. destruct (fget g (fibers s)) as [r|]; auto.
  destruct (fstate_eqb (fs r) FWaiting); reflexivity.
Qed.

Lemma now_fold_sar : forall l s, now (fold_left (fun s' g => sched_and_remove g s') l s) = now s.
Proof. induction l as [|g l IH]; intros s; simpl; auto. rewrite IH. apply now_sar. Qed.

Lemma now_notify_one : forall q s, now (fst (notify_one cf draws q s)) = now s.
Proof.
  intros q s. unfold notify_one. destruct (is_nil (wq q s)); auto.
  unfold poll, draw. destruct (nth_error (wq q s) _); cbn [fst]; rewrite ?now_sar; reflexivity.
Qed.

Lemma now_fiber_step : forall f s, now (fst (fiber_step cf draws alloc f s)) = now s.
Proof.
  intros f s. unfold fiber_step. destruct (fget f (fibers s)) as [r|]; auto.
  assert (Hact : forall a rest, now (fst (do_action cf draws alloc f r a rest s)) = now s).
  { intros a rest. destruct a; unfold do_action; try reflexivity.
    - unfold inject, draw. destruct (freq cf <=? inj _)%N; reflexivity.
    - destruct (casf cf =? 0)%N; reflexivity.
    - destruct (tbase ab s + d <=? now s)%N; reflexivity.
    - unfold draw. destruct (_ <=? now s)%N; reflexivity.
    - rewrite now_notify_one. reflexivity.
    - cbn [fst]. unfold notify_all. rewrite now_fold_sar. reflexivity.
    - destruct (existsb (Nat.eqb m) (locked s)); reflexivity.
    - rewrite now_notify_one. reflexivity.
    - destruct (sget slot (slots s)); reflexivity.
    - destruct (sget slot (slots s)) as [g|]; auto. destruct (Nat.eqb g f); auto.
      destruct (fget g (fibers s)) as [rg|]; auto. destruct (fstate_eqb (fs rg) FCompleted); reflexivity.
    - destruct (sget slot (slots s)) as [g|]; auto. destruct (Nat.eqb g f); auto.
      destruct (fget g (fibers s)) as [rg|]; auto. destruct (fstate_eqb (fs rg) FCompleted); reflexivity. }
  assert (Hexit : now (do_exit f r s) = now s).
  { unfold do_exit. destruct (joiner r); destruct (alive r); reflexivity. }
  assert (Hfin : forall q ns, now (fst (timed_finish f q ns s)) = now s).
  { intros q ns. unfold timed_finish. cbn [fst].
    destruct (sm_find ns (sleepm s)) as [b|]; [destruct (is_nil b)|];
      match goal with |- context [if ?c then _ else _] => destruct c end; reflexivity. }
  destruct (pend r); auto; destruct (prog r); auto.
Qed.

Lemma now_advance : forall s, (now s <= now (advance s))%N.
Proof.
  intros s. unfold advance. destruct (is_nil (runq s)); [|lia].
  destruct (first_key (sleepm s)) as [k|]; [|lia].
  destruct (N.leb_spec (now s) k); simpl; lia.
Qed.

(* Virtual time never goes back. *)
Theorem time_monotone_step : forall s s' o, step cf draws alloc s = Some (s', o) -> (now s <= now s')%N.
Proof.
  intros s s' o. unfold step. destruct (crashed s); [discriminate|]. destruct (cur s) as [f|].
  - intros H. inversion H as [H1]. pose proof (now_fiber_step f s) as Hn. rewrite H1 in Hn. cbn [fst] in Hn. lia.
  - unfold sched_step. destruct (is_nil (runq s) && is_nil (sleepm s)); [discriminate|].
    unfold resume_next. destruct (is_nil (runq (wakeup (advance s)))).
    + intros H. inversion H. simpl. apply now_advance.
    + unfold poll, draw. destruct (nth_error _ _); intros H; inversion H; simpl; pose proof (now_advance s); lia.
Qed.

Theorem time_monotone : forall fuel s, (now s <= now (steps cf draws alloc fuel s))%N.
Proof.
  induction fuel as [|fuel IH]; intros s; cbn [steps]; [lia|].
  destruct (step cf draws alloc s) as [[s' o]|] eqn:E; [|lia].
  pose proof (time_monotone_step s E). pose proof (IH s'). lia.
Qed.

End Clock.

(* ---------------------------------------------------------------- decidable quiescence (for the examples) *)
Definition quiescentb (s : st) : bool :=
  match cur s, runq s, sleepm s, waitq s, locked s, slots s, fibers s with
  | Some d, [], [], [], [], [], [(d', r)] =>
      Nat.eqb d' d && negb (crashed s) && fstate_eqb (fs r) FRunning && alive r &&
      match joiner r with None => true | Some _ => false end &&
      match pend r with PNone => true | _ => false end
  | _, _, _, _, _, _, _ => false
  end.

Lemma quiescentb_sound : forall s, quiescentb s = true -> exists d r, quiescent_at s d r.
Proof.
  intros s. unfold quiescentb, quiescent_at.
  destruct (cur s) as [d|]; [|discriminate].
  destruct (runq s); [|discriminate]. destruct (sleepm s); [|discriminate]. destruct (waitq s); [|discriminate].
  destruct (locked s); [|discriminate]. destruct (slots s); [|discriminate].
  destruct (fibers s) as [|[d' r] [|x l]]; try discriminate.
  intros H. repeat (apply andb_prop in H; destruct H as [H ?]).
  apply Nat.eqb_eq in H. subst d'.
  exists d, r. destruct (crashed s); [discriminate|].
  destruct (fs r); try discriminate. destruct (joiner r); [discriminate|]. destruct (pend r); try discriminate.
  repeat split; auto.
Qed.
