(* Proofs about Place: where the steps of a pipeline run, for every program, every policy of refusing executors. *)
From Coq Require Import List ZArith Bool Arith Lia.
Import ListNotations.
From YV Require Import model.Pipe proofs.PipeProofs model.Place.

(* ------------------------------------------------------------------------------------ drun generalises Pipe.run *)

Lemma static_accepts : forall s e, accepts static_pol s e = alive e.
Proof. reflexivity. Qed.

Lemma static_arg : forall s a ex r,
  (if step_ok static_pol s a ex then r else Err EStop) = step_input a ex r.
Proof.
  intros. unfold step_ok, step_input. rewrite static_accepts.
  destruct (is_call a), (alive ex); reflexivity.
Qed.

Definition QS (p : prog) : Prop :=
  forall ce s, (forall id, ce id = []) -> option_map fst (drun static_pol ce s p) = run p.
Definition QSo (o : outcome) : Prop := match o with RetAsync _ p' => QS p' | _ => True end.

Lemma drun_static_all : forall p, QS p.
Proof.
  apply (prog_mind QSo QS); unfold QS, QSo; intros; try exact I; auto.
  - (* PRun *)
    cbn [drun run]. rewrite static_accepts.
    destruct (run_call par (negb (alive e))) as [[i|r]|]; try reflexivity.
    specialize (H i). destruct (body i) as [x|v| |r|k p'] eqn:Hb; try reflexivity.
    unfold QS in H. specialize (H ce (submitted static_pol s id e) H0).
    destruct (drun static_pol ce (submitted static_pol s id e) p') as [[oi s2]|]; cbn in H; rewrite <- H; reflexivity.
  - (* PProm *)
    cbn [drun run]. rewrite static_accepts. destruct (prom_result b (negb (alive e))). reflexivity.
  - (* PCoro *)
    cbn [drun run]. rewrite H. reflexivity.
  - (* PThen *)
    cbn [drun run]. specialize (H ce s H1).
    destruct (drun static_pol ce s q) as [[o s0]|]; cbn in H; rewrite <- H; [|reflexivity].
    rewrite static_arg.
    destruct (call_impl par (o_ty o) _) as [[i|r]|]; try reflexivity.
    specialize (H0 i). destruct (body i) as [x|v| |r|k p'] eqn:Hb; try reflexivity.
    unfold QS in H0. specialize (H0 ce (step_st static_pol s0 a id (transfer_exec a (o_exec o))) H1).
    destruct (drun static_pol ce _ p') as [[oi s2]|]; cbn in H0; rewrite <- H0; reflexivity.
  - cbn [drun run]. apply H. assumption.
  - cbn [drun run]. apply H. assumption.
Qed.

(* with executors that are alive or stopped once and for all, and no On-segments, drun is Pipe.core_run *)
Theorem drun_static : forall p s, option_map fst (drun static_pol no_on s p) = core_run p.
Proof. intros. apply drun_static_all. reflexivity. Qed.

Corollary drun_static_some : forall p s o s', drun static_pol no_on s p = Some (o, s') -> core_run p = Some o.
Proof. intros p s o s' H. rewrite <- (drun_static p s), H. reflexivity. Qed.

Corollary core_run_drun : forall p o s, core_run p = Some o -> exists s', drun static_pol no_on s p = Some (o, s').
Proof.
  intros p o s H. rewrite <- (drun_static p s) in H.
  destruct (drun static_pol no_on s p) as [[o' s']|]; [|discriminate]. inversion H. subst. exists s'. reflexivity.
Qed.

(* ------------------------------------------------------------------------------------ drun refines dseq *)

Definition DQ (p : prog) : Prop := forall pol ce s o s', drun pol ce s p = Some (o, s') -> dseq pol ce s p = (o, s').
Definition DQo (o : outcome) : Prop := match o with RetAsync _ p' => DQ p' | _ => True end.

Lemma drefines_all : forall p, DQ p.
Proof.
  apply (prog_mind DQo DQ); unfold DQ, DQo; intros; try exact I; auto.
  - cbn in *. inversion H. reflexivity.
  - cbn in *. inversion H. reflexivity.
  - (* PRun *)
    cbn [drun dseq] in *. rewrite run_call_class in H0.
    destruct (par_ok par TVoid); [|discriminate].
    replace (if negb (accepts pol s e) then Err EStop else Val VUnit)
      with (if accepts pol s e then Val VUnit else Err EStop) in H0 by (destruct (accepts pol s e); reflexivity).
    unfold by_class in H0.
    destruct (invoked par _) as [i|].
    + specialize (H i). destruct (body i) as [x|v| |r|k p'] eqn:Hb; cbn in H0; try (inversion H0; reflexivity).
      destruct (drun pol ce _ p') as [[oi s2]|] eqn:Hr; [|discriminate].
      rewrite (H _ _ _ _ _ Hr). inversion H0. reflexivity.
    + inversion H0. reflexivity.
  - (* PProm *)
    cbn [drun dseq] in *. unfold prom_result in H.
    destruct (accepts pol s e); cbn in H; [destruct b|]; inversion H; reflexivity.
  - (* PCoro *)
    cbn [drun dseq] in *. destruct (co_segs _ _ _ _ _ _) as [[[r' ex] evs] s1]. inversion H. reflexivity.
  - (* PThen *)
    cbn [drun dseq] in *.
    destruct (drun pol ce s q) as [[oq s0]|] eqn:Hq; [|discriminate].
    rewrite (H _ _ _ _ _ Hq).
    rewrite call_impl_class, transfer_exec_seq in H1.
    destruct (par_ok par (o_ty oq)); [|discriminate].
    unfold by_class in H1.
    destruct (invoked par _) as [i|].
    + specialize (H0 i). destruct (body i) as [x|v| |r|k p'] eqn:Hb; cbn in H1; try (inversion H1; reflexivity).
      destruct (drun pol ce _ p') as [[oi s2]|] eqn:Hr; [|discriminate].
      rewrite (H0 _ _ _ _ _ Hr). inversion H1. reflexivity.
    + inversion H1. reflexivity.
  - cbn [drun dseq] in *. apply H. assumption.
  - cbn [drun dseq] in *. apply H. assumption.
Qed.

Theorem drefines : forall pol ce s p o s', drun pol ce s p = Some (o, s') -> dseq pol ce s p = (o, s').
Proof. intros. apply drefines_all. assumption. Qed.

(* ------------------------------------------------------------------------------------ one step, unfolded *)

Lemma dthen_unfold : forall pol ce s q id par a rt body oq s0,
  drun pol ce s q = Some (oq, s0) ->
  drun pol ce s (PThen q id par a rt body) = dstep_result pol ce s0 oq id par a rt body.
Proof.
  intros. cbn [drun]. rewrite H. unfold dstep_result, darrives, exec_of.
  rewrite call_impl_class, transfer_exec_seq.
  destruct (par_ok par (o_ty oq)); [|reflexivity].
  unfold by_class. destruct (invoked par _); reflexivity.
Qed.

Lemma dthen_some_inv : forall pol ce s q id par a rt body o s',
  drun pol ce s (PThen q id par a rt body) = Some (o, s') ->
  exists oq s0, drun pol ce s q = Some (oq, s0) /\ dstep_result pol ce s0 oq id par a rt body = Some (o, s').
Proof.
  intros. destruct (drun pol ce s q) as [[oq s0]|] eqn:Hq.
  - exists oq, s0. split; [reflexivity|]. rewrite <- (dthen_unfold _ _ _ _ _ _ _ _ _ _ _ Hq). exact H.
  - cbn [drun] in H. rewrite Hq in H. discriminate.
Qed.

(* what a step contributes: nothing but its job (callback not invoked), or its job and one invocation, or its job, one
   invocation and everything the chain it returned does *)
Definition step_shape (pol : policy) (ce : coenv) (s0 : dst) (oq : out) (id : nat) (par : pclass) (a : attach)
                      (body : input -> outcome) (o : out) (s' : dst) : Prop :=
  let ex := exec_of a oq in
  let s1 := step_st pol s0 a id ex in
  let r := darrives pol s0 a oq in
  (invoked par r = None /\ o_res o = r /\ o_evs o = o_evs oq /\ s' = s1) \/
  exists i, invoked par r = Some i /\
    ((o_res o = done_result (body i) /\ (forall k p', body i <> RetAsync k p') /\
      o_evs o = o_evs oq ++ [Ev id ex (is_call a) i] /\ s' = s1) \/
     exists k p' oi, body i = RetAsync k p' /\ drun pol ce s1 p' = Some (oi, s') /\ o_res o = o_res oi /\
       o_evs o = o_evs oq ++ Ev id ex (is_call a) i :: o_evs oi).

Lemma dstep_shape : forall pol ce s0 oq id par a rt body o s',
  dstep_result pol ce s0 oq id par a rt body = Some (o, s') ->
  o_exec o = exec_of a oq /\ o_ty o = rt /\ step_shape pol ce s0 oq id par a body o s'.
Proof.
  intros pol ce s0 oq id par a rt body o s' H. unfold dstep_result in H. unfold step_shape.
  destruct (par_ok par (o_ty oq)); [|discriminate].
  destruct (invoked par (darrives pol s0 a oq)) as [i|] eqn:Hi.
  - destruct (body i) as [x|v| |r|k p'] eqn:Hb;
      try (inversion H; subst; cbn; repeat split; right; exists i; split; [reflexivity|]; left; rewrite Hb;
           repeat split; intros; discriminate).
    destruct (drun pol ce _ p') as [[oi s2]|] eqn:Hr; [|discriminate].
    inversion H; subst; cbn. repeat split. right. exists i. split; [reflexivity|]. right.
    exists k, p', oi. repeat split; assumption.
  - inversion H; subst; cbn. repeat split. left. repeat split.
Qed.

Lemma dthen_shape : forall pol ce s q id par a rt body oq s0 o s',
  drun pol ce s q = Some (oq, s0) -> drun pol ce s (PThen q id par a rt body) = Some (o, s') ->
  o_exec o = exec_of a oq /\ o_ty o = rt /\ step_shape pol ce s0 oq id par a body o s'.
Proof.
  intros. rewrite (dthen_unfold _ _ _ _ _ _ _ _ _ _ _ H) in H0. apply dstep_shape in H0. exact H0.
Qed.

(* ------------------------------------------------------------------------------------ the job log only grows *)

Lemma co_segs_ext : forall pol segs s ex evs r r' ex' evs' s',
  co_segs pol s ex evs segs r = (r', ex', evs', s') -> exists js, s' = s ++ js.
Proof.
  induction segs as [|[e sid] rest IH]; intros; cbn in H.
  - inversion H. exists []. rewrite app_nil_r. reflexivity.
  - destruct (accepts pol s e).
    + apply IH in H. destruct H as [js H]. unfold submitted in H. rewrite <- app_assoc in H. eexists. exact H.
    + inversion H. unfold submitted. eexists. reflexivity.
Qed.

Definition EQ (p : prog) : Prop := forall pol ce s o s', drun pol ce s p = Some (o, s') -> exists js, s' = s ++ js.
Definition EQo (o : outcome) : Prop := match o with RetAsync _ p' => EQ p' | _ => True end.

Lemma ext_step : forall pol s a id ex, exists js, step_st pol s a id ex = s ++ js.
Proof.
  intros. unfold step_st, submitted. destruct (is_call a); eexists; [reflexivity|]. rewrite app_nil_r. reflexivity.
Qed.

Lemma drun_ext_all : forall p, EQ p.
Proof.
  apply (prog_mind EQo EQ); unfold EQ, EQo; intros; try exact I; auto.
  - cbn in H. inversion H. exists []. rewrite app_nil_r. reflexivity.
  - cbn in H. inversion H. exists []. rewrite app_nil_r. reflexivity.
  - cbn [drun] in H0. destruct (run_call par _) as [[i|r]|]; [| |discriminate].
    + specialize (H i). destruct (body i) as [x|v| |r|k p'] eqn:Hb;
        try (inversion H0; unfold submitted; eexists; reflexivity).
      destruct (drun pol ce _ p') as [[oi s2]|] eqn:Hr; [|discriminate].
      destruct (H _ _ _ _ _ Hr) as [js Hjs]. inversion H0. subst. unfold submitted. rewrite <- app_assoc. eexists. reflexivity.
    + inversion H0. unfold submitted. eexists. reflexivity.
  - cbn [drun] in H. destruct (prom_result _ _). inversion H. unfold submitted. eexists. reflexivity.
  - cbn [drun] in H. destruct (co_segs _ _ _ _ _ _) as [[[r' ex] evs] s1] eqn:Hc. inversion H. subst.
    eapply co_segs_ext. exact Hc.
  - apply dthen_some_inv in H1. destruct H1 as [oq [s0 [Hq Hs]]].
    destruct (H _ _ _ _ _ Hq) as [js0 Hj0]. apply dstep_shape in Hs. destruct Hs as [_ [_ Hs]].
    destruct (ext_step pol s0 a id (exec_of a oq)) as [js1 Hj1].
    destruct Hs as [[_ [_ [_ Hs]]]|[i [_ [[_ [_ [_ Hs]]]|[k [p' [oi [Hb [Hr _]]]]]]]]].
    + subst. rewrite Hj1, <- app_assoc. eexists. reflexivity.
    + subst. rewrite Hj1, <- app_assoc. eexists. reflexivity.
    + specialize (H0 i). rewrite Hb in H0. destruct (H0 _ _ _ _ _ Hr) as [js2 Hj2].
      rewrite Hj2, Hj1, Hj0, <- !app_assoc. eexists. reflexivity.
  - cbn [drun] in H0. eapply H. eassumption.
  - cbn [drun] in H0. eapply H. eassumption.
Qed.

Theorem drun_ext : forall pol ce s p o s', drun pol ce s p = Some (o, s') -> exists js, s' = s ++ js.
Proof. intros. eapply drun_ext_all. eassumption. Qed.

(* ------------------------------------------------------------------------------------ invariants of the job log *)

Lemma co_segs_state : forall pol (P : dst -> Prop),
  (forall s id e, P s -> P (submitted pol s id e)) ->
  forall segs s ex evs r r' ex' evs' s', P s -> co_segs pol s ex evs segs r = (r', ex', evs', s') -> P s'.
Proof.
  intros pol P HP. induction segs as [|[e sid] rest IH]; intros; cbn in H0.
  - inversion H0. subst. assumption.
  - destruct (accepts pol s e).
    + eapply IH; [|exact H0]. apply HP. assumption.
    + inversion H0. subst. apply HP. assumption.
Qed.

(* the state changes only through Submit *)
Lemma drun_state_ind : forall pol (P : dst -> Prop),
  (forall s id e, P s -> P (submitted pol s id e)) ->
  forall p ce s o s', P s -> drun pol ce s p = Some (o, s') -> P s'.
Proof.
  intros pol P HP.
  set (SQ := fun p => forall ce s o s', P s -> drun pol ce s p = Some (o, s') -> P s').
  set (SQo := fun o => match o with RetAsync _ p' => SQ p' | _ => True end).
  apply (prog_mind SQo SQ); unfold SQ, SQo; intros; try exact I; auto.
  - cbn in H0. inversion H0. subst. assumption.
  - cbn in H0. inversion H0. subst. assumption.
  - cbn [drun] in H1. destruct (run_call par _) as [[i|r]|]; [| |discriminate].
    + specialize (H i). destruct (body i) as [x|v| |r|k p'] eqn:Hb; try (inversion H1; subst; apply HP; assumption).
      destruct (drun pol ce _ p') as [[oi s2]|] eqn:Hr; [|discriminate].
      inversion H1. subst. eapply H; [|exact Hr]. apply HP. assumption.
    + inversion H1. subst. apply HP. assumption.
  - cbn [drun] in H0. destruct (prom_result _ _). inversion H0. subst. apply HP. assumption.
  - cbn [drun] in H0. destruct (co_segs _ _ _ _ _ _) as [[[r' ex] evs] s1] eqn:Hc. inversion H0. subst.
    eapply co_segs_state; eassumption.
  - apply dthen_some_inv in H2. destruct H2 as [oq [s0 [Hq Hs]]].
    pose proof (H _ _ _ _ H1 Hq) as P0. apply dstep_shape in Hs. destruct Hs as [_ [_ Hs]].
    assert (P1 : P (step_st pol s0 a id (exec_of a oq))).
    { unfold step_st. destruct (is_call a); [apply HP|]; assumption. }
    destruct Hs as [[_ [_ [_ Hs]]]|[i [_ [[_ [_ [_ Hs]]]|[k [p' [oi [Hb [Hr _]]]]]]]]]; subst; try assumption.
    specialize (H0 i). rewrite Hb in H0. eapply H0; eassumption.
  - cbn [drun] in H1. eapply H; eassumption.
  - cbn [drun] in H1. eapply H; eassumption.
Qed.

Lemma numbered_nil : numbered [].
Proof. intros l1 j l2 H. destruct l1; discriminate. Qed.

Lemma numbered_submitted : forall pol s id e, numbered s -> numbered (submitted pol s id e).
Proof.
  intros pol s id e Hn l1 j l2 H. unfold submitted in H.
  destruct l2 as [|x l2'] using rev_ind.
  - apply app_inj_tail in H. destruct H as [Hs Hj]. subst. reflexivity.
  - clear IHl2'. rewrite app_comm_cons, app_assoc in H. apply app_inj_tail in H. destruct H as [Hs _].
    eapply Hn. exact Hs.
Qed.

Lemma fate_submitted : forall pol s id e, Forall (fate_by pol) s -> Forall (fate_by pol) (submitted pol s id e).
Proof.
  intros. unfold submitted. apply Forall_app. split; [assumption|]. constructor; [|constructor].
  unfold fate_by, accepts. reflexivity.
Qed.

(* every job is numbered by the Submits its executor had seen before it, and its fate is the policy's answer for that
   number: Called iff accepted, Dropped iff refused — one fate per job *)
Theorem log_numbered : forall pol ce p o s', drun pol ce dinit p = Some (o, s') -> numbered s'.
Proof.
  intros. eapply (drun_state_ind pol numbered); [apply numbered_submitted|apply numbered_nil|exact H].
Qed.

Theorem log_fate : forall pol ce p o s', drun pol ce dinit p = Some (o, s') -> Forall (fate_by pol) s'.
Proof.
  intros. eapply (drun_state_ind pol (Forall (fate_by pol))); [apply fate_submitted|constructor|exact H].
Qed.

(* with the policy "executor x refuses from its k-th Submit on": a job is Dropped iff it went to MakeInline(StopTag), or
   to x as its k-th or a later submission *)
Lemma rejects_from_fate : forall x k j, fate_by (rejects_from x k) j ->
  (j_fate j = FDrop <-> (j_exec j = XStopped \/ (j_exec j = XManual x /\ k <= S (j_idx j)))).
Proof.
  intros x k [id e n f] H. unfold fate_by, rejects_from in H. cbn in *. subst f.
  destruct e as [|m|]; cbn.
  - split; [discriminate|]. intros [H|[H _]]; discriminate.
  - destruct (Nat.eqb_spec m x); cbn.
    + destruct (Nat.leb_spec k (S n)); cbn.
      * split; [|reflexivity]. intros _. right. subst. split; [reflexivity|assumption].
      * split; [discriminate|]. intros [H1|[_ H1]]; [discriminate|lia].
    + split; [discriminate|]. intros [H1|[H1 _]]; [discriminate|]. inversion H1. contradiction.
  - split; [|reflexivity]. intros _. left. reflexivity.
Qed.

(* ------------------------------------------------------------------------------------ what one step contributes *)

Definition contrib (pol : policy) (ce : coenv) (s1 : dst) (evs0 : list event) (ex : exec) (id : nat) (sub : bool)
                   (body : input -> outcome) (o : out) (s' : dst) : Prop :=
  (s' = s1 /\ (o_evs o = evs0 \/ exists i, o_evs o = evs0 ++ [Ev id ex sub i])) \/
  (exists i k p' oi, body i = RetAsync k p' /\ drun pol ce s1 p' = Some (oi, s') /\
     o_res o = o_res oi /\ o_evs o = evs0 ++ Ev id ex sub i :: o_evs oi).

Lemma step_contrib : forall pol ce s q id par a rt body oq s0 o s',
  drun pol ce s q = Some (oq, s0) -> drun pol ce s (PThen q id par a rt body) = Some (o, s') ->
  o_exec o = exec_of a oq /\
  contrib pol ce (step_st pol s0 a id (exec_of a oq)) (o_evs oq) (exec_of a oq) id (is_call a) body o s'.
Proof.
  intros. destruct (dthen_shape _ _ _ _ _ _ _ _ _ _ _ _ _ H H0) as [He [_ Hs]]. split; [exact He|].
  unfold contrib. destruct Hs as [[_ [_ [He' Hs]]]|[i [_ [[_ [_ [He' Hs]]]|[k [p' [oi [Hb [Hr [Hres He']]]]]]]]]].
  - left. split; [assumption|]. left. assumption.
  - left. split; [assumption|]. right. exists i. assumption.
  - right. exists i, k, p', oi. repeat split; assumption.
Qed.

(* Then(e, f) / Detach(e, f): exactly one job, handed to e; at most one invocation, carrying e and "submitted"; the core
   holds e afterwards whatever the callback returned *)
Theorem placement_on : forall pol ce s q id par e rt body oq s0 o s',
  drun pol ce s q = Some (oq, s0) -> drun pol ce s (PThen q id par (AOn e) rt body) = Some (o, s') ->
  o_exec o = e /\
  contrib pol ce (s0 ++ [Job id e (d_cnt s0 e) (if pol e (d_cnt s0 e) then FCall else FDrop)]) (o_evs oq) e id true body o s'.
Proof. intros. exact (step_contrib _ _ _ _ _ _ _ _ _ _ _ _ _ H H0). Qed.

(* Then(f): the same with the executor the predecessor's core holds (BaseCore::TransferExecutorTo) *)
Theorem placement_inherit : forall pol ce s q id par rt body oq s0 o s',
  drun pol ce s q = Some (oq, s0) -> drun pol ce s (PThen q id par AInherit rt body) = Some (o, s') ->
  let e := o_exec oq in
  o_exec o = e /\
  contrib pol ce (s0 ++ [Job id e (d_cnt s0 e) (if pol e (d_cnt s0 e) then FCall else FDrop)]) (o_evs oq) e id true body o s'.
Proof. intros. exact (step_contrib _ _ _ _ _ _ _ _ _ _ _ _ _ H H0). Qed.

(* ThenInline(f) / DetachInline(f): no job; the invocation is marked "not submitted"; the executor is handed on; and the
   step always sees its predecessor's Result *)
Theorem inline_step : forall pol ce s q id par rt body oq s0 o s',
  drun pol ce s q = Some (oq, s0) -> drun pol ce s (PThen q id par AInline rt body) = Some (o, s') ->
  o_exec o = o_exec oq /\ darrives pol s0 AInline oq = o_res oq /\
  contrib pol ce s0 (o_evs oq) (o_exec oq) id false body o s'.
Proof.
  intros. destruct (step_contrib _ _ _ _ _ _ _ _ _ _ _ _ _ H H0) as [H1 H2]. repeat split; assumption.
Qed.

(* ------------------------------------------------------------------------------------ a refusing executor *)

Lemma darrives_refused : forall pol s0 a oq,
  is_call a = true -> accepts pol s0 (exec_of a oq) = false -> darrives pol s0 a oq = Err EStop.
Proof. intros. unfold darrives, step_ok. rewrite H, H0. reflexivity. Qed.

Lemma darrives_accepted : forall pol s0 a oq,
  is_call a = false \/ accepts pol s0 (exec_of a oq) = true -> darrives pol s0 a oq = o_res oq.
Proof. intros pol s0 a oq [H|H]; unfold darrives, step_ok; rewrite H; [|rewrite orb_true_r]; reflexivity. Qed.

Lemma value_class_skips_stop : forall par, value_class par -> invoked par (Err EStop) = None.
Proof. intros par [H|[H|H]]; subst; reflexivity. Qed.

(* the step handed to an executor that refuses: its job is Dropped; what reaches it is StopError whatever the
   predecessor produced; a callback that does not take Result / E is skipped and StopError passes on unchanged; one that
   does is invoked with StopError *)
Theorem refused_step : forall pol ce s q id par a rt body oq s0 o s',
  drun pol ce s q = Some (oq, s0) -> drun pol ce s (PThen q id par a rt body) = Some (o, s') ->
  is_call a = true -> accepts pol s0 (exec_of a oq) = false ->
  let ex := exec_of a oq in
  let s1 := s0 ++ [Job id ex (d_cnt s0 ex) FDrop] in
  match invoked par (Err EStop) with
  | None => o_res o = Err EStop /\ o_evs o = o_evs oq /\ s' = s1
  | Some i => (i = IRes (Err EStop) \/ i = IErr EStop) /\
              exists rest js, o_evs o = o_evs oq ++ Ev id ex true i :: rest /\ s' = s1 ++ js
  end.
Proof.
  intros pol ce s q id par a rt body oq s0 o s' Hq H Hc Ha ex s1.
  destruct (dthen_shape _ _ _ _ _ _ _ _ _ _ _ _ _ Hq H) as [_ [_ Hs]]. unfold step_shape in Hs.
  rewrite (darrives_refused _ _ _ _ Hc Ha) in Hs.
  assert (Hs1 : step_st pol s0 a id (exec_of a oq) = s1).
  { unfold step_st, submitted. rewrite Hc, Ha. reflexivity. }
  rewrite Hs1, Hc in Hs. fold ex in Hs.
  destruct Hs as [[Hi [Hr [He Hs]]]|[i [Hi Hs]]].
  - rewrite Hi. repeat split; assumption.
  - rewrite Hi. split.
    + destruct par; cbn in Hi; inversion Hi; auto.
    + destruct Hs as [[_ [_ [He Hs]]]|[k [p' [oi [Hb [Hr [_ He]]]]]]].
      * exists [], []. rewrite app_nil_r. split; assumption.
      * destruct (drun_ext _ _ _ _ _ _ Hr) as [js Hjs]. exists (o_evs oi), js. split; assumption.
Qed.

(* ------------------------------------------------------------------------------------ inheritance along the chain *)

Lemma chain_snoc : forall src l x, chain src (l ++ [x]) = then_step (chain src l) x.
Proof. intros. unfold chain. rewrite fold_left_app. reflexivity. Qed.

Lemma unnamed_exec : forall a oq, match a with AOn _ => False | _ => True end -> exec_of a oq = o_exec oq.
Proof. destruct a; intros; try reflexivity. contradiction. Qed.

(* after any number of ThenInline(f) / Then(f) steps — whatever their callbacks return (a Future living on another executor
   included), and whether or not the executor refuses them — the core still holds the executor the chain started with *)
Theorem inherit_chain : forall pol ce steps s src o s',
  Forall unnamed steps -> drun pol ce s (chain src steps) = Some (o, s') ->
  exists os ss, drun pol ce s src = Some (os, ss) /\ o_exec o = o_exec os.
Proof.
  intros pol ce steps. induction steps as [|x l IH] using rev_ind; intros s src o s' Hu H.
  - cbn in H. exists o, s'. split; [assumption|reflexivity].
  - rewrite chain_snoc in H. unfold then_step in H.
    apply Forall_app in Hu. destruct Hu as [Hl Hx]. inversion Hx as [|? ? Hx' _]. subst.
    destruct (dthen_some_inv _ _ _ _ _ _ _ _ _ _ _ H) as [oq [s0 [Hq Hs]]].
    apply dstep_shape in Hs. destruct Hs as [He _].
    destruct (IH _ _ _ _ Hl Hq) as [os [ss [Hsrc Heq]]].
    exists os, ss. split; [assumption|]. rewrite He, <- Heq. apply unnamed_exec. exact Hx'.
Qed.

(* ... hence the job of a Then(f) attached after them goes to that executor *)
Corollary inherit_after_chain : forall pol ce steps s src id par rt body o s',
  Forall unnamed steps ->
  drun pol ce s (PThen (chain src steps) id par AInherit rt body) = Some (o, s') ->
  exists os ss oq s0, drun pol ce s src = Some (os, ss) /\ drun pol ce s (chain src steps) = Some (oq, s0) /\
    o_exec o = o_exec os /\
    contrib pol ce (s0 ++ [Job id (o_exec os) (d_cnt s0 (o_exec os))
                               (if pol (o_exec os) (d_cnt s0 (o_exec os)) then FCall else FDrop)])
            (o_evs oq) (o_exec os) id true body o s'.
Proof.
  intros. destruct (dthen_some_inv _ _ _ _ _ _ _ _ _ _ _ H0) as [oq [s0 [Hq _]]].
  destruct (inherit_chain _ _ _ _ _ _ _ H Hq) as [os [ss [Hsrc Heq]]].
  destruct (placement_inherit _ _ _ _ _ _ _ _ _ _ _ _ Hq H0) as [He Hc].
  exists os, ss, oq, s0. rewrite <- Heq. repeat split; assumption.
Qed.

(* read off the program text: the core of every program ends up holding the nearest upstream named executor *)
Definition NQ (p : prog) : Prop :=
  forall pol ce s o s', (forall id, ce id = []) -> drun pol ce s p = Some (o, s') -> o_exec o = named p.
Definition NQo (o : outcome) : Prop := True.

Lemma named_all : forall p, NQ p.
Proof.
  apply (prog_mind NQo NQ); unfold NQ, NQo; intros; try exact I.
  - cbn in H0. inversion H0. reflexivity.
  - cbn in H0. inversion H0. reflexivity.
  - cbn [drun] in H1. destruct (run_call par _) as [[i|r]|]; [| |discriminate].
    + destruct (body i) as [x|v| |r|k p']; try (inversion H1; reflexivity).
      destruct (drun pol ce _ p') as [[oi s2]|]; [|discriminate]. inversion H1. reflexivity.
    + inversion H1. reflexivity.
  - cbn [drun] in H0. destruct (prom_result _ _). inversion H0. reflexivity.
  - cbn [drun] in H0. rewrite H in H0. cbn in H0. inversion H0. reflexivity.
  - destruct (dthen_some_inv _ _ _ _ _ _ _ _ _ _ _ H2) as [oq [s0 [Hq Hs]]].
    apply dstep_shape in Hs. destruct Hs as [He _]. rewrite He.
    destruct a; cbn; try reflexivity; eapply H; eassumption.
  - cbn [drun named] in *. eapply H; eassumption.
  - cbn [drun named] in *. eapply H; eassumption.
Qed.

Theorem named_exec : forall pol s p o s', drun pol no_on s p = Some (o, s') -> o_exec o = named p.
Proof. intros. eapply named_all; [|eassumption]. reflexivity. Qed.

Theorem inherit_named : forall pol s q id par rt body o s',
  drun pol no_on s (PThen q id par AInherit rt body) = Some (o, s') ->
  exists oq s0, drun pol no_on s q = Some (oq, s0) /\ o_exec o = named q /\
    contrib pol no_on (s0 ++ [Job id (named q) (d_cnt s0 (named q))
                                  (if pol (named q) (d_cnt s0 (named q)) then FCall else FDrop)])
            (o_evs oq) (named q) id true body o s'.
Proof.
  intros. destruct (dthen_some_inv _ _ _ _ _ _ _ _ _ _ _ H) as [oq [s0 [Hq _]]].
  destruct (placement_inherit _ _ _ _ _ _ _ _ _ _ _ _ Hq H) as [He Hc].
  rewrite (named_exec _ _ _ _ _ Hq) in *. exists oq, s0. repeat split; assumption.
Qed.

(* ------------------------------------------------------------------------------------ every submitted invocation has its job *)

Definition ev_has_job (js : list job) (ev : event) : Prop :=
  ev_sub ev = true -> exists j, In j js /\ j_id j = ev_id ev /\ j_exec j = ev_exec ev.

Lemma ev_has_job_mono : forall js1 js js2 ev, ev_has_job js ev -> ev_has_job (js1 ++ js ++ js2) ev.
Proof.
  intros js1 js js2 ev H Hs. destruct (H Hs) as [j [Hin Hj]]. exists j. split; [|exact Hj].
  apply in_or_app. right. apply in_or_app. left. exact Hin.
Qed.

Lemma ev_has_job_r : forall js1 js ev, ev_has_job js ev -> ev_has_job (js1 ++ js) ev.
Proof. intros. pose proof (ev_has_job_mono js1 js [] ev H) as H0. rewrite app_nil_r in H0. exact H0. Qed.

Lemma Forall_has_job_mono : forall js1 js js2 evs,
  Forall (ev_has_job js) evs -> Forall (ev_has_job (js1 ++ js ++ js2)) evs.
Proof. intros. eapply Forall_impl; [|exact H]. intros. apply ev_has_job_mono. assumption. Qed.

Lemma co_segs_jobs : forall pol segs pre js0 ex evs r r' ex' evs' s',
  co_segs pol (pre ++ js0) ex evs segs r = (r', ex', evs', s') ->
  Forall (ev_has_job js0) evs ->
  exists js, s' = pre ++ js0 ++ js /\ Forall (ev_has_job (js0 ++ js)) evs'.
Proof.
  intros pol. induction segs as [|[e sid] rest IH]; intros pre js0 ex evs r r' ex' evs' s' H Hev; cbn in H.
  - inversion H. subst. exists []. rewrite !app_nil_r. split; [reflexivity|assumption].
  - destruct (accepts pol (pre ++ js0) e) eqn:Ha.
    + unfold submitted in H. rewrite Ha, <- app_assoc in H.
      remember (Job sid e (d_cnt (pre ++ js0) e) FCall) as j.
      apply IH in H.
      * destruct H as [js [Hs' Hf]]. exists (j :: js). rewrite <- app_assoc in Hs', Hf. split; assumption.
      * apply Forall_app. split.
        -- eapply Forall_impl; [|exact Hev]. intros ev Hj. apply (ev_has_job_mono [] js0 [j]). exact Hj.
        -- constructor; [|constructor]. intros _. exists j. subst j.
           split; [apply in_or_app; right; left; reflexivity|split; reflexivity].
    + inversion H. subst. unfold submitted. rewrite Ha. eexists. rewrite <- app_assoc. split; [reflexivity|].
      eapply Forall_impl; [|exact Hev]. intros ev Hj. apply (ev_has_job_mono [] js0 _). exact Hj.
Qed.

Definition JQ (p : prog) : Prop :=
  forall pol ce s o s', drun pol ce s p = Some (o, s') -> exists js, s' = s ++ js /\ Forall (ev_has_job js) (o_evs o).
Definition JQo (o : outcome) : Prop := match o with RetAsync _ p' => JQ p' | _ => True end.

Lemma own_job : forall id e n f i, ev_has_job [Job id e n f] (Ev id e true i).
Proof. intros. intros _. eexists. split; [left; reflexivity|split; reflexivity]. Qed.

Lemma jobs_all : forall p, JQ p.
Proof.
  apply (prog_mind JQo JQ); unfold JQ, JQo; intros; try exact I; auto.
  - cbn in H. inversion H. exists []. rewrite app_nil_r. split; [reflexivity|constructor].
  - cbn in H. inversion H. exists []. rewrite app_nil_r. split; [reflexivity|constructor].
  - (* PRun *)
    cbn [drun] in H0. unfold submitted in H0.
    set (j := Job id e (d_cnt s e) (if accepts pol s e then FCall else FDrop)) in *.
    destruct (run_call par _) as [[i|r]|]; [| |discriminate].
    + specialize (H i). destruct (body i) as [x|v| |r|k p'] eqn:Hb;
        try (inversion H0; subst; exists [j]; split; [reflexivity|]; cbn; constructor; [apply own_job|constructor]).
      destruct (drun pol ce _ p') as [[oi s2]|] eqn:Hr; [|discriminate].
      destruct (H _ _ _ _ _ Hr) as [js [Hs Hf]]. inversion H0. subst. exists (j :: js). split.
      * rewrite <- app_assoc. reflexivity.
      * cbn. constructor.
        -- apply (ev_has_job_mono [] [j] js). apply own_job.
        -- apply (Forall_has_job_mono [j] js []) in Hf. rewrite app_nil_r in Hf. exact Hf.
    + inversion H0. subst. exists [j]. split; [reflexivity|constructor].
  - (* PProm *)
    cbn [drun] in H. unfold submitted in H. destruct (prom_result _ _) as [r c]. inversion H. subst.
    eexists. split; [reflexivity|]. destruct c; constructor; [apply own_job|constructor].
  - (* PCoro *)
    cbn [drun] in H. destruct (co_segs _ _ _ _ _ _) as [[[r' ex] evs] s1] eqn:Hc. inversion H. subst.
    rewrite <- (app_nil_r s) in Hc.
    destruct (co_segs_jobs _ _ _ _ _ _ _ _ _ _ _ Hc) as [js [Hs Hf]].
    + constructor; [|constructor]. intros Hsub. discriminate.
    + exists js. split; assumption.
  - (* PThen *)
    destruct (dthen_some_inv _ _ _ _ _ _ _ _ _ _ _ H1) as [oq [s0 [Hq Hs]]].
    destruct (H _ _ _ _ _ Hq) as [js0 [Hs0 Hf0]].
    apply dstep_shape in Hs. destruct Hs as [_ [_ Hs]]. unfold step_shape in Hs.
    set (ex := exec_of a oq) in *.
    assert (Hown : exists js1, step_st pol s0 a id ex = s0 ++ js1 /\ forall i, ev_has_job js1 (Ev id ex (is_call a) i)).
    { unfold step_st, submitted. destruct (is_call a).
      - eexists. split; [reflexivity|]. intros. apply own_job.
      - exists []. split; [rewrite app_nil_r; reflexivity|]. intros i Hsub. discriminate. }
    destruct Hown as [js1 [Hs1 Hown]].
    destruct Hs as [[_ [_ [He Hs]]]|[i [_ [[_ [_ [He Hs]]]|[k [p' [oi [Hb [Hr [_ He]]]]]]]]]].
    + exists (js0 ++ js1). subst s'. rewrite Hs1, Hs0, app_assoc. split; [reflexivity|]. rewrite He.
      apply (Forall_has_job_mono [] js0 js1) in Hf0. exact Hf0.
    + exists (js0 ++ js1). subst s'. rewrite Hs1, Hs0, app_assoc. split; [reflexivity|]. rewrite He.
      apply Forall_app. split.
      * apply (Forall_has_job_mono [] js0 js1) in Hf0. exact Hf0.
      * constructor; [|constructor]. apply ev_has_job_r. apply Hown.
    + specialize (H0 i). rewrite Hb in H0. destruct (H0 _ _ _ _ _ Hr) as [js2 [Hs2 Hf2]].
      exists (js0 ++ js1 ++ js2). rewrite Hs2, Hs1, Hs0, <- !app_assoc. split; [reflexivity|]. rewrite He.
      apply Forall_app. split.
      * apply (Forall_has_job_mono [] js0 (js1 ++ js2)) in Hf0. exact Hf0.
      * constructor.
        -- apply (ev_has_job_mono js0 js1 js2). apply Hown.
        -- apply (Forall_has_job_mono (js0 ++ js1) js2 []) in Hf2. rewrite app_nil_r, <- app_assoc in Hf2. exact Hf2.
  - cbn [drun] in H0. eapply H. eassumption.
  - cbn [drun] in H0. eapply H. eassumption.
Qed.

(* every invocation marked "submitted" belongs to a job with the same step id that was handed to the same executor *)
Theorem events_have_jobs : forall pol ce s p o s', drun pol ce s p = Some (o, s') ->
  exists js, s' = s ++ js /\ Forall (ev_has_job js) (o_evs o).
Proof. intros. eapply jobs_all. eassumption. Qed.

(* ------------------------------------------------------------------------------------ ThenInline never submits: whole programs *)

(* programs built from sources that take no executor and ThenInline / DetachInline steps only, at every depth *)
Fixpoint inline_only (p : prog) : Prop :=
  match p with
  | PReady _ _ _ => True
  | PContract _ _ _ _ _ => True
  | PRun _ _ _ _ _ _ => False
  | PProm _ _ _ _ _ => False
  | PCoro _ _ _ _ => True
  | PThen q _ _ a _ body => a = AInline /\ inline_only q /\ forall i, inline_only_o (body i)
  | PToFuture q => inline_only q
  | POnNull q => inline_only q
  end
with inline_only_o (o : outcome) : Prop :=
  match o with RetAsync _ p' => inline_only p' | _ => True end.

Definition IQ (p : prog) : Prop :=
  forall pol ce s o s', (forall id, ce id = []) -> inline_only p -> drun pol ce s p = Some (o, s') ->
  s' = s /\ Forall (fun ev => ev_sub ev = false) (o_evs o).
Definition IQo (o : outcome) : Prop := match o with RetAsync _ p' => IQ p' | _ => True end.

Lemma inline_all : forall p, IQ p.
Proof.
  apply (prog_mind IQo IQ); unfold IQ, IQo; intros; try exact I; auto.
  - cbn in H1. inversion H1. split; [reflexivity|constructor].
  - cbn in H1. inversion H1. split; [reflexivity|constructor].
  - cbn in H1. contradiction.
  - cbn in H0. contradiction.
  - cbn [drun] in H1. rewrite H in H1. cbn in H1. inversion H1. split; [reflexivity|]. constructor; [reflexivity|constructor].
  - cbn [inline_only] in H2. destruct H2 as [Ha [Hq Hb]]. subst a.
    destruct (dthen_some_inv _ _ _ _ _ _ _ _ _ _ _ H3) as [oq [s0 [Hrq _]]].
    destruct (H _ _ _ _ _ H1 Hq Hrq) as [Hs0 Hf0]. subst s0.
    destruct (inline_step _ _ _ _ _ _ _ _ _ _ _ _ Hrq H3) as [_ [_ Hc]].
    destruct Hc as [[Hs [He|[i He]]]|[i [k [p' [oi [Hbi [Hr [_ He]]]]]]]].
    + subst. rewrite He. split; [reflexivity|assumption].
    + subst. rewrite He. split; [reflexivity|]. apply Forall_app. split; [assumption|]. constructor; [reflexivity|constructor].
    + specialize (H0 i). specialize (Hb i). rewrite Hbi in H0, Hb. cbn in Hb.
      destruct (H0 _ _ _ _ _ H1 Hb Hr) as [Hs2 Hf2]. split; [assumption|]. rewrite He.
      apply Forall_app. split; [assumption|]. constructor; [reflexivity|assumption].
  - cbn [drun inline_only] in *. eapply H; eassumption.
  - cbn [drun inline_only] in *. eapply H; eassumption.
Qed.

(* such a program submits nothing to any executor and none of its invocations is marked "submitted", whatever the policy *)
Theorem inline_only_never_submits : forall pol s p o s',
  inline_only p -> drun pol no_on s p = Some (o, s') -> s' = s /\ Forall (fun ev => ev_sub ev = false) (o_evs o).
Proof. intros. eapply inline_all; [|eassumption|eassumption]. reflexivity. Qed.

(* ------------------------------------------------------------------------------------ co_await On(e) *)

Lemma last_default {A} : forall (l : list A) x d d', last (x :: l) d = last (x :: l) d'.
Proof. induction l as [|a l IH]; intros; [reflexivity|]. change (last (a :: l) d = last (a :: l) d'). apply IH. Qed.

Lemma last_shift {A} : forall (l : list A) e d, last (e :: l) d = last l e.
Proof. destruct l as [|a l]; intros; [reflexivity|]. change (last (a :: l) d = last (a :: l) e). apply last_default. Qed.

Definition seg_ev (x : exec * nat) : event := Ev (snd x) (fst x) true INone.
Definition seg_job (x : exec * nat) (j : job) : Prop := j_id j = snd x /\ j_exec j = fst x.

(* the body runs segment by segment: the code after `co_await On(e)` runs inside e (its invocation carries e, submitted) as
   long as the executors accept; at the first refusal the promise is Dropped: the coroutine's Result is StopError, its core
   holds the refusing executor, and no later segment runs *)
Lemma co_segs_spec : forall pol segs s ex evs r r' ex' evs' s',
  co_segs pol s ex evs segs r = (r', ex', evs', s') ->
  exists done js, evs' = evs ++ map seg_ev done /\ s' = s ++ js /\
    ((segs = done /\ r' = r /\ ex' = last (map fst done) ex /\ Forall2 seg_job done js /\
      Forall (fun j => j_fate j = FCall) js) \/
     (exists x rest jd, segs = done ++ x :: rest /\ r' = Err EStop /\ ex' = fst x /\
        exists jc, js = jc ++ [jd] /\ Forall2 seg_job done jc /\ Forall (fun j => j_fate j = FCall) jc /\
                   seg_job x jd /\ j_fate jd = FDrop)).
Proof.
  intros pol. induction segs as [|[e sid] rest IH]; intros s ex evs r r' ex' evs' s' H; cbn in H.
  - inversion H. subst. exists [], []. cbn. rewrite !app_nil_r. repeat split. left. repeat split; constructor.
  - destruct (accepts pol s e) eqn:Ha.
    + apply IH in H. destruct H as [done [js [Hev [Hs Hcase]]]].
      exists ((e, sid) :: done), (Job sid e (d_cnt s e) FCall :: js). cbn [map seg_ev fst snd].
      rewrite <- app_assoc in Hev. cbn in Hev. unfold submitted in Hs. rewrite Ha, <- app_assoc in Hs. cbn in Hs.
      split; [exact Hev|]. split; [exact Hs|].
      destruct Hcase as [[Hd [Hr [Hx [Hj Hf]]]]|[x [rest' [jd [Hd [Hr [Hx [jc [Hjs [Hj [Hf [Hjd Hfd]]]]]]]]]]]].
      * left. subst. repeat split.
        -- symmetry. apply last_shift.
        -- constructor; [split; reflexivity|assumption].
        -- constructor; [reflexivity|assumption].
      * right. exists x, rest', jd. subst. repeat split.
        exists (Job sid e (d_cnt s e) FCall :: jc). repeat split; try assumption.
        -- constructor; [split; reflexivity|assumption].
        -- constructor; [reflexivity|assumption].
        -- destruct Hjd; assumption.
        -- destruct Hjd; assumption.
    + injection H as Hr He Hev Hs. subst r' ex' evs' s'.
      exists [], [Job sid e (d_cnt s e) FDrop]. cbn. rewrite app_nil_r. unfold submitted. rewrite Ha.
      repeat split. right. exists (e, sid), rest, (Job sid e (d_cnt s e) FDrop). repeat split.
      exists []. repeat split; constructor.
Qed.

(* ------------------------------------------------------------------------------------ the rest of the chain still completes *)

Lemma co_segs_res : forall pol segs s ex evs r r' ex' evs' s',
  co_segs pol s ex evs segs r = (r', ex', evs', s') -> r' = r \/ r' = Err EStop.
Proof.
  intros pol. induction segs as [|[e sid] rest IH]; intros; cbn in H.
  - inversion H. left. reflexivity.
  - destruct (accepts pol s e); [eapply IH; exact H|]. inversion H. right. reflexivity.
Qed.

Definition TyD (p : prog) : Prop :=
  wt p -> forall pol ce s, exists o s', drun pol ce s p = Some (o, s') /\
    (exists w, prog_ty p = Some (w, o_ty o)) /\ res_has_ty (o_ty o) (o_res o) = true.
Definition TyDo (o : outcome) : Prop := match o with RetAsync _ p' => TyD p' | _ => True end.

Lemma stop_typed : forall t, res_has_ty t (Err EStop) = true.
Proof. destruct t; reflexivity. Qed.

Lemma dtyped_all : forall p, TyD p.
Proof.
  apply (prog_mind TyDo TyD); unfold TyD, TyDo; intros; try exact I; auto.
  - (* PReady *) cbn [wt prog_ty drun] in *.
    destruct (w_in w [WF; WT] && res_has_ty t r) eqn:E; [|contradiction H; reflexivity].
    apply andb_prop in E. destruct E as [_ E].
    eexists. eexists. split; [reflexivity|]. cbn [o_ty o_res]. split; [eexists; reflexivity|assumption].
  - (* PContract *) cbn [wt prog_ty drun] in *.
    destruct (w_in w [WF; WO; WS] && res_has_ty t r && exec_fits w e) eqn:E; [|contradiction H; reflexivity].
    apply andb_prop in E. destruct E as [E _]. apply andb_prop in E. destruct E as [_ E].
    eexists. eexists. split; [reflexivity|]. cbn [o_ty o_res]. split; [eexists; reflexivity|assumption].
  - (* PRun *)
    cbn [wt] in H0. destruct H0 as [Hty Hb]. cbn [prog_ty] in Hty.
    destruct (step_types par TVoid rt && exec_fits w e) eqn:E; [|contradiction Hty; reflexivity].
    apply andb_prop in E. destruct E as [Hs He].
    cbn [drun prog_ty]. rewrite run_call_class, (step_types_par_ok _ _ _ Hs).
    rewrite Hs, He. cbn [andb].
    unfold by_class.
    destruct (invoked par _) as [i|] eqn:Hi.
    + specialize (H i). specialize (Hb i). pose proof (outcome_typed rt (body i) Hb) as Ht.
      destruct (body i) as [x|v| |r|k p'] eqn:Hbi;
        try (eexists; eexists; split; [reflexivity|]; cbn; split; [eexists; reflexivity|exact Ht]).
      cbn [wt_o] in Hb. destruct Hb as [Hw [w' [Hp' _]]].
      destruct (H Hw pol ce (submitted pol s id e)) as [oi [s2 [Hr [[w'' Hty'] Hres]]]]. rewrite Hr.
      eexists. eexists. split; [reflexivity|]. cbn. split; [eexists; reflexivity|].
      rewrite Hp' in Hty'. inversion Hty'. subst. exact Hres.
    + eexists. eexists. split; [reflexivity|]. cbn. split; [eexists; reflexivity|].
      apply (pass_typed par TVoid rt _ Hs); [|exact Hi]. destruct (negb (accepts pol s e)); reflexivity.
  - (* PProm *)
    cbn [wt prog_ty drun] in *. unfold prom_result.
    destruct (exec_fits w e && match b with PBSet _ r => res_has_ty t r | PBThrow _ => true end) eqn:E;
      [|contradiction H; reflexivity].
    apply andb_prop in E. destruct E as [_ E].
    destruct (negb (accepts pol s e)); [|destruct b]; eexists; eexists; (split; [reflexivity|]); cbn [o_ty o_res];
      (split; [eexists; reflexivity|]); try reflexivity; try assumption; destruct t; reflexivity.
  - (* PCoro *) cbn [wt prog_ty drun] in *.
    destruct (w_in w [WF; WT] && res_has_ty t r) eqn:E; [|contradiction H; reflexivity].
    apply andb_prop in E. destruct E as [_ E].
    destruct (co_segs _ _ _ _ _ _) as [[[r' ex] evs] s1] eqn:Hc.
    eexists. eexists. split; [reflexivity|]. cbn [o_ty o_res]. split; [eexists; reflexivity|].
    destruct (co_segs_res _ _ _ _ _ _ _ _ _ _ Hc) as [Hr|Hr]; subst; [assumption|apply stop_typed].
  - (* PThen *)
    cbn [wt] in H1. destruct H1 as [Hty [Hwq Hb]]. cbn [prog_ty] in Hty.
    destruct (H Hwq pol ce s) as [oq [s0 [Hq [[w Htq] Hrq]]]].
    rewrite Htq in Hty.
    destruct (step_types par (o_ty oq) rt) eqn:Hs; [|contradiction Hty; reflexivity].
    destruct (then_world w a) as [w'|] eqn:Hw; [|contradiction Hty; reflexivity].
    rewrite (dthen_unfold _ _ _ _ _ _ _ _ _ _ _ Hq). unfold dstep_result.
    rewrite (step_types_par_ok _ _ _ Hs).
    assert (Hpt : prog_ty (PThen q id par a rt body) = Some (w', rt)).
    { cbn [prog_ty]. rewrite Htq, Hs, Hw. reflexivity. }
    assert (Harr : res_has_ty (o_ty oq) (darrives pol s0 a oq) = true).
    { unfold darrives. destruct (step_ok _ _ _ _); [exact Hrq|apply stop_typed]. }
    destruct (invoked par (darrives pol s0 a oq)) as [i|] eqn:Hi.
    + specialize (H0 i). specialize (Hb i). pose proof (outcome_typed rt (body i) Hb) as Ht.
      destruct (body i) as [x|v| |r|k p'] eqn:Hbi;
        try (eexists; eexists; split; [reflexivity|]; split; [eexists; exact Hpt|exact Ht]).
      cbn [wt_o] in Hb. destruct Hb as [Hw' [w'' [Hp' _]]].
      destruct (H0 Hw' pol ce (step_st pol s0 a id (exec_of a oq))) as [oi [s2 [Hr [[w3 Hty'] Hres]]]]. rewrite Hr.
      eexists. eexists. split; [reflexivity|]. split; [eexists; exact Hpt|]. cbn.
      rewrite Hp' in Hty'. inversion Hty'. subst. exact Hres.
    + eexists. eexists. split; [reflexivity|]. split; [eexists; exact Hpt|]. cbn.
      exact (pass_typed par (o_ty oq) rt _ Hs Harr Hi).
  - (* PToFuture *)
    cbn [wt] in H0. destruct H0 as [Hty Hwq]. destruct (H Hwq pol ce s) as [oq [s0 [Hq [[w Htq] Hrq]]]].
    cbn [drun]. exists oq, s0. split; [exact Hq|]. split; [|exact Hrq].
    cbn [prog_ty] in *. rewrite Htq in *. destruct w; try (contradiction Hty; reflexivity). eexists; reflexivity.
  - (* POnNull *)
    cbn [wt] in H0. destruct H0 as [Hty Hwq]. destruct (H Hwq pol ce s) as [oq [s0 [Hq [[w Htq] Hrq]]]].
    cbn [drun]. exists oq, s0. split; [exact Hq|]. split; [|exact Hrq].
    cbn [prog_ty] in *. rewrite Htq in *. destruct w; try (contradiction Hty; reflexivity); eexists; reflexivity.
Qed.

(* a program that type-checks runs to completion whichever executors refuse, whenever they start to: every step of the
   chain is finished and the final Result is one of Value / Error / Exception of the handle's value type *)
Theorem dtyped_runs : forall p pol ce s, wt p ->
  exists o s', drun pol ce s p = Some (o, s') /\ res_has_ty (o_ty o) (o_res o) = true.
Proof. intros p pol ce s H. destruct (dtyped_all p H pol ce s) as [o [s' [Hr [_ Hv]]]]. exists o, s'. split; assumption. Qed.

(* ... and the final Result is the sequential reading's, in which a refused step's input has been replaced by StopError *)
Theorem dtyped_final : forall p pol ce s, wt p ->
  exists o s', drun pol ce s p = Some (o, s') /\ dseq pol ce s p = (o, s').
Proof.
  intros p pol ce s H. destruct (dtyped_runs p pol ce s H) as [o [s' [Hr _]]]. exists o, s'. split; [exact Hr|].
  apply drefines. exact Hr.
Qed.

(* ------------------------------------------------------------------------------------ the same about Pipe.core_run *)

Theorem named_pipe : forall p o, core_run p = Some o -> o_exec o = named p.
Proof. intros p o H. destruct (core_run_drun p o dinit H) as [s' Hd]. eapply named_exec. exact Hd. Qed.

Lemma pipe_lift : forall q id par a rt body oq o,
  core_run q = Some oq -> core_run (PThen q id par a rt body) = Some o ->
  exists s0 s', drun static_pol no_on dinit q = Some (oq, s0) /\
                drun static_pol no_on dinit (PThen q id par a rt body) = Some (o, s').
Proof.
  intros. destruct (core_run_drun _ _ dinit H) as [s0 H1]. destruct (core_run_drun _ _ dinit H0) as [s' H2].
  exists s0, s'. split; assumption.
Qed.

Theorem placement_pipe : forall q id par e rt body oq o,
  core_run q = Some oq -> core_run (PThen q id par (AOn e) rt body) = Some o ->
  o_exec o = e /\
  exists s0 s', drun static_pol no_on dinit q = Some (oq, s0) /\
    contrib static_pol no_on (s0 ++ [Job id e (d_cnt s0 e) (if alive e then FCall else FDrop)]) (o_evs oq) e id true body o s'.
Proof.
  intros. destruct (pipe_lift _ _ _ _ _ _ _ _ H H0) as [s0 [s' [H1 H2]]].
  destruct (placement_on _ _ _ _ _ _ _ _ _ _ _ _ _ H1 H2) as [He Hc]. split; [exact He|]. exists s0, s'. split; assumption.
Qed.

Theorem inherit_pipe : forall q id par rt body oq o,
  core_run q = Some oq -> core_run (PThen q id par AInherit rt body) = Some o ->
  o_exec o = named q /\
  exists s0 s', drun static_pol no_on dinit q = Some (oq, s0) /\
    contrib static_pol no_on (s0 ++ [Job id (named q) (d_cnt s0 (named q)) (if alive (named q) then FCall else FDrop)])
            (o_evs oq) (named q) id true body o s'.
Proof.
  intros. destruct (pipe_lift _ _ _ _ _ _ _ _ H H0) as [s0 [s' [H1 H2]]].
  destruct (placement_inherit _ _ _ _ _ _ _ _ _ _ _ _ H1 H2) as [He Hc]. rewrite (named_pipe _ _ H) in *.
  split; [exact He|]. exists s0, s'. split; assumption.
Qed.

Theorem inline_pipe : forall q id par rt body oq o,
  core_run q = Some oq -> core_run (PThen q id par AInline rt body) = Some o ->
  o_exec o = o_exec oq /\ arrives AInline oq = o_res oq /\
  exists s0 s', drun static_pol no_on dinit q = Some (oq, s0) /\
    contrib static_pol no_on s0 (o_evs oq) (o_exec oq) id false body o s'.
Proof.
  intros. destruct (pipe_lift _ _ _ _ _ _ _ _ H H0) as [s0 [s' [H1 H2]]].
  destruct (inline_step _ _ _ _ _ _ _ _ _ _ _ _ H1 H2) as [He [_ Hc]].
  split; [exact He|]. split; [reflexivity|]. exists s0, s'. split; assumption.
Qed.

(* ------------------------------------------------------------------------------------ after an unwrapping step, after a refusal *)

(* whatever the callback returned — a Future / Task living on any executor included — the step's core holds the executor it
   was attached with (Core::Impl re-entered with unwrapping != 0 goes to async_done without TransferExecutorTo) *)
Theorem step_executor : forall pol ce s q id par a rt body oq s0 o s',
  drun pol ce s q = Some (oq, s0) -> drun pol ce s (PThen q id par a rt body) = Some (o, s') ->
  o_exec o = exec_of a oq.
Proof. intros. destruct (dthen_shape _ _ _ _ _ _ _ _ _ _ _ _ _ H H0) as [He _]. exact He. Qed.

Lemma d_cnt_app : forall s js e, d_cnt (s ++ js) e = d_cnt s e + d_cnt js e.
Proof. intros. unfold d_cnt, jobs_of. rewrite filter_app, app_length. reflexivity. Qed.

(* a refused step leaves the refusing executor in its core: with an executor that keeps refusing once it has started to
   (Stop is final), the next Then(f) inherits it and is refused as well, and so on down the chain *)
Theorem inherit_after_refusal : forall pol ce s q id par a rt body oq s0 o1 s1,
  drun pol ce s q = Some (oq, s0) -> drun pol ce s (PThen q id par a rt body) = Some (o1, s1) ->
  (forall m, d_cnt s0 (exec_of a oq) <= m -> pol (exec_of a oq) m = false) ->
  o_exec o1 = exec_of a oq /\ accepts pol s1 (exec_of AInherit o1) = false /\
  (forall m, d_cnt s1 (exec_of AInherit o1) <= m -> pol (exec_of AInherit o1) m = false).
Proof.
  intros pol ce s q id par a rt body oq s0 o1 s1 Hq H Hm.
  pose proof (step_executor _ _ _ _ _ _ _ _ _ _ _ _ _ Hq H) as He.
  destruct (dthen_some_inv _ _ _ _ _ _ _ _ _ _ _ H) as [oq' [s0' [Hq' Hs]]].
  rewrite Hq in Hq'. inversion Hq'. subst oq' s0'.
  assert (Hext : exists js, s1 = s0 ++ js).
  { apply dstep_shape in Hs. destruct Hs as [_ [_ Hs]].
    destruct (ext_step pol s0 a id (exec_of a oq)) as [js1 Hj1].
    destruct Hs as [[_ [_ [_ Hs]]]|[i [_ [[_ [_ [_ Hs]]]|[k [p' [oi [_ [Hr _]]]]]]]]].
    - subst. eexists. exact Hj1.
    - subst. eexists. exact Hj1.
    - destruct (drun_ext _ _ _ _ _ _ Hr) as [js2 Hj2]. rewrite Hj2, Hj1, <- app_assoc. eexists. reflexivity. }
  destruct Hext as [js Hjs]. cbn [exec_of]. rewrite He. split; [reflexivity|].
  assert (Hle : d_cnt s0 (exec_of a oq) <= d_cnt s1 (exec_of a oq)). { rewrite Hjs, d_cnt_app. lia. }
  split.
  - unfold accepts. apply Hm. exact Hle.
  - intros m Hle'. apply Hm. lia.
Qed.

(* ------------------------------------------------------------------------------------ a Task started on an executor *)

Lemma lazy_then_inv : forall pol ce s e q id par a rt body o s',
  dlazy pol ce s e (PThen q id par a rt body) = Some (o, s') ->
  exists oq s0, dlazy pol ce s e q = Some (oq, s0) /\ dstep_result pol ce s0 oq id par a rt body = Some (o, s').
Proof.
  intros. cbn [dlazy] in H. destruct (dlazy pol ce s e q) as [[oq s0]|]; [|discriminate].
  exists oq, s0. split; [reflexivity|exact H].
Qed.

Lemma lazy_then_shape : forall pol ce s e q id par a rt body oq s0 o s',
  dlazy pol ce s e q = Some (oq, s0) -> dlazy pol ce s e (PThen q id par a rt body) = Some (o, s') ->
  o_exec o = exec_of a oq /\ o_ty o = rt /\ step_shape pol ce s0 oq id par a body o s'.
Proof.
  intros. cbn [dlazy] in H0. rewrite H in H0. apply dstep_shape in H0. exact H0.
Qed.

(* every step of a started Task contributes exactly what the same step contributes in an eager pipeline: one job at the
   executor its core holds if it is a Call-type step, at most one invocation carrying that executor, the returned chain *)
Theorem lazy_step_contrib : forall pol ce s e q id par a rt body oq s0 o s',
  dlazy pol ce s e q = Some (oq, s0) -> dlazy pol ce s e (PThen q id par a rt body) = Some (o, s') ->
  o_exec o = exec_of a oq /\
  contrib pol ce (step_st pol s0 a id (exec_of a oq)) (o_evs oq) (exec_of a oq) id (is_call a) body o s'.
Proof.
  intros. destruct (lazy_then_shape _ _ _ _ _ _ _ _ _ _ _ _ _ _ H H0) as [He [_ Hs]]. split; [exact He|].
  unfold contrib. destruct Hs as [[_ [_ [He' Hs]]]|[i [_ [[_ [_ [He' Hs]]]|[k [p' [oi [Hb [Hr [Hres He']]]]]]]]]].
  - left. split; [assumption|]. left. assumption.
  - left. split; [assumption|]. right. exists i. assumption.
  - right. exists i, k, p', oi. repeat split; assumption.
Qed.

(* Then(e1, f) in a Task started on e: the job goes to e1, whatever e is *)
Theorem lazy_placement_on : forall pol ce s e q id par e1 rt body oq s0 o s',
  dlazy pol ce s e q = Some (oq, s0) -> dlazy pol ce s e (PThen q id par (AOn e1) rt body) = Some (o, s') ->
  o_exec o = e1 /\
  contrib pol ce (s0 ++ [Job id e1 (d_cnt s0 e1) (if pol e1 (d_cnt s0 e1) then FCall else FDrop)]) (o_evs oq) e1 id true body o s'.
Proof. intros. exact (lazy_step_contrib _ _ _ _ _ _ _ _ _ _ _ _ _ _ H H0). Qed.

(* the heads *)
Definition is_head (p : prog) : bool :=
  match p with PReady WT _ _ | PRun WT _ _ _ _ _ | PProm WT _ _ _ _ | PCoro WT _ _ _ => true | _ => false end.

(* the first core is handed to e — not to the executor it was built with — as one job, Called iff e accepts; the core holds e *)
Theorem lazy_head_on_e : forall pol ce s e p o s',
  is_head p = true -> (forall id, ce id = []) -> dlazy pol ce s e p = Some (o, s') ->
  o_exec o = e /\
  exists js, s' = s ++ Job (head_job_id p) e (d_cnt s e) (if accepts pol s e then FCall else FDrop) :: js.
Proof.
  intros pol ce s e p o s' Hh Hce H. destruct p; try discriminate Hh; destruct w; try discriminate Hh; cbn [dlazy head_job_id] in *.
  - inversion H. subst. cbn. split; [reflexivity|]. exists []. reflexivity.
  - cbn [drun] in H. unfold submitted in H.
    destruct (run_call par _) as [[i|r]|]; [| |discriminate].
    + destruct (body i) as [x|v| |r|k p'] eqn:Hb; try (inversion H; subst; cbn; split; [reflexivity|]; exists []; reflexivity).
      destruct (drun pol ce _ p') as [[oi s2]|] eqn:Hr; [|discriminate].
      destruct (drun_ext _ _ _ _ _ _ Hr) as [js Hjs]. inversion H. subst. cbn. split; [reflexivity|].
      exists js. rewrite <- app_assoc. reflexivity.
    + inversion H. subst. cbn. split; [reflexivity|]. exists []. reflexivity.
  - cbn [drun] in H. destruct (prom_result _ _). inversion H. subst. cbn. split; [reflexivity|]. exists []. reflexivity.
  - rewrite Hce in H. destruct (accepts pol s e) eqn:Ha; cbn in H; inversion H; subst; cbn; unfold submitted; rewrite Ha;
      (split; [reflexivity|]); exists []; reflexivity.
Qed.

(* ... and a refused head (Cancel(): e = MakeInline(StopTag)) completes with StopError without invoking anything, except a
   Schedule function that takes Result / E *)
Theorem lazy_head_refused : forall pol ce s e p o s',
  is_head p = true -> accepts pol s e = false -> dlazy pol ce s e p = Some (o, s') ->
  match p with
  | PRun _ _ id par _ _ =>
      match invoked par (Err EStop) with
      | None => o_res o = Err EStop /\ o_evs o = []
      | Some i => exists rest, o_evs o = Ev id e true i :: rest
      end
  | _ => o_res o = Err EStop /\ o_evs o = []
  end.
Proof.
  intros pol ce s e p o s' Hh Ha H. destruct p; try discriminate Hh; destruct w; try discriminate Hh; cbn [dlazy] in *.
  - rewrite Ha in H. inversion H. split; reflexivity.
  - cbn [drun] in H. rewrite Ha, run_call_class in H. cbn [negb] in H.
    destruct (par_ok par TVoid); [|discriminate]. unfold by_class in H.
    destruct (invoked par (Err EStop)) as [i|].
    + destruct (body i) as [x|v| |r|k p']; try (inversion H; subst; cbn; eexists; reflexivity).
      destruct (drun pol ce _ p') as [[oi s2]|]; [|discriminate]. inversion H. subst. cbn. eexists. reflexivity.
    + inversion H. split; reflexivity.
  - cbn [drun] in H. rewrite Ha in H. unfold prom_result in H. cbn in H. inversion H. split; reflexivity.
  - rewrite Ha in H. inversion H. split; reflexivity.
Qed.

(* through any number of ThenInline(f) / Then(f) steps after the head the executor is e: started on e, executor-less steps
   inherit e — not the executor the head was built with — until a step names its own *)
Theorem lazy_inherit_chain : forall pol ce e steps s h o s',
  Forall unnamed steps -> dlazy pol ce s e (chain h steps) = Some (o, s') ->
  exists oh sh, dlazy pol ce s e h = Some (oh, sh) /\ o_exec o = o_exec oh.
Proof.
  intros pol ce e steps. induction steps as [|x l IH] using rev_ind; intros s h o s' Hu H.
  - cbn in H. exists o, s'. split; [assumption|reflexivity].
  - rewrite chain_snoc in H. unfold then_step in H.
    apply Forall_app in Hu. destruct Hu as [Hl Hx]. inversion Hx as [|? ? Hx' _]. subst.
    destruct (lazy_then_inv _ _ _ _ _ _ _ _ _ _ _ _ H) as [oq [s0 [Hq Hs]]].
    apply dstep_shape in Hs. destruct Hs as [He _].
    destruct (IH _ _ _ _ Hl Hq) as [oh [sh [Hh Heq]]].
    exists oh, sh. split; [assumption|]. rewrite He, <- Heq. apply unnamed_exec. exact Hx'.
Qed.

Corollary lazy_inherit_e : forall pol ce e steps s h o s',
  is_head h = true -> (forall id, ce id = []) -> Forall unnamed steps ->
  dlazy pol ce s e (chain h steps) = Some (o, s') -> o_exec o = e.
Proof.
  intros. destruct (lazy_inherit_chain _ _ _ _ _ _ _ _ H1 H2) as [oh [sh [Hh Heq]]].
  destruct (lazy_head_on_e _ _ _ _ _ _ _ H H0 Hh) as [He _]. rewrite Heq. exact He.
Qed.

(* read off the program text *)
Theorem lazy_named : forall pol ce s e p o s',
  (forall id, ce id = []) -> dlazy pol ce s e p = Some (o, s') -> o_exec o = lnamed e p.
Proof.
  intros pol ce s e p. revert s. induction p; intros s o s' Hce H; try (cbn in H; discriminate).
  - destruct w; try (cbn in H; discriminate). cbn in H. inversion H. reflexivity.
  - destruct w; try (cbn in H; discriminate).
    destruct (lazy_head_on_e pol ce s e (PRun WT e0 id par rt body) o s' eq_refl Hce H) as [He _]. exact He.
  - destruct w; try (cbn in H; discriminate).
    destruct (lazy_head_on_e pol ce s e (PProm WT t e0 id b) o s' eq_refl Hce H) as [He _]. exact He.
  - destruct w; try (cbn in H; discriminate).
    destruct (lazy_head_on_e pol ce s e (PCoro WT t id r) o s' eq_refl Hce H) as [He _]. exact He.
  - destruct (lazy_then_inv _ _ _ _ _ _ _ _ _ _ _ _ H) as [oq [s0 [Hq Hs]]].
    apply dstep_shape in Hs. destruct Hs as [He _]. rewrite He.
    destruct a; cbn; try reflexivity; eapply IHp; eassumption.
Qed.

(* a Then(f) of a started Task: its job goes to [lnamed e q] *)
Theorem lazy_inherit_named : forall pol s e q id par rt body o s',
  dlazy pol no_on s e (PThen q id par AInherit rt body) = Some (o, s') ->
  exists oq s0, dlazy pol no_on s e q = Some (oq, s0) /\ o_exec o = lnamed e q /\
    contrib pol no_on (s0 ++ [Job id (lnamed e q) (d_cnt s0 (lnamed e q))
                                  (if pol (lnamed e q) (d_cnt s0 (lnamed e q)) then FCall else FDrop)])
            (o_evs oq) (lnamed e q) id true body o s'.
Proof.
  intros. destruct (lazy_then_inv _ _ _ _ _ _ _ _ _ _ _ _ H) as [oq [s0 [Hq _]]].
  destruct (lazy_step_contrib _ _ _ _ _ _ _ _ _ _ _ _ _ _ Hq H) as [He Hc].
  cbn [exec_of is_call step_st] in *. unfold submitted, accepts in Hc.
  rewrite (lazy_named _ _ _ _ _ _ _ (fun _ => eq_refl) Hq) in *. exists oq, s0. repeat split; assumption.
Qed.

(* a refused step of a started Task (every inheriting step after Cancel()) *)
Theorem lazy_refused_step : forall pol ce s e q id par a rt body oq s0 o s',
  dlazy pol ce s e q = Some (oq, s0) -> dlazy pol ce s e (PThen q id par a rt body) = Some (o, s') ->
  is_call a = true -> accepts pol s0 (exec_of a oq) = false ->
  let ex := exec_of a oq in
  let s1 := s0 ++ [Job id ex (d_cnt s0 ex) FDrop] in
  match invoked par (Err EStop) with
  | None => o_res o = Err EStop /\ o_evs o = o_evs oq /\ s' = s1
  | Some i => (i = IRes (Err EStop) \/ i = IErr EStop) /\
              exists rest js, o_evs o = o_evs oq ++ Ev id ex true i :: rest /\ s' = s1 ++ js
  end.
Proof.
  intros pol ce s e q id par a rt body oq s0 o s' Hq H Hc Ha ex s1.
  destruct (lazy_then_shape _ _ _ _ _ _ _ _ _ _ _ _ _ _ Hq H) as [_ [_ Hs]]. unfold step_shape in Hs.
  rewrite (darrives_refused _ _ _ _ Hc Ha) in Hs.
  assert (Hs1 : step_st pol s0 a id (exec_of a oq) = s1).
  { unfold step_st, submitted. rewrite Hc, Ha. reflexivity. }
  rewrite Hs1, Hc in Hs. fold ex in Hs.
  destruct Hs as [[Hi [Hr [He Hs]]]|[i [Hi Hs]]].
  - rewrite Hi. repeat split; assumption.
  - rewrite Hi. split.
    + destruct par; cbn in Hi; inversion Hi; auto.
    + destruct Hs as [[_ [_ [He Hs]]]|[k [p' [oi [Hb [Hr [_ He]]]]]]].
      * exists [], []. rewrite app_nil_r. split; assumption.
      * destruct (drun_ext _ _ _ _ _ _ Hr) as [js Hjs]. exists (o_evs oi), js. split; assumption.
Qed.

(* started on an executor that keeps refusing (Cancel()): the refusal is inherited down the chain *)
Theorem lazy_refusal_inherited : forall pol ce s e q id par a rt body oq s0 o1 s1,
  dlazy pol ce s e q = Some (oq, s0) -> dlazy pol ce s e (PThen q id par a rt body) = Some (o1, s1) ->
  (forall m, d_cnt s0 (exec_of a oq) <= m -> pol (exec_of a oq) m = false) ->
  o_exec o1 = exec_of a oq /\ accepts pol s1 (exec_of AInherit o1) = false /\
  (forall m, d_cnt s1 (exec_of AInherit o1) <= m -> pol (exec_of AInherit o1) m = false).
Proof.
  intros pol ce s e q id par a rt body oq s0 o1 s1 Hq H Hm.
  destruct (lazy_then_shape _ _ _ _ _ _ _ _ _ _ _ _ _ _ Hq H) as [He [_ Hs]].
  assert (Hext : exists js, s1 = s0 ++ js).
  { destruct (ext_step pol s0 a id (exec_of a oq)) as [js1 Hj1].
    destruct Hs as [[_ [_ [_ Hs]]]|[i [_ [[_ [_ [_ Hs]]]|[k [p' [oi [_ [Hr _]]]]]]]]].
    - subst. eexists. exact Hj1.
    - subst. eexists. exact Hj1.
    - destruct (drun_ext _ _ _ _ _ _ Hr) as [js2 Hj2]. rewrite Hj2, Hj1, <- app_assoc. eexists. reflexivity. }
  destruct Hext as [js Hjs]. cbn [exec_of]. rewrite He. split; [reflexivity|].
  assert (Hle : d_cnt s0 (exec_of a oq) <= d_cnt s1 (exec_of a oq)). { rewrite Hjs, d_cnt_app. lia. }
  split.
  - unfold accepts. apply Hm. exact Hle.
  - intros m Hle'. apply Hm. lia.
Qed.

(* ------------------------------------------------------------------------------------ started on e = built on e *)

(* the same program with the head's executor replaced *)
Fixpoint rehead (e : exec) (p : prog) : prog :=
  match p with
  | PRun WT _ id par rt body => PRun WT e id par rt body
  | PProm WT t _ id b => PProm WT t e id b
  | PThen q id par a rt body => PThen (rehead e q) id par a rt body
  | _ => p
  end.

Fixpoint sched_head (p : prog) : bool :=
  match p with
  | PRun WT _ _ _ _ _ | PProm WT _ _ _ _ => true
  | PThen q _ _ _ _ _ => sched_head q
  | _ => false
  end.

(* for Schedule / LazyContract heads, ToFuture(e) / Detach(e) / Cancel() is exactly the pipeline whose head was built on e, started
   the default way: every theorem about drun applies to it *)
Theorem lazy_is_rehead : forall pol ce e p s, sched_head p = true -> dlazy pol ce s e p = drun pol ce s (rehead e p).
Proof.
  intros pol ce e p. induction p; intros s Hh; try discriminate Hh.
  - destruct w; try discriminate Hh. reflexivity.
  - destruct w; try discriminate Hh. reflexivity.
  - cbn [sched_head] in Hh. cbn [dlazy rehead]. rewrite (IHp s Hh).
    destruct (drun pol ce s (rehead e p)) as [[oq s0]|] eqn:Hq.
    + symmetry. apply dthen_unfold. exact Hq.
    + cbn [drun]. rewrite Hq. reflexivity.
Qed.
