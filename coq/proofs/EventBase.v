(* EventBase.v - first half of the C16 proofs.
   Invariant of the Event transition system (OneShotEvent + WaitGroup counter) and the facts the C16 theorems are
   made of.  Everything is proved for every event sequence (schedule), any number of waiters / futures / threads.

   Shape of the invariant:
     Gb    : boolean, over the global words (count, fired, head, pending setters, SetImpl's progress)
     Cpart : count = plain units outstanding + futures still counted        (when the rule of use is respected)
     finv  : boolean, per future
     wloc  : boolean, per waiter, relative to three global facts about that waiter:
               hA = the head is all-done, o = occurrences of the waiter in (list at the head ++ SetImpl's todo),
               ic = SetImpl is inside this waiter's Call
     Rpart : the recorded observations *)
From Coq Require Import List Arith Bool Lia.
Import ListNotations.
From YV Require Import model.Event.

(* ---- lists ------------------------------------------------------------------------------------------ *)

Lemma upd_length {A} i (x : A) l : length (upd i x l) = length l.
Proof. revert i; induction l; destruct i; simpl; auto. Qed.

Lemma nth_upd_same {A} i (x y : A) l : nth_error l i = Some y -> nth_error (upd i x l) i = Some x.
Proof. revert i; induction l; destruct i; simpl; intros; try discriminate; auto. Qed.

Lemma nth_upd_other {A} i j (x : A) l : i <> j -> nth_error (upd i x l) j = nth_error l j.
Proof.
  revert i j; induction l; destruct i, j; simpl; intros; auto; try congruence.
Qed.

Lemma nth_some_lt {A} (l : list A) i x : nth_error l i = Some x -> i < length l.
Proof. intros H. apply nth_error_Some. congruence. Qed.

Lemma nth_app_new {A} (l : list A) x i y :
  nth_error (l ++ [x]) i = Some y -> nth_error l i = Some y \/ (i = length l /\ y = x).
Proof.
  intros H. destruct (Nat.lt_ge_cases i (length l)).
  - left. rewrite nth_error_app1 in H; auto.
  - right. rewrite nth_error_app2 in H; auto.
    destruct (i - length l) as [|k] eqn:E; simpl in H.
    + inversion H. split; auto. lia.
    + destruct k; discriminate.
Qed.

Lemma Forall_upd {A} (P : A -> Prop) i x l : Forall P l -> P x -> Forall P (upd i x l).
Proof.
  intros H Hx. revert i. induction H; destruct i; simpl; constructor; auto.
Qed.

Lemma Forall_nth {A} (P : A -> Prop) l i x : Forall P l -> nth_error l i = Some x -> P x.
Proof. intros H E. rewrite Forall_forall in H. apply H. eapply nth_error_In; eauto. Qed.

Lemma Forall_app_one {A} (P : A -> Prop) l x : Forall P l -> P x -> Forall P (l ++ [x]).
Proof. intros. apply Forall_app. split; auto. Qed.

Fixpoint occ (w : nat) (l : list nat) : nat :=
  match l with [] => 0 | x :: r => b2n (Nat.eqb x w) + occ w r end.

Lemma occ_app w a b : occ w (a ++ b) = occ w a + occ w b.
Proof. induction a; simpl; auto. rewrite IHa. lia. Qed.

Definition sumh (l : list frec) : nat := fold_right (fun r a => b2n (holds r) + a) 0 l.

Lemma sumh_app l x : sumh (l ++ [x]) = sumh l + b2n (holds x).
Proof. induction l; simpl; auto. lia. Qed.

Lemma sumh_upd l j r x : nth_error l j = Some r -> sumh (upd j x l) + b2n (holds r) = sumh l + b2n (holds x).
Proof.
  revert j; induction l; destruct j; simpl; intros H; try discriminate.
  - inversion H; subst. lia.
  - specialize (IHl _ H). lia.
Qed.

Lemma sumh_zero l j r : sumh l = 0 -> nth_error l j = Some r -> holds r = false.
Proof.
  revert j; induction l; destruct j; simpl; intros H E; try discriminate.
  - inversion E; subst. destruct (holds r); simpl in H; auto; lia.
  - apply (IHl j); auto. lia.
Qed.

(* ---- the invariant ---------------------------------------------------------------------------------- *)

Definition stk (h : hd) : list nat := match h with Stack l => l | AllDone => [] end.
Definition lst (s : st) : list nat := stk (head s) ++ todo s.
Definition icb (ic : option nat) (w : nat) : bool := match ic with Some x => Nat.eqb x w | None => false end.

Definition is_timed (k : wkind) : bool := match k with KTimed => true | _ => false end.

(* facts that need the head to be all-done *)
Definition needs_all (r : wrec) : bool :=
  called r || match pc r with WPass | WQueued | WDone => true | _ => false end.

Definition wcore (o : nat) (ic : bool) (r : wrec) : bool :=
  Nat.eqb o (b2n (reg r && negb (called r))) &&
  Bool.eqb ic (is_timed (wk r) && called r && negb (edec r)) &&
  implb (called r) (reg r) &&
  implb (edec r) (called r && is_timed (wk r)) &&
  implb (wdec r) (reg r && is_timed (wk r)) &&
  Nat.eqb (relc r) (match pc r with WDone => 1 | _ => 0 end) &&
  (if is_timed (wk r) then
     if reg r then Nat.eqb (refs r) (2 - b2n (wdec r) - b2n (edec r)) && Nat.eqb (frees r) (b2n (wdec r && edec r))
     else Nat.eqb (refs r) 2 && Nat.eqb (frees r) (match pc r with WDone => 1 | _ => 0 end)
   else Nat.eqb (frees r) 0) &&
  match pc r with
  | W0 => negb (reg r)
  | WTry => negb (reg r) && is_coro (wk r)
  | WCas _ => negb (reg r)
  | WPass => negb (reg r)
  | WParked =>
      reg r && negb (wdec r) &&
      match wk r with KBlock | KTimed => true | _ => negb (called r) end
  | WWoke b => is_timed (wk r) && reg r && negb (wdec r) && implb b (called r)
  | WDecd b => is_timed (wk r) && reg r && wdec r && implb b (called r)
  | WQueued => (match wk r with KSticky | KOn => true | _ => false end) && implb (reg r) (called r)
  | WDone => implb (reg r) (called r) && implb (reg r && is_timed (wk r)) (wdec r)
  | WTmo => is_timed (wk r) && reg r && wdec r
  end.

Definition wloc (hA : bool) (o : nat) (ic : bool) (r : wrec) : bool :=
  wcore o ic r && implb (needs_all r) hA.

Definition Wpart (h : hd) (t : list nat) (ic : option nat) (wl : list wrec) : Prop :=
  (forall w r, nth_error wl w = Some r -> wloc (is_all h) (occ w (stk h ++ t)) (icb ic w) r = true) /\
  Forall (fun x => x < length wl) (stk h ++ t) /\
  (forall x, ic = Some x -> x < length wl).

Definition finv (r : frec) : bool :=
  match fw r with
  | WE => (match ap r with A0 | A1 | A2 => true | _ => false end) &&
          (match pp r with P0 | PStored => true | _ => false end)
  | WC => (match ap r with AOk => true | _ => false end) &&
          (match pp r with P0 | PStored => true | _ => false end)
  | WR => match pp r with
          | PCb | PCbRel => (match ap r with AOk => true | _ => false end)
          | PDone => true
          | _ => false
          end
  end &&
  Bool.eqb (holds r)
    (match ap r with
     | A1 | A2 | AFail | AFailRel => true
     | AOk => (match pp r with PDone => false | _ => true end)
     | A0 | ADone => false
     end) &&
  Bool.eqb (match fval r with None => true | Some _ => false end) (match pp r with P0 => true | _ => false end) &&
  match fk r with
  | FAttach => Nat.eqb (frel r) 0 &&
               (match ap r with AFailRel => false | _ => true end) &&
               (match pp r with PCbRel => false | _ => true end)
  | FConsume =>
      Nat.eqb (frel r)
        (match ap r, pp r with
         | AFailRel, _ | ADone, _ => 1
         | _, PCbRel => 1
         | AOk, PDone => 1
         | _, _ => 0
         end)
  end.

Definition Gb (s : st) : bool :=
  implb (is_all (head s)) (fired s) &&
  (Nat.eqb (pend s) 0 || fired s) &&
  (broken s || Nat.eqb (pend s + b2n (is_all (head s))) (b2n (fired s))) &&
  (broken s || negb (fired s) || Nat.eqb (cnt s) 0) &&
  (is_all (head s) || ((match todo s with [] => true | _ => false end) &&
                       (match incall s with None => true | _ => false end))) &&
  (broken s || negb (crash s)) &&
  negb (uaf s).

Definition Cpart (s : st) : Prop := broken s = false -> cnt s = uu s + sumh (fs s).

Definition rel_ok (x : nat * nat * bool) : Prop := snd (fst x) = 0 /\ snd x = true.
Definition ready_ok (x : nat * bool * bool) : Prop := snd (fst x) = snd x.
Definition got_ok (fl : list frec) (x : nat * option nat) : Prop :=
  snd x = None \/ exists r, nth_error fl (fst x) = Some r /\ fval r = snd x /\ fk r = FAttach /\ fw r = WR.

Definition relcount (w : nat) (l : list (nat * nat * bool)) : nat :=
  length (filter (fun x => Nat.eqb (fst (fst x)) w) l).

Definition Rpart (s : st) : Prop :=
  (broken s = false -> Forall rel_ok (rels s)) /\
  Forall ready_ok (readys s) /\
  Forall (got_ok (fs s)) (gots s) /\
  (forall w r, nth_error (ws s) w = Some r -> relcount w (rels s) = relc r) /\
  (forall x, In x (rels s) -> fst (fst x) < length (ws s)).

Definition Inv (s : st) : Prop :=
  Gb s = true /\ Cpart s /\ Forall (fun r => finv r = true) (fs s) /\
  Wpart (head s) (todo s) (incall s) (ws s) /\ Rpart s.

Lemma inv_init n : Inv (init n).
Proof.
  unfold Inv. split; [reflexivity|]. split; [unfold Cpart; simpl; lia|]. split; [constructor|].
  split.
  - unfold Wpart; simpl. split; [|split].
    + intros w r H. destruct w; discriminate.
    + constructor.
    + intros x H; discriminate.
  - unfold Rpart; simpl. repeat split; try constructor.
    + intros w r H. destruct w; discriminate.
    + intros x [].
Qed.

(* ---- tactics ---------------------------------------------------------------------------------------- *)

Ltac split_and :=
  repeat match goal with
         | H : _ && _ = true |- _ => apply andb_true_iff in H; destruct H
         | H : negb _ = true |- _ => apply negb_true_iff in H
         | H : negb _ = false |- _ => apply negb_false_iff in H
         | H : Nat.eqb _ _ = true |- _ => apply Nat.eqb_eq in H
         | H : Bool.eqb _ _ = true |- _ => apply eqb_prop in H
         end.

Ltac case_hyp H :=
  repeat match type of H with
         | context [match ?x with _ => _ end] => destruct x eqn:?; simpl in H; try discriminate H
         | context [if ?x then _ else _] => destruct x eqn:?; simpl in H; try discriminate H
         end.

Ltac inv_some H := inversion H; subst; clear H.

Lemma occ_bound n l : Forall (fun x => x < n) l -> occ n l = 0.
Proof.
  induction 1; simpl; auto. rewrite IHForall.
  destruct (Nat.eqb x n) eqn:E; simpl; auto. apply Nat.eqb_eq in E. lia.
Qed.

Lemma relcount_bound n l : (forall x, In x l -> fst (fst x) < n) -> relcount n l = 0.
Proof.
  unfold relcount. induction l; simpl; intros H; auto.
  destruct (Nat.eqb (fst (fst a)) n) eqn:E.
  - apply Nat.eqb_eq in E. specialize (H a (or_introl eq_refl)). lia.
  - apply IHl. intros x Hx. apply H. right; auto.
Qed.

Lemma relcount_app w l x : relcount w (l ++ [x]) = relcount w l + b2n (Nat.eqb (fst (fst x)) w).
Proof.
  unfold relcount. rewrite filter_app, app_length. simpl.
  destruct (Nat.eqb (fst (fst x)) w); simpl; lia.
Qed.

Lemma icb_bound ic n : (forall x, ic = Some x -> x < n) -> icb ic n = false.
Proof.
  destruct ic as [x|]; simpl; auto. intros H. specialize (H x eq_refl).
  apply Nat.eqb_neq. lia.
Qed.

(* wloc is monotone in "the head is all-done" *)
Lemma wloc_mono o ic r : wloc false o ic r = true -> wloc true o ic r = true.
Proof.
  unfold wloc. intros H. apply andb_true_iff in H. destruct H as [H _]. rewrite H.
  destruct (needs_all r); reflexivity.
Qed.

(* ---- events that create things or move the counter ----------------------------------------------- *)

Lemma got_ok_app fl x g : got_ok fl g -> got_ok (fl ++ [x]) g.
Proof.
  intros [H|[r [H1 H2]]]; [left; auto|right]. exists r. split; auto.
  rewrite nth_error_app1; auto. eapply nth_some_lt; eauto.
Qed.

Lemma inv_new_w s k s' : Inv s -> step1 s (ENewW k) = Some s' -> Inv s'.
Proof.
  intros (G & C & F & (W1 & W2 & W3) & (R1 & R2 & R3 & R4 & R5)) H. simpl in H. inv_some H.
  split; [exact G|]. split; [exact C|]. split; [exact F|]. split.
  - unfold Wpart; simpl. split; [|split].
    + intros w r Hn. apply nth_app_new in Hn. destruct Hn as [Hn|[-> ->]]; [apply W1; auto|].
      rewrite occ_bound; auto. rewrite icb_bound; auto.
      unfold wloc, wcore, needs_all; destruct k; reflexivity.
    + eapply Forall_impl; [|exact W2]. intros a Ha. simpl in Ha. rewrite app_length. simpl. lia.
    + intros x Hx. specialize (W3 x Hx). rewrite app_length. simpl. lia.
  - unfold Rpart; simpl. split; [exact R1|]. split; [exact R2|]. split; [exact R3|]. split.
    + intros w r Hn. apply nth_app_new in Hn. destruct Hn as [Hn|[-> ->]]; [apply R4; auto|].
      rewrite relcount_bound by auto. destruct k; reflexivity.
    + intros x Hx. specialize (R5 x Hx). rewrite app_length. simpl. lia.
Qed.

Lemma inv_new_f s k s' : Inv s -> step1 s (ENewF k) = Some s' -> Inv s'.
Proof.
  intros (G & C & F & W & (R1 & R2 & R3 & R4 & R5)) H. simpl in H. inv_some H.
  split; [exact G|]. split.
  - unfold Cpart in *; simpl. intros Hb. rewrite sumh_app. specialize (C Hb). destruct k; simpl; lia.
  - split; [apply Forall_app_one; auto; destruct k; reflexivity|]. split; [exact W|].
    unfold Rpart; simpl. split; [exact R1|]. split; [exact R2|]. split; [|split; [exact R4|exact R5]].
    eapply Forall_impl; [|exact R3]. intros g Hg. apply got_ok_app; auto.
Qed.

(* ---- the counter ------------------------------------------------------------------------------------- *)

Ltac bsimp :=
  simpl in *;
  repeat (rewrite ?andb_true_r, ?andb_false_r, ?orb_true_r, ?orb_false_r in *; simpl in * ).

Ltac bgoal :=
  repeat (apply andb_true_iff; split); try reflexivity; try assumption; try (apply Nat.eqb_eq; simpl in *; lia).

Ltac gb_destruct s :=
  destruct (broken s), (fired s), (is_all (head s)), (crash s), (uaf s), (todo s), (incall s);
  bsimp; try discriminate; try reflexivity.

Lemma gb_do_add n du s : Gb s = true -> Gb (do_add n du s) = true.
Proof.
  unfold Gb, do_add; simpl. intros H. gb_destruct s; split_and; try discriminate; bgoal.
Qed.

Lemma gb_do_sub n du bad s : Gb s = true -> Gb (do_sub n du bad s) = true.
Proof.
  unfold Gb, do_sub; simpl. intros H.
  destruct (Nat.eqb (cnt s) n) eqn:Eh; [apply Nat.eqb_eq in Eh|].
  - destruct (Nat.ltb (cnt s) n) eqn:El; [apply Nat.ltb_lt in El; lia|].
    subst n. rewrite Nat.sub_diag.
    destruct bad; gb_destruct s; split_and; try discriminate; try lia; bgoal.
  - destruct (Nat.ltb (cnt s) n) eqn:El;
    destruct bad; gb_destruct s; split_and; try discriminate; try lia; bgoal.
Qed.

Lemma gb_user_set s : Gb s = true -> Gb (user_set s) = true.
Proof.
  unfold Gb, user_set; simpl. intros H.
  destruct (Nat.eqb (cnt s) 0) eqn:E; gb_destruct s; split_and; try discriminate; try lia; bgoal.
Qed.

Lemma broken_do_sub n du bad s : broken (do_sub n du bad s) = false ->
  broken s = false /\ bad = false /\ n <= cnt s.
Proof.
  unfold do_sub; simpl. intros H. repeat (apply orb_false_iff in H; destruct H as [H ?]).
  repeat split; auto. apply Nat.ltb_ge; auto.
Qed.

Lemma broken_do_add n du s : broken (do_add n du s) = false -> broken s = false.
Proof. unfold do_add; simpl. intros H. apply orb_false_iff in H. tauto. Qed.

Lemma rpart_same_obs s s' :
  Rpart s -> (broken s' = false -> broken s = false) ->
  rels s' = rels s -> readys s' = readys s -> gots s' = gots s -> ws s' = ws s -> fs s' = fs s -> Rpart s'.
Proof.
  intros (R1 & R2 & R3 & R4 & R5) Hb E1 E2 E3 E4 E5. unfold Rpart. rewrite E1, E2, E3, E4, E5.
  repeat split; auto.
Qed.

Lemma inv_add s n v s' : Inv s -> step1 s (EAdd n v) = Some s' -> Inv s'.
Proof.
  intros (G & C & F & W & R) H. simpl in H. case_hyp H. inv_some H.
  split; [apply gb_do_add; auto|]. split.
  - intros Hb. apply broken_do_add in Hb. specialize (C Hb). simpl. lia.
  - split; [exact F|]. split; [exact W|].
    eapply rpart_same_obs; eauto. apply broken_do_add.
Qed.

Lemma inv_sub s n v s' : Inv s -> step1 s (ESub n v) = Some s' -> Inv s'.
Proof.
  intros (G & C & F & W & R) H. simpl in H. case_hyp H. inv_some H.
  split; [apply gb_do_sub; auto|]. split.
  - intros Hb. apply broken_do_sub in Hb. destruct Hb as (Hb & Hbad & Hle). specialize (C Hb). simpl.
    apply orb_false_iff in Hbad. destruct Hbad as [_ Hu]. apply Nat.ltb_ge in Hu. lia.
  - split; [exact F|]. split; [exact W|].
    eapply rpart_same_obs; eauto. intros Hb. apply broken_do_sub in Hb. tauto.
Qed.

Lemma inv_user_set s s' : Inv s -> step1 s EUserSet = Some s' -> Inv s'.
Proof.
  intros (G & C & F & W & R) H. simpl in H. inv_some H.
  split; [apply gb_user_set; auto|]. split.
  - intros Hb. simpl in Hb. apply orb_false_iff in Hb. destruct Hb as [Hb _].
    apply orb_false_iff in Hb. destruct Hb as [Hb _]. specialize (C Hb). simpl. exact C.
  - split; [exact F|]. split; [exact W|].
    eapply rpart_same_obs; eauto. simpl. intros Hb. apply orb_false_iff in Hb. destruct Hb as [Hb _].
    apply orb_false_iff in Hb. tauto.
Qed.

(* ---- SetImpl's exchange -------------------------------------------------------------------------------- *)

Lemma inv_xchg s old s' : Inv s -> step1 s (EXchg old) = Some s' -> Inv s'.
Proof.
  intros (G & C & F & (W1 & W2 & W3) & R) H. simpl in H.
  destruct (pend s) as [|p] eqn:Ep; [discriminate|].
  destruct (hv_eqb old (top (head s))); [|discriminate].
  destruct (head s) as [l|] eqn:Eh; inv_some H.
  - (* the list is taken *)
    assert (Ht : todo s = [] /\ incall s = None).
    { unfold Gb in G. rewrite Eh in G. simpl in G. destruct (todo s), (incall s); bsimp; try discriminate; auto. }
    destruct Ht as [Ht Hi].
    split.
    + unfold Gb in *; simpl. rewrite Eh, Ep in G. simpl in G.
      destruct (broken s), (fired s), (crash s), (uaf s); bsimp; try discriminate; split_and; try discriminate;
        try lia; bgoal.
    + split; [exact C|]. split; [exact F|]. split.
      * unfold Wpart; simpl. rewrite Hi, Ht in *. simpl in *. rewrite app_nil_r in *. split; [|split; auto].
        intros w r Hn. apply wloc_mono. apply W1; auto.
      * eapply rpart_same_obs; eauto.
  - (* the head already was all-done *)
    split.
    + unfold Gb in *; simpl. rewrite Eh, Ep in G. simpl in G.
      destruct (broken s), (fired s), (crash s), (uaf s), (todo s), (incall s); bsimp; try discriminate;
        split_and; try discriminate; try lia; bgoal.
    + split; [exact C|]. split; [exact F|]. split; [exact (conj W1 (conj W2 W3))|].
      eapply rpart_same_obs; eauto.
Qed.

(* ---- futures ------------------------------------------------------------------------------------------ *)

Lemma got_ok_upd fl j r r' g :
  nth_error fl j = Some r -> finv r = true ->
  fk r' = fk r -> (fw r = WR -> fw r' = WR /\ fval r' = fval r) ->
  got_ok fl g -> got_ok (upd j r' fl) g.
Proof.
  intros Hn Hf Hk Hw [H|[r0 (H1 & H2 & H3 & H4)]]; [left; auto|right].
  destruct (Nat.eq_dec j (fst g)) as [E|Hne].
  - rewrite <- E in *. rewrite Hn in H1. inv_some H1. exists r'. split; [eapply nth_upd_same; eauto|].
    destruct (Hw H4) as [Ha Hb]. repeat split; congruence.
  - exists r0. rewrite nth_upd_other; auto.
Qed.

Ltac fut_fields r :=
  destruct r as [fk0 fw0 fa0 fp0 fv0 fr0 fh0]; simpl in *.

(* every step1 of a future keeps its local invariant, keeps the kind, and never un-completes it *)
Lemma step_f_local s j r e s' :
  finv r = true -> nth_error (fs s) j = Some r -> step_f s j r e = Some s' ->
  exists r', (fs s' = upd j r' (fs s) \/ (fs s' = fs s /\ r' = r)) /\ finv r' = true /\ fk r' = fk r /\
             (fw r = WR -> fw r' = WR /\ fval r' = fval r) /\
             ws s' = ws s /\ head s' = head s /\ todo s' = todo s /\ incall s' = incall s /\ rels s' = rels s.
Proof.
  intros Hf Hn H. destruct e; simpl in H; try discriminate.
  all: fut_fields r; case_hyp H; inv_some H; simpl.
  all: unfold f_holds, f_upd, f_rel, f_store; simpl.
  all: unfold finv in Hf; simpl in Hf.
  all: repeat match goal with
              | x : fword |- _ => destruct x; simpl in Hf; try discriminate Hf
              | x : ppc |- _ => destruct x; simpl in Hf; try discriminate Hf
              | x : apc |- _ => destruct x; simpl in Hf; try discriminate Hf
              | x : fkind |- _ => destruct x; simpl in Hf; try discriminate Hf
              | x : option nat |- _ => destruct x; simpl in Hf; try discriminate Hf
              | x : bool |- _ => destruct x; simpl in Hf; try discriminate Hf
              end; simpl in *; try discriminate.
  all: try (eexists; split; [left; reflexivity|]; simpl; bsimp; split_and; subst; try discriminate;
            repeat split; try reflexivity; try discriminate; auto; fail).
  all: try (eexists; split; [right; split; reflexivity|]; simpl; repeat split; auto; fail).
Qed.

Ltac all_fields :=
  repeat match goal with
         | x : fword |- _ => destruct x
         | x : ppc |- _ => destruct x
         | x : apc |- _ => destruct x
         | x : fkind |- _ => destruct x
         | x : option nat |- _ => destruct x
         | x : bool |- _ => destruct x
         end; simpl in *; try discriminate.

Ltac pose_sum Hn :=
  match goal with
  | |- context [set_f _ ?x _] => pose proof (sumh_upd _ _ _ x Hn) as Hs; simpl in Hs
  | |- context [upd _ ?x _] => pose proof (sumh_upd _ _ _ x Hn) as Hs; simpl in Hs
  | _ => idtac
  end.

Lemma gb_set_f j r s : Gb (set_f j r s) = Gb s.
Proof. reflexivity. Qed.

Lemma step_f_global s j r e s' :
  Inv s -> nth_error (fs s) j = Some r -> step_f s j r e = Some s' ->
  Gb s' = true /\ Cpart s' /\ (broken s' = false -> broken s = false).
Proof.
  intros (G & C & F & W & R) Hn H.
  assert (Hf : finv r = true) by (eapply Forall_nth in F; eauto).
  destruct e; simpl in H; try discriminate.
  all: fut_fields r; case_hyp H; inv_some H.
  all: pose_sum Hn.
  all: split; [first [apply gb_do_add | apply gb_do_sub | idtac]; exact G|].
  all: try (split; [|simpl; auto]; intros Hb; simpl in Hb; specialize (C Hb); unfold Cpart in *; simpl in *; lia).
  - (* EFAdd *)
    split; [|intros Hb; apply broken_do_add in Hb; exact Hb]. intros Hb. apply broken_do_add in Hb. simpl in Hb. specialize (C Hb).
    all_fields; bsimp; split_and; try discriminate; simpl in *; lia.
  - (* EFSubA, attach *)
    split; [|intros Hb; apply broken_do_sub in Hb; tauto].
    intros Hb. apply broken_do_sub in Hb. destruct Hb as (Hb & _ & Hle). simpl in Hb, Hle. specialize (C Hb).
    all_fields; bsimp; split_and; try discriminate; simpl in *; lia.
  - (* EFSubA, consume *)
    split; [|intros Hb; apply broken_do_sub in Hb; tauto].
    intros Hb. apply broken_do_sub in Hb. destruct Hb as (Hb & _ & Hle). simpl in Hb, Hle. specialize (C Hb).
    all_fields; bsimp; split_and; try discriminate; simpl in *; lia.
  - (* EFSubP, attach *)
    split; [|intros Hb; apply broken_do_sub in Hb; tauto].
    intros Hb. apply broken_do_sub in Hb. destruct Hb as (Hb & _ & Hle). simpl in Hb, Hle. specialize (C Hb).
    all_fields; bsimp; split_and; try discriminate; simpl in *; lia.
  - (* EFSubP, consume *)
    split; [|intros Hb; apply broken_do_sub in Hb; tauto].
    intros Hb. apply broken_do_sub in Hb. destruct Hb as (Hb & _ & Hle). simpl in Hb, Hle. specialize (C Hb).
    all_fields; bsimp; split_and; try discriminate; simpl in *; lia.
Qed.

Lemma step_f_obs s j r e s' :
  step_f s j r e = Some s' ->
  (readys s' = readys s /\ gots s' = gots s) \/
  (exists b, readys s' = readys s ++ [(j, b, b)] /\ gots s' = gots s /\ fs s' = fs s) \/
  (readys s' = readys s /\ gots s' = gots s ++ [(j, rd r)] /\ fk r = FAttach /\ fs s' = fs s).
Proof.
  intros H. destruct e; simpl in H; try discriminate.
  all: case_hyp H; inv_some H; simpl; auto.
  - right; left. apply eqb_prop in Heqb0. subst b. eexists; repeat split.
  - right; right. repeat split; auto.
Qed.

Lemma rd_some r x : rd r = Some x -> fw r = WR /\ fval r = Some x.
Proof. unfold rd. destruct (fw r), (frel r); try discriminate; auto. Qed.

Lemma inv_step_f s j r e s' :
  Inv s -> nth_error (fs s) j = Some r -> step_f s j r e = Some s' -> Inv s'.
Proof.
  intros I Hn H.
  destruct (step_f_global _ _ _ _ _ I Hn H) as (G' & C' & Hmono).
  destruct I as (G & C & F & W & (R1 & R2 & R3 & R4 & R5)).
  assert (Hf : finv r = true) by (eapply Forall_nth in F; eauto).
  destruct (step_f_local _ _ _ _ _ Hf Hn H) as (r' & Hfs & Hf' & Hk & Hw & E1 & E2 & E3 & E4 & E5).
  split; [exact G'|]. split; [exact C'|]. split.
  { destruct Hfs as [->|[-> _]]; [apply Forall_upd; auto|exact F]. }
  split; [rewrite E1, E2, E3, E4; exact W|].
  unfold Rpart. rewrite E1, E5.
  split; [intros Hb; apply R1; auto|].
  assert (R3' : Forall (got_ok (fs s')) (gots s)).
  { destruct Hfs as [->|[-> _]]; [|exact R3].
    eapply Forall_impl; [|exact R3]. intros g Hg. eapply got_ok_upd; eauto. }
  destruct (step_f_obs _ _ _ _ _ H) as [[-> ->]|[[b (-> & -> & _)]|(-> & -> & Hka & Efs)]].
  - repeat split; auto.
  - repeat split; auto. apply Forall_app_one; auto. reflexivity.
  - repeat split; auto. apply Forall_app_one; auto.
    destruct (rd r) as [x|] eqn:Er; [right|left; reflexivity].
    apply rd_some in Er. destruct Er as [Ew Ev]. exists r. rewrite Efs. simpl. repeat split; auto.
Qed.

(* ---- waiters: the frame ------------------------------------------------------------------------------
   Every step1 of waiter w (or of SetImpl on waiter w's job) produces a state of this shape; the obligations are
   about w alone. *)

Definition wstate (s : st) (h' : hd) (t' : list nat) (ic' : option nat) (w : nat) (r' : wrec) (u' : bool)
                  (rl' : list (nat * nat * bool)) : st :=
  {| cnt := cnt s; uu := uu s; fired := fired s; broken := broken s; crash := crash s; uaf := u';
     head := h'; pend := pend s; todo := t'; incall := ic'; ws := upd w r' (ws s); fs := fs s;
     rels := rl'; readys := readys s; gots := gots s |}.

Lemma gb_all_zero s : Gb s = true -> is_all (head s) = true -> broken s = false -> cnt s = 0 /\ fired s = true.
Proof.
  unfold Gb. intros G Ha Hb. rewrite Ha, Hb in G. destruct (fired s); bsimp; try discriminate.
  split_and. auto.
Qed.

Lemma inv_w_frame s w r h' t' ic' r' u' rl' :
  Inv s -> nth_error (ws s) w = Some r ->
  is_all h' = is_all (head s) ->
  (forall w0, w0 <> w -> occ w0 (stk h' ++ t') = occ w0 (lst s)) ->
  (forall w0, w0 <> w -> icb ic' w0 = icb (incall s) w0) ->
  wloc (is_all h') (occ w (stk h' ++ t')) (icb ic' w) r' = true ->
  Forall (fun x => x < length (ws s)) (stk h' ++ t') ->
  (forall x, ic' = Some x -> x < length (ws s)) ->
  (is_all h' = false -> t' = [] /\ ic' = None) ->
  u' = false ->
  (rl' = rels s /\ relc r' = relc r) \/
  (rl' = rels s ++ [(w, cnt s, fired s)] /\ relc r' = S (relc r) /\ is_all (head s) = true) ->
  Inv (wstate s h' t' ic' w r' u' rl').
Proof.
  intros (G & C & F & (W1 & W2 & W3) & (R1 & R2 & R3 & R4 & R5)) Hn Ha Ho Hi Hd He1 He2 Hf Hu Hr.
  assert (Hlt : w < length (ws s)) by (eapply nth_some_lt; eauto).
  split.
  { unfold Gb in *; simpl. rewrite Ha, Hu.
    destruct (is_all (head s)) eqn:Eh.
    - destruct (fired s), (broken s), (crash s), (uaf s); bsimp; try discriminate; auto.
    - destruct (Hf Ha) as [-> ->]. clear Hf.
      destruct (fired s), (broken s), (crash s), (uaf s), (todo s), (incall s); bsimp; try discriminate; auto. }
  split; [exact C|]. split; [exact F|]. split.
  { unfold Wpart; simpl. rewrite upd_length. split; [|split; auto].
    intros w0 r0 Hn0. destruct (Nat.eq_dec w0 w) as [->|Hne].
    - rewrite (nth_upd_same _ _ _ _ Hn) in Hn0. inv_some Hn0. exact Hd.
    - rewrite nth_upd_other in Hn0; auto. rewrite Ha, Ho, Hi by auto. apply W1; auto. }
  unfold Rpart; simpl. rewrite upd_length.
  destruct Hr as [[-> Hrc]|(-> & Hrc & Hall)].
  - split; [exact R1|]. split; [exact R2|]. split; [exact R3|]. split; [|exact R5].
    intros w0 r0 Hn0. destruct (Nat.eq_dec w0 w) as [->|Hne].
    + rewrite (nth_upd_same _ _ _ _ Hn) in Hn0. inv_some Hn0. rewrite Hrc. apply R4; auto.
    + rewrite nth_upd_other in Hn0; auto.
  - split; [|split; [exact R2|split; [exact R3|split]]].
    + intros Hb. apply Forall_app_one; auto. destruct (gb_all_zero _ G Hall Hb). split; simpl; auto.
    + intros w0 r0 Hn0. rewrite relcount_app. simpl. destruct (Nat.eq_dec w0 w) as [->|Hne].
      * rewrite (nth_upd_same _ _ _ _ Hn) in Hn0. inv_some Hn0. rewrite Hrc, Nat.eqb_refl. rewrite (R4 _ _ Hn). simpl. lia.
      * rewrite nth_upd_other in Hn0; auto. rewrite (R4 _ _ Hn0).
        replace (Nat.eqb w w0) with false; [simpl; lia|]. symmetry. apply Nat.eqb_neq. auto.
    + intros x Hx. apply in_app_or in Hx. destruct Hx as [Hx|[<-|[]]]; auto.
Qed.
