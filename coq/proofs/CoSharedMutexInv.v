(* The invariant of the CoSharedMutex LTS (DESIGN.md A.4, corrected and completed) and the tactics used to prove
   that every event preserves it. *)
From Coq Require Import List Arith Bool ZArith Lia.
Import ListNotations.
From YV Require Import model.CoSharedMutex proofs.CoSharedMutexLemmas.

Definition RT (s : st) : nat := cnt rtown_w s + cnt infl_w s.       (* reader tokens *)
Definition NF (s : st) : nat := cnt add_w s + cnt parkf_w s.        (* the first writer, not yet granted *)
Definition WT (s : st) : nat := cnt own_w s + cnt runw_w s + cnt usrun_w s + cnt store_w s.   (* writer tokens *)

Definition runr_ok (p : pcs) : Prop := match p with PUWRunR [] => False | _ => True end.

Record inv (s : st) : Prop := {
  (* --- the two domains count the same things (c15_counts) *)
  i_rsize : rsize s = length (rq s);
  i_sr : sr s = RT s + cnt nt_w s + rsize s;
  i_parkq : cnt parkq_w s = length (wq s) + cnt runw_w s;
  i_parkr : cnt parkr_w s = rsize s + cnt infl_w s;
  i_sw : sw s = cnt own_w s + NF s + cnt parkq_w s;
  i_wt : WT s <= 1;
  i_nf : NF s <= 1;
  i_spin1 : spin s = true -> cnt add_w s + cnt store_w s = 1;
  i_spin0 : spin s = false -> cnt add_w s + cnt store_w s = 0;
  i_prio_le : wprio s <= length (wq s);
  i_prio_f : fifo s = true -> rsize s = 0 -> cnt store_w s = 0 -> wprio s = length (wq s);
  i_prio_n : fifo s = false -> wprio s = 0;
  (* --- phase (a): no writer at all *)
  i_pa : sw s = 0 -> cnt store_w s = 0 ->
         WT s = 0 /\ NF s = 0 /\ rsize s = 0 /\ length (wq s) = 0 /\ rpass s = cnt nt_w s /\ cnt d_w s = 0 /\
         rwait s = 0%Z;
  (* --- phase (b): a writer owns the lock, or a hand-over of the exclusive lock is in flight *)
  i_pb : WT s = 1 ->
         RT s = 0 /\ rpass s = 0 /\ cnt d_w s = 0 /\ rwait s = 0%Z /\ NF s = cnt usrun_w s /\ cnt add_w s = 0;
  i_pst : cnt store_w s = 1 ->
          cnt storew_w s = sw s + 1 /\ sw s >= 1 /\ length (wq s) = sw s /\ rsize s >= 1 /\
          (fifo s = true -> wprio s = 0);
  (* --- phase (c): writers present, none owns: the first writer waits for exactly the readers it owes to *)
  i_pc : WT s = 0 -> sw s <> 0 ->
         NF s = 1 /\ rpass s <= cnt nt_w s /\
         (rwait s + Z.of_nat (cnt addr_w s) = Z.of_nat (RT s + rpass s + cnt d_w s))%Z /\
         (cnt add_w s = 0 -> (rwait s >= 1)%Z) /\ (cnt add_w s = 1 -> (rwait s <= 0)%Z);
  (* --- who is where *)
  i_occr : forall n, count_occ Nat.eq_dec (rq s) n + cnt (inflocc_w n) s = pcw parkr_w s n;
  i_occq : forall n, count_occ Nat.eq_dec (wq s) n + cnt (runwocc_w n) s = pcw parkq_w s n;
  i_first : forall n, pcw nf_w s n = 1 -> wfirst s = Some n;
  i_runr : forall n, pcP runr_ok s n
}.

(* ---- tactics ------------------------------------------------------------------------------------------- *)
Ltac case_hyp H :=
  repeat match type of H with
  | (let _ := _ in _) = Some _ => cbv zeta in H
  | (match (if ?d then _ else _) with _ => _ end) = Some _ => let E := fresh "E" in destruct d eqn:E; try discriminate H
  | (match ?d with _ => _ end) = Some _ => let E := fresh "E" in destruct d eqn:E; try discriminate H
  | (if ?d then _ else _) = Some _ => let E := fresh "E" in destruct d eqn:E; try discriminate H
  end.

Ltac red_st :=
  cbn [fifo rfifo sw sr rwait rpass rsize wprio rq wfirst wq spin cos entered grants tries
       set_co set_mx set_sr set_sw set_rwait add_try add_entered wfail
       m_sw m_sr m_rwait m_rpass m_rsize m_wprio m_rq m_wfirst m_wq m_spin
       pc req got upd_pc inc_req inc_got] in *.

Lemma sees_true : forall s w r, sees s w r = true -> w = sw s /\ r = sr s.
Proof. unfold sees. intros. apply andb_prop in H. destruct H. apply Nat.eqb_eq in H, H0. auto. Qed.
Lemma state_is_true : forall s w r, state_is s w r = true -> sw s = w /\ sr s = r.
Proof. unfold state_is. intros. apply andb_prop in H. destruct H. apply Nat.eqb_eq in H, H0. auto. Qed.
Lemma state_is_false : forall s w r, state_is s w r = false -> sw s <> w \/ sr s <> r.
Proof.
  unfold state_is. intros. apply andb_false_iff in H. destruct H as [H|H]; apply Nat.eqb_neq in H; auto.
Qed.
Lemma is_nil_true : forall A (l : list A), is_nil l = true -> l = [].
Proof. destruct l; simpl; intros; auto; discriminate. Qed.
Lemma is_nil_false : forall A (l : list A), is_nil l = false -> length l >= 1.
Proof. destruct l; simpl; intros; try discriminate; lia. Qed.

(* booleans of the step function -> propositions *)
Ltac prep_b :=
  repeat match goal with
  | H : sees _ _ _ = true |- _ => apply sees_true in H; destruct H
  | H : state_is _ _ _ = true |- _ => apply state_is_true in H; destruct H
  | H : state_is _ _ _ = false |- _ => apply state_is_false in H
  | H : Bool.eqb _ _ = true |- _ => apply Bool.eqb_prop in H
  | H : true = state_is _ _ _ |- _ => symmetry in H
  | H : false = state_is _ _ _ |- _ => symmetry in H
  | H : andb _ _ = true |- _ => apply andb_prop in H; destruct H
  | H : andb _ _ = false |- _ => apply andb_false_iff in H
  | H : negb _ = true |- _ => apply negb_true_iff in H
  | H : negb _ = false |- _ => apply negb_false_iff in H
  | H : Nat.eqb _ _ = true |- _ => apply Nat.eqb_eq in H
  | H : Nat.eqb _ _ = false |- _ => apply Nat.eqb_neq in H
  | H : Nat.leb _ _ = true |- _ => apply Nat.leb_le in H
  | H : Nat.leb _ _ = false |- _ => apply Nat.leb_gt in H
  | H : Nat.ltb _ _ = true |- _ => apply Nat.ltb_lt in H
  | H : Nat.ltb _ _ = false |- _ => apply Nat.ltb_ge in H
  | H : Z.eqb _ _ = true |- _ => apply Z.eqb_eq in H
  | H : Z.eqb _ _ = false |- _ => apply Z.eqb_neq in H
  | H : is_nil _ = true |- _ => apply is_nil_true in H
  | H : is_nil _ = false |- _ => apply is_nil_false in H
  end.

Ltac split_or :=
  repeat match goal with
  | H : _ = false \/ _ |- _ => destruct H
  | H : _ <> _ \/ _ |- _ => destruct H
  end; prep_b.

(* how every weight changes when coroutine c (x, at pc P) becomes v in list l *)
Ltac cfacts l c x v G :=
  pose proof (cntl_set_nth rtown_w l c x v G);
  pose proof (cntl_set_nth infl_w l c x v G);
  pose proof (cntl_set_nth nt_w l c x v G);
  pose proof (cntl_set_nth d_w l c x v G);
  pose proof (cntl_set_nth parkr_w l c x v G);
  pose proof (cntl_set_nth own_w l c x v G);
  pose proof (cntl_set_nth runw_w l c x v G);
  pose proof (cntl_set_nth usrun_w l c x v G);
  pose proof (cntl_set_nth store_w l c x v G);
  pose proof (cntl_set_nth add_w l c x v G);
  pose proof (cntl_set_nth parkf_w l c x v G);
  pose proof (cntl_set_nth parkq_w l c x v G);
  pose proof (cntl_set_nth addr_w l c x v G);
  pose proof (cntl_set_nth storew_w l c x v G).

Ltac zfacts l :=
  pose proof (add_addr l); pose proof (store_storew l).

Ltac simp_w :=
  cbn [rtown_w infl_w nt_w d_w parkr_w own_w runw_w usrun_w store_w add_w parkf_w parkq_w addr_w storew_w
       nf_w wt_w rt_w pc req got upd_pc inc_req inc_got length] in *.

Ltac open_inv I :=
  destruct I as [Irsize Isr Iparkq Iparkr Isw Iwt Inf Ispin1 Ispin0 Iprio_le Iprio_f Iprio_n Ipa Ipb Ipst Ipc
                 Ioccr Ioccq Ifirst Irunr];
  unfold RT, NF, WT, cnt in *.

(* ---- the phases as a disjunction of plain facts (for use as hypotheses) ----------------------------------- *)
Definition phA (s : st) : Prop :=
  sw s = 0 /\ cnt store_w s = 0 /\ cnt own_w s = 0 /\ cnt runw_w s = 0 /\ cnt usrun_w s = 0 /\ cnt add_w s = 0 /\
  cnt parkf_w s = 0 /\ rsize s = 0 /\ length (wq s) = 0 /\ rpass s = cnt nt_w s /\ cnt d_w s = 0 /\ rwait s = 0%Z.
Definition phB (s : st) : Prop :=
  cnt own_w s + cnt runw_w s + cnt usrun_w s = 1 /\ cnt store_w s = 0 /\ cnt rtown_w s = 0 /\ cnt infl_w s = 0 /\
  rpass s = 0 /\ cnt d_w s = 0 /\ rwait s = 0%Z /\ cnt add_w s = 0 /\ cnt parkf_w s = cnt usrun_w s.
Definition phS (s : st) : Prop :=
  cnt store_w s = 1 /\ cnt own_w s = 0 /\ cnt runw_w s = 0 /\ cnt usrun_w s = 0 /\ cnt rtown_w s = 0 /\
  cnt infl_w s = 0 /\ rpass s = 0 /\ cnt d_w s = 0 /\ rwait s = 0%Z /\ cnt add_w s = 0 /\ cnt parkf_w s = 0 /\
  cnt storew_w s = sw s + 1 /\ sw s >= 1 /\ length (wq s) = sw s /\ rsize s >= 1 /\ (fifo s = true -> wprio s = 0).
Definition phC0 (s : st) : Prop :=
  cnt own_w s = 0 /\ cnt runw_w s = 0 /\ cnt usrun_w s = 0 /\ cnt store_w s = 0 /\ sw s <> 0 /\ cnt add_w s = 0 /\
  cnt parkf_w s = 1 /\ rpass s <= cnt nt_w s /\ cnt addr_w s = 0 /\
  (rwait s = Z.of_nat (cnt rtown_w s + cnt infl_w s + rpass s + cnt d_w s))%Z /\ (rwait s >= 1)%Z.
Definition phC1 (s : st) : Prop :=
  cnt own_w s = 0 /\ cnt runw_w s = 0 /\ cnt usrun_w s = 0 /\ cnt store_w s = 0 /\ sw s <> 0 /\ cnt add_w s = 1 /\
  cnt parkf_w s = 0 /\ rpass s <= cnt nt_w s /\
  (rwait s + Z.of_nat (cnt addr_w s) = Z.of_nat (cnt rtown_w s + cnt infl_w s + rpass s + cnt d_w s))%Z /\
  (rwait s <= 0)%Z.

Lemma inv_phase : forall s, inv s -> phA s \/ phB s \/ phS s \/ phC0 s \/ phC1 s.
Proof.
  intros s I. destruct I. unfold RT, NF, WT in *.
  pose proof (add_addr (cos s)) as Za. fold (cnt add_w s) in Za. fold (cnt addr_w s) in Za.
  destruct (Nat.eq_dec (cnt store_w s) 1) as [St|St].
  - right; right; left. specialize (i_pst0 St). assert (W : cnt own_w s + cnt runw_w s + cnt usrun_w s + cnt store_w s = 1) by lia.
    specialize (i_pb0 W). unfold phS. repeat split; try lia. tauto.
  - assert (St0 : cnt store_w s = 0) by lia. clear i_pst0.
    destruct (Nat.eq_dec (cnt own_w s + cnt runw_w s + cnt usrun_w s) 1) as [W|W].
    + right; left. assert (W1 : cnt own_w s + cnt runw_w s + cnt usrun_w s + cnt store_w s = 1) by lia.
      specialize (i_pb0 W1). unfold phB. repeat split; lia.
    + assert (W0 : cnt own_w s + cnt runw_w s + cnt usrun_w s + cnt store_w s = 0) by lia.
      destruct (Nat.eq_dec (sw s) 0) as [Z|Z].
      * left. specialize (i_pa0 Z St0). unfold phA. repeat split; lia.
      * specialize (i_pc0 W0 Z). destruct i_pc0 as (P1 & P2 & P3 & P4 & P5).
        destruct (Nat.eq_dec (cnt add_w s) 0) as [A|A].
        -- right; right; right; left. specialize (P4 A). specialize (Za A). unfold phC0. repeat split; lia.
        -- right; right; right; right. assert (A1 : cnt add_w s = 1) by lia. specialize (P5 A1).
           unfold phC1. repeat split; lia.
Qed.

Ltac split_ifs :=
  repeat match goal with
  | |- context [if ?b then _ else _] => let E := fresh "E" in destruct b eqn:E
  end.

Ltac open_phase s I :=
  let Ph := fresh "Ph" in
  pose proof (inv_phase s I) as Ph;
  destruct Ph as [Ph|[Ph|[Ph|[Ph|Ph]]]];
  [unfold phA in Ph | unfold phB in Ph | unfold phS in Ph | unfold phC0 in Ph | unfold phC1 in Ph];
  decompose [and] Ph; clear Ph.

Ltac open_inv' I :=
  destruct I as [Irsize Isr Iparkq Iparkr Isw Iwt Inf Ispin1 Ispin0 Iprio_le Iprio_f Iprio_n Ipa Ipb Ipst Ipc
                 Ioccr Ioccq Ifirst Irunr];
  clear Ipa Ipb Ipst Ipc Iwt Inf;
  unfold RT, NF, WT, cnt, pcw, pcP in *.

(* lower bounds: the coroutine that moves is counted *)
Ltac gfacts l c x G :=
  pose proof (cntl_ge rtown_w l c x G);
  pose proof (cntl_ge infl_w l c x G);
  pose proof (cntl_ge nt_w l c x G);
  pose proof (cntl_ge d_w l c x G);
  pose proof (cntl_ge parkr_w l c x G);
  pose proof (cntl_ge own_w l c x G);
  pose proof (cntl_ge runw_w l c x G);
  pose proof (cntl_ge usrun_w l c x G);
  pose proof (cntl_ge store_w l c x G);
  pose proof (cntl_ge add_w l c x G);
  pose proof (cntl_ge parkf_w l c x G);
  pose proof (cntl_ge parkq_w l c x G);
  pose proof (cntl_ge addr_w l c x G);
  pose proof (cntl_ge storew_w l c x G).

Ltac clean_bool_imps :=
  repeat match goal with
  | H : true = true -> _ |- _ => specialize (H eq_refl)
  | H : false = false -> _ |- _ => specialize (H eq_refl)
  | H : false = true -> _ |- _ => clear H
  | H : true = false -> _ |- _ => clear H
  end.

(* the two option flags and the spin flag: case split, so that nothing propositional is left for lia *)
Ltac split_flags s :=
  destruct (spin s) eqn:Sp; destruct (fifo s) eqn:Fi; clean_bool_imps.

Ltac arith_facts :=
  match goal with
  | G : nth_error (cos ?s) ?c = Some ?x, P : pc ?x = _ |- inv (set_co ?c ?v _) =>
      cfacts (cos s) c x v G; gfacts (cos s) c x G; zfacts (cos s); zfacts (set_nth c v (cos s));
      rewrite P in *; simp_w
  end.

Ltac use_flags :=
  repeat match goal with
  | H : ?a = ?b, I : ?a = ?b -> _ |- _ => specialize (I H)
  end.

Ltac flag_clash :=
  match goal with
  | H : ?a = true, H' : ?a = false |- _ => rewrite H in H'; discriminate H'
  | H : true = false |- _ => discriminate H
  | H : false = true |- _ => discriminate H
  end.

Ltac fin_arith :=
  intros; clean_bool_imps; use_flags; try flag_clash;
  first [lia | repeat match goal with |- _ /\ _ => split end; intros; use_flags; lia | idtac].

(* pointwise goals when the moving coroutine is in none of the lists before or after *)
Ltac pt_occr :=
  match goal with
  | G : nth_error (cos ?s) ?c = Some ?x, P : pc ?x = _, Ioccr : forall n, _ + cntl (inflocc_w n) (cos ?s) = pcwl parkr_w (cos ?s) n
    |- forall n, _ + cntl (inflocc_w n) (set_nth ?c ?v _) = pcwl parkr_w _ n =>
      let n := fresh "n" in let Hc := fresh "Hc" in let Ho := fresh "Ho" in
      intros n; rewrite (pcwl_set_nth parkr_w (cos s) c v x n G);
      pose proof (cntl_set_nth (inflocc_w n) (cos s) c x v G) as Hc; rewrite P in Hc;
      pose proof (Ioccr n) as Ho;
      destruct (Nat.eq_dec n c) as [->|?];
      [rewrite (pcwl_at parkr_w (cos s) c x G) in Ho; rewrite P in Ho|];
      cbn [inflocc_w parkr_w pc upd_pc inc_req inc_got] in *; try lia
  end.
Ltac pt_occq :=
  match goal with
  | G : nth_error (cos ?s) ?c = Some ?x, P : pc ?x = _, Ioccq : forall n, _ + cntl (runwocc_w n) (cos ?s) = pcwl parkq_w (cos ?s) n
    |- forall n, _ + cntl (runwocc_w n) (set_nth ?c ?v _) = pcwl parkq_w _ n =>
      let n := fresh "n" in let Hc := fresh "Hc" in let Ho := fresh "Ho" in
      intros n; rewrite (pcwl_set_nth parkq_w (cos s) c v x n G);
      pose proof (cntl_set_nth (runwocc_w n) (cos s) c x v G) as Hc; rewrite P in Hc;
      pose proof (Ioccq n) as Ho;
      destruct (Nat.eq_dec n c) as [->|?];
      [rewrite (pcwl_at parkq_w (cos s) c x G) in Ho; rewrite P in Ho|];
      cbn [runwocc_w parkq_w pc upd_pc inc_req inc_got] in *; try lia
  end.
Ltac pt_first :=
  match goal with
  | G : nth_error (cos ?s) ?c = Some ?x, P : pc ?x = _, Ifirst : forall n, pcwl nf_w (cos ?s) n = 1 -> wfirst ?s = Some n
    |- forall n, pcwl nf_w (set_nth ?c ?v _) n = 1 -> _ =>
      let n := fresh "n" in let Hn := fresh "Hn" in
      intros n Hn; rewrite (pcwl_set_nth nf_w (cos s) c v x n G) in Hn;
      destruct (Nat.eq_dec n c) as [->|?];
      [cbn [nf_w add_w parkf_w pc upd_pc inc_req inc_got] in Hn; try discriminate Hn; try reflexivity;
       try (apply Ifirst; rewrite (pcwl_at nf_w (cos s) c x G); rewrite P; reflexivity)
      | try (apply Ifirst; exact Hn)]
  end.
Ltac pt_runr :=
  match goal with
  | G : nth_error (cos ?s) ?c = Some ?x, Irunr : forall n, pcPl runr_ok (cos ?s) n
    |- forall n, pcPl runr_ok (set_nth ?c ?v _) n =>
      let n := fresh "n" in
      intros n; rewrite (pcPl_set_nth runr_ok (cos s) c v x n G);
      destruct (Nat.eq_dec n c) as [->|?]; [cbn [runr_ok pc upd_pc inc_req inc_got]; try exact I | apply Irunr]
  end.

Ltac fin_all := first [pt_occr | pt_occq | pt_first | pt_runr | fin_arith].

(* the whole proof for an event that moves one coroutine among pcs outside every list *)
Ltac simple_event s I :=
  arith_facts; open_phase s I; open_inv' I; use_flags; try lia;
  constructor; unfold RT, NF, WT, cnt, pcw, pcP;
  cbn [fifo rfifo sw sr rwait rpass rsize wprio rq wfirst wq spin cos
       set_co set_mx set_sr set_sw set_rwait add_try add_entered wfail
       m_sw m_sr m_rwait m_rpass m_rsize m_wprio m_rq m_wfirst m_wq m_spin];
  fin_all.

(* the ghost logs are not mentioned by the invariant *)
Lemma inv_add_try : forall s c w b, inv s -> inv (add_try c w b s).
Proof. intros s c w b I. destruct I. constructor; assumption. Qed.
Lemma inv_add_entered : forall s c w r, inv s -> inv (add_entered c w r s).
Proof. intros s c w r I. destruct I. constructor; assumption. Qed.

Ltac start_event H :=
  unfold step, get, wfail in H; case_hyp H; injection H as <-; prep_b; subst;
  repeat match goal with
  | |- context [match ?k with TTry => _ | TLock => _ end] => destruct k
  | |- context [if ?b then _ else _] => let E := fresh "E" in destruct b eqn:E
  end; prep_b; subst;
  try apply inv_add_try; try apply inv_add_entered.

(* ---- neutral moves: the coroutine changes pc between two pcs of equal weight, the mutex is untouched ------- *)
Definition weq (p q : pcs) : Prop :=
  rtown_w p = rtown_w q /\ infl_w p = infl_w q /\ nt_w p = nt_w q /\ d_w p = d_w q /\ parkr_w p = parkr_w q /\
  own_w p = own_w q /\ runw_w p = runw_w q /\ usrun_w p = usrun_w q /\ store_w p = store_w q /\
  add_w p = add_w q /\ parkf_w p = parkf_w q /\ parkq_w p = parkq_w q /\ addr_w p = addr_w q /\
  storew_w p = storew_w q /\
  (forall n, inflocc_w n p = inflocc_w n q) /\ (forall n, runwocc_w n p = runwocc_w n q) /\
  (runr_ok p -> runr_ok q).

Lemma cntl_weq : forall f l c x v,
  nth_error l c = Some x -> f (pc x) = f (pc v) -> cntl f (set_nth c v l) = cntl f l.
Proof. intros. pose proof (cntl_set_nth f l c x v H). lia. Qed.

Lemma pcwl_weq : forall f l c x v n,
  nth_error l c = Some x -> f (pc x) = f (pc v) -> pcwl f (set_nth c v l) n = pcwl f l n.
Proof.
  intros. rewrite (pcwl_set_nth f l c v x n H). destruct (Nat.eq_dec n c); auto.
  subst. rewrite (pcwl_at f l c x H). auto.
Qed.

Lemma inv_neutral : forall s c x v, inv s -> get s c = Some x -> weq (pc x) (pc v) -> inv (set_co c v s).
Proof.
  intros s c x v I G W. unfold get in G.
  destruct W as (W1 & W2 & W3 & W4 & W5 & W6 & W7 & W8 & W9 & W10 & W11 & W12 & W13 & W14 & W15 & W16 & W17).
  destruct I. unfold RT, NF, WT, cnt, pcw, pcP in *.
  constructor; unfold RT, NF, WT, cnt, pcw, pcP; cbn [fifo rfifo sw sr rwait rpass rsize wprio rq wfirst wq spin cos set_co];
    rewrite ?(cntl_weq rtown_w _ c x v G W1), ?(cntl_weq infl_w _ c x v G W2), ?(cntl_weq nt_w _ c x v G W3),
      ?(cntl_weq d_w _ c x v G W4), ?(cntl_weq parkr_w _ c x v G W5), ?(cntl_weq own_w _ c x v G W6),
      ?(cntl_weq runw_w _ c x v G W7), ?(cntl_weq usrun_w _ c x v G W8), ?(cntl_weq store_w _ c x v G W9),
      ?(cntl_weq add_w _ c x v G W10), ?(cntl_weq parkf_w _ c x v G W11), ?(cntl_weq parkq_w _ c x v G W12),
      ?(cntl_weq addr_w _ c x v G W13), ?(cntl_weq storew_w _ c x v G W14); try assumption.
  - intros n. rewrite (cntl_weq (inflocc_w n) _ c x v G (W15 n)). rewrite (pcwl_weq parkr_w _ c x v n G W5). auto.
  - intros n. rewrite (cntl_weq (runwocc_w n) _ c x v G (W16 n)). rewrite (pcwl_weq parkq_w _ c x v n G W12). auto.
  - intros n. rewrite (pcwl_weq nf_w _ c x v n G). auto. unfold nf_w. lia.
  - intros n. rewrite (pcPl_set_nth runr_ok _ c v x n G). destruct (Nat.eq_dec n c); auto. subst.
    apply W17. specialize (i_runr0 c). unfold pcPl in i_runr0. rewrite G in i_runr0. auto.
Qed.

Ltac weq_solve := unfold weq; repeat split; intros; try reflexivity; try exact I; auto.

Ltac neutral_event I :=
  match goal with
  | G : nth_error (cos ?s) ?c = Some ?x, P : pc ?x = _ |- inv (set_co ?c ?v ?s) =>
      apply (inv_neutral s c x v I G); rewrite P; cbn [pc upd_pc inc_req inc_got]; weq_solve
  end.

(* ---- list facts ----------------------------------------------------------------------------------------- *)
Lemma rq_push_length : forall s c, length (rq_push s c) = S (length (rq s)).
Proof. unfold rq_push. intros. destruct (rfifo s); simpl; auto. rewrite app_length. simpl. lia. Qed.
Lemma rq_push_occ : forall s c n,
  count_occ Nat.eq_dec (rq_push s c) n = count_occ Nat.eq_dec (rq s) n + (if Nat.eq_dec c n then 1 else 0).
Proof. unfold rq_push. intros. destruct (rfifo s); [apply count_occ_app1 | apply count_occ_cons1]. Qed.
Lemma cntl_nf : forall l, cntl nf_w l = cntl add_w l + cntl parkf_w l.
Proof. unfold cntl. induction l; simpl; auto. unfold nf_w at 1. lia. Qed.

Ltac occ_simpl :=
  rewrite ?rq_push_occ, ?count_occ_app1, ?count_occ_cons1 in *;
  cbn [count_occ inflocc_w runwocc_w parkr_w parkq_w nf_w add_w parkf_w pc upd_pc inc_req inc_got] in *;
  repeat match goal with
   | |- context [Nat.eq_dec ?a ?b] => destruct (Nat.eq_dec a b); try congruence
   | H : context [Nat.eq_dec ?a ?b] |- _ => destruct (Nat.eq_dec a b); try congruence
  end; try lia.

Ltac open_goal :=
  constructor; unfold RT, NF, WT, cnt, pcw, pcP;
  cbn [fifo rfifo sw sr rwait rpass rsize wprio rq wfirst wq spin cos
       set_co set_mx set_sr set_sw set_rwait add_try add_entered wfail
       m_sw m_sr m_rwait m_rpass m_rsize m_wprio m_rq m_wfirst m_wq m_spin length].

Ltac rw_flags :=
  repeat match goal with
  | H : fifo ?s = _ |- context [fifo ?s] => rewrite H
  | H : spin ?s = _ |- context [spin ?s] => rewrite H
  end.

(* ---- events that move two coroutines: the caller c (x -> v) and the coroutine n it resumes / promotes (y -> v1) -- *)
(* from the second lookup (in the list where c has already moved) back to the original list *)
Ltac second_lookup :=
  match goal with
  | G : nth_error (cos ?s) ?c = Some ?x, G1 : nth_error (cos (set_co ?c ?v _)) ?n = Some ?y, P1 : pc ?y = _ |- _ =>
      cbn [cos set_co set_mx] in G1;
      let Gn := fresh "Gn" in let Ne := fresh "Ne" in
      pose proof G1 as Gn; rewrite (nth_error_set_nth _ (cos s) c n v x G) in Gn;
      destruct (Nat.eq_dec n c) as [Ne|Ne];
      [injection Gn as Gn; rewrite <- Gn in P1; cbn [pc upd_pc inc_req inc_got] in P1; discriminate P1|]
  end.

Ltac arith_facts2 :=
  match goal with
  | G : nth_error (cos ?s) ?c = Some ?x, P : pc ?x = _,
    G1 : nth_error (set_nth ?c ?v (cos ?s)) ?n = Some ?y, P1 : pc ?y = _ |- inv (set_co ?n ?v1 _) =>
      cfacts (cos s) c x v G; gfacts (cos s) c x G; zfacts (cos s);
      cfacts (set_nth c v (cos s)) n y v1 G1; zfacts (set_nth n v1 (set_nth c v (cos s)));
      rewrite P in *; rewrite P1 in *; simp_w
  end.

Ltac pt2_setup f wf :=
  match goal with
  | G : nth_error (cos ?s) ?c = Some ?x, P : pc ?x = _,
    G1 : nth_error (set_nth ?c ?v (cos ?s)) ?n = Some ?y, P1 : pc ?y = _,
    Gn : nth_error (cos ?s) ?n = Some ?y,
    Iocc : forall k, _ + cntl (wf k) (cos ?s) = pcwl f (cos ?s) k
    |- forall m, _ + cntl (wf m) (set_nth ?n ?v1 _) = pcwl f _ m =>
      let m := fresh "m" in let Hc := fresh "Hc" in let Hc1 := fresh "Hc1" in let Ho := fresh "Ho" in
      intros m;
      rewrite (pcwl_set_nth f (set_nth c v (cos s)) n v1 y m G1), (pcwl_set_nth f (cos s) c v x m G);
      pose proof (cntl_set_nth (wf m) (cos s) c x v G) as Hc; rewrite P in Hc;
      pose proof (cntl_set_nth (wf m) (set_nth c v (cos s)) n y v1 G1) as Hc1; rewrite P1 in Hc1;
      pose proof (Iocc m) as Ho;
      destruct (Nat.eq_dec m n) as [->|?];
      [rewrite (pcwl_at f (cos s) n y Gn) in Ho; rewrite P1 in Ho
      |destruct (Nat.eq_dec m c) as [->|?]; [rewrite (pcwl_at f (cos s) c x G) in Ho; rewrite P in Ho|]]
  end.

Ltac pt2_first :=
  match goal with
  | G : nth_error (cos ?s) ?c = Some ?x, P : pc ?x = _,
    G1 : nth_error (set_nth ?c ?v (cos ?s)) ?n = Some ?y, P1 : pc ?y = _,
    Gn : nth_error (cos ?s) ?n = Some ?y,
    Ifirst : forall n, pcwl nf_w (cos ?s) n = 1 -> wfirst ?s = Some n
    |- forall m, pcwl nf_w (set_nth ?n ?v1 _) m = 1 -> _ =>
      let m := fresh "m" in let Hn := fresh "Hn" in
      intros m Hn;
      rewrite (pcwl_set_nth nf_w (set_nth c v (cos s)) n v1 y m G1), (pcwl_set_nth nf_w (cos s) c v x m G) in Hn;
      destruct (Nat.eq_dec m n) as [->|?];
      [cbn [nf_w add_w parkf_w pc upd_pc] in Hn; try discriminate Hn; try reflexivity
      |destruct (Nat.eq_dec m c) as [->|?];
       [cbn [nf_w add_w parkf_w pc upd_pc] in Hn; try discriminate Hn; try reflexivity
       |try (apply Ifirst; exact Hn)]]
  end.

Ltac pt2_runr :=
  match goal with
  | G : nth_error (cos ?s) ?c = Some ?x,
    G1 : nth_error (set_nth ?c ?v (cos ?s)) ?n = Some ?y,
    Irunr : forall n, pcPl runr_ok (cos ?s) n
    |- forall m, pcPl runr_ok (set_nth ?n ?v1 _) m =>
      let m := fresh "m" in
      intros m;
      rewrite (pcPl_set_nth runr_ok (set_nth c v (cos s)) n v1 y m G1), (pcPl_set_nth runr_ok (cos s) c v x m G);
      destruct (Nat.eq_dec m n) as [->|?];
      [cbn [runr_ok pc upd_pc]; try exact I
      |destruct (Nat.eq_dec m c) as [->|?]; [cbn [runr_ok pc upd_pc]; try exact I | apply Irunr]]
  end.

Ltac fin_all2 :=
  first [pt2_setup parkr_w inflocc_w; occ_simpl | pt2_setup parkq_w runwocc_w; occ_simpl
        | pt2_first | pt2_runr | fin_arith].

Ltac no_first :=
  exfalso; match goal with Hn : pcwl nf_w (cos ?s) ?n = 1 |- _ =>
    pose proof (pcwl_ge nf_w (cos s) n); rewrite cntl_nf in * end; lia.
Ltac rq_nonempty s := destruct (rq s); cbn [length] in *; [lia | exact I].
