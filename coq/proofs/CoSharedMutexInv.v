(* The invariant of the CoSharedMutex LTS (DESIGN.md A.4, corrected and completed) and the tactics used to prove
   that every event preserves it. *)
From Coq Require Import List Arith Bool ZArith Lia.
Import ListNotations.
From YV Require Import model.CoSharedMutex proofs.CoSharedMutexLemmas.

Definition RT (s : st) : nat := cnt rtown_w s + cnt infl_w s.       (* reader tokens *)
Definition NF (s : st) : nat := cnt add_w s + cnt parkf_w s.        (* the first writer, not yet granted *)
Definition WT (s : st) : nat := cnt own_w s + cnt runw_w s + cnt usrun_w s + cnt store_w s.   (* writer tokens *)

Definition runr_ok (p : pcs) : Prop := match p with PUWRunR [] => False | _ => True end.

Record inv (s : st) : Prop := {
  (* --- the two domains count the same things (c15_counts) *)
  i_rsize : rsize s = length (rq s);
  i_sr : sr s = RT s + cnt nt_w s + rsize s;
  i_parkq : cnt parkq_w s = length (wq s) + cnt runw_w s;
  i_parkr : cnt parkr_w s = rsize s + cnt infl_w s;
  i_sw : sw s = cnt own_w s + NF s + cnt parkq_w s;
  i_wt : WT s <= 1;
  i_nf : NF s <= 1;
  i_spin1 : spin s = true -> cnt add_w s + cnt store_w s = 1;
  i_spin0 : spin s = false -> cnt add_w s + cnt store_w s = 0;
  i_prio_le : wprio s <= length (wq s);
  i_prio_f : fifo s = true -> rsize s = 0 -> cnt store_w s = 0 -> wprio s = length (wq s);
  i_prio_n : fifo s = false -> wprio s = 0;
  (* --- phase (a): no writer at all *)
  i_pa : sw s = 0 -> cnt store_w s = 0 ->
         WT s = 0 /\ NF s = 0 /\ rsize s = 0 /\ length (wq s) = 0 /\ rpass s = cnt nt_w s /\ cnt d_w s = 0 /\
         rwait s = 0%Z;
  (* --- phase (b): a writer owns the lock, or a hand-over of the exclusive lock is in flight *)
  i_pb : WT s = 1 ->
         RT s = 0 /\ rpass s = 0 /\ cnt d_w s = 0 /\ rwait s = 0%Z /\ NF s = cnt usrun_w s /\ cnt add_w s = 0;
  i_pst : cnt store_w s = 1 ->
          cnt storew_w s = sw s + 1 /\ sw s >= 1 /\ length (wq s) = sw s /\ rsize s >= 1 /\
          (fifo s = true -> wprio s = 0);
  (* --- phase (c): writers present, none owns: the first writer waits for exactly the readers it owes to *)
  i_pc : WT s = 0 -> sw s <> 0 ->
         NF s = 1 /\ rpass s <= cnt nt_w s /\
         (rwait s + Z.of_nat (cnt addr_w s) = Z.of_nat (RT s + rpass s + cnt d_w s))%Z /\
         (cnt add_w s = 0 -> (rwait s >= 1)%Z) /\ (cnt add_w s = 1 -> (rwait s <= 0)%Z);
  (* --- who is where *)
  i_occr : forall n, count_occ Nat.eq_dec (rq s) n + cnt (inflocc_w n) s = pcw parkr_w s n;
  i_occq : forall n, count_occ Nat.eq_dec (wq s) n + cnt (runwocc_w n) s = pcw parkq_w s n;
  i_first : forall n, pcw nf_w s n = 1 -> wfirst s = Some n;
  i_runr : forall n, pcP runr_ok s n
}.

(* ---- tactics ------------------------------------------------------------------------------------------- *)
Ltac case_hyp H :=
  repeat match type of H with
  | (match ?d with _ => _ end) = Some _ => let E := fresh "E" in destruct d eqn:E; try discriminate H
  | (if ?d then _ else _) = Some _ => let E := fresh "E" in destruct d eqn:E; try discriminate H
  end.

Ltac red_st :=
  cbn [fifo rfifo sw sr rwait rpass rsize wprio rq wfirst wq spin cos entered grants tries
       set_co set_mx set_sr set_sw set_rwait add_try add_entered wfail
       m_sw m_sr m_rwait m_rpass m_rsize m_wprio m_rq m_wfirst m_wq m_spin
       pc req got upd_pc inc_req inc_got] in *.

Lemma sees_true : forall s w r, sees s w r = true -> w = sw s /\ r = sr s.
Proof. unfold sees. intros. apply andb_prop in H. destruct H. apply Nat.eqb_eq in H, H0. auto. Qed.
Lemma state_is_true : forall s w r, state_is s w r = true -> sw s = w /\ sr s = r.
Proof. unfold state_is. intros. apply andb_prop in H. destruct H. apply Nat.eqb_eq in H, H0. auto. Qed.
Lemma state_is_false : forall s w r, state_is s w r = false -> sw s <> w \/ sr s <> r.
Proof.
  unfold state_is. intros. apply andb_false_iff in H. destruct H as [H|H]; apply Nat.eqb_neq in H; auto.
Qed.
Lemma is_nil_true : forall A (l : list A), is_nil l = true -> l = [].
Proof. destruct l; simpl; intros; auto; discriminate. Qed.
Lemma is_nil_false : forall A (l : list A), is_nil l = false -> length l >= 1.
Proof. destruct l; simpl; intros; try discriminate; lia. Qed.

(* booleans of the step function -> propositions *)
Ltac prep_b :=
  repeat match goal with
  | H : sees _ _ _ = true |- _ => apply sees_true in H; destruct H
  | H : state_is _ _ _ = true |- _ => apply state_is_true in H; destruct H
  | H : state_is _ _ _ = false |- _ => apply state_is_false in H
  | H : Bool.eqb _ _ = true |- _ => apply Bool.eqb_prop in H
  | H : andb _ _ = true |- _ => apply andb_prop in H; destruct H
  | H : andb _ _ = false |- _ => apply andb_false_iff in H
  | H : negb _ = true |- _ => apply negb_true_iff in H
  | H : negb _ = false |- _ => apply negb_false_iff in H
  | H : Nat.eqb _ _ = true |- _ => apply Nat.eqb_eq in H
  | H : Nat.eqb _ _ = false |- _ => apply Nat.eqb_neq in H
  | H : Nat.leb _ _ = true |- _ => apply Nat.leb_le in H
  | H : Nat.leb _ _ = false |- _ => apply Nat.leb_gt in H
  | H : Nat.ltb _ _ = true |- _ => apply Nat.ltb_lt in H
  | H : Nat.ltb _ _ = false |- _ => apply Nat.ltb_ge in H
  | H : Z.eqb _ _ = true |- _ => apply Z.eqb_eq in H
  | H : Z.eqb _ _ = false |- _ => apply Z.eqb_neq in H
  | H : is_nil _ = true |- _ => apply is_nil_true in H
  | H : is_nil _ = false |- _ => apply is_nil_false in H
  end.

(* how every weight changes when coroutine c (x, at pc P) becomes v in list l *)
Ltac cfacts l c x v G :=
  pose proof (cntl_set_nth rtown_w l c x v G);
  pose proof (cntl_set_nth infl_w l c x v G);
  pose proof (cntl_set_nth nt_w l c x v G);
  pose proof (cntl_set_nth d_w l c x v G);
  pose proof (cntl_set_nth parkr_w l c x v G);
  pose proof (cntl_set_nth own_w l c x v G);
  pose proof (cntl_set_nth runw_w l c x v G);
  pose proof (cntl_set_nth usrun_w l c x v G);
  pose proof (cntl_set_nth store_w l c x v G);
  pose proof (cntl_set_nth add_w l c x v G);
  pose proof (cntl_set_nth parkf_w l c x v G);
  pose proof (cntl_set_nth parkq_w l c x v G);
  pose proof (cntl_set_nth addr_w l c x v G);
  pose proof (cntl_set_nth storew_w l c x v G).

Ltac zfacts l :=
  pose proof (add_addr l); pose proof (store_storew l).

Ltac simp_w :=
  cbn [rtown_w infl_w nt_w d_w parkr_w own_w runw_w usrun_w store_w add_w parkf_w parkq_w addr_w storew_w
       nf_w wt_w rt_w pc req got upd_pc inc_req inc_got length] in *.

Ltac open_inv I :=
  destruct I as [Irsize Isr Iparkq Iparkr Isw Iwt Inf Ispin1 Ispin0 Iprio_le Iprio_f Iprio_n Ipa Ipb Ipst Ipc
                 Ioccr Ioccq Ifirst Irunr];
  unfold RT, NF, WT, cnt in *.

(* pointwise view after one coroutine moved *)
Lemma pcw_set_co : forall f s c v x n,
  get s c = Some x -> pcw f (set_co c v s) n = if Nat.eq_dec n c then f (pc v) else pcw f s n.
Proof.
  unfold pcw, get, set_co. intros. cbn [cos]. rewrite (nth_error_set_nth _ _ _ n v x H).
  destruct (Nat.eq_dec n c); auto.
Qed.
Lemma pcP_set_co : forall P s c v x n,
  get s c = Some x -> pcP P (set_co c v s) n = if Nat.eq_dec n c then P (pc v) else pcP P s n.
Proof.
  unfold pcP, get, set_co. intros. cbn [cos]. rewrite (nth_error_set_nth _ _ _ n v x H).
  destruct (Nat.eq_dec n c); auto.
Qed.
Lemma pcw_set_mx : forall f s m n, pcw f (set_mx m s) n = pcw f s n.
Proof. reflexivity. Qed.
Lemma pcP_set_mx : forall P s m n, pcP P (set_mx m s) n = pcP P s n.
Proof. reflexivity. Qed.
Lemma get_set_mx : forall s m n, get (set_mx m s) n = get s n.
Proof. reflexivity. Qed.
