(* RA.v — a promise-free view-based release/acquire/relaxed machine for ONE atomic word plus any number of
   non-atomic cells, and the vocabulary in which the translator (tools/translate_orders.py) reports the atomic
   operations of the source (coq/gen/Gen_orders.v).

   Views map locations to timestamps.  Location 0 is the atomic word (timestamp = index in its history);
   locations >= 1 are non-atomic cells (timestamp = number of accesses so far; every access is treated as a
   write, so "no race" means: each access happens-after the previous access of that cell).
   RMWs read the last message (atomicity) and continue release sequences whatever their own order (C++20
   [intro.races]); plain stores are appended at the end of the modification order — exact when every competing
   write is an RMW, which holds for the words modelled with it; loads may read any message not older than the
   reader's view.  No load-buffering (promise-free).  No proofs about protocols here. *)
From Coq Require Import List Arith Bool String.
Import ListNotations.

Inductive mo := Rlx | Acq | Rel | AcqRel | SeqCst.
Definition is_acq (m : mo) := match m with Acq | AcqRel | SeqCst => true | _ => false end.
Definition is_rel (m : mo) := match m with Rel | AcqRel | SeqCst => true | _ => false end.

(* ---- what the translator emits ---- *)
Record aop := { a_file : string; a_func : string; a_obj : string; a_op : string; a_ord : list mo; a_line : nat }.

Definition matches (file func obj op : string) (a : aop) : bool :=
  String.eqb (a_file a) file && String.eqb (a_func a) func && String.eqb (a_obj a) obj && String.eqb (a_op a) op.

(* i-th order of the k-th operation `obj.op` inside `func` of `file`; Rlx (the weakest) when absent, so that a
   missing operation cannot satisfy a side condition *)
Definition ord_of (l : list aop) (file func obj op : string) (k i : nat) : mo :=
  match nth_error (filter (matches file func obj op) l) k with
  | Some a => nth i (a_ord a) Rlx
  | None => Rlx
  end.

Definition skeleton (l : list aop) (file : string) : list (string * string * string) :=
  map (fun a => (a_func a, a_obj a, a_op a)) (filter (fun a => String.eqb (a_file a) file) l).

(* ---- views ---- *)
Definition view := nat -> nat.
Definition vbot : view := fun _ => 0.
Definition vjoin (a b : view) : view := fun x => Nat.max (a x) (b x).
Definition vset (v : view) (x n : nat) : view := fun y => if Nat.eqb y x then Nat.max (v y) n else v y.

Record msg := { mval : nat; mview : view }.

Record thr := { cur : view; acqv : view }.
Definition thr0 : thr := {| cur := vbot; acqv := vbot |}.

(* non-atomic access of cell c (c >= 1) whose last access has timestamp last: returns (raced?, new timestamp, thread) *)
Definition na_access (t : thr) (c last : nat) : bool * nat * thr :=
  (negb (Nat.eqb (cur t c) last), S last,
   {| cur := fun y => if Nat.eqb y c then S last else cur t y; acqv := acqv t |}).

(* atomic load with order o of the message at index i *)
Definition a_read (t : thr) (o : mo) (i : nat) (m : msg) : thr :=
  {| cur := vset (if is_acq o then vjoin (cur t) (mview m) else cur t) 0 i;
     acqv := vjoin (acqv t) (mview m) |}.

(* the message written by an RMW with order o at index n, after reading message m (index n-1) *)
Definition rmw_write (t : thr) (o : mo) (n : nat) (m : msg) (v : nat) : thr * msg :=
  let t1 := a_read t o (n - 1) m in
  let c2 := vset (cur t1) 0 n in
  ({| cur := c2; acqv := acqv t1 |},
   {| mval := v; mview := vset (if is_rel o then vjoin (mview m) c2 else mview m) 0 n |}).

(* a plain store with order o appended at index n *)
Definition store_write (t : thr) (o : mo) (n : nat) (v : nat) : thr * msg :=
  let c2 := vset (cur t) 0 n in
  ({| cur := c2; acqv := acqv t |},
   {| mval := v; mview := if is_rel o then c2 else vset vbot 0 n |}).

Definition fence_acq (t : thr) : thr := {| cur := vjoin (cur t) (acqv t); acqv := acqv t |}.

Definition last_msg (h : list msg) : msg := last h {| mval := 0; mview := vbot |}.
