(* PoolBits.v -- the bit-level operations of FairThreadPool::_jobs_count on a word of the form 4*c + 2*w + b
   (w, b booleans): & 1, & 2, >> 2, | 1, | 2.  Used by PoolProofs.encoding. *)
From Coq Require Import Arith Bool Lia.

Definition b2n (b : bool) : nat := if b then 1 else 0.

Lemma b2n_le1 b : b2n b <= 1.
Proof. destruct b; simpl; lia. Qed.

Definition word (c : nat) (w b : bool) : nat := 4 * c + 2 * b2n w + b2n b.

Lemma word_shape c w b : word c w b = 2 * (2 * c + Nat.b2n w) + Nat.b2n b.
Proof. unfold word. destruct w, b; simpl; lia. Qed.

Lemma tb0 c w b : Nat.testbit (word c w b) 0 = b.
Proof. rewrite word_shape. apply Nat.testbit_0_r. Qed.
Lemma tb1 c w b : Nat.testbit (word c w b) 1 = w.
Proof. rewrite word_shape, Nat.testbit_succ_r. apply Nat.testbit_0_r. Qed.
Lemma tbSS c w b n : Nat.testbit (word c w b) (S (S n)) = Nat.testbit c n.
Proof. rewrite word_shape, !Nat.testbit_succ_r. reflexivity. Qed.

Lemma one_word : 1 = word 0 false true. Proof. reflexivity. Qed.
Lemma two_word : 2 = word 0 true false. Proof. reflexivity. Qed.

Ltac bits :=
  apply Nat.bits_inj; intros [|[|n]];
  rewrite ?Nat.land_spec, ?Nat.lor_spec, ?tb0, ?tb1, ?tbSS, ?Nat.bits_0, ?andb_false_r, ?andb_true_r,
          ?orb_false_r, ?orb_true_r; try reflexivity.

Lemma land_1 c w b : Nat.land (word c w b) 1 = b2n b.
Proof.
  replace (b2n b) with (word 0 false b) by (destruct b; reflexivity).
  rewrite one_word at 1. bits.
Qed.

Lemma land_2 c w b : Nat.land (word c w b) 2 = 2 * b2n w.
Proof.
  replace (2 * b2n w) with (word 0 w false) by (destruct w; reflexivity).
  rewrite two_word at 1. bits.
Qed.

Lemma lor_1 c w b : Nat.lor (word c w b) 1 = word c w true.
Proof. rewrite one_word at 1. bits. Qed.

Lemma lor_2 c w b : Nat.lor (word c w b) 2 = word c true b.
Proof. rewrite two_word at 1. bits. Qed.

Lemma shiftr_2 c w b : Nat.shiftr (word c w b) 2 = c.
Proof.
  rewrite Nat.shiftr_div_pow2. change (2 ^ 2) with 4. unfold word.
  symmetry. apply (Nat.div_unique _ 4 c (2 * b2n w + b2n b)); [destruct w, b; simpl; lia | lia].
Qed.
