(* Encoding of the outcome of replaying an implementation trace through WaitEv.run, as a list of numbers that the
   checker reads back.
     obs_nat n one timed tr:
       [0; i]                      : the model rejects event number i
       [1; ret; timedout; bad_touch; underflow; returned; w_0; ..; w_{n-1}]
                                     ret 0 = not returned, 1 = false, 2 = true; words 0 = Empty, 1 = callback, 2 = Result
     obs_all n one timed tr [(i, (k, tr')); ...]:
       obs_nat's list followed, for every listed later consumer, by the length of its obs_later part and that part
       (one evaluation of the main trace for all of them); [0; i] if WaitEv rejects
     obs_later k n one timed tr i tr':
       replays tr through WaitEv, projects future i to a Handoff state (WaitEv.proj) and replays the later
       consumer's events tr' through Handoff.run from there:
       [0; i] (WaitEv rejects), [2; j] (Handoff rejects event j of tr'), or
       [1; terminal; frees; |cbs|; cbs..; |gots|; gots..] as in HandoffObs. *)
From Coq Require Import List Arith Bool.
Import ListNotations.
From YV Require model.Handoff model.HandoffObs.
From YV Require Import model.WaitEv.

Fixpoint run_at (s : st) (tr : list ev) (i : nat) : nat + st :=
  match tr with
  | [] => inr s
  | e :: r => match step s e with Some s' => run_at s' r (S i) | None => inl i end
  end.

Definition encb (b : bool) : nat := if b then 1 else 0.
Definition encw (v : word) : nat := match v with WE => 0 | WC => 1 | WR => 2 end.
Definition encr (r : option bool) : nat := match r with None => 0 | Some false => 1 | Some true => 2 end.

Definition obs_nat (n_ : nat) (one_ timed_ : bool) (tr : list ev) : list nat :=
  match run_at (init n_ one_ timed_) tr 0 with
  | inl i => [0; i]
  | inr s =>
      [1; encr (ret s); encb (timedout s); bad_touch s; encb (underflow s);
       encb (match wp s with WDone => true | _ => false end)] ++ map (fun f => encw (fw f)) (futs s)
  end.

Definition obs_later (k : Handoff.kind) (n_ : nat) (one_ timed_ : bool) (tr : list ev) (i : nat)
           (tr' : list Handoff.ev) : list nat :=
  match run_at (init n_ one_ timed_) tr 0 with
  | inl j => [0; j]
  | inr s =>
      match nth_error (futs s) i with
      | None => [0; 0]
      | Some f =>
          match HandoffObs.run_at (proj k f) tr' 0 with
          | inl j => [2; j]
          | inr h =>
              [1; HandoffObs.encb (Handoff.terminal h); Handoff.frees h; length (Handoff.cbs h)] ++
              map HandoffObs.enc (Handoff.cbs h) ++ [length (Handoff.gots h)] ++ map HandoffObs.enc (Handoff.gots h)
          end
      end
  end.

Definition later_part (s : st) (k : Handoff.kind) (i : nat) (tr' : list Handoff.ev) : list nat :=
  match nth_error (futs s) i with
  | None => [0; 0]
  | Some f =>
      match HandoffObs.run_at (proj k f) tr' 0 with
      | inl j => [2; j]
      | inr h =>
          [1; HandoffObs.encb (Handoff.terminal h); Handoff.frees h; length (Handoff.cbs h)] ++
          map HandoffObs.enc (Handoff.cbs h) ++ [length (Handoff.gots h)] ++ map HandoffObs.enc (Handoff.gots h)
      end
  end.

Definition obs_all (n_ : nat) (one_ timed_ : bool) (tr : list ev)
           (ls : list (nat * (Handoff.kind * list Handoff.ev))) : list nat :=
  match run_at (init n_ one_ timed_) tr 0 with
  | inl i => [0; i]
  | inr s =>
      [1; encr (ret s); encb (timedout s); bad_touch s; encb (underflow s);
       encb (match wp s with WDone => true | _ => false end)] ++ map (fun f => encw (fw f)) (futs s) ++
      flat_map (fun x => let o := later_part s (fst (snd x)) (fst x) (snd (snd x)) in length o :: o) ls
  end.
