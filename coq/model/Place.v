(* Place — where the steps of a pipeline run (C05).

   Pipe.v (C02) already records, for every callback invocation, the executor the step's core held and whether the core
   was submitted to it, for executors that are alive or stopped once and for all.  This file generalises Pipe.run to
     * executors that change their mind: a [policy] says whether executor e accepts its n-th Submit (the instrumented
       executors of harness/h_c05.cpp reject from their k-th submission on: [rejects_from]), with a counter per executor;
     * a log of the jobs handed to executors: one [job] per Submit, with the step it belongs to, the executor, the
       index of the submission at that executor, and its fate (Call | Drop);
     * coroutine sources whose body contains `co_await On(e)` segments (coro/detail/on_awaiter.hpp).
   [drun] is implementation-shaped exactly like Pipe.run: Core::Impl core.hpp:158-181 = TransferExecutorTo
   (base_core.hpp:32-38), then `_executor->Submit( *this)` for Call-type cores (:171-173) and a direct CallImpl for the
   others (:174-177); IExecutor::Submit either Calls (Core::Call :120-135 -> CallImpl with the caller's Result) or Drops
   the job (Core::Drop :142-144 -> CallImpl with Result{StopTag}).  [dseq] is the sequential reading of the property
   text.  With the policy "alive executors accept, stopped ones refuse" and no On-segments [drun] is Pipe.run
   (proofs/PlaceProofs.v drun_static).  No proofs here. *)
From Coq Require Import List ZArith Bool Arith.
Import ListNotations.
From YV Require Import model.Pipe.

(* ---------------------------------------------------------------------------------------- executors that may refuse *)

(* [pol e n] = does executor e accept the Submit it receives after n earlier ones (IExecutor::Submit: "Call if executor
   is Alive, otherwise Drop", executor.hpp:41-50) *)
Definition policy := exec -> nat -> bool.

(* MakeInline() / a ManualExecutor always accept, MakeInline(StopTag) never does (src/exe/inline.cpp:21-27,
   src/exe/manual.cpp:16-18) *)
Definition static_pol : policy := fun e _ => alive e.

(* the instrumented executor number x refuses its k-th Submit (k >= 1) and every later one; the others as above *)
Definition rejects_from (x k : nat) : policy :=
  fun e n => match e with
             | XManual m => negb (Nat.eqb m x && Nat.leb k (S n))
             | _ => alive e
             end.

Inductive fate := FCall | FDrop.

(* one Submit: the step (callback id) whose core / coroutine promise was handed over, the executor, how many Submits that
   executor had seen before, and what the executor did with the job *)
Record job := Job { j_id : nat; j_exec : exec; j_idx : nat; j_fate : fate }.

(* the state threaded through a run is the log of the jobs submitted so far; an executor's submission counter is the
   number of its jobs in the log *)
Definition dst := list job.
Definition dinit : dst := [].
Definition d_jobs (s : dst) : list job := s.

Definition jobs_of (e : exec) (l : list job) : list job := filter (fun j => exec_eqb (j_exec j) e) l.
Definition d_cnt (s : dst) (e : exec) : nat := length (jobs_of e s).

Definition accepts (pol : policy) (s : dst) (e : exec) : bool := pol e (d_cnt s e).

(* e.Submit(job of step id) *)
Definition submitted (pol : policy) (s : dst) (id : nat) (e : exec) : dst :=
  s ++ [Job id e (d_cnt s e) (if accepts pol s e then FCall else FDrop)].

(* the On-segments of a coroutine body, by coroutine id: (executor, id of the code that follows the co_await) *)
Definition coenv := nat -> list (exec * nat).
Definition no_on : coenv := fun _ => [].

(* `co_await On(e)`: OnAwaiter::await_suspend (on_awaiter.hpp:20-25) stores &e in promise._executor and calls
   e.Submit(promise).  PromiseType::Call resumes the body: the code after the co_await runs inside e.  PromiseType::Drop
   (promise_type.hpp:114-121) stores StopTag and completes the future: the rest of the body never runs. *)
Fixpoint co_segs (pol : policy) (s : dst) (ex : exec) (evs : list event) (segs : list (exec * nat)) (r : res)
  : res * exec * list event * dst :=
  match segs with
  | [] => (r, ex, evs, s)
  | (e, sid) :: rest =>
      if accepts pol s e
      then co_segs pol (submitted pol s sid e) e (evs ++ [Ev sid e true INone]) rest r
      else (Err EStop, e, evs, submitted pol s sid e)
  end.

(* a Then / Detach step: is its core submitted, and what the state is afterwards *)
Definition step_ok (pol : policy) (s : dst) (a : attach) (ex : exec) : bool :=
  negb (is_call a) || accepts pol s ex.
Definition step_st (pol : policy) (s : dst) (a : attach) (id : nat) (ex : exec) : dst :=
  if is_call a then submitted pol s id ex else s.

(* ------------------------------------------------------------------------------------- the implementation's run *)

Fixpoint drun (pol : policy) (ce : coenv) (s : dst) (p : prog) {struct p} : option (out * dst) :=
  match p with
  | PReady w t r => Some (Out r XInline t [], s)
  | PContract w t e late r => Some (Out r e t [], s)
  | PRun w e id par rt body =>
      (* Run(e, f) / Schedule(e, f) + start: the first core is handed to e (run.hpp; detail::Start) *)
      let s1 := submitted pol s id e in
      match run_call par (negb (accepts pol s e)) with
      | None => None
      | Some (Pass r) => Some (Out r e rt [], s1)
      | Some (Invoke i) =>
          let ev := Ev id e true i in
          match body i with
          | RetAsync k p' =>
              match drun pol ce s1 p' with
              | Some (oi, s2) => Some (Out (o_res oi) e rt (ev :: o_evs oi), s2)
              | None => None
              end
          | o' => Some (Out (done_result o') e rt [ev], s1)
          end
      end
  | PProm w t e id b =>
      let '(r, called) := prom_result b (negb (accepts pol s e)) in
      Some (Out r e t (if called then [Ev id e true INone] else []), submitted pol s id e)
  | PCoro w t id r =>
      let '(r', ex, evs, s') := co_segs pol s XInline [Ev id XInline false INone] (ce id) r in
      Some (Out r' ex t evs, s')
  | PThen q id par a rt body =>
      match drun pol ce s q with
      | Some (o, s0) =>
          let ex := transfer_exec a (o_exec o) in                                   (* Impl core.hpp:163-165 *)
          let s1 := step_st pol s0 a id ex in                                        (* :171-173 *)
          let arg := if step_ok pol s0 a ex then o_res o else Err EStop in           (* Call :136-138 | Drop :143 *)
          match call_impl par (o_ty o) arg with
          | None => None
          | Some (Pass r) => Some (Out r ex rt (o_evs o), s1)
          | Some (Invoke i) =>
              let ev := Ev id ex (is_call a) i in
              match body i with
              | RetAsync k p' =>
                  match drun pol ce s1 p' with
                  | Some (oi, s2) => Some (Out (o_res oi) ex rt (o_evs o ++ ev :: o_evs oi), s2)
                  | None => None
                  end
              | o' => Some (Out (done_result o') ex rt (o_evs o ++ [ev]), s1)
              end
          end
      | None => None
      end
  | PToFuture q => drun pol ce s q
  | POnNull q => drun pol ce s q
  end.

(* ------------------------------------------------------------------------------ the sequential reading (C05 + C02) *)
(* "a step handed to an executor that refuses sees StopError instead of its input; value callbacks are skipped; the
   rest of the chain still completes": the reading of C02 (Pipe.seq) in which the Result that reaches a refused step is
   replaced by StopError. *)

Fixpoint dseq (pol : policy) (ce : coenv) (s : dst) (p : prog) {struct p} : out * dst :=
  match p with
  | PReady _ t r => (Out r XInline t [], s)
  | PContract _ t e _ r => (Out r e t [], s)
  | PRun _ e id par rt body =>
      let s1 := submitted pol s id e in
      let r := if accepts pol s e then Val VUnit else Err EStop in
      match invoked par r with
      | None => (Out r e rt [], s1)
      | Some i =>
          match body i with
          | Throw x => (Out (Exc x) e rt [Ev id e true i], s1)
          | RetV v => (Out (Val v) e rt [Ev id e true i], s1)
          | RetVoid => (Out (Val VUnit) e rt [Ev id e true i], s1)
          | RetRes r' => (Out r' e rt [Ev id e true i], s1)
          | RetAsync k p' =>
              let '(oi, s2) := dseq pol ce s1 p' in
              (Out (o_res oi) e rt (Ev id e true i :: o_evs oi), s2)
          end
      end
  | PProm _ t e id b =>
      (if accepts pol s e
       then Out (match b with PBSet _ r => r | PBThrow x => Exc x end) e t [Ev id e true INone]
       else Out (Err EStop) e t [],
       submitted pol s id e)
  | PCoro w t id r =>
      let '(r', ex, evs, s') := co_segs pol s XInline [Ev id XInline false INone] (ce id) r in
      (Out r' ex t evs, s')
  | PThen q id par a rt body =>
      let '(o, s0) := dseq pol ce s q in
      let ex := match a with AOn e => e | _ => o_exec o end in
      let s1 := step_st pol s0 a id ex in
      let r := if step_ok pol s0 a ex then o_res o else Err EStop in
      match invoked par r with
      | None => (Out r ex rt (o_evs o), s1)
      | Some i =>
          match body i with
          | Throw x => (Out (Exc x) ex rt (o_evs o ++ [Ev id ex (is_call a) i]), s1)
          | RetV v => (Out (Val v) ex rt (o_evs o ++ [Ev id ex (is_call a) i]), s1)
          | RetVoid => (Out (Val VUnit) ex rt (o_evs o ++ [Ev id ex (is_call a) i]), s1)
          | RetRes r' => (Out r' ex rt (o_evs o ++ [Ev id ex (is_call a) i]), s1)
          | RetAsync k p' =>
              let '(oi, s2) := dseq pol ce s1 p' in
              (Out (o_res oi) ex rt (o_evs o ++ Ev id ex (is_call a) i :: o_evs oi), s2)
          end
      end
  | PToFuture q => dseq pol ce s q
  | POnNull q => dseq pol ce s q
  end.

(* --------------------------------------------------- one step applied to a finished predecessor (cf. Pipe.step_result) *)

(* the Result that reaches the step *)
Definition darrives (pol : policy) (s0 : dst) (a : attach) (oq : out) : res :=
  if step_ok pol s0 a (exec_of a oq) then o_res oq else Err EStop.

Definition dstep_result (pol : policy) (ce : coenv) (s0 : dst) (oq : out)
                        (id : nat) (par : pclass) (a : attach) (rt : ty) (body : input -> outcome) : option (out * dst) :=
  let ex := exec_of a oq in
  let s1 := step_st pol s0 a id ex in
  let r := darrives pol s0 a oq in
  if par_ok par (o_ty oq) then
    match invoked par r with
    | None => Some (Out r ex rt (o_evs oq), s1)
    | Some i =>
        match body i with
        | RetAsync k p' =>
            match drun pol ce s1 p' with
            | Some (oi, s2) => Some (Out (o_res oi) ex rt (o_evs oq ++ Ev id ex (is_call a) i :: o_evs oi), s2)
            | None => None
            end
        | o' => Some (Out (done_result o') ex rt (o_evs oq ++ [Ev id ex (is_call a) i]), s1)
        end
    end
  else None.

(* ------------------------------------------------------------------------ a Task started on an executor (C12's start forms) *)
(* Task::ToFuture(e) / Detach(e) / Cancel() = Detach(MakeInline(StopTag)) (lazy/task.hpp:97-120) call detail::Start(core, e)
   (src/lazy/task_impl.cpp:6-10):  head = MoveToCaller(core) walks back to the FIRST core of the chain; head->_executor = &e
   overwrites whatever the head was built with (the e1 of Schedule(e1, f), MakeInline() of MakeTask / a coroutine);
   e.Submit( *head).  The other cores are untouched: one attached with Then(e1, f) keeps e1, one attached without an executor
   still holds nullptr and takes its predecessor's executor when it is reached (TransferExecutorTo) — so e is inherited from
   the head down to the first step that names its own.  ToFuture() / Detach() (Start(core), :12-15) submit the head to the
   executor it already holds: that is [drun] of the same program.
   [dlazy pol ce s e p]: p is a lazy program (a Task source followed by Then steps), started on e.
   The head's job is logged with the head's callback id (0 for MakeTask's ReadyCore, which has none).  A coroutine head is
   resumed inside e's Call of the promise: its invocation carries (e, submitted). *)
Fixpoint dlazy (pol : policy) (ce : coenv) (s : dst) (e : exec) (p : prog) {struct p} : option (out * dst) :=
  match p with
  | PReady WT t r =>
      (* ReadyCore::Call: SetResult; ReadyCore::Drop: Store(StopTag{}); Call() (lazy/make.hpp:18-27) *)
      Some (Out (if accepts pol s e then r else Err EStop) e t [], submitted pol s 0 e)
  | PRun WT _ id par rt body => drun pol ce s (PRun WT e id par rt body)
  | PProm WT t _ id b => drun pol ce s (PProm WT t e id b)
  | PCoro WT t id r =>
      (* PromiseType::Call resumes the body; Drop stores StopTag and completes without resuming (promise_type.hpp:107-121) *)
      if accepts pol s e then
        let '(r', ex, evs, s') := co_segs pol (submitted pol s id e) e [Ev id e true INone] (ce id) r in
        Some (Out r' ex t evs, s')
      else Some (Out (Err EStop) e t [], submitted pol s id e)
  | PThen q id par a rt body =>
      match dlazy pol ce s e q with
      | Some (oq, s0) => dstep_result pol ce s0 oq id par a rt body
      | None => None
      end
  | _ => None
  end.

(* how a lazy program is started: None = ToFuture() / Detach() / Get(), Some e = ToFuture(e) / Detach(e) / Cancel() *)
Definition dstart (pol : policy) (ce : coenv) (s : dst) (st : option exec) (p : prog) : option (out * dst) :=
  match st with None => drun pol ce s p | Some e => dlazy pol ce s e p end.

(* a lazy program: a Task source followed by Then steps *)
Fixpoint lazy_prog (p : prog) : bool :=
  match p with
  | PReady WT _ _ | PRun WT _ _ _ _ _ | PProm WT _ _ _ _ | PCoro WT _ _ _ => true
  | PThen q _ _ _ _ _ => lazy_prog q
  | _ => false
  end.

(* the nearest upstream named executor of a lazy program started on e: the last Then(e1, f) on the spine, e if there is none *)
Fixpoint lnamed (e : exec) (p : prog) : exec :=
  match p with
  | PThen q _ _ (AOn e1) _ _ => e1
  | PThen q _ _ _ _ _ => lnamed e q
  | _ => e
  end.

(* id under which the head's job is logged *)
Fixpoint head_job_id (p : prog) : nat :=
  match p with
  | PRun _ _ id _ _ _ => id
  | PProm _ _ _ id _ => id
  | PCoro _ _ id _ => id
  | PThen q _ _ _ _ _ => head_job_id q
  | _ => 0
  end.

(* ------------------------------------------------------------------------------------- vocabulary of the statements *)

(* the nearest upstream named executor, read off the program text: the executor given to the last Then(e, f) /
   Run(e, f) / MakeContractOn(e) / AsyncContract(e, f) / Schedule(e, f); ThenInline(f), Then(f), ToFuture(), On(nullptr) and
   whatever a callback returns (a Future living on another executor included) do not change it; sources built without an
   executor carry MakeInline() (BaseCore::_executor's default, base_core.hpp:50) *)
Fixpoint named (p : prog) : exec :=
  match p with
  | PReady _ _ _ => XInline
  | PContract _ _ e _ _ => e
  | PRun _ e _ _ _ _ => e
  | PProm _ _ e _ _ => e
  | PCoro _ _ _ _ => XInline
  | PThen q _ _ (AOn e) _ _ => e
  | PThen q _ _ _ _ _ => named q
  | PToFuture q => named q
  | POnNull q => named q
  end.

Definition unnamed (s : step) : Prop := match s_att s with AOn _ => False | _ => True end.

Definition is_fcall (j : job) : bool := match j_fate j with FCall => true | FDrop => false end.

(* every job of the log is numbered by the submissions its executor had seen before *)
Definition numbered (l : list job) : Prop :=
  forall l1 j l2, l = l1 ++ j :: l2 -> j_idx j = length (jobs_of (j_exec j) l1).

Definition fate_by (pol : policy) (j : job) : Prop :=
  j_fate j = if pol (j_exec j) (j_idx j) then FCall else FDrop.
