(* Sched.v — the FIBER backend's scheduler and fault injector as an executable, deterministic machine.

   Source being modelled (all under /repo):
     src/fault/fiber/scheduler.cpp     Scheduler::{Schedule, RunLoop, GetNext, TickTime, AdvanceTime, WakeUpNeeded,
                                        RescheduleCurrent, Sleep, SleepPreemptive}, PollRandomElementFromList
     src/fault/fiber/bidirectional_intrusive_list.cpp   BiList::{PushBack, PushAll, PopBack, GetElement}, Node::Erase
     src/fault/fiber/queue.cpp + fault/detail/fiber/queue.hpp   FiberQueue::{Wait(NoTimeoutTag), Wait(duration),
                                        NotifyOne, NotifyAll, ScheduleAndRemove}
     src/fault/injector.cpp            Injector::{MaybeInject, NeedInject, Reset}
     src/fault/atomic.cpp              ShouldFailAtomicWeak
     src/fault/util.cpp                GetRandNumber (the k-th call consumes the k-th output of the engine)
     src/fault/fiber/fiber_base.cpp, thread.cpp   FiberBase::{Resume, Suspend, Exit}, Thread::{Thread, join, detach}
     src/fault/fiber/mutex.cpp, fault/detail/fiber/condition_variable.hpp, fault/detail/{mutex,condition_variable,
     atomic}.hpp   the wrappers: which injection points / parks / notifies one client-level operation performs

   The machine is a FUNCTION: nothing is chosen from outside.  Every decision is computed from the engine's outputs
   [draws : nat -> N] (libstdc++'s mt19937_64 is outside YACLib: trusted), the configuration and the fibers' programs.
   Fibers are abstract action lists.  Fiber ids come from [alloc : nat -> fid] (the k-th yaclib_std::thread created gets
   [alloc k]; in the code alloc k = sNextId0 + 1 + k with a process-global counter).

   No proofs in this file. *)

From Coq Require Import List Arith Bool NArith.
Import ListNotations.

Definition fid := nat.

(* A FiberQueue: the one inside fiber::Mutex m, the one inside fiber::ConditionVariable c, or a bare one. *)
Inductive qid := QM (m : nat) | QC (c : nat) | QR (q : nat).
Definition qid_eqb (a b : qid) : bool :=
  match a, b with
  | QM x, QM y | QC x, QC y | QR x, QR y => Nat.eqb x y
  | _, _ => false
  end.

(* What a fiber does next.  One action = one call into the fault layer. *)
Inductive action :=
| AInject                          (* yaclib::InjectFault(): Injector::MaybeInject *)
| AWeak                            (* ShouldFailAtomicWeak() at the top of compare_exchange_weak *)
| ALogCas                          (* the client reports the result of that compare_exchange_weak *)
| AYield                           (* yaclib_std::this_thread::yield = Scheduler::RescheduleCurrent *)
| AEpoch                           (* the client stores steady_clock::now() in a shared variable (the epoch) *)
| ASleep (ab : bool) (d : N)       (* this_thread::sleep_for(d) [ab = false] / sleep_until(epoch + d) [ab = true]:
                                      Scheduler::Sleep(base + d) *)
| APark (q : qid)                  (* FiberQueue::Wait(NoTimeoutTag) *)
| ATimedPark (q : qid) (ab : bool) (d : N)   (* FiberQueue::Wait(duration d) / Wait(time_point epoch + d):
                                                SleepPreemptive(base + d) *)
| ALogTimed                        (* the client reports the WaitStatus of that wait *)
| ANotifyOne (q : qid)             (* FiberQueue::NotifyOne *)
| ANotifyAll (q : qid)             (* FiberQueue::NotifyAll *)
| ALock (m : nat)                  (* fiber::Mutex::lock *)
| AUnlock (m : nat)                (* fiber::Mutex::unlock *)
| ASpawn (slot : nat) (body : list action)   (* yaclib_std::thread{body} stored in handle [slot] *)
| AJoin (slot : nat)               (* Thread::join *)
| ADetach (slot : nat)             (* Thread::detach *)
| ACheck                           (* the client records (GetFaultRandomCount(), GetInjectorState()) *)
| ALogVal (v : N).                 (* the client reports a value it drew from a yaclib_std::random_device: the device's
                                      stream is mt19937_64(GetSeed()), a function of the seed alone, so v is part of
                                      the program text (checks/c17.py expands the steering it causes) *)

Inductive fstate := FRunning | FSuspended | FWaiting | FCompleted.   (* fiber_base.hpp FiberState *)
Definition fstate_eqb (a b : fstate) : bool :=
  match a, b with
  | FRunning, FRunning | FSuspended, FSuspended | FWaiting, FWaiting | FCompleted, FCompleted => true
  | _, _ => false
  end.

(* A blocking call in progress.  PTimed: inside FiberQueue::Wait(deadline) after the suspension, the part after
   Sleep() is still to run.  PSleep is ghost (the deadline of a plain sleep, for the not-early theorem). *)
Inductive pending := PNone | PSleep (ns : N) | PTimed (q : qid) (ns : N).

Record fiber := {
  prog : list action;
  fs : fstate;
  alive : bool;                (* FiberBase::_thread_alive: a Thread handle still refers to it *)
  joiner : option fid;         (* FiberBase::_joining_fiber *)
  pend : pending;
  lastcas : bool;              (* result of the last compare_exchange_weak (client variable) *)
  lastto : bool                (* last timed wait returned Timeout (client variable) *)
}.

Record cfg := {
  freq : N;      (* sYieldFrequency        SetFaultFrequency *)
  casf : N;      (* sAtomicFailFrequency   SetAtomicFailFrequency *)
  pick : N;      (* sRandomListPick        fiber::SetFaultRandomListPick *)
  tick : N;      (* sTickLength            fiber::SetFaultTickLength *)
  slpt : N       (* sSleepTime             SetFaultSleepTime (upper bound of the extra delay of a timed wait) *)
}.

Record st := {
  now : N;                               (* Scheduler::_time *)
  runq : list fid;                       (* Scheduler::_queue, front first *)
  sleepm : list (N * list fid);          (* Scheduler::_sleep_list: std::map, ascending keys; buckets may be empty *)
  waitq : list (qid * list fid);         (* the FiberQueues' _queue (absent = empty) *)
  locked : list nat;                     (* fiber::Mutex::_occupied *)
  fibers : list (fid * fiber);           (* live FiberBase objects *)
  slots : list (nat * fid);              (* Thread::_impl of the handles *)
  cur : option fid;                      (* sCurrent; None = control is in Scheduler::RunLoop *)
  rc : nat;                              (* sRandCount: index of the next engine output *)
  inj : N;                               (* Injector::_count *)
  nsp : nat;                             (* number of fibers created so far (index into alloc) *)
  crashed : bool;                        (* the real code would have dereferenced null / end() or thrown here *)
  epoch : N                              (* a client variable: a time point the driver read from the clock *)
}.

(* What the recorder sees (harness/h_c17.cpp). *)
Inductive obs :=
| OResume (f : fid) (t : N)              (* gHooks.resume, with Scheduler::_time after TickTime *)
| OYieldReq                              (* Injector::NeedInject reached *)
| OPick (n : nat)                        (* PollRandomElementFromList on a list of n nodes *)
| ODraw (k : nat) (max : N) (v : N)      (* the k-th GetRandNumber(max) returned v *)
| OWeakReq                               (* ShouldFailAtomicWeak reached *)
| OCas (f : fid) (ok : bool)
| OTimed (f : fid) (timeout : bool)
| OCheck (count : nat) (state : N)       (* a recorded (random count, injector state) pair *)
| OVal (f : fid) (v : N)                 (* a value drawn from a yaclib_std::random_device *)
| OCrash (code : nat).

(* ------------------------------------------------------------------ field updates *)
Definition set_now s v := {| now := v; runq := runq s; sleepm := sleepm s; waitq := waitq s; locked := locked s;
  fibers := fibers s; slots := slots s; cur := cur s; rc := rc s; inj := inj s; nsp := nsp s; crashed := crashed s; epoch := epoch s |}.
Definition set_runq s v := {| now := now s; runq := v; sleepm := sleepm s; waitq := waitq s; locked := locked s;
  fibers := fibers s; slots := slots s; cur := cur s; rc := rc s; inj := inj s; nsp := nsp s; crashed := crashed s; epoch := epoch s |}.
Definition set_sleepm s v := {| now := now s; runq := runq s; sleepm := v; waitq := waitq s; locked := locked s;
  fibers := fibers s; slots := slots s; cur := cur s; rc := rc s; inj := inj s; nsp := nsp s; crashed := crashed s; epoch := epoch s |}.
Definition set_waitq s v := {| now := now s; runq := runq s; sleepm := sleepm s; waitq := v; locked := locked s;
  fibers := fibers s; slots := slots s; cur := cur s; rc := rc s; inj := inj s; nsp := nsp s; crashed := crashed s; epoch := epoch s |}.
Definition set_locked s v := {| now := now s; runq := runq s; sleepm := sleepm s; waitq := waitq s; locked := v;
  fibers := fibers s; slots := slots s; cur := cur s; rc := rc s; inj := inj s; nsp := nsp s; crashed := crashed s; epoch := epoch s |}.
Definition set_fibers s v := {| now := now s; runq := runq s; sleepm := sleepm s; waitq := waitq s; locked := locked s;
  fibers := v; slots := slots s; cur := cur s; rc := rc s; inj := inj s; nsp := nsp s; crashed := crashed s; epoch := epoch s |}.
Definition set_slots s v := {| now := now s; runq := runq s; sleepm := sleepm s; waitq := waitq s; locked := locked s;
  fibers := fibers s; slots := v; cur := cur s; rc := rc s; inj := inj s; nsp := nsp s; crashed := crashed s; epoch := epoch s |}.
Definition set_cur s v := {| now := now s; runq := runq s; sleepm := sleepm s; waitq := waitq s; locked := locked s;
  fibers := fibers s; slots := slots s; cur := v; rc := rc s; inj := inj s; nsp := nsp s; crashed := crashed s; epoch := epoch s |}.
Definition set_rc s v := {| now := now s; runq := runq s; sleepm := sleepm s; waitq := waitq s; locked := locked s;
  fibers := fibers s; slots := slots s; cur := cur s; rc := v; inj := inj s; nsp := nsp s; crashed := crashed s; epoch := epoch s |}.
Definition set_inj s v := {| now := now s; runq := runq s; sleepm := sleepm s; waitq := waitq s; locked := locked s;
  fibers := fibers s; slots := slots s; cur := cur s; rc := rc s; inj := v; nsp := nsp s; crashed := crashed s; epoch := epoch s |}.
Definition set_nsp s v := {| now := now s; runq := runq s; sleepm := sleepm s; waitq := waitq s; locked := locked s;
  fibers := fibers s; slots := slots s; cur := cur s; rc := rc s; inj := inj s; nsp := v; crashed := crashed s; epoch := epoch s |}.
Definition set_epoch s v := {| now := now s; runq := runq s; sleepm := sleepm s; waitq := waitq s; locked := locked s;
  fibers := fibers s; slots := slots s; cur := cur s; rc := rc s; inj := inj s; nsp := nsp s; crashed := crashed s; epoch := v |}.
Definition set_crashed s v := {| now := now s; runq := runq s; sleepm := sleepm s; waitq := waitq s; locked := locked s;
  fibers := fibers s; slots := slots s; cur := cur s; rc := rc s; inj := inj s; nsp := nsp s; crashed := v; epoch := epoch s |}.

Definition with_prog r v := {| prog := v; fs := fs r; alive := alive r; joiner := joiner r; pend := pend r;
  lastcas := lastcas r; lastto := lastto r |}.
Definition with_fs r v := {| prog := prog r; fs := v; alive := alive r; joiner := joiner r; pend := pend r;
  lastcas := lastcas r; lastto := lastto r |}.
Definition with_alive r v := {| prog := prog r; fs := fs r; alive := v; joiner := joiner r; pend := pend r;
  lastcas := lastcas r; lastto := lastto r |}.
Definition with_joiner r v := {| prog := prog r; fs := fs r; alive := alive r; joiner := v; pend := pend r;
  lastcas := lastcas r; lastto := lastto r |}.
Definition with_pend r v := {| prog := prog r; fs := fs r; alive := alive r; joiner := joiner r; pend := v;
  lastcas := lastcas r; lastto := lastto r |}.
Definition with_lastcas r v := {| prog := prog r; fs := fs r; alive := alive r; joiner := joiner r; pend := pend r;
  lastcas := v; lastto := lastto r |}.
Definition with_lastto r v := {| prog := prog r; fs := fs r; alive := alive r; joiner := joiner r; pend := pend r;
  lastcas := lastcas r; lastto := v |}.

(* ------------------------------------------------------------------ lists *)
(* Node::Erase of the node of fiber g, wherever it is linked. *)
Definition is_nil {A} (l : list A) : bool := match l with [] => true | _ => false end.
Definition rm (g : fid) (l : list fid) : list fid := filter (fun x => negb (Nat.eqb x g)) l.
Definition mem (g : fid) (l : list fid) : bool := existsb (Nat.eqb g) l.

Fixpoint remove_nth {A} (i : nat) (l : list A) : list A :=
  match l, i with
  | [], _ => []
  | _ :: r, 0 => r
  | x :: r, S j => x :: remove_nth j r
  end.

Fixpoint fget (f : fid) (l : list (fid * fiber)) : option fiber :=
  match l with
  | [] => None
  | (g, r) :: t => if Nat.eqb g f then Some r else fget f t
  end.
Fixpoint fupd (f : fid) (u : fiber -> fiber) (l : list (fid * fiber)) : list (fid * fiber) :=
  match l with
  | [] => []
  | (g, r) :: t => if Nat.eqb g f then (g, u r) :: t else (g, r) :: fupd f u t
  end.
Fixpoint fdel (f : fid) (l : list (fid * fiber)) : list (fid * fiber) :=
  match l with
  | [] => []
  | (g, r) :: t => if Nat.eqb g f then t else (g, r) :: fdel f t
  end.

Fixpoint sget (k : nat) (l : list (nat * fid)) : option fid :=
  match l with
  | [] => None
  | (a, g) :: t => if Nat.eqb a k then Some g else sget k t
  end.
Fixpoint sdel (k : nat) (l : list (nat * fid)) : list (nat * fid) :=
  match l with
  | [] => []
  | (a, g) :: t => if Nat.eqb a k then t else (a, g) :: sdel k t
  end.

Fixpoint wget (q : qid) (l : list (qid * list fid)) : list fid :=
  match l with
  | [] => []
  | (a, b) :: t => if qid_eqb a q then b else wget q t
  end.
(* an empty FiberQueue has no entry (canonical form: a state in which nobody waits has waitq = []) *)
Fixpoint wset (q : qid) (v : list fid) (l : list (qid * list fid)) : list (qid * list fid) :=
  match l with
  | [] => if is_nil v then [] else [(q, v)]
  | (a, b) :: t => if qid_eqb a q then (if is_nil v then t else (a, v) :: t) else (a, b) :: wset q v t
  end.

(* _sleep_list[ns].PushBack(f): std::map keeps the keys ascending *)
Fixpoint sm_push (ns : N) (f : fid) (m : list (N * list fid)) : list (N * list fid) :=
  match m with
  | [] => [(ns, [f])]
  | (k, b) :: t =>
      match (ns ?= k)%N with
      | Lt => (ns, [f]) :: m
      | Eq => (k, b ++ [f]) :: t
      | Gt => (k, b) :: sm_push ns f t
      end
  end.
Fixpoint sm_find (ns : N) (m : list (N * list fid)) : option (list fid) :=
  match m with
  | [] => None
  | (k, b) :: t => if (k =? ns)%N then Some b else sm_find ns t
  end.
Fixpoint sm_erase (ns : N) (m : list (N * list fid)) : list (N * list fid) :=
  match m with
  | [] => []
  | (k, b) :: t => if (k =? ns)%N then t else (k, b) :: sm_erase ns t
  end.

(* Scheduler::WakeUpNeeded: every bucket with key <= _time is appended to the run queue (PushAll keeps the
   bucket's order) and erased; the scan stops at the first later key. *)
Fixpoint wake (t : N) (m : list (N * list fid)) : list fid * list (N * list fid) :=
  match m with
  | [] => ([], [])
  | (k, b) :: r => if (k <=? t)%N then let (w, r') := wake t r in (b ++ w, r') else ([], m)
  end.

Definition first_key (m : list (N * list fid)) : option N := match m with [] => None | kb :: _ => Some (fst kb) end.

Definition fiber0 (p : list action) : fiber :=
  {| prog := p; fs := FSuspended; alive := true; joiner := None; pend := PNone; lastcas := false; lastto := false |}.

(* the time a relative / absolute deadline is counted from *)
Definition tbase (ab : bool) (s : st) : N := if ab then epoch s else now s.

Section Machine.

Variable cf : cfg.
Variable draws : nat -> N.       (* raw outputs of the engine, in order *)
Variable alloc : nat -> fid.     (* id of the k-th created fiber *)

Definition wq (q : qid) (s : st) : list fid := wget q (waitq s).
Definition set_wq (q : qid) (v : list fid) (s : st) : st := set_waitq s (wset q v (waitq s)).
Definition updf (f : fid) (u : fiber -> fiber) (s : st) : st := set_fibers s (fupd f u (fibers s)).

(* util.cpp GetRandNumber(max): sRandCount++; eng() % max *)
Definition draw (max : N) (s : st) : N * st * list obs :=
  let v := (draws (rc s) mod max)%N in
  (v, set_rc s (S (rc s)), [ODraw (rc s) max v]).

(* PollRandomElementFromList + BiList::GetElement: the index (from the front) of the node that is taken out of a
   list of n > 0 nodes when GetRandNumber(2 * sRandomListPick) returned v.
     rand_pos >= pick: reversed, rand_pos -= pick.
     GetElement(ind, reversed): walks ind links from the front (from the back when reversed); if that stays inside
     the list the node reached is the answer (index ind, resp. n-1-ind); otherwise size = n and the answer is index
     reversed ? (size - ind % size) % size : ind % size   -- as written: for a reversed wrap-around the count restarts
     at the FRONT (ind = size gives index 0, not size-1). *)
Definition poll_index (n : nat) (v : N) : nat :=
  let rev := (pick cf <=? v)%N in
  let pos := N.to_nat (if rev then v - pick cf else v)%N in
  if pos <? n then (if rev then n - 1 - pos else pos)
  else if rev then (n - pos mod n) mod n else pos mod n.

(* Scheduler::Schedule(fiber) while the loop is running: SetState(Waiting); _queue.PushBack *)
Definition schedule (g : fid) (s : st) : st :=
  let s1 := updf g (fun r => with_fs r FWaiting) s in
  set_runq s1 (runq s1 ++ [g]).

(* the scheduler node of g is unlinked from whichever list holds it (run queue or a sleep bucket) *)
Definition erase_sched (g : fid) (s : st) : st :=
  set_sleepm (set_runq s (rm g (runq s))) (map (fun kb => (fst kb, rm g (snd kb))) (sleepm s)).

(* FiberQueue::ScheduleAndRemove *)
Definition sched_and_remove (g : fid) (s : st) : st :=
  match fget g (fibers s) with
  | Some r => if fstate_eqb (fs r) FWaiting then s else schedule g (erase_sched g s)
  | None => s
  end.

(* PollRandomElementFromList(l), l not empty: (the node taken if any, its index, the state after the draw, what the
   recorder sees) *)
Definition poll (l : list fid) (s : st) : option fid * nat * st * list obs :=
  let '(v, s1, o) := draw (2 * pick cf) s in
  let i := poll_index (length l) v in
  (nth_error l i, i, s1, OPick (length l) :: o).

(* FiberQueue::NotifyOne *)
Definition notify_one (q : qid) (s : st) : st * list obs :=
  let l := wq q s in
  if is_nil l then (s, [])
  else
    let '(og, i, s1, o) := poll l s in
    match og with
    | Some g => (sched_and_remove g (set_wq q (remove_nth i l) s1), o)
    | None => (set_crashed s1 true, o ++ [OCrash 1])
    end.

(* FiberQueue::NotifyAll: the whole list is taken, then PopBack until empty: last waiter first *)
Definition notify_all (q : qid) (s : st) : st :=
  fold_left (fun s' g => sched_and_remove g s') (rev (wq q s)) (set_wq q [] s).

(* FiberBase::Suspend + return into RunLoop *)
Definition suspend (f : fid) (s : st) : st :=
  set_cur (updf f (fun r => with_fs r FSuspended) s) None.

Definition crash (code : nat) (s : st) : st * list obs := (set_crashed s true, [OCrash code]).

(* Injector::MaybeInject (the injector is never paused): NeedInject: _count.fetch_add(1) >= sYieldFrequency ?
   Reset() [_count = GetRandNumber(freq)] and yield : nothing.  yield = RescheduleCurrent: PushBack, Suspend. *)
Definition inject (f : fid) (s : st) : st * list obs :=
  if (freq cf <=? inj s)%N then
    let '(v, s1, o) := draw (freq cf) s in
    let s2 := set_inj s1 v in
    (suspend f (set_runq s2 (runq s2 ++ [f])), OYieldReq :: o)
  else (set_inj s (inj s + 1)%N, [OYieldReq]).

(* The part of FiberQueue::Wait(time_point) after Sleep() returned:
     SleepPreemptive: if (it = _sleep_list.find(ns); it != end && it->second.Empty()) _sleep_list.erase(it)
     Wait:            res = queue_node->Erase(); return res ? Timeout : Ready *)
Definition timed_finish (f : fid) (q : qid) (ns : N) (s : st) : st * list obs :=
  let s1 := match sm_find ns (sleepm s) with
            | Some b => if is_nil b then set_sleepm s (sm_erase ns (sleepm s)) else s
            | None => s
            end in
  let l := wq q s1 in
  let tmo := mem f l in
  (updf f (fun r => with_lastto (with_pend r PNone) tmo) (if tmo then set_wq q (rm f l) s1 else s1), []).

(* One action of the running fiber f whose record is r (pend r = PNone), a = head of its program, rest = tail. *)
Definition do_action (f : fid) (r : fiber) (a : action) (rest : list action) (s : st) : st * list obs :=
  let pop := updf f (fun r' => with_prog r' rest) s in
  match a with
  | AInject => inject f pop
  | AWeak =>
      (* atomic.cpp: freq != 0 && GetRandNumber(freq) == 0 *)
      if (casf cf =? 0)%N then (updf f (fun r' => with_lastcas r' true) pop, [OWeakReq])
      else let '(v, s1, o) := draw (casf cf) pop in
           (updf f (fun r' => with_lastcas r' (negb (v =? 0)%N)) s1, OWeakReq :: o)
  | ALogCas => (pop, [OCas f (lastcas r)])
  | AYield => (suspend f (set_runq pop (runq pop ++ [f])), [])
  | AEpoch => (set_epoch pop (now s), [])
  | ASleep ab d =>
      (* Scheduler::Sleep(ns): if (ns <= _time) return; _sleep_list[ns].PushBack(current); Suspend() *)
      let ns := (tbase ab s + d)%N in
      if (ns <=? now s)%N then (pop, [])
      else (suspend f (updf f (fun r' => with_pend r' (PSleep ns)) (set_sleepm pop (sm_push ns f (sleepm pop)))), [])
  | APark q => (suspend f (set_wq q (wq q pop ++ [f]) pop), [])
  | ATimedPark q ab d =>
      (* _queue.PushBack(node); SleepPreemptive(now + d): ns += GetRandNumber(GetFaultSleepTime()); Sleep(ns); ... *)
      let s1 := set_wq q (wq q pop ++ [f]) pop in
      let '(v, s2, o) := draw (slpt cf) s1 in
      let ns := (tbase ab s + d + v)%N in
      let s3 := updf f (fun r' => with_pend r' (PTimed q ns)) s2 in
      if (ns <=? now s)%N then (s3, o)
      else (suspend f (set_sleepm s3 (sm_push ns f (sleepm s3))), o)
  | ALogTimed => (pop, [OTimed f (lastto r)])
  | ANotifyOne q => notify_one q pop
  | ANotifyAll q => (notify_all q pop, [])
  | ALock m =>
      (* while (_occupied) _queue.Wait(NoTimeoutTag{}); _occupied = true   -- the action stays at the head while parked *)
      if existsb (Nat.eqb m) (locked s) then (suspend f (set_wq (QM m) (wq (QM m) s ++ [f]) s), [])
      else (set_locked pop (m :: locked pop), [])
  | AUnlock m =>
      notify_one (QM m) (set_locked pop (filter (fun x => negb (Nat.eqb x m)) (locked pop)))
  | ASpawn sl body =>
      (* new Fiber (id = ++sNextId); Scheduler::Schedule(fiber) *)
      match sget sl (slots s) with
      | Some _ => crash 3 s                          (* assigning over a joinable handle: std::terminate *)
      | None =>
          let g := alloc (nsp s) in
          let s1 := set_nsp (set_slots (set_fibers pop (fibers pop ++ [(g, fiber0 body)])) ((sl, g) :: slots pop))
                            (S (nsp s)) in
          (schedule g s1, [])
      end
  | AJoin sl =>
      (* while (_impl->GetState() != Completed) { _impl->SetJoiningFiber(Current()); Suspend(); }  AfterJoinOrDetach *)
      match sget sl (slots s) with
      | None => crash 4 s                            (* throws no_such_process *)
      | Some g =>
          if Nat.eqb g f then crash 5 s              (* throws resource_deadlock_would_occur *)
          else match fget g (fibers s) with
               | None => crash 6 s
               | Some rg =>
                   if fstate_eqb (fs rg) FCompleted
                   then (set_slots (set_fibers pop (fdel g (fibers pop))) (sdel sl (slots pop)), [])
                   else (suspend f (updf g (fun r' => with_joiner r' (Some f)) s), [])
               end
      end
  | ADetach sl =>
      match sget sl (slots s) with
      | None => crash 4 s
      | Some g =>
          if Nat.eqb g f then crash 5 s
          else match fget g (fibers s) with
               | None => crash 6 s
               | Some rg =>
                   let s1 := set_slots pop (sdel sl (slots pop)) in
                   if fstate_eqb (fs rg) FCompleted then (set_fibers s1 (fdel g (fibers s1)), [])
                   else (updf g (fun r' => with_alive r' false) s1, [])
               end
      end
  | ACheck => (pop, [OCheck (rc s) (inj s)])
  | ALogVal v => (pop, [OVal f v])
  end.

(* FiberBase::Exit, then back in RunLoop: delete the fiber when no Thread handle refers to it any more *)
Definition do_exit (f : fid) (r : fiber) (s : st) : st :=
  let s1 := updf f (fun r' => with_fs r' FCompleted) s in
  let s2 := match joiner r with
            | Some j => if alive r then schedule j s1 else s1
            | None => s1
            end in
  set_cur (if alive r then s2 else set_fibers s2 (fdel f (fibers s2))) None.

Definition fiber_step (f : fid) (s : st) : st * list obs :=
  match fget f (fibers s) with
  | None => crash 7 s
  | Some r =>
      match pend r with
      | PTimed q ns => timed_finish f q ns s
      | _ =>
          match prog r with
          | [] => (do_exit f r s, [])
          | a :: rest => do_action f r a rest s
          end
      end
  end.

(* One iteration of Scheduler::RunLoop up to next->Resume():
     if (_queue.Empty()) AdvanceTime();  WakeUpNeeded();  next = GetNext();  sCurrent = next;  TickTime();  Resume *)

(* if (_queue.Empty()) AdvanceTime(): if (_sleep_list.begin()->first >= _time) _time = that key *)
Definition advance (s : st) : st :=
  if is_nil (runq s)
  then match first_key (sleepm s) with
       | Some k => if (now s <=? k)%N then set_now s k else s
       | None => s
       end
  else s.

(* WakeUpNeeded *)
Definition wakeup (s : st) : st :=
  let wm := wake (now s) (sleepm s) in
  set_sleepm (set_runq s (runq s ++ fst wm)) (snd wm).

(* GetNext; sCurrent = next; TickTime; resume hook; FiberBase::Resume: _state = Running (a plain sleep is over: ghost) *)
Definition resume_next (s : st) : option (st * list obs) :=
  let l := runq s in
  if is_nil l then Some (crash 8 s)                    (* GetNext on an empty queue: null dereference *)
  else
    let '(og, i, s3, o) := poll l s in
    match og with
    | None => Some (set_crashed s3 true, o ++ [OCrash 1])
    | Some f =>
        let t := (now s3 + tick cf)%N in
        let s4 := set_now (set_cur (set_runq s3 (remove_nth i l)) (Some f)) t in
        let s5 := updf f (fun r => with_pend (with_fs r FRunning)
                                     (match pend r with PSleep _ => PNone | p => p end)) s4 in
        Some (s5, o ++ [OResume f t])
    end.

Definition sched_step (s : st) : option (st * list obs) :=
  if is_nil (runq s) && is_nil (sleepm s) then None    (* the loop ends: control returns to whoever started it *)
  else resume_next (wakeup (advance s)).

Definition step (s : st) : option (st * list obs) :=
  if crashed s then None
  else match cur s with
       | Some f => Some (fiber_step f s)
       | None => sched_step s
       end.

Fixpoint run (fuel : nat) (s : st) : list obs :=
  match fuel with
  | 0 => []
  | S n => match step s with
           | None => []
           | Some (s', o) => o ++ run n s'
           end
  end.

Fixpoint steps (fuel : nat) (s : st) : st :=
  match fuel with
  | 0 => s
  | S n => match step s with
           | None => s
           | Some (s', _) => steps n s'
           end
  end.

End Machine.

(* The state right after `yaclib_std::thread driver(p)` was created from outside any fiber on a scheduler whose clock
   shows t0: Scheduler::Schedule pushed it and entered RunLoop. *)
Definition init (t0 : N) (d : fid) (p : list action) (rc0 : nat) (inj0 : N) (n0 : nat) : st :=
  {| now := t0; runq := [d]; sleepm := []; waitq := []; locked := [];
     fibers := [(d, with_fs (fiber0 p) FWaiting)]; slots := []; cur := None; rc := rc0; inj := inj0; nsp := n0;
     crashed := false; epoch := 0%N |}.

(* A quiescent point: the driver d is running, p is what it still has to do, nothing else exists. *)
Definition quiescent (t : N) (d : fid) (p : list action) (rc0 : nat) (inj0 : N) (n0 : nat) : st :=
  {| now := t; runq := []; sleepm := []; waitq := []; locked := [];
     fibers := [(d, with_fs (fiber0 p) FRunning)]; slots := []; cur := Some d; rc := rc0; inj := inj0; nsp := n0;
     crashed := false; epoch := 0%N |}.

(* ------------------------------------------------------------------ client-level operations (harness DSL)
   which calls into the fault layer one yaclib_std operation makes:
     YACLIB_INJECT_FAULT(stmt) = InjectFault(); stmt; InjectFault()                      (fault/inject.hpp)
     atomic op                                                                           (fault/detail/atomic.hpp)
     compare_exchange_weak = ShouldFailAtomicWeak() ? load (wrapped) : cas (wrapped)     (both: 2 injection points)
     mutex lock/unlock     = wrapped Impl::lock / Impl::unlock                           (fault/detail/mutex.hpp)
     cv wait               = wrapped { InjectFault(); unlock; _queue.Wait; lock; InjectFault() }
     cv notify             = wrapped Impl::notify_*                                      *)
Inductive cmd :=
| CAtomic | CCasW | CYield | CSleep (d : N)
| CEpoch | CSleepUntil (d : N) | CCvWaitUntil (c m : nat) (d : N) | CQWaitUntil (q : nat) (d : N)
| CLock (m : nat) | CUnlock (m : nat)
| CCvWait (c m : nat) | CCvWaitFor (c m : nat) (d : N) | CCvNotifyOne (c : nat) | CCvNotifyAll (c : nat)
| CQWait (q : nat) | CQWaitFor (q : nat) (d : N) | CQNotifyOne (q : nat) | CQNotifyAll (q : nat)
| CSpawn (slot : nat) (body : list cmd) | CJoin (slot : nat) | CDetach (slot : nat)
| CPhase | CLogVal (v : N).

Fixpoint expand1 (c : cmd) : list action :=
  match c with
  | CAtomic => [AInject; AInject]
  | CCasW => [AWeak; AInject; AInject; ALogCas]
  | CYield => [AYield]
  | CSleep d => [ASleep false d]
  | CEpoch => [AEpoch]
  | CSleepUntil d => [ASleep true d]
  | CCvWaitUntil c m d => [AInject; AInject; AUnlock m; ATimedPark (QC c) true d; ALock m; AInject; AInject; ALogTimed]
  | CQWaitUntil q d => [ATimedPark (QR q) true d; ALogTimed]
  | CLock m => [AInject; ALock m; AInject]
  | CUnlock m => [AInject; AUnlock m; AInject]
  | CCvWait c m => [AInject; AInject; AUnlock m; APark (QC c); ALock m; AInject; AInject]
  | CCvWaitFor c m d => [AInject; AInject; AUnlock m; ATimedPark (QC c) false d; ALock m; AInject; AInject; ALogTimed]
  | CCvNotifyOne c => [AInject; ANotifyOne (QC c); AInject]
  | CCvNotifyAll c => [AInject; ANotifyAll (QC c); AInject]
  | CQWait q => [APark (QR q)]
  | CQWaitFor q d => [ATimedPark (QR q) false d; ALogTimed]
  | CQNotifyOne q => [ANotifyOne (QR q)]
  | CQNotifyAll q => [ANotifyAll (QR q)]
  | CSpawn sl body =>
      [ASpawn sl ((fix ex (l : list cmd) : list action :=
                     match l with [] => [] | x :: r => expand1 x ++ ex r end) body)]
  | CJoin sl => [AJoin sl]
  | CDetach sl => [ADetach sl]
  | CPhase => [ACheck]
  | CLogVal v => [ALogVal v]
  end.
Definition expand (l : list cmd) : list action := flat_map expand1 l.
