(* Strand.v — yaclib::Strand (src/exe/strand.cpp, include/yaclib/exe/strand.hpp) as a transition system at the
   granularity of one atomic operation on the jobs word, for N submitting threads (N arbitrary: a parameter of
   [init]) and any number of anonymous activations of the strand running on any number of threads of the
   underlying executor.

   Source being modelled (strand.cpp, line numbers of the pinned tree):

     Strand::Submit(job)                                                        strand.cpp:24-33
        expected = _jobs.load(relaxed)                                   ELoad t v
        do job.next = (expected == Mark() ? nullptr : expected)
        while (!_jobs.compare_exchange_weak(expected, &job))            ECasFail t v  (spurious or real; reloads expected)
                                                                         EPush t n     (success)
        if (expected == Mark()) { IncRef(); _executor->Submit(strand); }  ESubmit t

     the underlying executor (IExecutor contract: every submitted job is finished by exactly one Call or Drop)
        starts the pending activation by Call / by Drop                 EStartCall / EStartDrop

     Strand::Call()                                                             strand.cpp:35-55
        node = _jobs.exchange(nullptr)                                   EXchgNull old
        reverse the list (thread-local)
        for each job in FIFO order: job->Call()                          ERunBegin j ... ERunEnd j
        if (_jobs.load(relaxed) == nullptr                               ELoadAfter v
            && _jobs.compare_exchange_strong(nullptr, Mark()))           ECasIdleOk / ECasIdleFail v
           DecRef()
        else _executor->Submit(strand)                                    EResubmit

     Strand::Drop()                                                             strand.cpp:57-65
        node = _jobs.exchange(Mark())                                    EXchgIdle old
        for each job from the head (newest first): job->Drop()           EDropJob j
        DecRef()                                                         EDropDone

   The jobs word is [Idle] (the marker: address of the strand), or [L l]: pointer to the head of the LIFO inbox [l]
   ([L []] is the null pointer: scheduled, inbox empty).  A pointer value read by a thread is a [ptr]: the marker,
   null, or the identity of the head job (jobs are identified by (submitter, sequence number); a job object is
   submitted once — the intrusive [next] field allows nothing else).

   [step] returns [None] where the real code would dereference the marker or null (Call/Drop on an empty or idle
   word) and where an event does not fit the code; the proofs show that no reachable state offers such an event to
   a running activation.  Everything under "ghost" is history, written and never read by [step].
   No proofs in this file. *)
From Coq Require Import List Arith Bool.
Import ListNotations.

Definition job := (nat * nat)%type.                  (* (submitter, sequence number in the submitter's program) *)
Definition job_eqb (a b : job) : bool := Nat.eqb (fst a) (fst b) && Nat.eqb (snd a) (snd b).

Inductive word := Idle | L (l : list job).
Inductive ptr := PIdle | PNull | PJob (j : job).

Definition head (w : word) : ptr :=
  match w with Idle => PIdle | L [] => PNull | L (j :: _) => PJob j end.
Definition inbox (w : word) : list job := match w with Idle => [] | L l => l end.

Definition ptr_eqb (a b : ptr) : bool :=
  match a, b with
  | PIdle, PIdle | PNull, PNull => true
  | PJob x, PJob y => job_eqb x y
  | _, _ => false
  end.

(* a submitting thread *)
Inductive spc :=
| SIdle                       (* outside Strand::Submit *)
| SLoop (e : ptr)             (* in the CAS loop; e = its local [expected] *)
| SMust.                      (* its CAS replaced the marker: it must submit the strand to the underlying executor *)
Record sub := { nseq : nat; pc : spc }.

(* an activation of the strand (the strand as a job of the underlying executor); anonymous, a multiset *)
Inductive act :=
| APending                          (* in the underlying executor's queue *)
| ARunStart                         (* Call entered, before exchange(nullptr) *)
| ARunBatch (todo : list job)       (* between jobs of its batch (FIFO) *)
| ARunning (j : job) (todo : list job)  (* inside job j's Call *)
| ARunCas                           (* batch done, load saw null, before the CAS null -> marker *)
| AResubmit                         (* load saw a job or the CAS failed: about to _executor->Submit(strand) *)
| ADropStart                        (* Drop entered, before exchange(marker) *)
| ADropBatch (todo : list job).     (* dropping its batch *)

Record st := {
  subs : list sub;
  jobs : word;
  acts : list act;
  (* ghost *)
  pushed : list job;          (* in the order of the successful pushing CASes *)
  called : list job;          (* in the order their Call began *)
  dropped : list job;         (* in the order they were Dropped *)
  droptaken : list job;       (* every job ever taken out of the word by a Drop activation's exchange *)
  active : list job;          (* jobs whose Call has begun and not ended *)
  refused : nat               (* how many activations the underlying executor started by Drop *)
}.

Inductive ev :=
| ELoad (t : nat) (v : ptr)
| ECasFail (t : nat) (v : ptr)
| EPush (t n : nat)
| ESubmit (t : nat)
| EStartCall | EStartDrop
| EXchgNull (old : ptr)
| ERunBegin (j : job) | ERunEnd (j : job)
| ELoadAfter (v : ptr)
| ECasIdleOk | ECasIdleFail (v : ptr)
| EResubmit
| EXchgIdle (old : ptr)
| EDropJob (j : job)
| EDropDone.

(* replace the first activation on which f is defined by the list f returns *)
Fixpoint upd_first (f : act -> option (list act)) (l : list act) : option (list act) :=
  match l with
  | [] => None
  | x :: r => match f x with
              | Some y => Some (y ++ r)
              | None => match upd_first f r with Some r' => Some (x :: r') | None => None end
              end
  end.

Fixpoint set_nth {A} (n : nat) (v : A) (l : list A) {struct l} : list A :=
  match l, n with
  | [], _ => []
  | _ :: r, 0 => v :: r
  | x :: r, S k => x :: set_nth k v r
  end.

Fixpoint remove_job (j : job) (l : list job) : list job :=
  match l with [] => [] | x :: r => if job_eqb x j then r else x :: remove_job j r end.

Definition set_sub (t : nat) (v : sub) (s : st) : st :=
  {| subs := set_nth t v (subs s); jobs := jobs s; acts := acts s; pushed := pushed s; called := called s;
     dropped := dropped s; droptaken := droptaken s; active := active s; refused := refused s |}.
Definition set_acts (a : list act) (s : st) : st :=
  {| subs := subs s; jobs := jobs s; acts := a; pushed := pushed s; called := called s;
     dropped := dropped s; droptaken := droptaken s; active := active s; refused := refused s |}.
Definition set_jobs (w : word) (s : st) : st :=
  {| subs := subs s; jobs := w; acts := acts s; pushed := pushed s; called := called s;
     dropped := dropped s; droptaken := droptaken s; active := active s; refused := refused s |}.

(* one activation moves from a to b *)
Definition is_pending (a : act) := match a with APending => true | _ => false end.
Definition move (p : act -> option (list act)) (s : st) : option st :=
  match upd_first p (acts s) with Some a => Some (set_acts a s) | None => None end.

Definition from_pending (b : act) (a : act) := match a with APending => Some [b] | _ => None end.
Definition from_runstart (b : act) (a : act) := match a with ARunStart => Some [b] | _ => None end.
Definition from_runcas (b : list act) (a : act) := match a with ARunCas => Some b | _ => None end.
Definition from_resubmit (b : act) (a : act) := match a with AResubmit => Some [b] | _ => None end.
Definition from_dropstart (b : act) (a : act) := match a with ADropStart => Some [b] | _ => None end.
Definition from_batch_done (b : act) (a : act) := match a with ARunBatch [] => Some [b] | _ => None end.
Definition begin_job (j : job) (a : act) :=
  match a with ARunBatch (x :: t) => if job_eqb x j then Some [ARunning j t] else None | _ => None end.
Definition end_job (j : job) (a : act) :=
  match a with ARunning x t => if job_eqb x j then Some [ARunBatch t] else None | _ => None end.
Definition drop_job (j : job) (a : act) :=
  match a with ADropBatch (x :: t) => if job_eqb x j then Some [ADropBatch t] else None | _ => None end.
Definition drop_done (a : act) : option (list act) := match a with ADropBatch [] => Some [] | _ => None end.

Definition step (s : st) (e : ev) : option st :=
  match e with
  (* ---- Strand::Submit, thread t ---- *)
  | ELoad t v =>
      match nth_error (subs s) t with
      | Some sb => match pc sb with
                   | SIdle => if ptr_eqb v (head (jobs s))
                              then Some (set_sub t {| nseq := nseq sb; pc := SLoop v |} s) else None
                   | _ => None end
      | None => None
      end
  | ECasFail t v =>
      (* compare_exchange_weak failed (the word differs from expected, or spuriously): expected := the word *)
      match nth_error (subs s) t with
      | Some sb => match pc sb with
                   | SLoop _ => if ptr_eqb v (head (jobs s))
                                then Some (set_sub t {| nseq := nseq sb; pc := SLoop v |} s) else None
                   | _ => None end
      | None => None
      end
  | EPush t n =>
      match nth_error (subs s) t with
      | Some sb =>
          match pc sb with
          | SLoop e =>
              if ptr_eqb e (head (jobs s)) && Nat.eqb n (nseq sb) then
                (* job.next = (expected == Mark() ? nullptr : expected): the new list is job :: inbox *)
                let s1 := {| subs := set_nth t {| nseq := S (nseq sb);
                                                  pc := match e with PIdle => SMust | _ => SIdle end |} (subs s);
                             jobs := L ((t, n) :: inbox (jobs s)); acts := acts s;
                             pushed := pushed s ++ [(t, n)]; called := called s; dropped := dropped s;
                             droptaken := droptaken s; active := active s; refused := refused s |} in
                Some s1
              else None
          | _ => None
          end
      | None => None
      end
  | ESubmit t =>
      match nth_error (subs s) t with
      | Some sb => match pc sb with
                   | SMust => Some (set_acts (APending :: acts s) (set_sub t {| nseq := nseq sb; pc := SIdle |} s))
                   | _ => None end
      | None => None
      end
  (* ---- the underlying executor ---- *)
  | EStartCall => move (from_pending ARunStart) s
  | EStartDrop =>
      match move (from_pending ADropStart) s with
      | Some s1 => Some {| subs := subs s1; jobs := jobs s1; acts := acts s1; pushed := pushed s1;
                           called := called s1; dropped := dropped s1; droptaken := droptaken s1;
                           active := active s1; refused := S (refused s1) |}
      | None => None
      end
  (* ---- Strand::Call ---- *)
  | EXchgNull old =>
      if ptr_eqb old (head (jobs s)) then
        match jobs s with
        | L (j :: l) => move (from_runstart (ARunBatch (rev (j :: l)))) (set_jobs (L []) s)
        | _ => None                                    (* node->next on the marker or on null *)
        end
      else None
  | ERunBegin j =>
      match move (begin_job j) s with
      | Some s1 => Some {| subs := subs s1; jobs := jobs s1; acts := acts s1; pushed := pushed s1;
                           called := called s1 ++ [j]; dropped := dropped s1; droptaken := droptaken s1;
                           active := active s1 ++ [j]; refused := refused s1 |}
      | None => None
      end
  | ERunEnd j =>
      match move (end_job j) s with
      | Some s1 => Some {| subs := subs s1; jobs := jobs s1; acts := acts s1; pushed := pushed s1;
                           called := called s1; dropped := dropped s1; droptaken := droptaken s1;
                           active := remove_job j (active s1); refused := refused s1 |}
      | None => None
      end
  | ELoadAfter v =>
      if ptr_eqb v (head (jobs s)) then
        move (from_batch_done (match v with PNull => ARunCas | _ => AResubmit end)) s
      else None
  | ECasIdleOk =>
      match jobs s with
      | L [] => move (from_runcas []) (set_jobs Idle s)
      | _ => None
      end
  | ECasIdleFail v =>
      if ptr_eqb v (head (jobs s)) then
        match jobs s with
        | L [] => None                                 (* a strong CAS does not fail spuriously *)
        | _ => move (from_runcas [AResubmit]) s
        end
      else None
  | EResubmit => move (from_resubmit APending) s
  (* ---- Strand::Drop ---- *)
  | EXchgIdle old =>
      if ptr_eqb old (head (jobs s)) then
        match jobs s with
        | L (j :: l) =>
            match move (from_dropstart (ADropBatch (j :: l))) (set_jobs Idle s) with
            | Some s1 => Some {| subs := subs s1; jobs := jobs s1; acts := acts s1; pushed := pushed s1;
                                 called := called s1; dropped := dropped s1;
                                 droptaken := droptaken s1 ++ (j :: l);
                                 active := active s1; refused := refused s1 |}
            | None => None
            end
        | _ => None                                    (* node->next on the marker or on null *)
        end
      else None
  | EDropJob j =>
      match move (drop_job j) s with
      | Some s1 => Some {| subs := subs s1; jobs := jobs s1; acts := acts s1; pushed := pushed s1;
                           called := called s1; dropped := dropped s1 ++ [j]; droptaken := droptaken s1;
                           active := active s1; refused := refused s1 |}
      | None => None
      end
  | EDropDone => move drop_done s
  end.

Definition init (n_submitters : nat) : st :=
  {| subs := repeat {| nseq := 0; pc := SIdle |} n_submitters; jobs := Idle; acts := [];
     pushed := []; called := []; dropped := []; droptaken := []; active := []; refused := 0 |}.

Fixpoint run (s : st) (tr : list ev) : option st :=
  match tr with
  | [] => Some s
  | e :: r => match step s e with Some s' => run s' r | None => None end
  end.

(* nobody is inside Strand::Submit and no activation exists: everything that was started has finished *)
Definition sub_idle (sb : sub) : bool := match pc sb with SIdle => true | _ => false end.
Definition quiescent (s : st) : bool :=
  forallb sub_idle (subs s) && match acts s with [] => true | _ => false end.

(* ---- what each party does next (used to state "never blocks") -------------------------------------- *)

(* the one event an activation that occupies a thread executes next; [APending] occupies no thread *)
Definition act_ev (s : st) (a : act) : option ev :=
  match a with
  | APending => None
  | ARunStart => Some (EXchgNull (head (jobs s)))
  | ARunBatch (j :: _) => Some (ERunBegin j)
  | ARunBatch [] => Some (ELoadAfter (head (jobs s)))
  | ARunning j _ => Some (ERunEnd j)                      (* the job's own code returns *)
  | ARunCas => Some (match jobs s with L [] => ECasIdleOk | w => ECasIdleFail (head w) end)
  | AResubmit => Some EResubmit
  | ADropStart => Some (EXchgIdle (head (jobs s)))
  | ADropBatch (j :: _) => Some (EDropJob j)
  | ADropBatch [] => Some EDropDone
  end.

(* the event thread t inside Strand::Submit executes next *)
Definition sub_ev (s : st) (t : nat) : option ev :=
  match nth_error (subs s) t with
  | Some sb => match pc sb with
               | SIdle => None
               | SLoop e => Some (if ptr_eqb e (head (jobs s)) then EPush t (nseq sb) else ECasFail t (head (jobs s)))
               | SMust => Some (ESubmit t)
               end
  | None => None
  end.

(* ---- the executor interface, as a transition system on job identities ------------------------------- *)
(* What IExecutor promises about the jobs given to Submit: a job is started by Call or finished by Drop only
   while it is pending (submitted, not yet started), so it is Called or Dropped at most once and never both. *)
Inductive xev := XSubmit (j : job) | XCall (j : job) | XDone (j : job) | XDrop (j : job).
Record xst := { xall : list job; xpend : list job; xrunning : list job; xcalled : list job; xdropped : list job }.
Definition xinit : xst := {| xall := []; xpend := []; xrunning := []; xcalled := []; xdropped := [] |}.
Definition memb (j : job) (l : list job) : bool := existsb (job_eqb j) l.
Definition xstep (x : xst) (e : xev) : option xst :=
  match e with
  | XSubmit j => if memb j (xall x) then None else
      Some {| xall := xall x ++ [j]; xpend := xpend x ++ [j]; xrunning := xrunning x; xcalled := xcalled x;
              xdropped := xdropped x |}
  | XCall j => if memb j (xpend x) then
      Some {| xall := xall x; xpend := remove_job j (xpend x); xrunning := xrunning x ++ [j];
              xcalled := xcalled x ++ [j]; xdropped := xdropped x |} else None
  | XDone j => if memb j (xrunning x) then
      Some {| xall := xall x; xpend := xpend x; xrunning := remove_job j (xrunning x); xcalled := xcalled x;
              xdropped := xdropped x |} else None
  | XDrop j => if memb j (xpend x) then
      Some {| xall := xall x; xpend := remove_job j (xpend x); xrunning := xrunning x; xcalled := xcalled x;
              xdropped := xdropped x ++ [j] |} else None
  end.
Fixpoint xrun (x : xst) (tr : list xev) : option xst :=
  match tr with [] => Some x | e :: r => match xstep x e with Some x' => xrun x' r | None => None end end.
Definition xcomplete (x : xst) : bool :=
  match xpend x, xrunning x with [], [] => true | _, _ => false end.

(* the strand seen from above, by the clients that Submit jobs to it *)
Definition upper (e : ev) : list xev :=
  match e with
  | EPush t n => [XSubmit (t, n)]
  | ERunBegin j => [XCall j]
  | ERunEnd j => [XDone j]
  | EDropJob j => [XDrop j]
  | _ => []
  end.

(* ---- vocabulary of the property statements (props/Properties_C07.v) ----------------------------------- *)
Definition sumf {A} (f : A -> nat) (l : list A) : nat := list_sum (map f l).
(* submitters whose CAS replaced the marker and that have not yet handed the strand to the underlying executor *)
Definition ismust (sb : sub) : nat := match pc sb with SMust => 1 | _ => 0 end.
Definition must (s : st) := sumf ismust (subs s).
Definition nseq_of (s : st) (t : nat) : nat :=
  match nth_error (subs s) t with Some sb => nseq sb | None => 0 end.
Definition notin (d : list job) (j : job) : bool := negb (memb j d).
(* activations that are inside Strand::Call *)
Definition incall (a : act) : nat :=
  match a with ARunStart | ARunBatch _ | ARunning _ _ | ARunCas | AResubmit => 1 | _ => 0 end.
(* activations for which the strand object is in the hands of the underlying executor (queued, about to be queued, or
   being run by it up to the point where Call/Drop gives the strand up) *)
Definition handed (a : act) : nat :=
  match a with APending | AResubmit | ARunStart | ARunBatch _ | ARunning _ _ | ARunCas | ADropStart => 1 | _ => 0 end.
(* a occurs before b in l *)
Definition before (l : list job) (a b : job) : Prop := exists l1 l2 l3, l = l1 ++ a :: l2 ++ b :: l3.
(* the strand's own steps (everything but the submitters' loads, failed CASes and pushes) and a potential that every one of
   them decreases *)
Definition own_step (e : ev) : nat := match e with ELoad _ _ | ECasFail _ _ | EPush _ _ => 0 | _ => 1 end.
Definition own_steps (tr : list ev) : nat := sumf own_step tr.
Definition phase (a : act) : nat :=
  match a with
  | APending => 6 | ARunStart => 5 | ARunBatch t => 9 + 3 * length t | ARunning _ t => 11 + 3 * length t
  | ARunCas => 8 | AResubmit => 7 | ADropStart => 5 | ADropBatch t => 1 + 2 * length t
  end.
Definition potential (s : st) : nat := 10 * length (inbox (jobs s)) + sumf phase (acts s) + 8 * must s.
