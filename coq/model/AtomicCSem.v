(* C19 — the statement vocabulary of tools/translate_fiber_atomic.py and its meaning.

   The generated file gen/Gen_fiber_atomic.v is built only from the functions below; this file is the
   (hand-written, small) semantics of the C++ fragment the fiber atomics are written in:

     typed scalar values  (cty * Z), integral promotion, usual arithmetic conversions, conversion on assignment,
     + - & | ^ on integers (signed overflow of the *plain* arithmetic is undefined behaviour: [None] when
     [strict], two's-complement wrap otherwise = what the compiled code does), pointer +- integer (element
     scaled), == , floating + and - as uninterpreted functions (only the *shape* of the floating operations is
     modelled), memory orders.

   No proofs here. *)
From Coq Require Import ZArith List Bool.
Import ListNotations.
Open Scope Z_scope.

(* ---------------------------------------------------------------- types and representable values *)

Inductive cty :=
| CInt (w : Z) (sg : bool)   (* integer of width w, signed? ; w in {8,16,32,64} *)
| CBool
| CPtr (sz rp : Z)           (* U*: pointer to an object type U of size sz; value = address (64 bit);
                                rp = sizeof(std::remove_pointer_t<U>): = sz unless U is itself a pointer V* (then sz = 8, rp = sizeof(V)) *)
| CFlt                       (* floating: value = an opaque code, arithmetic uninterpreted *)
| CFltW.                     (* a wider floating type used as an intermediate (std::common_type<T, long double>):
                                same opaque codes, but its arithmetic is a DIFFERENT uninterpreted function: widening,
                                operation in the wide format and rounding back need not equal the operation in T *)

(* two's-complement normalisation: the value of type (w, sg) congruent to x modulo 2^w *)
Definition norm (w : Z) (sg : bool) (x : Z) : Z :=
  let m := x mod 2 ^ w in
  if sg && (2 ^ (w - 1) <=? m) then m - 2 ^ w else m.

Definition in_int (w : Z) (sg : bool) (x : Z) : bool :=
  if sg then (- 2 ^ (w - 1) <=? x) && (x <? 2 ^ (w - 1)) else (0 <=? x) && (x <? 2 ^ w).

(* x is a value of type t *)
Definition ok (t : cty) (x : Z) : bool :=
  match t with
  | CInt w sg => in_int w sg x
  | CBool => (x =? 0) || (x =? 1)
  | CPtr _ _ => in_int 64 false x
  | CFlt | CFltW => true
  end.

Definition int_width (w : Z) : bool := (w =? 8) || (w =? 16) || (w =? 32) || (w =? 64).
Definition int_ty (t : cty) : bool := match t with CInt w _ => int_width w | _ => false end.
Definition ptr_ty (t : cty) : bool := match t with CPtr sz rp => (0 <? sz) && (0 <? rp) | _ => false end.

Definition is_integral (t : cty) : bool := match t with CInt _ _ | CBool => true | _ => false end.
Definition unsigned_of (t : cty) : cty := match t with CInt w _ => CInt w false | _ => t end.
(* std::common_type<T, long double>: a floating T is widened, anything else is not in the vocabulary *)
Definition widen_flt (t : cty) : cty := match t with CFlt => CFltW | _ => t end.
Definition ptrdiff_t : cty := CInt 64 true.
Definition uintptr_t : cty := CInt 64 false.
(* sizeof(U) and sizeof(std::remove_pointer_t<U>) for T = U* (0 for a T that is not a pointer: outside the vocabulary) *)
Definition sizeof_pointee (t : cty) : Z := match t with CPtr sz _ => sz | _ => 0 end.
Definition sizeof_rp_pointee (t : cty) : Z := match t with CPtr _ rp => rp | _ => 0 end.
(* e * sizeof(X): sizeof has type std::size_t (unsigned 64 bit), the product is computed there *)
Definition mul_sizeof (a : cty * Z) (n : Z) : cty * Z :=
  (CInt 64 false, (((snd a) mod 2 ^ 64) * n) mod 2 ^ 64).
Definition int_t : cty := CInt 32 true.

(* parameters of the semantics: the uninterpreted floating operations, and whether signed overflow of plain
   arithmetic is treated as undefined (strict C++) or as wrap-around (the compiled code) *)
Record sem := { fadd : Z -> Z -> Z; fsub : Z -> Z -> Z; feq : Z -> Z -> bool; strict : bool;
                faddw : Z -> Z -> Z; fsubw : Z -> Z -> Z   (* T -> wide, wide operation, -> T *) }.

Definition cv := (cty * Z)%type.

(* conversion to type t (assignment, static_cast, parameter passing, return) *)
Definition cast (t : cty) (v : cv) : cv :=
  match t with
  | CInt w sg => (t, norm w sg (snd v))
  | CBool => (t, if snd v =? 0 then 0 else 1)
  | CPtr _ _ => (t, snd v)
  | CFlt | CFltW => (t, snd v)
  end.

Definition promote (t : cty) : cty :=
  match t with
  | CInt w sg => if w <? 32 then int_t else t
  | CBool => int_t
  | _ => t
  end.

(* usual arithmetic conversions on two promoted integer types *)
Definition common (a b : cty) : cty :=
  match a, b with
  | CInt wa sa, CInt wb sb =>
      if Bool.eqb sa sb then CInt (Z.max wa wb) sa
      else
        let wu := if sa then wb else wa in
        let ws := if sa then wa else wb in
        if ws <=? wu then CInt wu false else CInt ws true
  | _, _ => a
  end.

Inductive bop := BAdd | BSub | BAnd | BOr | BXor.

Definition raw (op : bop) (x y : Z) : Z :=
  match op with
  | BAdd => x + y
  | BSub => x - y
  | BAnd => Z.land x y
  | BOr => Z.lor x y
  | BXor => Z.lxor x y
  end.

Definition is_arith (op : bop) : bool := match op with BAdd | BSub => true | _ => false end.

(* operation on two values already converted to the common type t *)
Definition int_bop (S : sem) (op : bop) (t : cty) (x y : Z) : option cv :=
  match t with
  | CInt w sg =>
      let r := raw op x y in
      if sg && is_arith op && strict S && negb (in_int w true r) then None   (* signed overflow: undefined *)
      else Some (t, norm w sg r)
  | _ => None
  end.

Definition binop (S : sem) (op : bop) (a b : cv) : option cv :=
  match fst a, fst b with
  | CPtr sz rp, (CInt _ _) =>
      match op with
      | BAdd => Some (CPtr sz rp, norm 64 false (snd a + sz * snd b))
      | BSub => Some (CPtr sz rp, norm 64 false (snd a - sz * snd b))
      | _ => None
      end
  | CFlt, CFlt =>
      match op with
      | BAdd => Some (CFlt, fadd S (snd a) (snd b))
      | BSub => Some (CFlt, fsub S (snd a) (snd b))
      | _ => None
      end
  | CFltW, (CFlt | CFltW) | CFlt, CFltW =>       (* usual arithmetic conversions: the wider floating type *)
      match op with
      | BAdd => Some (CFltW, faddw S (snd a) (snd b))
      | BSub => Some (CFltW, fsubw S (snd a) (snd b))
      | _ => None
      end
  | (CInt _ _ | CBool), (CInt _ _ | CBool) =>
      let t := common (promote (fst a)) (promote (fst b)) in
      int_bop S op t (snd (cast t a)) (snd (cast t b))
  | _, _ => None
  end.

(* a == b *)
Definition ceq (S : sem) (a b : cv) : option bool :=
  match fst a, fst b with
  | CPtr _ _, CPtr _ _ => Some (snd a =? snd b)
  | (CFlt | CFltW), (CFlt | CFltW) => Some (feq S (snd a) (snd b))
  | (CInt _ _ | CBool), (CInt _ _ | CBool) =>
      let t := common (promote (fst a)) (promote (fst b)) in
      Some (snd (cast t a) =? snd (cast t b))
  | _, _ => None
  end.

(* comparison of the object representations (std::memcmp(&a, &b, sizeof(T)) == 0) of two values of one type *)
Definition beq (a b : cv) : option bool := Some (snd a =? snd b).

Definition obind {A B} (o : option A) (k : A -> option B) : option B :=
  match o with Some a => k a | None => None end.

Definition ctrue : cv := (CBool, 1).
Definition cfalse : cv := (CBool, 0).
Definition cvoid : cv := (CBool, 0).
Definition clit (n : Z) : cv := (int_t, n).
Definition truth (v : cv) : bool := negb (snd v =? 0).

(* ---------------------------------------------------------------- operations of an atomic object *)

Inductive opn :=
| Assign | Store | Load | Conv | Xchg | Cew2 | Cew1 | Ces2 | Ces1
| FAdd | FSub | AddA | SubA
| FAnd | FOr | FXor | PreInc | PostInc | PreDec | PostDec | AndA | OrA | XorA
| Clear | TAS | Test.

(* Every operation, uniformly:  semantics -> T -> spurious-failure choice -> stored value -> first argument ->
   second argument -> (new stored value, returned value, first argument afterwards (the [expected] reference of
   compare_exchange; unchanged otherwise)).  [None]: undefined behaviour / outside the vocabulary. *)
Definition opfun := sem -> cty -> bool -> Z -> Z -> Z -> option (Z * Z * Z).

(* an implementation = its overload set: operation, volatile-qualified? *)
Definition impl := opn -> bool -> option opfun.

Definition icall (I : impl) (o : opn) (vol : bool) (S : sem) (T : cty) (spur : bool) (v a1 a2 : Z)
  : option (Z * Z * Z) :=
  match I o vol with Some f => f S T spur v a1 a2 | None => None end.

Definition r_st (r : Z * Z * Z) : Z := fst (fst r).
Definition r_ret (r : Z * Z * Z) : Z := snd (fst r).
Definition r_a1 (r : Z * Z * Z) : Z := snd r.

(* ---------------------------------------------------------------- memory orders *)

Inductive mo := Rlx | Csm | Acq | Rel | AcqRel | SeqCst.

Definition mo_eqb (a b : mo) : bool :=
  match a, b with
  | Rlx, Rlx | Csm, Csm | Acq, Acq | Rel, Rel | AcqRel, AcqRel | SeqCst, SeqCst => true
  | _, _ => false
  end.

(* preconditions of std::atomic on the order arguments *)
Definition load_order_ok (m : mo) : bool := match m with Rel | AcqRel => false | _ => true end.
Definition store_order_ok (m : mo) : bool := match m with Csm | Acq | AcqRel => false | _ => true end.

Definition call_orders_ok (c : opn * list mo) : bool :=
  match c with
  | ((Load | Test), [m]) => load_order_ok m
  | ((Store | Clear), [m]) => store_order_ok m
  | ((Cew2 | Ces2), [s; f]) => load_order_ok f
  | ((Cew1 | Ces1), [m]) => true
  | ((Xchg | FAdd | FSub | FAnd | FOr | FXor | TAS), [m]) => true
  | ((Assign | Conv | AddA | SubA | PreInc | PostInc | PreDec | PostDec | AndA | OrA | XorA), []) => true
  | _ => false
  end.
