(* RAOwn.v — ownership transfer of non-atomic data through ONE atomic word under release/acquire semantics
   (lib/RA.v), for any number of threads and cells.

   This is the shape of every hand-off word of the library other than the callback word and the counter:
     Strand::_jobs      push = CAS publishing the job (and, when it replaces the idle marker, acquiring "what the
                        previous batch wrote"); Call/Drop = exchange acquiring the whole inbox; CAS null->idle
                        publishes what the batch wrote
     OneShotEvent::_head TryAdd = CAS publishing the waiter job; Set = exchange acquiring all of them
     coro Mutex::_sender lock = CAS acquiring the protected data; waiter push = CAS publishing the waiter;
                        unlock = CAS publishing the protected data; GetHead = exchange acquiring the waiters
     Spinlock::_state   lock = exchange acquiring; unlock = store publishing
     When flags (_done/_state) exchange/CAS/fetch_sub acquiring+publishing the shared combinator state

   A cell is owned by a thread, or parked "in the word" at the index of the message that published it.
   Only the owner accesses a cell.  The discipline (who publishes/acquires which cell with which operation) is
   the sequentially consistent protocol logic proved in the other models; here the events carry it, and the
   theorem is: if every publishing operation is at least release and every acquiring one at least acquire,
   no access races — on every execution of the machine. *)
From Coq Require Import List Arith Bool.
Import ListNotations.
From YV Require Import lib.RA.

Inductive own := Thread (u : nat) | InWord (k : nat).

Record st := {
  hist : list msg;
  ts : nat -> nat;           (* timestamp of the last access of each cell (cells are locations >= 1) *)
  owner : nat -> own;
  thr_of : nat -> thr;
  last_store : nat;          (* index of the last message written by a plain store (0: the initial value) *)
  race : bool;
  bad : bool                 (* the trace broke the ownership discipline (not a property of the orders) *)
}.

(* every cell c initially belongs to thread (creator c) *)
Definition init (creator : nat -> nat) : st :=
  {| hist := [ {| mval := 0; mview := vbot |} ]; ts := fun _ => 0; owner := fun c => Thread (creator c);
     thr_of := fun _ => thr0; last_store := 0; race := false; bad := false |}.

Inductive ev :=
| ENa (u c : nat)                                     (* u accesses cell c (c >= 1) *)
| ERmw (u : nat) (o : mo) (pubs acqs : list nat)      (* RMW by u: publishes pubs, acquires acqs *)
| ELoad (u : nat) (o : mo) (i : nat) (acqs : list nat)(* load by u of message i: acquires acqs *)
| EStore (u : nat) (o : mo) (pubs : list nat).        (* plain store by u: publishes pubs *)

Definition own_is_thread (s : st) (u c : nat) : bool :=
  match owner s c with Thread v => Nat.eqb u v | InWord _ => false end.
(* c was published at k <= i and every message after k was written by an RMW (they continue the release
   sequence; a plain store does not, so what was parked before a store can no longer be acquired) *)
Definition own_in_word_le (s : st) (i c : nat) : bool :=
  match owner s c with Thread _ => false | InWord k => Nat.leb k i && Nat.leb (last_store s) k end.

Definition set_owner (f : nat -> own) (l : list nat) (x : own) : nat -> own :=
  fun c => if existsb (Nat.eqb c) l then x else f c.
Definition set_thr (f : nat -> thr) (u : nat) (t : thr) : nat -> thr :=
  fun v => if Nat.eqb v u then t else f v.

Definition step (s : st) (e : ev) : option st :=
  match e with
  | ENa u c =>
      if Nat.eqb c 0 then None else
      let '(r, n, t) := na_access (thr_of s u) c (ts s c) in
      Some {| hist := hist s; ts := (fun x => if Nat.eqb x c then n else ts s x); owner := owner s;
              thr_of := set_thr (thr_of s) u t; last_store := last_store s; race := race s || r;
              bad := bad s || negb (own_is_thread s u c) |}
  | ERmw u o pubs acqs =>
      let n := length (hist s) in
      let m := last_msg (hist s) in
      let '(t, nm) := rmw_write (thr_of s u) o n m 0 in
      Some {| hist := hist s ++ [nm]; ts := ts s;
              owner := set_owner (set_owner (owner s) acqs (Thread u)) pubs (InWord n);
              thr_of := set_thr (thr_of s) u t; last_store := last_store s; race := race s;
              bad := bad s || negb (forallb (own_is_thread s u) pubs)
                           || negb (forallb (own_in_word_le s (n - 1)) acqs)
                           || existsb (fun c => existsb (Nat.eqb c) acqs) pubs |}
  | ELoad u o i acqs =>
      match nth_error (hist s) i with
      | Some m =>
          if Nat.leb (cur (thr_of s u) 0) i then
            Some {| hist := hist s; ts := ts s; owner := set_owner (owner s) acqs (Thread u);
                    thr_of := set_thr (thr_of s) u (a_read (thr_of s u) o i m); last_store := last_store s; race := race s;
                    bad := bad s || negb (forallb (own_in_word_le s i) acqs) |}
          else None
      | None => None
      end
  | EStore u o pubs =>
      let n := length (hist s) in
      let '(t, nm) := store_write (thr_of s u) o n 0 in
      Some {| hist := hist s ++ [nm]; ts := ts s; owner := set_owner (owner s) pubs (InWord n);
              thr_of := set_thr (thr_of s) u t; last_store := n; race := race s;
              bad := bad s || negb (forallb (own_is_thread s u) pubs) |}
  end.

Fixpoint run (s : st) (tr : list ev) : option st :=
  match tr with [] => Some s | e :: r => match step s e with Some s' => run s' r | None => None end end.

(* the side condition on memory orders *)
Definition ev_ok (e : ev) : bool :=
  match e with
  | ENa _ _ => true
  | ERmw _ o pubs acqs => (match pubs with [] => true | _ => is_rel o end) && (match acqs with [] => true | _ => is_acq o end)
  | ELoad _ o _ acqs => (match acqs with [] => true | _ => is_acq o end)
  | EStore _ o pubs => (match pubs with [] => true | _ => is_rel o end)
  end.

