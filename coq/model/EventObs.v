(* Encoding of the outcome of replaying an implementation trace through Event.run, as a list of numbers that the
   checker reads back.  [0; i]: rejected at event i.  Otherwise
   [1; broken; crash; uaf; cnt; fired; pend; |todo|; incall?; head all-done?; follows_rule;
    nw; (pc, relc, frees, refs, called)*; nf; (frel, holds, word, ap, pp)*;
    nrels; (w, cnt, fired)*; ngots; (j, value+1 | 0)*; nreadys; (j, answer, completed)* ] *)
From Coq Require Import List Arith Bool.
Import ListNotations.
From YV Require Import model.Event.

Fixpoint run_at (s : st) (tr : list ev) (i : nat) : nat + st :=
  match tr with
  | [] => inr s
  | e :: r => match step s e with Some s' => run_at s' r (S i) | None => inl i end
  end.

Definition enc (o : option nat) : nat := match o with Some n => S n | None => 0 end.
Definition pc_code (p : wpc) : nat :=
  match p with
  | W0 => 0 | WTry => 1 | WCas _ => 2 | WPass => 3 | WParked => 4 | WWoke _ => 5 | WDecd _ => 6
  | WQueued => 7 | WDone => 8 | WTmo => 9
  end.
Definition fw_code (w : fword) : nat := match w with WE => 0 | WC => 1 | WR => 2 end.
Definition ap_code (a : apc) : nat :=
  match a with A0 => 0 | A1 => 1 | A2 => 2 | AOk => 3 | AFail => 4 | AFailRel => 5 | ADone => 6 end.
Definition pp_code (p : ppc) : nat :=
  match p with P0 => 0 | PStored => 1 | PCb => 2 | PCbRel => 3 | PDone => 4 end.

Definition obs_nat (n : nat) (tr : list ev) : list nat :=
  match run_at (init n) tr 0 with
  | inl i => [0; i]
  | inr s =>
      [1; b2n (broken s); b2n (crash s); b2n (uaf s); cnt s; b2n (fired s); pend s; length (todo s);
       (match incall s with Some _ => 1 | None => 0 end); b2n (is_all (head s)); b2n (follows_rule n tr)] ++
      [length (ws s)] ++
      flat_map (fun r => [pc_code (pc r); relc r; frees r; refs r; b2n (called r)]) (ws s) ++
      [length (fs s)] ++
      flat_map (fun r => [frel r; b2n (holds r); fw_code (fw r); ap_code (ap r); pp_code (pp r)]) (fs s) ++
      [length (rels s)] ++
      flat_map (fun x => match x with (w, c, f) => [w; c; b2n f] end) (rels s) ++
      [length (gots s)] ++
      flat_map (fun x => [fst x; enc (snd x)]) (gots s) ++
      [length (readys s)] ++
      flat_map (fun x => match x with (j, a, c) => [j; b2n a; b2n c] end) (readys s)
  end.
