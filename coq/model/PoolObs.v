(* Encoding of the outcome of replaying an implementation trace through Pool.run, as a list of numbers that the
   checker (checks/c08.py) reads back.
     [0; i]                                   the model rejects event number i
     [1; all_exited; quiescent; bad;
      |calls|; calls...; |hdrops|; hdrops...; |rdrops|; rdrops...; |accepted|; accepted...; |takes|; takes...;
      |stop_sets|; (count, busy)...;
      N; then for each of the N events, the state after it:  jc; |queue|; queue...; number of waiting workers] *)
From Coq Require Import List Arith Bool.
Import ListNotations.
From YV Require Import model.Pool.

Definition snap (s : st) : list nat :=
  [jc s; length (queue s)] ++ queue s ++ [cntp is_waiting (workers s)].

Fixpoint run_at (s : st) (tr : list ev) (i : nat) (acc : list nat) : nat + (st * list nat) :=
  match tr with
  | [] => inr (s, acc)
  | e :: r => match step s e with Some s' => run_at s' r (S i) (acc ++ snap s') | None => inl i end
  end.

Definition encb (b : bool) : nat := if b then 1 else 0.
Definition lenc (l : list nat) : list nat := length l :: l.

Definition obs_nat (n : nat) (k : skind) (tr : list ev) : list nat :=
  match run_at (init n k) tr 0 [] with
  | inl i => [0; i]
  | inr (s, acc) =>
      [1; encb (cntp is_exited (workers s) =? length (workers s)); encb (quiescentb s); encb (bad s)] ++
      lenc (calls s) ++ lenc (hdrops s) ++ lenc (rdrops s) ++ lenc (accepted s) ++ lenc (takes s) ++
      [length (stop_sets s)] ++ flat_map (fun p => [fst p; snd p]) (stop_sets s) ++
      [length tr] ++ acc
  end.
