(* Encoding of the outcome of replaying an implementation trace through CoSharedMutex.run, as a list of numbers that
   the checker reads back.  [0; i] : the model rejects event i.  Otherwise
     [1; quiescent; every coroutine is PDone; sw; sr; rpass; rsize; |rq|; |wq|; spin; rwait = 0; wprio;
      |entered|; (c, exclusive)...; |tries|; (c, exclusive, answer)...; |grants|; sum of req; sum of got;
      number of completed spinlock sections; (rpass, rsize, wprio) after each of them ...]
   The last part is compared with the values of `_readers_pass`, `_readers_size`, `_writers_prio` that the harness reads
   from the real mutex at every release of the spinlock: the plain fields of the two sides agree section by section. *)
From Coq Require Import List Arith Bool ZArith.
Import ListNotations.
From YV Require Import model.CoSharedMutex.

(* the event completes a spinlock section: a whole section, or the second half of a split one *)
Definition ends_section (e : ev) (s' : st) : bool :=
  match e with
  | ERSSlow _ _ | EWAdd _ _ | EUWStore _ _ => true
  | EWSlow _ _ _ | EUWSlow _ _ _ => negb (spin s')
  | _ => false
  end.

Fixpoint run_at (s : st) (tr : list ev) (i : nat) (snaps : list nat) : nat + (st * list nat) :=
  match tr with
  | [] => inr (s, snaps)
  | e :: r =>
      match step s e with
      | Some s' =>
          run_at s' r (S i) (if ends_section e s' then snaps ++ [rpass s'; rsize s'; wprio s'] else snaps)
      | None => inl i
      end
  end.

Definition encb (b : bool) : nat := if b then 1 else 0.
Definition encp (l : list (nat * bool)) : list nat := flat_map (fun p => [fst p; encb (snd p)]) l.
Definition enct (l : list (nat * bool * bool)) : list nat :=
  flat_map (fun p => [fst (fst p); encb (snd (fst p)); encb (snd p)]) l.

Definition obs_nat (fifo_ rfifo_ : bool) (n : nat) (tr : list ev) : list nat :=
  match run_at (init fifo_ rfifo_ n) tr 0 [] with
  | inl i => [0; i]
  | inr (s, snaps) =>
      [1; encb (quiescent s); encb (forallb is_done (cos s)); sw s; sr s; rpass s; rsize s; length (rq s);
       length (wq s); encb (spin s); encb (Z.eqb (rwait s) 0); wprio s] ++
      [length (entered s)] ++ encp (entered s) ++ [length (tries s)] ++ enct (tries s) ++
      [length (grants s); list_sum (map req (cos s)); list_sum (map got (cos s))] ++
      [length snaps / 3] ++ snaps
  end.
