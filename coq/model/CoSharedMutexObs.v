(* Encoding of the outcome of replaying an implementation trace through CoSharedMutex.run, as a list of numbers that
   the checker reads back.  [0; i] : the model rejects event i.  Otherwise
     [1; quiescent; every coroutine is PDone; sw; sr; rpass; rsize; |rq|; |wq|; spin; rwait = 0; wprio;
      |entered|; (c, exclusive)...; |tries|; (c, exclusive, answer)...; |grants|; sum of req; sum of got] *)
From Coq Require Import List Arith Bool ZArith.
Import ListNotations.
From YV Require Import model.CoSharedMutex.

Fixpoint run_at (s : st) (tr : list ev) (i : nat) : nat + st :=
  match tr with
  | [] => inr s
  | e :: r => match step s e with Some s' => run_at s' r (S i) | None => inl i end
  end.

Definition encb (b : bool) : nat := if b then 1 else 0.
Definition encp (l : list (nat * bool)) : list nat := flat_map (fun p => [fst p; encb (snd p)]) l.
Definition enct (l : list (nat * bool * bool)) : list nat :=
  flat_map (fun p => [fst (fst p); encb (snd (fst p)); encb (snd p)]) l.

Definition obs_nat (fifo_ rfifo_ : bool) (n : nat) (tr : list ev) : list nat :=
  match run_at (init fifo_ rfifo_ n) tr 0 with
  | inl i => [0; i]
  | inr s =>
      [1; encb (quiescent s); encb (forallb is_done (cos s)); sw s; sr s; rpass s; rsize s; length (rq s);
       length (wq s); encb (spin s); encb (Z.eqb (rwait s) 0); wprio s] ++
      [length (entered s)] ++ encp (entered s) ++ [length (tries s)] ++ enct (tries s) ++
      [length (grants s); list_sum (map req (cos s)); list_sum (map got (cos s))]
  end.
