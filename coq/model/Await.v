(* Await.v — coroutines of YACLib (return type Future / Task / SharedFuture) and everything they can co_await, as a
   transition system at the granularity of one atomic operation, for ANY number of coroutines, awaited objects,
   executors and threads.

   Source being modelled
     include/yaclib/coro/detail/promise_type.hpp   PromiseType: initial_suspend (Task: lazy), final_suspend = Destroy::await_suspend =
                                                    SetResult of the coroutine's own core, unhandled_exception / return_value = Store,
                                                    Call = resume, Drop = Store(StopTag) ; SetResult, Here/Next = Impl ; resume with
                                                    Impl: `_executor = std::move(caller._executor)`  (IntrusivePtr move-assign = Swap),
                                                    PromiseTypeDeleter: the frame is destroyed when the last reference goes
     include/yaclib/coro/detail/await_awaiter.hpp  AwaitSingleAwaiter<false|true> (co_await future / shared future): await_ready =
                                                    !core->Empty(); await_suspend = SetCallback(promise); await_resume = Get().Ok()
                                                    TransferSingleAwaiter / TransferAwaiter (co_await task / Await(task)): StoreCallback;
                                                    the head of the lazy chain is submitted to its executor
                                                    AwaitAwaiter<Handle,false> (Await(f)), AwaitAwaiter<Handle,true> (AwaitSticky(f):
                                                    the awaiter is the callback, Call = promise._executor->Submit(promise))
                                                    AwaitEvent<Sticky> + MultiAwaitAwaiter (Await(fs...)/AwaitSticky(fs...)): counter
                                                    n+1; ctor: SetCallback on every future, fetch_sub(n - registered); await_ready =
                                                    Get(acquire)==1; await_suspend = !SubEqual(1); every completion SubEqual(1), the
                                                    last one resumes inline (Sticky: submits to the coroutine's executor)
     include/yaclib/coro/detail/await_on_awaiter.hpp AwaitOnAwaiter (counter 1: completion SubEqual(1) then e.Submit; failed SetCallback:
                                                    e.Submit at once), MultiAwaitOnAwaiter (counter n+1; suspender's SubEqual; last submits)
     include/yaclib/coro/detail/on_awaiter.hpp     On(e): promise._executor = e; e.Submit(promise)
     include/yaclib/coro/yield.hpp, current_executor.hpp   Yield: _executor->Submit(promise); CurrentExecutor: await_suspend = false
     include/yaclib/algo/detail/shared_event.hpp   SetCallbacksStatic/Dynamic (registration loop; shared futures get a helper callback each)
     include/yaclib/algo/detail/base_core.hpp, src/algo/base_core.cpp
                                                    Empty() (the readiness rule: gen/Gen_ready_c13.v), SetCallbackImpl<false>: load==Empty &&
                                                    CAS_strong; SetCallbackImpl<true>: load; loop CAS_weak; SetResultImpl: exchange(kResult),
                                                    unique: the one callback; shared: every callback of the list, most recent first

   Threads are explicit: every event names the thread (fiber) that performs it, each coroutine remembers the thread it
   currently runs on, each thread has a stack of the objects whose callback lists it is in the middle of firing (firing
   is nested: a callback resumed inline runs to its next suspension inside the completer's SetResult).  This is what
   makes "resumed on the completer's thread" a statement about the model and what lets the events be the raw trace
   tokens of the implementation (thread, operation, location, value) — the model, not the checker, decides whose step
   an operation is.

   Executors other than Inline (id 0) are queues of submitted coroutines: Submit enqueues, then the executor either
   Calls the job (on whatever thread) or Drops it (a stopped executor drops at once, inside Submit).  That every
   submitted job gets exactly one of the two is the executors' contract (C05, C07, C08), here it is the shape of the
   events.

   No proofs in this file. *)
From Coq Require Import List Arith Bool.
Import ListNotations.
From YV Require Import gen.Gen_ready_c13.

(* ---- vocabulary ---------------------------------------------------------------------------------- *)

Inductive res := RVal (n : nat) | RErr (n : nat) | RStop.        (* value / exception or error n / StopError *)
Inductive word := WStack (l : list nat) | WRes.                  (* registered coroutines, most recent first / kResult *)
Inductive wobs := OE | OL | OR.                                  (* what a load shows: kEmpty / a callback / kResult *)
Inductive form := FInl | FSticky | FOn (e : nat).

(* one co_await of a coroutine *)
Inductive apt :=
| PCo (o : nat) (catch : bool)        (* co_await std::move(future) / co_await shared_future; catch: the body catches what it throws *)
| PTask (o : nat) (catch : bool)      (* co_await std::move(task) *)
| PTaskL (o : nat)                    (* co_await Await(task) *)
| PAwait1 (f : form) (o : nat)        (* co_await Await(f) / AwaitSticky(f) / AwaitOn(e, f) *)
| PAwaitN (f : form) (os : list nat)  (* the same of several futures *)
| POn (e : nat)                       (* co_await On(e) *)
| PYield                              (* co_await kYield / Yield() *)
| PCurrent.                           (* co_await CurrentExecutor() *)

Inductive how := BySelf | ByFire (o : nat) | ByExec (x : nat).

Inductive ast :=
| AIdle                               (* a Task coroutine that has not been started / a coroutine function not yet called *)
| ARun                                (* in the body, between co_awaits *)
| AReadyL                             (* await_ready: the load of the word (single forms) / of the counter (several) *)
| AReg (i w : nat)                    (* SetCallback on the i-th awaited object is next (its first load); w succeeded so far *)
| ARegU (i w : nat)                   (* unique: the pre-check saw kEmpty, compare_exchange_strong is next *)
| ARegS (i w : nat) (next : list nat) (* shared: compare_exchange_weak(next -> callback) is next *)
| ACtor (w : nat)                     (* several: the constructor's fetch_sub(n - w) is next *)
| ASusp                               (* several: await_suspend's SubEqual(1) is next *)
| ATaskSt                             (* task: StoreCallback is next *)
| AWait                               (* suspended *)
| ASubmit (x : nat)                   (* x.Submit(coroutine) has been entered *)
| AQueued (x : nat)                   (* in x's queue *)
| AResume (h : how)                   (* running again, the statement after the co_await is next *)
| AFinal                              (* the coroutine's Result is stored; final_suspend's / Drop's exchange is next *)
| ADone.

(* how the body ended *)
Inductive cend_t := Running | Returned (r : res) | Threw (e : res) | Dropped.

Record obj := {
  oshared : bool;                     (* SharedCore / UniqueCore *)
  olazy : bool;                       (* a Task: nothing happens before it is started *)
  ostarted : bool;
  ow : word;                          (* BaseCore::_callback *)
  opend : list nat;                   (* after the exchange: the callbacks still to be fired, in firing order *)
  oslot : option res;                 (* ResultCore::_result; None: not constructed *)
  oexec : nat;                        (* BaseCore::_executor *)
  othr : option nat;                  (* the thread that did the exchange *)
  oprod : option nat                  (* Some c: this is the core inside coroutine c's promise *)
}.

(* what is written down at every resumption *)
Record rrec := {
  rk : nat;                           (* which co_await *)
  rhow : how;
  rthr : nat;                         (* the thread it continued on *)
  rok : bool;                         (* every awaited object was complete (word kResult, Result constructed) at that moment *)
  rval : option (option res);         (* consuming forms: what await_resume read (Some None: garbage) *)
  rexec : nat;                        (* promise._executor afterwards (what CurrentExecutor() answers) *)
  rown : nat;                         (* promise._executor when the co_await began *)
  rlive : bool                        (* the body had not ended (returned, thrown, been dropped) *)
}.

Record coro := {
  prog : list apt;
  own : nat;                          (* the object that is its own core *)
  pc : nat;
  cst : ast;
  on : nat;                           (* the thread it runs / last ran on *)
  cexec : nat;                        (* promise._executor *)
  cown0 : nat;                        (* promise._executor when the current co_await began *)
  cnt : nat;                          (* the counter of the current awaiter (AwaitEvent / AwaitOnEvent) *)
  llive : bool;                       (* the body's local object is alive *)
  ldtors : nat;
  fowner : bool;                      (* somebody still owns the coroutine's core (the returned Future) *)
  ffrees : nat;                       (* destructions of the frame *)
  cend : cend_t;                      (* co_return r / an exception escaped / an executor dropped it *)
  resumes : list rrec;
  readys : list (bool * bool)         (* every await_ready of a single form: (answer, the result was published) *)
}.

Record st := {
  objs : list obj;
  cos : list coro;
  qs : list (list nat);               (* executor queues (index 0, Inline, stays empty) *)
  stk : list (nat * nat)              (* (thread, object): callback lists being fired, innermost first *)
}.

(* ---- configurations ------------------------------------------------------------------------------- *)

Record ospec := { s_shared : bool; s_lazy : bool; s_exec : nat; s_prod : option nat }.
Record cspec := { s_prog : list apt; s_own : nat }.

Definition mk_obj (x : ospec) : obj :=
  {| oshared := s_shared x; olazy := s_lazy x; ostarted := false; ow := WStack []; opend := []; oslot := None;
     oexec := s_exec x; othr := None; oprod := s_prod x |}.
Definition mk_coro (x : cspec) : coro :=
  {| prog := s_prog x; own := s_own x; pc := 0; cst := AIdle; on := 0; cexec := 0; cown0 := 0; cnt := 0;
     llive := true; ldtors := 0; fowner := true; ffrees := 0; cend := Running; resumes := []; readys := [] |}.
Definition init (os : list ospec) (cs : list cspec) (nx : nat) : st :=
  {| objs := map mk_obj os; cos := map mk_coro cs; qs := repeat [] nx; stk := [] |}.

(* ---- events: the trace tokens of the implementation ----------------------------------------------- *)

Inductive ev :=
(* atomic operations (thread, location, value) *)
| ELd (t o : nat) (v : wobs)          (* load of object o's word *)
| ECas (t o : nat) (ok : bool)        (* compare_exchange_{strong,weak}(... -> callback) on o's word *)
| ESt (t o : nat)                     (* store(callback) into o's word (StoreCallback) *)
| EXchg (t o : nat)                   (* exchange(kResult) on o's word *)
| ECSub (t c v : nat)                 (* fetch_sub on the counter of c's awaiter; v = the value afterwards *)
| ECLd (t c v : nat)                  (* load of that counter *)
(* markers written by the harness *)
| ESet (t o : nat) (r : res)          (* the producer of o is about to fulfil it with r (Promise::Set: Store) *)
| ESpawn (t c : nat)                  (* the body of c starts *)
| EBegin (t c : nat)                  (* c evaluates its next co_await *)
| ERes (t c : nat)                    (* c is past that co_await *)
| ERet (t c : nat) (r : res)          (* co_return r *)
| ELocal (t c : nat)                  (* the destructor of c's local *)
| EFree (t c : nat)                   (* c's frame is destroyed (the destructor of a by-value parameter) *)
| ESubmit (t x c : nat)               (* executor x: Submit(c) *)
| ECall (t x c : nat)                 (* executor x: c.Call() *)
| EDrop (t x c : nat).                (* executor x: c.Drop() *)

(* ---- helpers --------------------------------------------------------------------------------------- *)

Fixpoint upd {A} (l : list A) (i : nat) (x : A) : list A :=
  match l, i with
  | [], _ => []
  | _ :: t, 0 => x :: t
  | a :: t, S j => a :: upd t j x
  end.

Fixpoint list_eqb (a b : list nat) : bool :=
  match a, b with
  | [], [] => true
  | x :: a', y :: b' => Nat.eqb x y && list_eqb a' b'
  | _, _ => false
  end.

Fixpoint remove1 (c : nat) (l : list nat) : list nat :=
  match l with
  | [] => []
  | x :: r => if Nat.eqb x c then r else x :: remove1 c r
  end.

Fixpoint mem (c : nat) (l : list nat) : bool :=
  match l with
  | [] => false
  | x :: r => Nat.eqb x c || mem c r
  end.

Definition is_some {A} (o : option A) : bool := match o with Some _ => true | None => false end.

Definition obs_ok (v : wobs) (x : word) : bool :=
  match v, x with
  | OE, WStack [] => true
  | OL, WStack (_ :: _) => true
  | OR, WRes => true
  | _, _ => false
  end.

(* await_ready of the single forms is !core->Empty().  [rr] is the rule found in the source (Gen_ready_c13):
   true: Empty() = (word != kResult); false (before commit a483768): Empty() = (word == kEmpty) *)
Definition ready_of (rr : bool) (x : word) : bool :=
  if rr then match x with WRes => true | _ => false end
  else match x with WStack [] => false | _ => true end.

Definition complete (o : obj) : bool := match ow o with WRes => is_some (oslot o) | _ => false end.

Definition ocomplete (l : list obj) (o : nat) : bool :=
  match nth_error l o with Some ob => complete ob | None => false end.

(* object setters *)
Definition set_ow x o := {| oshared := oshared o; olazy := olazy o; ostarted := ostarted o; ow := x; opend := opend o;
  oslot := oslot o; oexec := oexec o; othr := othr o; oprod := oprod o |}.
Definition set_opend x o := {| oshared := oshared o; olazy := olazy o; ostarted := ostarted o; ow := ow o; opend := x;
  oslot := oslot o; oexec := oexec o; othr := othr o; oprod := oprod o |}.
Definition set_oslot x o := {| oshared := oshared o; olazy := olazy o; ostarted := ostarted o; ow := ow o; opend := opend o;
  oslot := x; oexec := oexec o; othr := othr o; oprod := oprod o |}.
Definition set_oexec x o := {| oshared := oshared o; olazy := olazy o; ostarted := ostarted o; ow := ow o; opend := opend o;
  oslot := oslot o; oexec := x; othr := othr o; oprod := oprod o |}.
Definition set_ostarted x o := {| oshared := oshared o; olazy := olazy o; ostarted := x; ow := ow o; opend := opend o;
  oslot := oslot o; oexec := oexec o; othr := othr o; oprod := oprod o |}.
(* exchange(kResult) by thread t: the registered callbacks become the list to fire; a core that nobody stored into
   is being completed by the library itself (Drop of a lazy head, ~Promise): StopError *)
Definition o_exchange (t : nat) (o : obj) : obj :=
  {| oshared := oshared o; olazy := olazy o; ostarted := ostarted o; ow := WRes;
     opend := match ow o with WStack l => l | WRes => [] end;
     oslot := match oslot o with Some r => Some r | None => Some RStop end;
     oexec := oexec o; othr := Some t; oprod := oprod o |}.

(* coroutine setters *)
Definition set_cst x c := {| prog := prog c; own := own c; pc := pc c; cst := x; on := on c; cexec := cexec c;
  cown0 := cown0 c; cnt := cnt c; llive := llive c; ldtors := ldtors c; fowner := fowner c; ffrees := ffrees c;
  cend := cend c; resumes := resumes c; readys := readys c |}.
Definition set_on x c := {| prog := prog c; own := own c; pc := pc c; cst := cst c; on := x; cexec := cexec c;
  cown0 := cown0 c; cnt := cnt c; llive := llive c; ldtors := ldtors c; fowner := fowner c; ffrees := ffrees c;
  cend := cend c; resumes := resumes c; readys := readys c |}.
Definition set_cexec x c := {| prog := prog c; own := own c; pc := pc c; cst := cst c; on := on c; cexec := x;
  cown0 := cown0 c; cnt := cnt c; llive := llive c; ldtors := ldtors c; fowner := fowner c; ffrees := ffrees c;
  cend := cend c; resumes := resumes c; readys := readys c |}.
Definition set_cown0 x c := {| prog := prog c; own := own c; pc := pc c; cst := cst c; on := on c; cexec := cexec c;
  cown0 := x; cnt := cnt c; llive := llive c; ldtors := ldtors c; fowner := fowner c; ffrees := ffrees c;
  cend := cend c; resumes := resumes c; readys := readys c |}.
Definition set_cnt x c := {| prog := prog c; own := own c; pc := pc c; cst := cst c; on := on c; cexec := cexec c;
  cown0 := cown0 c; cnt := x; llive := llive c; ldtors := ldtors c; fowner := fowner c; ffrees := ffrees c;
  cend := cend c; resumes := resumes c; readys := readys c |}.
Definition set_readys x c := {| prog := prog c; own := own c; pc := pc c; cst := cst c; on := on c; cexec := cexec c;
  cown0 := cown0 c; cnt := cnt c; llive := llive c; ldtors := ldtors c; fowner := fowner c; ffrees := ffrees c;
  cend := cend c; resumes := resumes c; readys := x |}.
Definition set_cend x c := {| prog := prog c; own := own c; pc := pc c; cst := cst c; on := on c; cexec := cexec c;
  cown0 := cown0 c; cnt := cnt c; llive := llive c; ldtors := ldtors c; fowner := fowner c; ffrees := ffrees c;
  cend := x; resumes := resumes c; readys := readys c |}.
Definition dropped (c : coro) : bool := match cend c with Dropped => true | _ => false end.
Definition local_dtor c := {| prog := prog c; own := own c; pc := pc c; cst := cst c; on := on c; cexec := cexec c;
  cown0 := cown0 c; cnt := cnt c; llive := false; ldtors := S (ldtors c); fowner := fowner c; ffrees := ffrees c;
  cend := cend c; resumes := resumes c; readys := readys c |}.
Definition frame_free c := {| prog := prog c; own := own c; pc := pc c; cst := cst c; on := on c; cexec := cexec c;
  cown0 := cown0 c; cnt := cnt c; llive := llive c; ldtors := ldtors c; fowner := false; ffrees := S (ffrees c);
  cend := cend c; resumes := resumes c; readys := readys c |}.
(* past the co_await: one more record, next statement *)
Definition resumed (r : rrec) (x : ast) c := {| prog := prog c; own := own c; pc := S (pc c); cst := x; on := on c;
  cexec := cexec c; cown0 := cown0 c; cnt := cnt c; llive := llive c; ldtors := ldtors c; fowner := fowner c;
  ffrees := ffrees c; cend := cend c; resumes := resumes c ++ [r]; readys := readys c |}.

Definition set_objs x s := {| objs := x; cos := cos s; qs := qs s; stk := stk s |}.
Definition set_cos x s := {| objs := objs s; cos := x; qs := qs s; stk := stk s |}.
Definition set_qs x s := {| objs := objs s; cos := cos s; qs := x; stk := stk s |}.
Definition set_stk x s := {| objs := objs s; cos := cos s; qs := qs s; stk := x |}.

Definition set_co (c : nat) (co : coro) (s : st) : st := set_cos (upd (cos s) c co) s.
Definition set_ob (o : nat) (ob : obj) (s : st) : st := set_objs (upd (objs s) o ob) s.

(* the co_await a coroutine is at *)
Definition capt (co : coro) : option apt := nth_error (prog co) (pc co).

Definition aobjs (a : apt) : list nat :=
  match a with
  | PCo o _ | PTask o _ | PTaskL o | PAwait1 _ o => [o]
  | PAwaitN _ os => os
  | _ => []
  end.
Definition aform (a : apt) : form :=
  match a with
  | PAwait1 f _ | PAwaitN f _ => f
  | POn e => FOn e
  | PYield => FSticky
  | _ => FInl
  end.
Definition amulti (a : apt) : bool := match a with PAwaitN _ _ => true | _ => false end.
(* forms whose completion does a SubEqual on the awaiter's counter *)
Definition acounted (a : apt) : bool :=
  match a with PAwaitN _ _ | PAwait1 (FOn _) _ => true | _ => false end.
Definition aconsume (a : apt) : option (nat * bool) :=
  match a with PCo o c | PTask o c => Some (o, c) | _ => None end.

(* x.Submit(coroutine) entered by thread t; Inline (0) calls it at once *)
Definition do_submit (t x : nat) (co : coro) : coro :=
  if Nat.eqb x 0 then set_cst (AResume (ByExec 0)) (set_on t co) else set_cst (ASubmit x) (set_on t co).

(* SetCallback on the i-th awaited object returned ok *)
Definition after_reg (t : nat) (a : apt) (i w : nat) (ok : bool) (co : coro) : coro :=
  match a with
  | PAwaitN _ os =>
      let w' := if ok then S w else w in
      if Nat.ltb (S i) (length os) then set_cst (AReg (S i) w') co else set_cst (ACtor w') co
  | PAwait1 (FOn e) _ => if ok then set_cst AWait co else do_submit t e co
  | _ => if ok then set_cst AWait co else set_cst (AResume BySelf) co
  end.

(* the object on whose word the coroutine's next own operation acts *)
Definition wants (co : coro) : option nat :=
  match capt co with
  | Some a =>
      match cst co with
      | AReadyL => if amulti a then None else nth_error (aobjs a) 0
      | AReg i _ | ARegU i _ | ARegS i _ _ => nth_error (aobjs a) i
      | ATaskSt => nth_error (aobjs a) 0
      | _ => None
      end
  | None => None
  end.

Fixpoint find_actor (l : list coro) (t o i : nat) : option nat :=
  match l with
  | [] => None
  | co :: r =>
      if Nat.eqb (on co) t && match wants co with Some o' => Nat.eqb o' o | None => false end
      then Some i else find_actor r t o (S i)
  end.

(* the thread's innermost unfinished callback list *)
Fixpoint stk_top (l : list (nat * nat)) (t : nat) : option nat :=
  match l with
  | [] => None
  | (t', o) :: r => if Nat.eqb t' t then Some o else stk_top r t
  end.
Fixpoint stk_pop (l : list (nat * nat)) (t : nat) : list (nat * nat) :=
  match l with
  | [] => []
  | (t', o) :: r => if Nat.eqb t' t then r else (t', o) :: stk_pop r t
  end.

(* thread t takes the next callback of the list it is firing: (object, coroutine, state) *)
Definition fire_top (s : st) (t : nat) : option (nat * nat * st) :=
  match stk_top (stk s) t with
  | Some o =>
      match nth_error (objs s) o with
      | Some ob =>
          match opend ob with
          | c :: rest =>
              Some (o, c, set_stk (match rest with [] => stk_pop (stk s) t | _ => stk s end)
                                  (set_ob o (set_opend rest ob) s))
          | [] => None
          end
      | None => None
      end
  | None => None
  end.

(* PromiseType::Impl: the coroutine takes the executor of the core that completed.  [sw] is what the source does
   (Gen_ready_c13.c13_impl_swaps_executor): true: `_executor = std::move(caller._executor)`, which swaps the two
   pointers (before commit f1ffb7c); false: a copy, the core keeps its executor *)
Definition swap_exec (sw : bool) (c o : nat) (s : st) : st :=
  match nth_error (cos s) c, nth_error (objs s) o with
  | Some co, Some ob => set_ob o (set_oexec (if sw then cexec co else oexec ob) ob) (set_co c (set_cexec (oexec ob) co) s)
  | _, _ => s
  end.

Definition store_own (c : nat) (r : res) (s : st) : option st :=
  match nth_error (cos s) c with
  | Some co =>
      match nth_error (objs s) (own co) with
      | Some ob =>
          match oprod ob, oslot ob with
          | Some c', None => if Nat.eqb c' c then Some (set_ob (own co) (set_oslot (Some r) ob) s) else None
          | _, _ => None
          end
      | None => None
      end
  | None => None
  end.

Definition is_err (r : option res) : option res :=
  match r with Some (RErr n) => Some (RErr n) | Some RStop => Some RStop | _ => None end.

(* c is past its co_await, resumed the way [h] says, on thread t *)
Definition finish_await (t c : nat) (h : how) (s : st) : option st :=
  match nth_error (cos s) c with
  | Some co =>
      match capt co with
      | Some a =>
          let v := match aconsume a with
                   | Some (o, _) => Some (match nth_error (objs s) o with Some ob => oslot ob | None => None end)
                   | None => None
                   end in
          let r := {| rk := pc co; rhow := h; rthr := t; rok := forallb (ocomplete (objs s)) (aobjs a); rval := v;
                      rexec := cexec co; rown := cown0 co;
                      rlive := match cend co with Running => true | _ => false end |} in
          match aconsume a, match v with Some x => is_err x | None => None end with
          | Some (_, false), Some e =>
              (* await_resume throws, nothing catches: unhandled_exception stores it, final_suspend is next *)
              store_own c e (set_co c (set_cend (Threw e) (resumed r AFinal (set_on t co))) s)
          | _, _ => Some (set_co c (resumed r ARun (set_on t co)) s)
          end
      | None => None
      end
  | None => None
  end.

(* the callback of c, taken from the list of object o, is invoked by thread t: the forms without a counter *)
Definition plain_fire (t o c : nat) (s : st) : option st :=
  match nth_error (cos s) c with
  | Some co =>
      match cst co, capt co with
      | AWait, Some a =>
          if acounted a then None else
          match aform a with
          | FInl => Some (set_co c (set_cst (AResume (ByFire o)) (set_on t co)) s)    (* the caller adds swap_exec *)
          | FSticky => Some (set_co c (do_submit t (cexec co) co) s)
          | FOn _ => None
          end
      | _, _ => None
      end
  | None => None
  end.

Definition resume_inline (sw : bool) (t o c : nat) (s : st) : st :=
  match nth_error (cos s) c with
  | Some co => swap_exec sw c o (set_co c (set_cst (AResume (ByFire o)) (set_on t co)) s)
  | None => s
  end.

(* the last SubEqual(1) of a counted awaiter, by a completion *)
Definition counted_last (sw : bool) (t o c : nat) (a : apt) (s : st) : st :=
  match nth_error (cos s) c with
  | Some co =>
      match aform a with
      | FInl => resume_inline sw t o c s
      | FSticky => set_co c (do_submit t (cexec co) co) s
      | FOn e => set_co c (do_submit t e co) s
      end
  | None => s
  end.

Definition enqueue (x c : nat) (s : st) : option st :=
  match nth_error (qs s) x with
  | Some q => Some (set_qs (upd (qs s) x (q ++ [c])) s)
  | None => None
  end.
Definition dequeue (x c : nat) (s : st) : option st :=
  match nth_error (qs s) x with
  | Some q => if mem c q then Some (set_qs (upd (qs s) x (remove1 c q)) s) else None
  | None => None
  end.

(* ---- one step ------------------------------------------------------------------------------------- *)

Definition step_ld (rr : bool) (s : st) (t o : nat) (v : wobs) : option st :=
  match nth_error (objs s) o with
  | None => None
  | Some ob =>
      if negb (obs_ok v (ow ob)) then None else
      match find_actor (cos s) t o 0 with
      | None => Some s                                     (* somebody looks at the word (Ready(), ~ResultCore's assertion) *)
      | Some c =>
          match nth_error (cos s) c with
          | Some co =>
              match capt co, cst co with
              | Some a, AReadyL =>
                  let ans := ready_of rr (ow ob) in
                  let co1 := set_readys (readys co ++ [(ans, complete ob)]) co in
                  Some (set_co c (set_cst (if ans then AResume BySelf else AReg 0 0) co1) s)
              | Some a, AReg i w =>
                  match ow ob with
                  | WRes => Some (set_co c (after_reg t a i w false co) s)
                  | WStack l =>
                      if oshared ob then Some (set_co c (set_cst (ARegS i w l) co) s)
                      else match l with
                           | [] => Some (set_co c (set_cst (ARegU i w) co) s)
                           | _ :: _ => None          (* a unique future has one owner: nobody else has attached to it *)
                           end
                  end
              | Some _, ATaskSt =>
                  (* the awaiter's constructor: YACLIB_ASSERT(task core Empty()) *)
                  if ready_of rr (ow ob) then None else Some s
              | _, _ => None
              end
          | None => None
          end
      end
  end.

Definition step_cas (s : st) (t o : nat) (ok : bool) : option st :=
  match nth_error (objs s) o, find_actor (cos s) t o 0 with
  | Some ob, Some c =>
      match nth_error (cos s) c with
      | Some co =>
          match capt co, cst co with
          | Some a, ARegU i w =>
              match ow ob with
              | WStack [] => if ok then Some (set_co c (after_reg t a i w true co) (set_ob o (set_ow (WStack [c]) ob) s))
                             else None
              | WRes => if ok then None else Some (set_co c (after_reg t a i w false co) s)
              | WStack (_ :: _) => None
              end
          | Some a, ARegS i w next =>
              match ow ob with
              | WStack l =>
                  if list_eqb l next
                  then (if ok then Some (set_co c (after_reg t a i w true co) (set_ob o (set_ow (WStack (c :: l)) ob) s))
                        else Some s)                          (* a spurious failure of the weak CAS *)
                  else (if ok then None else Some (set_co c (set_cst (ARegS i w l) co) s))
              | WRes => if ok then None else Some (set_co c (after_reg t a i w false co) s)
              end
          | _, _ => None
          end
      | None => None
      end
  | _, _ => None
  end.

Definition step_st (s : st) (t o : nat) : option st :=
  match nth_error (objs s) o, find_actor (cos s) t o 0 with
  | Some ob, Some c =>
      match nth_error (cos s) c with
      | Some co =>
          match cst co, ow ob with
          | ATaskSt, WStack [] =>
              (* StoreCallback, then the head of the task is submitted to its executor: the task may run from now on *)
              Some (set_co c (set_cst AWait co) (set_ob o (set_ostarted true (set_ow (WStack [c]) ob)) s))
          | _, _ => None
          end
      | None => None
      end
  | _, _ => None
  end.

Definition push_stk (t o : nat) (ob : obj) (s : st) : st :=
  match ow ob with
  | WStack (_ :: _) => set_stk ((t, o) :: stk s) s
  | _ => s
  end.

Definition step_xchg (s : st) (t o : nat) : option st :=
  match nth_error (objs s) o with
  | Some ob =>
      match ow ob with
      | WRes => None                                                   (* YACLIB_ASSERT(expected != kResult) *)
      | WStack _ =>
          match oprod ob with
          | None =>
              if olazy ob && negb (ostarted ob) then None
              else Some (push_stk t o ob (set_ob o (o_exchange t ob) s))
          | Some c =>
              match nth_error (cos s) c with
              | Some co =>
                  match cst co with
                  | AFinal =>
                      if Nat.eqb (on co) t && Nat.eqb (own co) o && (dropped co || negb (llive co))
                      then Some (push_stk t o ob (set_co c (set_cst ADone co) (set_ob o (o_exchange t ob) s)))
                      else None
                  | _ => None
                  end
              | None => None
              end
          end
      end
  | None => None
  end.

Definition step_csub (sw : bool) (s : st) (t c v : nat) : option st :=
  match nth_error (cos s) c with
  | Some co =>
      match capt co with
      | Some a =>
          let mine := Nat.eqb (on co) t in
          match cst co, mine with
          | ACtor w, true =>
              (* event.count.fetch_sub(n - registered) *)
              let d := length (aobjs a) - w in
              if Nat.leb d (cnt co) && Nat.eqb v (cnt co - d)
              then Some (set_co c (set_cst (match aform a with FOn _ => ASusp | _ => AReadyL end) (set_cnt v co)) s)
              else None
          | ASusp, true =>
              (* await_suspend: SubEqual(1) *)
              if Nat.leb 1 (cnt co) && Nat.eqb v (cnt co - 1)
              then Some (set_co c (if Nat.eqb (cnt co) 1
                                   then match aform a with
                                        | FOn e => do_submit t e (set_cnt v co)
                                        | _ => set_cst (AResume BySelf) (set_cnt v co)
                                        end
                                   else set_cst AWait (set_cnt v co)) s)
              else None
          | _, _ =>
              (* a completion: AwaitEvent::Impl / AwaitOnEvent::Impl: SubEqual(1), the last one resumes / submits *)
              if negb (acounted a) then None else
              match fire_top s t with
              | Some (o, c', s1) =>
                  if Nat.eqb c' c && Nat.leb 1 (cnt co) && Nat.eqb v (cnt co - 1)
                  then let s2 := set_co c (set_cnt v co) s1 in
                       Some (if Nat.eqb (cnt co) 1 then counted_last sw t o c a s2 else s2)
                  else None
              | None => None
              end
          end
      | None => None
      end
  | None => None
  end.

Definition step_cld (s : st) (t c v : nat) : option st :=
  match nth_error (cos s) c with
  | Some co =>
      match capt co, cst co with
      | Some a, AReadyL =>
          if amulti a && Nat.eqb (on co) t && Nat.eqb v (cnt co)
          then Some (set_co c (set_cst (if Nat.eqb v 1 then AResume BySelf else ASusp) co) s)
          else None
      | _, _ => None
      end
  | None => None
  end.

Definition step_begin (s : st) (t c : nat) : option st :=
  match nth_error (cos s) c with
  | Some co =>
      match cst co, capt co with
      | ARun, Some a =>
          if negb (Nat.eqb (on co) t) then None else
          let co0 := set_cown0 (cexec co) co in
          Some (set_co c
            match a with
            | PCo _ _ | PAwait1 FInl _ | PAwait1 FSticky _ => set_cst AReadyL co0
            | PAwait1 (FOn e) _ => set_cst (AReg 0 0) (set_cnt 1 (set_cexec e co0))
            | PTask _ _ | PTaskL _ => set_cst ATaskSt co0
            | PAwaitN f os =>
                let co1 := set_cnt (S (length os)) co0 in
                let co2 := match f with FOn e => set_cexec e co1 | _ => co1 end in
                match os with [] => set_cst (ACtor 0) co2 | _ => set_cst (AReg 0 0) co2 end
            | POn e => do_submit t e (set_cexec e co0)
            | PYield => do_submit t (cexec co0) co0
            | PCurrent => set_cst (AResume BySelf) co0
            end s)
      | _, _ => None
      end
  | None => None
  end.

Definition step_res (sw : bool) (s : st) (t c : nat) : option st :=
  match nth_error (cos s) c with
  | Some co =>
      match cst co with
      | AResume h => if Nat.eqb (on co) t then finish_await t c h s else None
      | AWait =>
          (* the first thing seen of a completion of a form without counter that resumes inline *)
          match fire_top s t with
          | Some (o, c', s1) =>
              if negb (Nat.eqb c' c) then None else
              match plain_fire t o c s1 with
              | Some s2 =>
                  match nth_error (cos s2) c with
                  | Some co2 =>
                      match cst co2 with
                      | AResume (ByFire _) => finish_await t c (ByFire o) (swap_exec sw c o s2)
                      | AResume h => finish_await t c h s2
                      | _ => None
                      end
                  | None => None
                  end
              | None => None
              end
          | None => None
          end
      | _ => None
      end
  | None => None
  end.

Definition step_submit (s : st) (t x c : nat) : option st :=
  match nth_error (cos s) c with
  | Some co =>
      match cst co with
      | ASubmit x' =>
          if Nat.eqb x' x && Nat.eqb (on co) t then enqueue x c (set_co c (set_cst (AQueued x) co) s) else None
      | AWait =>
          (* AwaitSticky(f): the completion calls promise._executor->Submit *)
          match fire_top s t with
          | Some (o, c', s1) =>
              if negb (Nat.eqb c' c) then None else
              match plain_fire t o c s1 with
              | Some s2 =>
                  match nth_error (cos s2) c with
                  | Some co2 =>
                      match cst co2 with
                      | ASubmit x' => if Nat.eqb x' x then enqueue x c (set_co c (set_cst (AQueued x) co2) s2) else None
                      | _ => None
                      end
                  | None => None
                  end
              | None => None
              end
          | None => None
          end
      | _ => None
      end
  | None => None
  end.

Definition step_g (rr sw : bool) (s : st) (e : ev) : option st :=
  match e with
  | ELd t o v => step_ld rr s t o v
  | ECas t o ok => step_cas s t o ok
  | ESt t o => step_st s t o
  | EXchg t o => step_xchg s t o
  | ECSub t c v => step_csub sw s t c v
  | ECLd t c v => step_cld s t c v
  | ESet t o r =>
      match nth_error (objs s) o with
      | Some ob =>
          match oprod ob, oslot ob, ow ob with
          | None, None, WStack _ =>
              if olazy ob && negb (ostarted ob) then None else Some (set_ob o (set_oslot (Some r) ob) s)
          | _, _, _ => None
          end
      | None => None
      end
  | ESpawn t c =>
      match nth_error (cos s) c with
      | Some co =>
          match cst co, nth_error (objs s) (own co) with
          | AIdle, Some ob =>
              if olazy ob && negb (ostarted ob) then None
              else Some (set_co c (set_cst ARun (set_on t co)) s)
          | _, _ => None
          end
      | None => None
      end
  | EBegin t c => step_begin s t c
  | ERes t c => step_res sw s t c
  | ERet t c r =>
      match nth_error (cos s) c with
      | Some co =>
          match cst co, capt co with
          | ARun, None => if Nat.eqb (on co) t then store_own c r (set_co c (set_cend (Returned r) (set_cst AFinal co)) s) else None
          | _, _ => None
          end
      | None => None
      end
  | ELocal t c =>
      match nth_error (cos s) c with
      | Some co =>
          if llive co &&
             match cst co with
             | AFinal => negb (dropped co) && Nat.eqb (on co) t    (* leaving the body's scope before final_suspend *)
             | ADone => dropped co && fowner co                     (* destroyed with the frame, suspended at a co_await *)
             | _ => false
             end
          then Some (set_co c (local_dtor co) s) else None
      | None => None
      end
  | EFree t c =>
      match nth_error (cos s) c with
      | Some co =>
          match cst co with
          | ADone => if fowner co && negb (llive co) then Some (set_co c (frame_free co) s) else None
          | _ => None
          end
      | None => None
      end
  | ESubmit t x c => step_submit s t x c
  | ECall t x c =>
      match dequeue x c s with
      | Some s1 =>
          match nth_error (cos s1) c with
          | Some co => Some (set_co c (set_cst (AResume (ByExec x)) (set_on t co)) s1)
          | None => None
          end
      | None => None
      end
  | EDrop t x c =>
      match dequeue x c s with
      | Some s1 =>
          match nth_error (cos s1) c with
          | Some co => store_own c RStop (set_co c (set_cst AFinal (set_cend Dropped (set_on t co))) s1)
          | None => None
          end
      | None => None
      end
  end.

Fixpoint run_g (rr sw : bool) (s : st) (tr : list ev) : option st :=
  match tr with
  | [] => Some s
  | e :: r => match step_g rr sw s e with Some s' => run_g rr sw s' r | None => None end
  end.

(* the model of the tree under check: the readiness rule and the executor hand-over are the ones found in the source *)
Definition step := step_g c13_ready_is_result c13_impl_swaps_executor.
Definition run := run_g c13_ready_is_result c13_impl_swaps_executor.

(* nothing is in flight: every coroutine is finished or suspended, no callback list is half fired, no executor holds a job *)
Definition co_quiet (co : coro) : bool :=
  match cst co with AIdle | AWait | ADone => true | _ => false end.
Definition quiescent (s : st) : bool :=
  forallb co_quiet (cos s) && forallb (fun ob => match opend ob with [] => true | _ => false end) (objs s) &&
  forallb (fun q => match q with [] => true | _ => false end) (qs s).
