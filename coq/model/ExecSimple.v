(* ExecSimple — the two executors of YACLib that have no concurrent protocol, as transition systems over job identities,
   and the contract every executor is held to (C05).

     Inline<Stopped>  src/exe/inline.cpp:9-28    Submit(job) { if constexpr (Stopped) job.Drop(); else job.Call(); }
                                                  Alive() = !Stopped.   sCallInline = MakeInline(), sDropInline = MakeInline(StopTag)
     ManualExecutor   src/exe/manual.cpp:6-31    Submit(job) { _tasks.PushBack(job); }      Alive() = true
                                                  Drain() { while (!_tasks.Empty()) { ++done; _tasks.PopFront().Call(); } }
                      The class has no Stop and no user-provided destructor (include/yaclib/exe/manual.hpp:14-29): it
                      never Drops; a job still queued when the executor goes away is neither Called nor Dropped, which is
                      the state "not quiescent" below (the owner must Drain before releasing it).

   Strand and FairThreadPool are Strand.v (C07) and Pool.v (C08).  No proofs here. *)
From Coq Require Import List Arith Bool.
Import ListNotations.

Inductive xkind := KInline (stopped : bool) | KManual.

Definition kalive (k : xkind) : bool := match k with KInline st => negb st | KManual => true end.   (* IExecutor::Alive *)

Inductive sev :=
| SSubmit (j : nat)   (* executor.Submit(job j), from anywhere — also from inside a running job *)
| SPop                (* Manual: one iteration of Drain's loop, up to the beginning of the job's Call (manual.cpp:22-25) *)
| SRet (j : nat).     (* job j's Call returns *)

Record sst := {
  s_kind : xkind;
  s_queue : list nat;      (* ManualExecutor::_tasks *)
  s_running : list nat;    (* Calls begun and not returned (nested Submit/Drain and, for Inline, several threads) *)
  s_all : list nat;        (* history: every job given to Submit, in order *)
  s_called : list nat;     (* history: in the order the Calls began *)
  s_dropped : list nat     (* history *)
}.

Definition sinit (k : xkind) : sst :=
  {| s_kind := k; s_queue := []; s_running := []; s_all := []; s_called := []; s_dropped := [] |}.

Definition memn (j : nat) (l : list nat) : bool := existsb (Nat.eqb j) l.

Fixpoint remove_one (j : nat) (l : list nat) : list nat :=
  match l with
  | [] => []
  | x :: r => if Nat.eqb x j then r else x :: remove_one j r
  end.

Definition sstep (s : sst) (e : sev) : option sst :=
  match e with
  | SSubmit j =>
      if memn j (s_all s) then None                                   (* a job object is handed over once *)
      else match s_kind s with
           | KInline false =>                                         (* inline.cpp:26 task.Call() *)
               Some {| s_kind := s_kind s; s_queue := s_queue s; s_running := j :: s_running s; s_all := s_all s ++ [j];
                       s_called := s_called s ++ [j]; s_dropped := s_dropped s |}
           | KInline true =>                                          (* inline.cpp:24 task.Drop() *)
               Some {| s_kind := s_kind s; s_queue := s_queue s; s_running := s_running s; s_all := s_all s ++ [j];
                       s_called := s_called s; s_dropped := s_dropped s ++ [j] |}
           | KManual =>                                               (* manual.cpp:17 _tasks.PushBack(f) *)
               Some {| s_kind := s_kind s; s_queue := s_queue s ++ [j]; s_running := s_running s; s_all := s_all s ++ [j];
                       s_called := s_called s; s_dropped := s_dropped s |}
           end
  | SPop =>
      match s_kind s, s_queue s with
      | KManual, j :: q =>                                            (* manual.cpp:22-25 *)
          Some {| s_kind := s_kind s; s_queue := q; s_running := j :: s_running s; s_all := s_all s;
                  s_called := s_called s ++ [j]; s_dropped := s_dropped s |}
      | _, _ => None
      end
  | SRet j =>
      if memn j (s_running s)
      then Some {| s_kind := s_kind s; s_queue := s_queue s; s_running := remove_one j (s_running s); s_all := s_all s;
                   s_called := s_called s; s_dropped := s_dropped s |}
      else None
  end.

Fixpoint srun (s : sst) (tr : list sev) : option sst :=
  match tr with
  | [] => Some s
  | e :: r => match sstep s e with Some s' => srun s' r | None => None end
  end.

(* nothing queued, nothing running *)
Definition squiescent (s : sst) : Prop := s_queue s = [] /\ s_running s = [].

(* ---------------------------------------------------------------------------- the contract of IExecutor (executor.hpp:41-50)
   "Submit given job. This method may either Call or Drop the job. Call if executor is Alive, otherwise Drop", read for a
   whole history of one executor: [submitted] every job given to Submit, [called] / [dropped] the Calls and Drops it made,
   [refusing] "the executor has stopped accepting work", [quiescent] "nothing is in flight".
     1. no job is finished twice, or both Called and Dropped;
     2. only jobs that were submitted are finished;
     3. a Drop happens only if the executor refuses work;
     4. when nothing is in flight every submitted job has been finished: exactly one Call or exactly one Drop. *)
Definition exec_contract {J : Type} (eq_dec : forall a b : J, {a = b} + {a <> b})
    (submitted called dropped : list J) (refusing quiescent : Prop) : Prop :=
  (forall j, count_occ eq_dec called j + count_occ eq_dec dropped j <= 1) /\
  (forall j, In j called \/ In j dropped -> In j submitted) /\
  (dropped <> [] -> refusing) /\
  (quiescent -> forall j, In j submitted -> count_occ eq_dec called j + count_occ eq_dec dropped j = 1).
