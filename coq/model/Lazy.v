(* Lazy — a Task is a chain that is first built and only later started (C12), over Pipe.v.

   Code: include/yaclib/lazy/task.hpp, src/lazy/task_impl.cpp (detail::Start), lazy/schedule.hpp, lazy/make.hpp (ReadyCore),
   algo/detail/core.hpp (Lazy branch of SetCallback :419-423, MoveToCaller :94-102, CallResolveAsync task branch),
   coro/detail/promise_type.hpp (PromiseType<Lazy>), coro/detail/await_awaiter.hpp (TransferAwaiter).

   The Task object is a little machine: [TThen] attaches a core (nothing runs), [TStart] walks to the head and submits
   it to an executor, [TAwait] does the same but leaves the (completed) Task object alive, [TDestroy] is ~Task.  A
   started chain runs like Pipe.run, one [step_result] per Then-core.  No proofs here. *)
From Coq Require Import List ZArith Bool.
Import ListNotations.
From YV Require Import model.Pipe.

(* the first core of a Task *)
Inductive lhead :=
| HReady (t : ty) (r : res)
    (* MakeTask<V,E>(r): ReadyCore, lazy/make.hpp:10-37 *)
| HRun (e : exec) (id : nat) (par : pclass) (rt : ty) (body : input -> outcome)
    (* Schedule(e, f): Core<Run | Call>, created but not submitted (lazy/schedule.hpp:9-23) *)
| HProm (t : ty) (e : exec) (id : nat) (b : prom_beh)
    (* LazyContract(e, f): PromiseCore *)
| HCoro (t : ty) (id : nat) (r : res).
    (* a coroutine returning Task: PromiseType<.., Lazy = true>, suspended at initial_suspend *)

Record lstep := LStep { l_id : nat; l_par : pclass; l_att : attach; l_rt : ty; l_body : input -> outcome }.

(* an unstarted Task: every Then-core points back to its predecessor through Node::next (core.hpp:421) and is its
   predecessor's stored callback (:422); steps are listed head first *)
Record task := Task { t_head : lhead; t_steps : list lstep }.

(* how the head is put to work *)
Inductive start :=
| SOwn            (* detail::Start(head): head->_executor->Submit(head) — ToFuture(), Get(), Detach(), returned from a
                     continuation (core.hpp:289-293), co_await task, co_await Await(task) (await_awaiter.hpp:22-28, :48-54) *)
| SOn (e : exec). (* detail::Start(head, e): head->_executor = &e; e.Submit(head) — ToFuture(e), Detach(e), and
                     Cancel() = Detach(MakeInline(StopTag{})) (task.hpp:97-99) *)

(* BaseCore::_executor of the head: what the constructor left there *)
Definition own_exec (h : lhead) : exec :=
  match h with
  | HReady _ _ => XInline
  | HRun e _ _ _ _ => e
  | HProm _ e _ _ => e
  | HCoro _ _ _ => XInline
  end.

Definition head_exec (s : start) (h : lhead) : exec :=
  match s with SOwn => own_exec h | SOn e => e end.

Definition head_id (h : lhead) : list nat :=
  match h with
  | HReady _ _ => []
  | HRun _ id _ _ _ => [id]
  | HProm _ _ id _ => [id]
  | HCoro _ id _ => [id]
  end.

(* outcome of a run plus the functors destroyed on the way (ids, in order of destruction) *)
Definition lout := (out * list nat)%type.

(* the head submitted to executor e: Job::Call when e is alive, Job::Drop when it is stopped *)
Definition run_head (s : start) (h : lhead) : option lout :=
  let e := head_exec s h in
  match h with
  | HReady t r =>
      (* ReadyCore::Call: SetResult; ReadyCore::Drop: _result.~Result(); Store(StopTag{}); Call() (lazy/make.hpp:18-27) *)
      Some (Out (if alive e then r else Err EStop) e t [], [])
  | HRun _ id par rt body =>
      match run_call par (negb (alive e)) with
      | None => None
      | Some (Pass r) => Some (Out r e rt [], [id])                   (* Done: _func.storage.~Storage() *)
      | Some (Invoke i) =>
          let ev := Ev id e true i in
          match body i with
          | RetAsync k p' =>
              match run p' with
              | Some oi => Some (Out (o_res oi) e rt (ev :: o_evs oi), [id])   (* CallResolveAsync core.hpp:286 *)
              | None => None
              end
          | o' => Some (Out (done_result o') e rt [ev], [id])
          end
      end
  | HProm t _ id b =>
      (* PromiseCore::Call moves the functor to the stack and destroys the storage; Drop destroys it (promise_core.hpp:31-55) *)
      let '(r, called) := prom_result b (negb (alive e)) in
      Some (Out r e t (if called then [Ev id e true INone] else []), [id])
  | HCoro t id r =>
      (* PromiseType::Call resumes the coroutine; Drop stores StopTag and completes without resuming
         (coro/detail/promise_type.hpp:102-117).  The frame (the "functor") dies with the core. *)
      Some (if alive e then Out r e t [Ev id e false INone] else Out (Err EStop) e t [], [id])
  end.

(* a Then-core reached by its predecessor's result: Core::Impl etc. = Pipe.step_result; on every path the functor is
   destroyed exactly once: Done (core.hpp:227-229) when nothing is unwrapped, CallResolveAsync (:286) otherwise, and then
   not again in Done<Async> *)
Definition run_step (acc : option lout) (s : lstep) : option lout :=
  match acc with
  | None => None
  | Some (oq, freed) =>
      match step_result oq (l_id s) (l_par s) (l_att s) (l_rt s) (l_body s) with
      | Some o => Some (o, freed ++ [l_id s])
      | None => None
      end
  end.

Definition run_task (s : start) (tk : task) : option lout :=
  fold_left run_step (t_steps tk) (run_head s (t_head tk)).

(* Task::Cancel (task.hpp:97-99), what ~Task does to a Task that is still valid *)
Definition cancel (tk : task) : option lout := run_task (SOn XStopped) tk.

(* ---------------------------------------------------------------------------------- the Task object *)

Inductive tstate :=
| TUnstarted (tk : task)
| TCompleted (tk : task) (o : out)   (* after co_await Await(task): still valid, result inside *)
| TGone.                             (* moved from: ToFuture / Get / Detach / returned / co_await std::move(task) *)

Inductive top :=
| TThen (s : lstep)        (* Task::Then(e,f) / ThenInline(f) / Then(f) *)
| TStart (s : start)       (* consumes the Task *)
| TAwait                   (* co_await Await(task) *)
| TDestroy.                (* ~Task *)

(* what has happened so far: callbacks invoked, functors destroyed, results delivered to whoever started the chain *)
Record tworld := TW { w_state : tstate; w_evs : list event; w_freed : list nat; w_results : list res }.

Definition tinit (h : lhead) : tworld := TW (TUnstarted (Task h [])) [] [] [].

(* ~Task (task.hpp:39-44, since ac7df75): if (Valid() && !Ready()) Cancel(); a completed Task only drops its
   IntrusivePtr, which releases the last core and the Result in it.

   Before ac7df75 ~Task cancelled whenever Valid(): Detach(MakeInline(StopTag{})) stored MakeDrop() over the kResult word
   and submitted the *finished* last core to the stopped executor, i.e. called Drop() on it a second time:
     ReadyCore::Drop / PromiseType::Drop overwrote the result with StopError and completed again into the Drop core;
     Core<Run>::Drop / PromiseCore::Drop ran ~Storage() on the functor a second time;
     a Then-core's Drop -> CallImpl -> Done read _self.caller out of the union that held the Result by then. *)
Inductive drop_effect := DRelease | DFreeAgain (id : nat) | DUndefined.

Definition drop_completed_before_ac7df75 (tk : task) : drop_effect :=
  match rev (t_steps tk) with
  | _ :: _ => DUndefined
  | [] =>
      match t_head tk with
      | HReady _ _ | HCoro _ _ _ => DRelease
      | HRun _ id _ _ _ => DFreeAgain id
      | HProm _ _ id _ => DFreeAgain id
      end
  end.

Definition tstep (w : tworld) (o : top) : option tworld :=
  match w_state w, o with
  | TUnstarted tk, TThen s =>
      (* SetCallback, Lazy branch: callback->next = caller; caller->StoreCallback( *callback) — nothing is submitted *)
      Some (TW (TUnstarted (Task (t_head tk) (t_steps tk ++ [s]))) (w_evs w) (w_freed w) (w_results w))
  | TUnstarted tk, TStart s =>
      match run_task s tk with
      | Some (out, freed) => Some (TW TGone (w_evs w ++ o_evs out) (w_freed w ++ freed) (w_results w ++ [o_res out]))
      | None => None
      end
  | TUnstarted tk, TAwait =>
      match run_task SOwn tk with
      | Some (out, freed) =>
          Some (TW (TCompleted tk out) (w_evs w ++ o_evs out) (w_freed w ++ freed) (w_results w ++ [o_res out]))
      | None => None
      end
  | TUnstarted tk, TDestroy =>
      match cancel tk with
      | Some (out, freed) => Some (TW TGone (w_evs w ++ o_evs out) (w_freed w ++ freed) (w_results w))
      | None => None
      end
  | TCompleted tk out, TDestroy => Some (TW TGone (w_evs w) (w_freed w) (w_results w))   (* Ready(): release only *)
  | TGone, TDestroy => Some w            (* !Valid(): nothing *)
  | _, _ => None                         (* not expressible: the handle was moved from / Then asserts !Ready() *)
  end.

Fixpoint trun (w : tworld) (ops : list top) : option tworld :=
  match ops with
  | [] => Some w
  | o :: r => match tstep w o with Some w' => trun w' r | None => None end
  end.

(* ---------------------------------------------------------------------------------- link with Pipe programs *)

(* the Task a lazy program builds (a WT source followed by Then steps) *)
Fixpoint build (p : prog) : option task :=
  match p with
  | PReady WT t r => Some (Task (HReady t r) [])
  | PRun WT e id par rt body => Some (Task (HRun e id par rt body) [])
  | PProm WT t e id b => Some (Task (HProm t e id b) [])
  | PCoro WT t id r => Some (Task (HCoro t id r) [])
  | PThen q id par a rt body =>
      match build q with
      | Some tk => Some (Task (t_head tk) (t_steps tk ++ [LStep id par a rt body]))
      | None => None
      end
  | _ => None
  end.

(* the same pipeline written eagerly: Run for Schedule, MakeFuture for MakeTask, AsyncContract for LazyContract, a
   coroutine returning Future for one returning Task; Then-steps unchanged *)
Fixpoint eager (p : prog) : prog :=
  match p with
  | PReady WT t r => PContract WO t XInline false r   (* MakeContractOn(MakeInline()) fulfilled at once: a ready FutureOn *)
  | PRun WT e id par rt body => PRun WO e id par rt body
  | PProm WT t e id b => PProm WO t e id b
  | PCoro WT t id r => PCoro WF t id r
  | PThen q id par a rt body => PThen (eager q) id par a rt body
  | _ => p
  end.

(* all functor ids of the chain, head first *)
Definition task_ids (tk : task) : list nat := head_id (t_head tk) ++ map l_id (t_steps tk).
