(* RACounter.v — the reference / event counter (AtomicCounter::SubEqual, util/detail/atomic_counter.hpp) in the
   release/acquire machine of lib/RA.v, for ANY number n of holders.
   Location 0: the counter (initially n).  Cell u+1: what holder u accessed of the shared object before
   dropping its reference (non-atomic).  Holder u:  na (u+1) ; old := fetch_sub(1, o_dec) ;
   if old = 1 : fence(o_fence) ; delete = non-atomic access of EVERY cell (must happen-after all accesses).
   Orders are parameters; the shipped ones come from coq/gen/Gen_orders.v. *)
From Coq Require Import List Arith Bool.
Import ListNotations.
From YV Require Import lib.RA.

Inductive tpc := T0 | T1 | T2 | T2L | T3 | T4.   (* T2: decremented, not last; T2L: was last; T3: fenced; T4: deleted *)
Record tst := { pc : tpc; th : thr }.

Record st := {
  hist : list msg;
  ths : list tst;          (* holder u = nth u *)
  race : bool;
  deleted : nat            (* how many times the object was destroyed *)
}.

Definition init (n : nat) : st :=
  {| hist := [ {| mval := n; mview := vbot |} ]; ths := repeat {| pc := T0; th := thr0 |} n;
     race := false; deleted := 0 |}.

Inductive ev := EAccess (u : nat) | EDec (u : nat) | EFence (u : nat) | EDelete (u : nat).

Fixpoint upd {A} (l : list A) (i : nat) (x : A) : list A :=
  match l, i with
  | [], _ => []
  | _ :: r, 0 => x :: r
  | y :: r, S j => y :: upd r j x
  end.

Definition accessed (t : tst) : bool := match pc t with T0 => false | _ => true end.

(* the deleter must have seen the access of every holder that made one *)
Fixpoint sees_all (v : view) (l : list tst) (i : nat) : bool :=
  match l with
  | [] => true
  | t :: r => Nat.eqb (v (S i)) (if accessed t then 1 else 0) && sees_all v r (S i)
  end.

Section Machine.
Variables o_dec o_fence : mo.

Definition step (s : st) (e : ev) : option st :=
  match e with
  | EAccess u =>
      match nth_error (ths s) u with
      | Some t =>
          match pc t with
          | T0 =>
              let '(r, _, t') := na_access (th t) (S u) 0 in
              Some {| hist := hist s; ths := upd (ths s) u {| pc := T1; th := t' |};
                      race := race s || r; deleted := deleted s |}
          | _ => None
          end
      | None => None
      end
  | EDec u =>
      match nth_error (ths s) u with
      | Some t =>
          match pc t with
          | T1 =>
              let m := last_msg (hist s) in
              match mval m with
              | 0 => None                                   (* underflow: never reachable *)
              | S v =>
                  let '(t', nm) := rmw_write (th t) o_dec (length (hist s)) m v in
                  Some {| hist := hist s ++ [nm];
                          ths := upd (ths s) u {| pc := (match v with 0 => T2L | _ => T2 end); th := t' |};
                          race := race s; deleted := deleted s |}
              end
          | _ => None
          end
      | None => None
      end
  | EFence u =>
      match nth_error (ths s) u with
      | Some t =>
          match pc t with
          | T2L => Some {| hist := hist s;
                           ths := upd (ths s) u {| pc := T3; th := if is_acq o_fence then fence_acq (th t) else th t |};
                           race := race s; deleted := deleted s |}
          | _ => None
          end
      | None => None
      end
  | EDelete u =>
      match nth_error (ths s) u with
      | Some t =>
          match pc t with
          | T3 => Some {| hist := hist s; ths := upd (ths s) u {| pc := T4; th := th t |};
                          race := race s || negb (sees_all (cur (th t)) (ths s) 0);
                          deleted := S (deleted s) |}
          | _ => None
          end
      | None => None
      end
  end.

Fixpoint run (s : st) (tr : list ev) : option st :=
  match tr with [] => Some s | e :: r => match step s e with Some s' => run s' r | None => None end end.
End Machine.

Definition side_ok (o_dec o_fence : mo) : bool := is_rel o_dec && (is_acq o_dec || is_acq o_fence).
