(* Harness side of Place: the encoding of the model's predictions as numbers for checks/c05.py.

   obs_c05 rej cel p = [ran; typed; seq_agrees; res (2); final executor; n; ev_1 ... ev_n; m; job_1 ... job_m] where
     rej  = None | Some (x, k): instrumented executor x refuses from its k-th Submit on (Place.rejects_from),
     cel  = On-segments of the coroutine sources, by coroutine id,
     ran  = 1 iff drun is not None, typed = Pipe's typing accepts p, seq_agrees = 1 iff drun = dseq,
     an event = 6 numbers (id, executor, submitted?, input kind, res kind, payload),
     a job    = 4 numbers (step id, executor, index of the submission at that executor, 1 = Call | 0 = Drop). *)
From Coq Require Import List ZArith Bool Arith.
Import ListNotations.
From YV Require Import model.Pipe model.PipeObs model.Place.
Local Open Scope Z_scope.

Definition ce_of (l : list (nat * list (exec * nat))) : coenv :=
  fun id => match find (fun x => Nat.eqb (fst x) id) l with Some x => snd x | None => [] end.

Definition pol_of (rej : option (nat * nat)) : policy :=
  match rej with Some (x, k) => rejects_from x k | None => static_pol end.

Definition enc_fate (f : fate) : Z := match f with FCall => 1 | FDrop => 0 end.
Definition enc_job (j : job) : list Z := [nz (j_id j); enc_exec (j_exec j); nz (j_idx j); enc_fate (j_fate j)].
Definition enc_ev (e : event) : list Z := nz (ev_id e) :: enc_exec (ev_exec e) :: encb (ev_sub e) :: enc_input (ev_in e).

Definition fate_eqb (a b : fate) : bool := match a, b with FCall, FCall | FDrop, FDrop => true | _, _ => false end.
Definition job_eqb (a b : job) : bool :=
  Nat.eqb (j_id a) (j_id b) && exec_eqb (j_exec a) (j_exec b) && Nat.eqb (j_idx a) (j_idx b) && fate_eqb (j_fate a) (j_fate b).
Definition ev_eqb (a b : event) : bool :=
  Nat.eqb (ev_id a) (ev_id b) && exec_eqb (ev_exec a) (ev_exec b) && Bool.eqb (ev_sub a) (ev_sub b) && input_eqb (ev_in a) (ev_in b).

Fixpoint list_eqb {A} (f : A -> A -> bool) (a b : list A) : bool :=
  match a, b with
  | [], [] => true
  | x :: a', y :: b' => f x y && list_eqb f a' b'
  | _, _ => false
  end.

Definition out_eqb (a b : out) : bool :=
  res_eqb (o_res a) (o_res b) && exec_eqb (o_exec a) (o_exec b) && ty_eqb (o_ty a) (o_ty b) && list_eqb ev_eqb (o_evs a) (o_evs b).

(* st: None = the program as written (a Task is started by the ToFuture() at its end); Some e = the program is a lazy one and is
   started with ToFuture(e) / Detach(e) / Cancel() (Place.dlazy) *)
Definition obs_c05s (st : option exec) (rej : option (nat * nat)) (cel : list (nat * list (exec * nat))) (p : prog) : list Z :=
  let pol := pol_of rej in
  let ce := ce_of cel in
  match dstart pol ce dinit st p with
  | Some (o, s) =>
      [1; encb (match st with None => tyb p | Some _ => tyb p && lazy_prog p end); 1] ++ enc_res (o_res o) ++ [enc_exec (o_exec o)] ++
      [nz (length (o_evs o))] ++ flat_map enc_ev (o_evs o) ++ [nz (length s)] ++ flat_map enc_job s
  | None => [0; encb (tyb p)]
  end.

Definition obs_c05 (rej : option (nat * nat)) (cel : list (nat * list (exec * nat))) (p : prog) : list Z :=
  let pol := pol_of rej in
  let ce := ce_of cel in
  match drun pol ce dinit p with
  | Some (o, s) =>
      let '(o', s') := dseq pol ce dinit p in
      [1; encb (tyb p); encb (out_eqb o o' && list_eqb job_eqb s s')] ++ enc_res (o_res o) ++ [enc_exec (o_exec o)] ++
      [nz (length (o_evs o))] ++ flat_map enc_ev (o_evs o) ++ [nz (length s)] ++ flat_map enc_job s
  | None => [0; encb (tyb p)]
  end.

(* several cases in one evaluation: each segment is prefixed by its length *)
Definition obs_c05_many (l : list (option exec * option (nat * nat) * list (nat * list (exec * nat)) * prog)) : list Z :=
  flat_map (fun c => let '(st, rej, cel, p) := c in
                     let o := match st with None => obs_c05 rej cel p | Some _ => obs_c05s st rej cel p end in
                     nz (length o) :: o) l.
