(* CoMutex.v — yaclib::Mutex<Batching, FIFO> (include/yaclib/coro/mutex.hpp, coro/detail/mutex_awaiter.hpp, coro/guard.hpp,
   coro/guard_sticky.hpp) as a transition system at the granularity of one atomic operation on the sender word, for
   ANY number of coroutines (the length of [cos]; a parameter of [init]) doing any number of lock / unlock rounds in
   any of the forms, on executors whose worker threads are explicit slots ([wexe]: the executor each worker serves), so
   that "one worker" means something: a parked coroutine is on no worker.

   Source being modelled (mutex.hpp of the pinned tree; MutexImpl<FIFO, Batching>):

     TryLockAwait   (await_ready of Lock/Guard/GuardSticky; TryLock; TryGuard)            mutex.hpp:17-22
        _sender.load(relaxed) == kNotLocked                                 ETLoad c v
        && _sender.compare_exchange_strong(kNotLocked, kLockedNoWaiters)    ETCas c ok
     AwaitLock      (await_suspend of Lock/Guard/GuardSticky)                             mutex.hpp:24-40
        expected = _sender.load(relaxed)                                    ELLoad c v
        loop: expected == kNotLocked:  CAS_weak(expected, kLockedNoWaiters) ELCasN c     (success: not suspended)
              else curr.next = expected; CAS_weak(expected, &curr)          EPush c      (success: suspended)
              a failed CAS (really or spuriously) reloads expected          ELFail c v
     LockStickyAwaiter: await_ready sets guard._executor = nullptr; await_suspend sets it to the coroutine's executor,
        and back to nullptr when AwaitLock did not suspend                                guard_sticky.hpp:17-31
     TryUnlockAwait                                                                       mutex.hpp:42-50
        YACLIB_ASSERT(_sender.load(relaxed) != kNotLocked)                  ERAssert c v  (debug builds: config F)
        if (_receiver != nullptr) return false                              ERCheck c empty
        _sender.load(relaxed) == kLockedNoWaiters                           ERLoad c v
        && _sender.compare_exchange_strong(kLockedNoWaiters, kNotLocked)    ERCas c ok
     UnlockAwaiter::await_ready (co_await Unlock()): TryUnlockAwait, else if BatchingPossible (Batching && _receiver)
        await_suspend -> AwaitUnlock, else UnlockHereAwait                                mutex.hpp:142-156
     UnlockHere: TryUnlockAwait, else UnlockHereAwait                                     mutex.hpp:101-105
     UnlockHereAwait: next = GetHead(); _receiver = next.next; next._executor->Submit(next)   ERSubmitNext c n e
     GetHead: _receiver if not null, else _sender.exchange(kLockedNoWaiters), reversed when FIFO   ERXchg c old
     AwaitUnlock: next = *_receiver; _receiver = next.next; swap(curr._executor, next._executor);
        curr._executor->Submit(curr)                                        ERBatchSubmit c e
        transfer to next                                                    ERTransfer c n
     AwaitUnlockOn(curr, e): curr_executor = exchange(curr._executor, e); e.Submit(curr)   ERSelf c e
        TryUnlockAwait -> suspend; else next = GetHead();
        Batching && _receiver != nullptr: _receiver = next.next; next._executor = curr_executor; transfer   ERTransfer c n
        else _receiver = next.next; next._executor->Submit(next)            ERSubmitNext c n e
     UnlockStickyAwaiter: guard._executor == nullptr ? UnlockHere : AwaitUnlockOn on guard._executor   guard_sticky.hpp:44-58
     Guard objects (guard.hpp): Guard::TryLock() = TryLockAwait (ETryBegin ...), Guard::Lock() = the Lock awaiter,
        StickyGuard::Lock() = LockStickyAwaiter (EReq c true); the guard's owns bit is the coroutine owning the lock
        (pc PGot / PIn): a failed TryLock leaves it at POut, and only an owner can start a release (ELeave)

   The sender word is [NotLocked] or [Locked l], l = the LIFO list of newly pushed waiters ([Locked []] is
   kLockedNoWaiters = 0); the receiver list is a plain field.  A value of the word seen by a thread is a [ptr].
   The release procedure of coroutine c is a separate activity [rel c] running on a worker: after
   AwaitUnlockOn / AwaitUnlock have resubmitted c, c itself may already run elsewhere while the tail of its release
   is still executing.

   One deliberate simplification of plain (non-atomic) code order: `_receiver = next.next` is performed by the model
   in the event that hands [next] over (ERSubmitNext / ERTransfer), also in AwaitUnlock where the source pops before
   Submit(curr).  _receiver is read and written only by the release activity itself, so the order is not observable.

   [step] returns [None] where the real code would dereference null / resume a coroutine that is not suspended / fail
   its assertion, and where an event does not fit the code.  Fields under "ghost" are history, never read by the
   protocol.  No proofs in this file. *)
From Coq Require Import List Arith Bool.
Import ListNotations.

Inductive word := NotLocked | Locked (l : list nat).
Inductive ptr := PN | PL | PW (c : nat).

Definition head (w : word) : ptr :=
  match w with NotLocked => PN | Locked [] => PL | Locked (c :: _) => PW c end.
Definition waiters (w : word) : list nat := match w with NotLocked => [] | Locked l => l end.
Definition ptr_eqb (a b : ptr) : bool :=
  match a, b with
  | PN, PN | PL, PL => true
  | PW x, PW y => Nat.eqb x y
  | _, _ => false
  end.
Definition is_free (w : word) : bool := match w with NotLocked => true | _ => false end.
Definition is_locked_empty (w : word) : bool := match w with Locked [] => true | _ => false end.
Definition nonempty {A} (l : list A) : bool := match l with [] => false | _ => true end.

(* what the program calls to unlock *)
Inductive uform := UAwait | UOn (e : nat) | UHere | USticky.
(* which release procedure runs: UnlockAwaiter / UnlockHere / AwaitUnlockOn (old = the executor the coroutine had) *)
Inductive rform := RAwait | RHere | ROn (old : nat).
(* TryLockAwait is the front of: TryLock/TryGuard, Lock/Guard (sticky = false), GuardSticky (sticky = true) *)
Inductive tkind := TTry | TLock (sticky : bool).

Inductive pcs :=
| POut                          (* not holding, not requesting *)
| PTry (k : tkind)              (* TryLockAwait: before the load *)
| PTryCas (k : tkind)           (* the load saw kNotLocked: before the strong CAS *)
| PLock0 (sticky : bool)        (* AwaitLock: before the initial load *)
| PLoop (sticky : bool) (e : ptr) (* AwaitLock: in the loop, e = expected *)
| PParked                       (* pushed itself: suspended in the mutex *)
| PGot (queued : bool)          (* the lock is its own (by CAS, or handed over: queued = true); CS not yet entered *)
| PIn                           (* inside the critical section *)
| PRel                          (* inside its unlock call (see rel) *)
| PDone.

Inductive rpc :=
| RSelf (e : nat)               (* AwaitUnlockOn: before e.Submit(curr) *)
| RAssert                       (* TryUnlockAwait: before the asserting load *)
| RCheck                        (* before `if (_receiver != nullptr)` *)
| RLoad                         (* receiver empty: before the second load *)
| RCas                          (* the load saw kLockedNoWaiters: before the strong CAS *)
| RHead                         (* GetHead with an empty receiver: before the exchange *)
| RNext (had : bool)            (* next = head of the receiver; had: the receiver was non-empty before GetHead *)
| RBatch                        (* AwaitUnlock: before Submit(curr) *)
| RXfer (n : nat).              (* AwaitUnlock: curr resubmitted, about to transfer to n *)

Inductive locs := LQueued | LRun (w : nat) | LNone.   (* in its executor's queue / on worker w / suspended or gone *)

Record co := {
  pc : pcs; loc : locs;
  exe : nat;                              (* promise._executor *)
  sticky : option nat;                    (* StickyGuard::_executor *)
  nreq : nat;                             (* ghost: number of requests it has made *)
  rel : option (rform * rpc * nat)        (* its release procedure in progress: form, stage, worker *)
}.

Record st := {
  fifo : bool; batching : bool;
  wexe : list nat;                        (* worker slot -> the executor it serves *)
  cos : list co;
  sender : word;
  receiver : list nat;
  (* ghost *)
  pushed : list nat;                      (* in the order of the successful pushing CASes (arrival) *)
  handed : list nat;                      (* waiters in the order the lock was handed to them *)
  inflight : list nat;                    (* handed, critical section not yet entered *)
  entered : list (nat * bool);            (* critical-section entries in order; true: the coroutine had queued *)
  grants : list (nat * nat);              (* (coroutine, its request number) at each entry *)
  tries : list (nat * bool)               (* every TryLock/TryGuard answer *)
}.

Inductive ev :=
| EStart (w c : nat)                      (* worker w takes c out of its executor's queue and resumes it *)
| EFinish (c : nat)
| EHop (c e : nat)                        (* co_await On(e), outside or inside the critical section *)
| EReq (c : nat) (sticky : bool)          (* co_await Lock()/Guard() (false) or GuardSticky() (true) begins *)
| ETryBegin (c : nat)                     (* TryLock()/TryGuard() begins *)
| ETLoad (c : nat) (v : ptr)
| ETCas (c : nat) (ok : bool)
| ELLoad (c : nat) (v : ptr)
| ELCasN (c : nat)
| EPush (c : nat)
| ELFail (c : nat) (v : ptr)
| EEnter (c : nat)
| ELeave (c : nat) (u : uform)
| ERSelf (c e : nat)
| ERAssert (c : nat) (v : ptr)
| ERCheck (c : nat) (empty : bool)
| ERLoad (c : nat) (v : ptr)
| ERCas (c : nat) (ok : bool)
| ERXchg (c : nat) (old : ptr)
| ERSubmitNext (c n e : nat)
| ERBatchSubmit (c e : nat)
| ERTransfer (c n : nat)
| EFresh (c : nat).                       (* a StickyGuard object is constructed (std::defer_lock): its _executor = nullptr *)

Fixpoint set_nth {A} (n : nat) (v : A) (l : list A) {struct l} : list A :=
  match l, n with
  | [], _ => []
  | _ :: r, 0 => v :: r
  | x :: r, S k => x :: set_nth k v r
  end.

Definition get (s : st) (c : nat) : option co := nth_error (cos s) c.

Definition set_co (c : nat) (v : co) (s : st) : st :=
  {| fifo := fifo s; batching := batching s; wexe := wexe s; cos := set_nth c v (cos s); sender := sender s;
     receiver := receiver s; pushed := pushed s; handed := handed s; inflight := inflight s; entered := entered s;
     grants := grants s; tries := tries s |}.
Definition set_sender (w : word) (s : st) : st :=
  {| fifo := fifo s; batching := batching s; wexe := wexe s; cos := cos s; sender := w;
     receiver := receiver s; pushed := pushed s; handed := handed s; inflight := inflight s; entered := entered s;
     grants := grants s; tries := tries s |}.
Definition set_receiver (r : list nat) (s : st) : st :=
  {| fifo := fifo s; batching := batching s; wexe := wexe s; cos := cos s; sender := sender s;
     receiver := r; pushed := pushed s; handed := handed s; inflight := inflight s; entered := entered s;
     grants := grants s; tries := tries s |}.
Definition add_pushed (c : nat) (s : st) : st :=
  {| fifo := fifo s; batching := batching s; wexe := wexe s; cos := cos s; sender := sender s;
     receiver := receiver s; pushed := pushed s ++ [c]; handed := handed s; inflight := inflight s;
     entered := entered s; grants := grants s; tries := tries s |}.
Definition add_handed (n : nat) (s : st) : st :=
  {| fifo := fifo s; batching := batching s; wexe := wexe s; cos := cos s; sender := sender s;
     receiver := receiver s; pushed := pushed s; handed := handed s ++ [n]; inflight := inflight s ++ [n];
     entered := entered s; grants := grants s; tries := tries s |}.
Fixpoint remove_nat (x : nat) (l : list nat) : list nat :=
  match l with [] => [] | y :: r => if Nat.eqb y x then r else y :: remove_nat x r end.
Definition add_entered (c : nat) (q : bool) (r : nat) (s : st) : st :=
  {| fifo := fifo s; batching := batching s; wexe := wexe s; cos := cos s; sender := sender s;
     receiver := receiver s; pushed := pushed s; handed := handed s;
     inflight := (if q then remove_nat c (inflight s) else inflight s);
     entered := entered s ++ [(c, q)]; grants := grants s ++ [(c, r)]; tries := tries s |}.
Definition add_try (c : nat) (b : bool) (s : st) : st :=
  {| fifo := fifo s; batching := batching s; wexe := wexe s; cos := cos s; sender := sender s;
     receiver := receiver s; pushed := pushed s; handed := handed s; inflight := inflight s; entered := entered s;
     grants := grants s; tries := tries s ++ [(c, b)] |}.

Definition upd_pc (p : pcs) (x : co) : co :=
  {| pc := p; loc := loc x; exe := exe x; sticky := sticky x; nreq := nreq x; rel := rel x |}.
Definition upd_loc (l : locs) (x : co) : co :=
  {| pc := pc x; loc := l; exe := exe x; sticky := sticky x; nreq := nreq x; rel := rel x |}.
Definition upd_exe (e : nat) (x : co) : co :=
  {| pc := pc x; loc := loc x; exe := e; sticky := sticky x; nreq := nreq x; rel := rel x |}.
Definition upd_sticky (o : option nat) (x : co) : co :=
  {| pc := pc x; loc := loc x; exe := exe x; sticky := o; nreq := nreq x; rel := rel x |}.
Definition upd_rel (r : option (rform * rpc * nat)) (x : co) : co :=
  {| pc := pc x; loc := loc x; exe := exe x; sticky := sticky x; nreq := nreq x; rel := r |}.
Definition inc_req (x : co) : co :=
  {| pc := pc x; loc := loc x; exe := exe x; sticky := sticky x; nreq := S (nreq x); rel := rel x |}.

Definition running (x : co) : bool := match loc x with LRun _ => true | _ => false end.

(* worker w runs nothing: no coroutine and no release procedure is on it *)
Definition on_worker (w : nat) (x : co) : bool :=
  (match loc x with LRun w' => Nat.eqb w w' | _ => false end) ||
  (match rel x with Some (_, _, w') => Nat.eqb w w' | None => false end).
Definition idle (s : st) (w : nat) : bool := negb (existsb (on_worker w) (cos s)).

(* TryLockAwait answered false *)
Definition try_failed (c : nat) (x : co) (k : tkind) (s : st) : st :=
  match k with
  | TTry => add_try c false (set_co c (upd_pc POut x) s)
  | TLock b => set_co c (upd_pc (PLock0 b) x) s
  end.

(* TryUnlockAwait answered false: which way the release continues (mutex.hpp:146-150, 102-104, 82-93) *)
Definition slow_stage (s : st) (f : rform) : rpc :=
  match f with
  | RAwait => if batching s && nonempty (receiver s) then RBatch
              else if nonempty (receiver s) then RNext true else RHead
  | _ => if nonempty (receiver s) then RNext true else RHead
  end.

(* the release procedure of c ends without a hand-over to run on this thread: a synchronous form returns to the
   coroutine, AwaitUnlockOn suspends (the worker becomes free) *)
Definition end_rel (f : rform) (x : co) : co :=
  match f with
  | ROn _ => upd_rel None x
  | _ => upd_rel None (upd_pc POut x)
  end.

(* the lock is handed to the parked coroutine n (head of the receiver) *)
Definition hand (n : nat) (l : locs) (e : option nat) (s : st) : option st :=
  match receiver s with
  | n' :: rest =>
      if Nat.eqb n n' then
        match get s n with
        | Some y =>
            match pc y with
            | PParked =>
                let y1 := upd_loc l (upd_pc (PGot true) y) in
                let y2 := match e with Some e' => upd_exe e' y1 | None => y1 end in
                Some (add_handed n (set_receiver rest (set_co n y2 s)))
            | _ => None                                   (* resuming a coroutine that is not suspended *)
            end
        | None => None
        end
      else None
  | [] => None                                            (* *_receiver with _receiver == nullptr *)
  end.

Definition step (s : st) (e : ev) : option st :=
  match e with
  (* ---- executors ---- *)
  | EStart w c =>
      match get s c, nth_error (wexe s) w with
      | Some x, Some ex =>
          match loc x with
          | LQueued => if Nat.eqb ex (exe x) && idle s w then Some (set_co c (upd_loc (LRun w) x) s) else None
          | _ => None
          end
      | _, _ => None
      end
  | EFinish c =>
      match get s c with
      | Some x => match pc x, loc x with
                  | POut, LRun _ => Some (set_co c (upd_loc LNone (upd_pc PDone x)) s)
                  | _, _ => None end
      | None => None
      end
  | EHop c e' =>
      match get s c with
      | Some x => match pc x, loc x with
                  | POut, LRun _ | PIn, LRun _ => Some (set_co c (upd_loc LQueued (upd_exe e' x)) s)
                  | _, _ => None end
      | None => None
      end
  (* ---- locking ---- *)
  | EReq c b =>
      match get s c with
      | Some x => match pc x, loc x with
                  | POut, LRun _ =>
                      let x1 := inc_req (upd_pc (PTry (TLock b)) x) in
                      Some (set_co c (if b then upd_sticky None x1 else x1) s)
                  | _, _ => None end
      | None => None
      end
  | ETryBegin c =>
      match get s c with
      | Some x => match pc x, loc x with
                  | POut, LRun _ => Some (set_co c (inc_req (upd_pc (PTry TTry) x)) s)
                  | _, _ => None end
      | None => None
      end
  | ETLoad c v =>
      match get s c with
      | Some x => match pc x with
                  | PTry k =>
                      if ptr_eqb v (head (sender s)) then
                        match v with
                        | PN => Some (set_co c (upd_pc (PTryCas k) x) s)
                        | _ => Some (try_failed c x k s)
                        end
                      else None
                  | _ => None end
      | None => None
      end
  | ETCas c ok =>
      match get s c with
      | Some x => match pc x with
                  | PTryCas k =>
                      if Bool.eqb ok (is_free (sender s)) then
                        if ok then
                          let s1 := set_sender (Locked []) (set_co c (upd_pc (PGot false) x) s) in
                          Some (match k with TTry => add_try c true s1 | _ => s1 end)
                        else Some (try_failed c x k s)
                      else None                           (* a strong CAS fails only if the value differs *)
                  | _ => None end
      | None => None
      end
  | ELLoad c v =>
      match get s c with
      | Some x => match pc x with
                  | PLock0 b =>
                      if ptr_eqb v (head (sender s)) then
                        let x1 := upd_pc (PLoop b v) x in
                        Some (set_co c (if b then upd_sticky (Some (exe x)) x1 else x1) s)
                      else None
                  | _ => None end
      | None => None
      end
  | ELCasN c =>
      match get s c with
      | Some x => match pc x with
                  | PLoop b PN =>
                      if is_free (sender s) then
                        let x1 := upd_pc (PGot false) x in
                        Some (set_sender (Locked []) (set_co c (if b then upd_sticky None x1 else x1) s))
                      else None
                  | _ => None end
      | None => None
      end
  | EPush c =>
      match get s c with
      | Some x => match pc x with
                  | PLoop b e0 =>
                      match e0, sender s with
                      | PN, _ | _, NotLocked => None
                      | _, Locked l =>
                          if ptr_eqb e0 (head (sender s)) then
                            (* curr.next = expected: the new list is curr :: the list expected heads *)
                            Some (add_pushed c (set_sender (Locked (c :: l))
                                                  (set_co c (upd_loc LNone (upd_pc PParked x)) s)))
                          else None
                      end
                  | _ => None end
      | None => None
      end
  | ELFail c v =>
      match get s c with
      | Some x => match pc x with
                  | PLoop b _ => if ptr_eqb v (head (sender s)) then Some (set_co c (upd_pc (PLoop b v) x) s) else None
                  | _ => None end
      | None => None
      end
  | EEnter c =>
      match get s c with
      | Some x => match pc x, loc x with
                  | PGot q, LRun _ => Some (add_entered c q (nreq x) (set_co c (upd_pc PIn x) s))
                  | _, _ => None end
      | None => None
      end
  (* ---- unlocking ---- *)
  | ELeave c u =>
      match get s c with
      | Some x =>
          match pc x, loc x, rel x with
          | PIn, LRun w, None =>
              let r := match u with
                       | UAwait => (RAwait, RAssert, w)
                       | UHere => (RHere, RAssert, w)
                       | UOn e' => (ROn (exe x), RSelf e', w)
                       | USticky => match sticky x with
                                    | Some e' => (ROn (exe x), RSelf e', w)
                                    | None => (RHere, RAssert, w)
                                    end
                       end in
              Some (set_co c (upd_rel (Some r) (upd_pc PRel x)) s)
          | _, _, _ => None
          end
      | None => None
      end
  | ERSelf c e' =>
      match get s c with
      | Some x => match rel x with
                  | Some (ROn old, RSelf e'', w) =>
                      if Nat.eqb e' e'' then
                        Some (set_co c (upd_rel (Some (ROn old, RAssert, w))
                                          (upd_loc LQueued (upd_exe e' (upd_pc POut x)))) s)
                      else None
                  | _ => None end
      | None => None
      end
  | ERAssert c v =>
      match get s c with
      | Some x => match rel x with
                  | Some (f, RAssert, w) =>
                      if ptr_eqb v (head (sender s)) then
                        match v with
                        | PN => None                      (* YACLIB_ASSERT(_sender != kNotLocked) *)
                        | _ => Some (set_co c (upd_rel (Some (f, RCheck, w)) x) s)
                        end
                      else None
                  | _ => None end
      | None => None
      end
  | ERCheck c b =>
      match get s c with
      | Some x => match rel x with
                  | Some (f, RCheck, w) =>
                      if Bool.eqb b (negb (nonempty (receiver s))) then
                        Some (set_co c (upd_rel (Some (f, if b then RLoad else slow_stage s f, w)) x) s)
                      else None
                  | _ => None end
      | None => None
      end
  | ERLoad c v =>
      match get s c with
      | Some x => match rel x with
                  | Some (f, RLoad, w) =>
                      if ptr_eqb v (head (sender s)) then
                        Some (set_co c (upd_rel (Some (f, match v with PL => RCas | _ => slow_stage s f end, w)) x) s)
                      else None
                  | _ => None end
      | None => None
      end
  | ERCas c ok =>
      match get s c with
      | Some x => match rel x with
                  | Some (f, RCas, w) =>
                      if Bool.eqb ok (is_locked_empty (sender s)) then
                        if ok then Some (set_sender NotLocked (set_co c (end_rel f x) s))
                        else Some (set_co c (upd_rel (Some (f, slow_stage s f, w)) x) s)
                      else None
                  | _ => None end
      | None => None
      end
  | ERXchg c old =>
      match get s c with
      | Some x => match rel x with
                  | Some (f, RHead, w) =>
                      if ptr_eqb old (head (sender s)) then
                        match sender s with
                        | Locked (n :: l) =>
                            Some (set_receiver (if fifo s then rev (n :: l) else n :: l)
                                    (set_sender (Locked []) (set_co c (upd_rel (Some (f, RNext false, w)) x) s)))
                        | _ => None                       (* node->next on null / on kNotLocked *)
                        end
                      else None
                  | _ => None end
      | None => None
      end
  | ERSubmitNext c n e' =>
      match get s c with
      | Some x =>
          match rel x with
          | Some (f, RNext had, w) =>
              let submit := match f with ROn _ => negb (batching s && had) | _ => true end in
              if submit then
                let s1 := set_co c (end_rel f x) s in
                match get s1 n with
                | Some y => if Nat.eqb e' (exe y) then hand n LQueued None s1 else None
                | None => None
                end
              else None
          | _ => None
          end
      | None => None
      end
  | ERBatchSubmit c e' =>
      match get s c with
      | Some x =>
          match rel x, receiver s with
          | Some (RAwait, RBatch, w), n :: _ =>
              match get s n with
              | Some y =>
                  if Nat.eqb e' (exe y) then
                    (* curr._executor.Swap(next._executor); curr._executor->Submit(curr) *)
                    let x1 := upd_rel (Some (RAwait, RXfer n, w)) (upd_loc LQueued (upd_exe (exe y) (upd_pc POut x))) in
                    let s1 := set_co c x1 s in
                    match get s1 n with
                    | Some y1 => Some (set_co n (upd_exe (exe x) y1) s1)
                    | None => None
                    end
                  else None
              | None => None
              end
          | _, _ => None
          end
      | None => None
      end
  | ERTransfer c n =>
      match get s c with
      | Some x =>
          match rel x with
          | Some (ROn old, RNext had, w) =>
              if batching s && had then hand n (LRun w) (Some old) (set_co c (upd_rel None x) s) else None
          | Some (RAwait, RXfer n', w) =>
              if Nat.eqb n n' then hand n (LRun w) None (set_co c (upd_rel None x) s) else None
          | _ => None
          end
      | None => None
      end
  (* ---- guard objects ---- *)
  | EFresh c =>
      (* StickyGuard(m, std::defer_lock): `IExecutor* _executor = nullptr` (guard_sticky.hpp); a guard object that is kept
         and reused keeps whatever executor an earlier GuardSticky()/Lock() left in it *)
      match get s c with
      | Some x => match pc x, loc x with
                  | POut, LRun _ => Some (set_co c (upd_sticky None x) s)
                  | _, _ => None end
      | None => None
      end
  end.

Definition init_co (home : nat) : co :=
  {| pc := POut; loc := LQueued; exe := home; sticky := None; nreq := 0; rel := None |}.

(* every coroutine has done `co_await On(home)`: it is in its executor's queue *)
Definition init (fifo_ batching_ : bool) (workers homes : list nat) : st :=
  {| fifo := fifo_; batching := batching_; wexe := workers; cos := map init_co homes; sender := NotLocked;
     receiver := []; pushed := []; handed := []; inflight := []; entered := []; grants := []; tries := [] |}.

Fixpoint run (s : st) (tr : list ev) : option st :=
  match tr with
  | [] => Some s
  | e :: r => match step s e with Some s' => run s' r | None => None end
  end.

(* ---- vocabulary of the property statements ------------------------------------------------------------- *)
Definition sumf {A} (f : A -> nat) (l : list A) : nat := list_sum (map f l).

(* the lock token: a coroutine that owns the lock (acquired or handed over and not yet inside, or inside), or a release
   procedure that has not yet given it up *)
Definition holds (x : co) : nat := match pc x with PGot _ | PIn => 1 | _ => 0 end.
Definition releasing (x : co) : nat := match rel x with Some _ => 1 | None => 0 end.
Definition tok (x : co) : nat := holds x + releasing x.
Definition tokens (s : st) : nat := sumf tok (cos s).
Definition inside (x : co) : nat := match pc x with PIn => 1 | _ => 0 end.
Definition parked (x : co) : bool := match pc x with PParked => true | _ => false end.

(* nothing runs and nothing is runnable: every worker is idle and every executor queue is empty *)
Definition passive (x : co) : bool :=
  match loc x, rel x with LNone, None => true | _, _ => false end.
Definition quiescent (s : st) : bool := forallb passive (cos s).

(* entries of coroutines that had queued, in order *)
Definition entered_q (s : st) : list nat := map fst (filter snd (entered s)).

(* the event a running activity executes next ("never blocks"): of coroutine c on its worker ... *)
Definition co_ev (s : st) (c : nat) (x : co) : option ev :=
  match loc x with
  | LRun _ =>
      match pc x with
      | POut => Some (EFinish c)
      | PTry _ => Some (ETLoad c (head (sender s)))
      | PTryCas _ => Some (ETCas c (is_free (sender s)))
      | PLock0 _ => Some (ELLoad c (head (sender s)))
      | PLoop _ PN => Some (if is_free (sender s) then ELCasN c else ELFail c (head (sender s)))
      | PLoop _ e => Some (if ptr_eqb e (head (sender s)) then EPush c else ELFail c (head (sender s)))
      | PGot _ => Some (EEnter c)
      | PIn => Some (ELeave c UHere)                      (* "every holder releases" *)
      | PRel | PParked | PDone => None
      end
  | _ => None
  end.
(* ... and of the release procedure of c *)
Definition rel_ev (s : st) (c : nat) (x : co) : option ev :=
  match rel x with
  | None => None
  | Some (f, stg, w) =>
      Some (match stg with
            | RSelf e => ERSelf c e
            | RAssert => ERAssert c (head (sender s))
            | RCheck => ERCheck c (negb (nonempty (receiver s)))
            | RLoad => ERLoad c (head (sender s))
            | RCas => ERCas c (is_locked_empty (sender s))
            | RHead => ERXchg c (head (sender s))
            | RNext had =>
                let n := hd 0 (receiver s) in
                let e := match nth_error (cos s) n with Some y => exe y | None => 0 end in
                match f with
                | ROn _ => if batching s && had then ERTransfer c n else ERSubmitNext c n e
                | _ => ERSubmitNext c n e
                end
            | RBatch =>
                let n := hd 0 (receiver s) in
                ERBatchSubmit c (match nth_error (cos s) n with Some y => exe y | None => 0 end)
            | RXfer n => ERTransfer c n
            end)
  end.
