(* Harness side of Pipe: the callback bodies the harness functors implement (harness/h_c02_lib.hpp FnBase::Body), and the
   encoding of the model's predictions as numbers for checks/c02.py.

   obs_z p = [compiles; typed; seq_agrees; res; n; ev_1; ...; ev_n] where
     compiles   = 1 iff core_run p is not None,
     typed      = 1 iff the typing of Pipe.v accepts p (bodies probed at one argument: harness bodies have a fixed shape),
     seq_agrees = 1 iff obs (core_run p) = obs (seq_eval p),
     res        = 2 numbers (kind, payload), an event = 4 numbers (id, input kind, res kind, payload),
   all taken from core_run (from seq_eval when core_run is None).   *)
From Coq Require Import List ZArith Bool Arith.
Import ListNotations.
From YV Require Import model.Pipe.
Local Open Scope Z_scope.

(* FnBase::Body: d = Digest(argument); then by mode *)
Inductive beh :=
| BThrow (k : Z)                 (* throw Ex{d + k} *)
| BRetI (k : Z)                  (* return d + k *)
| BRetV                          (* return; *)
| BResVal (void : bool) (k : Z)  (* return Result{d + k} / Result<void>{Unit{}} *)
| BResErr (k : Z)                (* return Result{Err{d + k}} *)
| BResExc (k : Z)                (* return Result{make_exception_ptr(Ex{d + k})} *)
| BAsync (a : akind) (p : prog). (* return the handle built by p *)

Definition digest_res (r : res) : Z :=
  match r with
  | Val (VInt z) => z
  | Val VUnit => 0
  | Err e => 100 + e
  | Exc x => 200 + x
  end.

Definition digest (i : input) : Z :=
  match i with
  | IRes r => digest_res r
  | IVal (VInt z) => z
  | IVal VUnit => 0
  | IErr e => 100 + e
  | IExc x => 200 + x
  | INone | IUnit => 0
  end.

Definition hb (b : beh) : input -> outcome :=
  fun i =>
    let d := digest i in
    match b with
    | BThrow k => Throw (d + k)
    | BRetI k => RetV (VInt (d + k))
    | BRetV => RetVoid
    | BResVal false k => RetRes (Val (VInt (d + k)))
    | BResVal true _ => RetRes (Val VUnit)
    | BResErr k => RetRes (Err (d + k))
    | BResExc k => RetRes (Exc (d + k))
    | BAsync a p => RetAsync a p
    end.

(* ---- boolean typing, bodies probed at INone *)
Definition ty_of_pair (o : option (wkind * ty)) (k : akind) (rt : ty) : bool :=
  match o with
  | Some (w, t) => akind_eqb (akind_of w) k && ty_eqb t rt
  | None => false
  end.

Fixpoint tyb (p : prog) : bool :=
  match prog_ty p with
  | None => false
  | Some _ =>
      match p with
      | PRun _ _ _ _ rt body => tyb_o rt (body INone)
      | PThen q _ _ _ rt body => tyb q && tyb_o rt (body INone)
      | PToFuture q => tyb q
      | POnNull q => tyb q
      | _ => true
      end
  end
with tyb_o (rt : ty) (o : outcome) : bool :=
  match o with
  | Throw _ => true
  | RetV (VInt _) => ty_eqb rt TInt
  | RetV VUnit => false
  | RetVoid => ty_eqb rt TVoid
  | RetRes r => res_has_ty rt r
  | RetAsync k p' => tyb p' && ty_of_pair (prog_ty p') k rt
  end.

(* ---- decidable equality of observables *)
Definition val_eqb (a b : val) : bool :=
  match a, b with
  | VInt x, VInt y => Z.eqb x y
  | VUnit, VUnit => true
  | _, _ => false
  end.

Definition res_eqb (a b : res) : bool :=
  match a, b with
  | Val x, Val y => val_eqb x y
  | Err x, Err y => Z.eqb x y
  | Exc x, Exc y => Z.eqb x y
  | _, _ => false
  end.

Definition input_eqb (a b : input) : bool :=
  match a, b with
  | IRes x, IRes y => res_eqb x y
  | IVal x, IVal y => val_eqb x y
  | IErr x, IErr y => Z.eqb x y
  | IExc x, IExc y => Z.eqb x y
  | INone, INone | IUnit, IUnit => true
  | _, _ => false
  end.

Fixpoint calls_eqb (a b : list (nat * input)) : bool :=
  match a, b with
  | [], [] => true
  | (i, x) :: a', (j, y) :: b' => Nat.eqb i j && input_eqb x y && calls_eqb a' b'
  | _, _ => false
  end.

Definition obs_eqb (a b : res * list (nat * input)) : bool :=
  res_eqb (fst a) (fst b) && calls_eqb (snd a) (snd b).

(* ---- encoding *)
Definition zn (z : Z) : Z := z.
Definition nz (n : nat) : Z := Z.of_nat n.

Definition enc_res (r : res) : list Z :=
  match r with
  | Val (VInt z) => [0; z]
  | Val VUnit => [1; 0]
  | Err e => [2; e]
  | Exc x => [3; x]
  end.

Definition enc_input (i : input) : list Z :=
  match i with
  | IRes r => 0 :: enc_res r
  | IVal (VInt z) => [1; 0; z]
  | IVal VUnit => [1; 1; 0]
  | IErr e => [2; 2; e]
  | IExc x => [3; 3; x]
  | INone => [4; 1; 0]
  | IUnit => [5; 1; 0]
  end.

Definition enc_exec (e : exec) : Z :=
  match e with XInline => 0 | XManual n => 10 + nz n | XStopped => 2 end.

Definition enc_out (o : out) : list Z :=
  enc_res (o_res o) ++ [nz (length (o_evs o))] ++
  flat_map (fun e => nz (ev_id e) :: enc_input (ev_in e)) (o_evs o).

Definition encb (b : bool) : Z := if b then 1 else 0.

Definition obs_z (p : prog) : list Z :=
  match core_run p with
  | Some o => [1; encb (tyb p); encb (obs_eqb (obs o) (obs (seq_eval p)))] ++ enc_out o
  | None => [0; encb (tyb p); 0] ++ enc_out (seq_eval p)
  end.

(* executor placement of every event, for C05: (id, executor, submitted) *)
Definition obs_place (p : prog) : list Z :=
  match core_run p with
  | Some o => flat_map (fun e => [nz (ev_id e); enc_exec (ev_exec e); encb (ev_sub e)]) (o_evs o)
  | None => []
  end.

(* several programs in one evaluation: each segment is prefixed by its length *)
Definition obs_many (ps : list prog) : list Z :=
  flat_map (fun p => let l := obs_z p in nz (length l) :: l) ps.

(* the table behind Pipe.invocable, for the static_asserts of the generated harness: 7 classes x 2 types x 5 kinds *)
Definition invocable_table : list Z :=
  flat_map (fun p => flat_map (fun t => map (fun a => encb (invocable p t a)) [GResult; GValue; GError; GExc; GUnit])
                              [TInt; TVoid])
           [PResult; PValue; PError; PExc; PNone; PUnit; PAuto].

(* (share ...) cases: the source chain, then each pipeline with the shared handle substituted for its bound variable;
   three length-prefixed obs_z segments, [0] when the source does not run *)
Definition obs_share (src : prog) (mk1 mk2 : prog -> prog) : list Z :=
  match core_run src with
  | Some os =>
      let h := handle_of os in
      flat_map (fun p => let l := obs_z p in nz (length l) :: l) [src; mk1 h; mk2 h]
  | None => [0]
  end.
