(* Event.v — OneShotEvent + the WaitGroup counter on top of it, as a transition system at the granularity of one
   atomic operation, for ANY NUMBER of Add/Done threads, waiters of every kind and attached / consumed futures.

   Source being modelled
     src/algo/one_shot_event.cpp
        TryAdd   : head = load ; while head != kAllDone { job.next = head ; if CAS_weak(head -> &job) return true }
                   return false                                                        (lines 19-29)
        SetImpl  : head = exchange(kAllDone) ; for every job of the list, newest first: next = job->next ; job->Call()
                                                                                       (lines 6-15)
        Ready    : load == kAllDone ;  Wait : Waiter on the stack, TryAdd, sleep until Waiter::Call
     include/yaclib/algo/one_shot_event.hpp
        TimedWait    : heap TimedWaiter with 2 references ; TryAdd ok -> wait_for/until, then the IntrusivePtr drops one
                       reference ; TryAdd failed -> delete it ; TimedWaiter::Call : Set() ; DecRef()   (lines 227-246)
        InlineAwaiter / StickyAwaiter : await_ready = Ready() ; await_suspend = TryAdd (false: continue at once)
        OnAwaiter    : await_suspend : if !TryAdd then Call() ;  ExtendedAwaiter::Call : executor->Submit(coroutine)
     include/yaclib/util/detail/atomic_counter.hpp + set_deleter.hpp
        Add : fetch_add ;  Sub(n) : if fetch_sub(n) == n then Set()                     (lines 23-27, 36-47)
     include/yaclib/algo/wait_group.hpp  InsertRange (lines 229-250)
        Attach / Consume : Add(1) ; SetCallback(core, event's Call/Drop callback) = load(word)==Empty && CAS_strong ;
                           failed (the future already has its result): [Consume: core.DecRef()] ; Done(1)
     include/yaclib/algo/detail/wait_event.hpp
        CallCallback::Here : Sub(1) ;  DropCallback::Here : caller.DecRef() ; Sub(1)    (lines 10-64)
     src/algo/base_core.cpp SetResultImpl : old = exchange(word, kResult) ; if old is a callback, run1 it
     include/yaclib/algo/detail/base_core.hpp  Empty() : word != kResult  (Future::Ready() is its negation)

   The list hanging off the head word is abstracted to [Stack l] (newest first); "job.next = expected head" plus a
   successful CAS on the head pointer is the push [w :: l] (a job is pushed at most once and jobs are only ever
   removed all together by the exchange, so equal head pointers mean equal lists).  Not modelled: OneShotEvent::Call
   and Reset (documented as not thread-safe / not used by WaitGroup), a counter that wraps below zero (flagged
   [broken]), Attach/Consume with NeedAdd=false (explicit Add before the call), the inside of the waiter's mutex +
   condition variable (C18) and of the future's shared state (C01).  One call for several futures is the pair of
   batch operations EFAddN / EFSubN (section "batches" below).
   WaitUntil is WaitFor (same TimedWait).

   Events are what the tracer sees on the real code.  No proofs in this file. *)

From Coq Require Import List Arith Bool.
Import ListNotations.

(* ---- values of the words ---------------------------------------------------------------------------- *)

Inductive hv := HE | HJ (w : nat) | HA.        (* head word: empty / pointer to waiter w's job / all-done sentinel *)
Inductive hd := Stack (l : list nat) | AllDone.
Inductive fword := WE | WC | WR.               (* future's callback word: empty / the group's callback / result *)

Definition top (h : hd) : hv :=
  match h with Stack [] => HE | Stack (w :: _) => HJ w | AllDone => HA end.
Definition hv_eqb (a b : hv) : bool :=
  match a, b with
  | HE, HE | HA, HA => true
  | HJ x, HJ y => Nat.eqb x y
  | _, _ => false
  end.
Definition is_all (h : hd) : bool := match h with AllDone => true | _ => false end.
Definition fword_eqb (a b : fword) : bool :=
  match a, b with WE, WE | WC, WC | WR, WR => true | _, _ => false end.
Definition b2n (b : bool) : nat := if b then 1 else 0.

(* ---- waiters ------------------------------------------------------------------------------------------ *)

Inductive wkind :=
| KBlock      (* Wait(): Waiter on the waiting thread's stack *)
| KTimed      (* WaitFor / WaitUntil: heap TimedWaiter, two references *)
| KInline     (* co_await AwaitInline(): the job is the coroutine, Call resumes it on the setter's thread *)
| KSticky     (* co_await AwaitSticky(): Call submits the coroutine to its own executor *)
| KOn         (* co_await AwaitOn(e): no readiness pre-check; Call submits to e; a failed TryAdd calls Call itself *)
| KJob.       (* a user Job given to OneShotEvent::TryAdd *)

Inductive wpc :=
| W0                 (* created, nothing done yet *)
| WTry               (* await_ready answered false, TryAdd next *)
| WCas (e : hv)      (* inside TryAdd's loop with expected value e *)
| WPass              (* Ready() answered true / TryAdd returned false: proceeds without waiting *)
| WParked            (* TryAdd returned true: the job is in the list *)
| WWoke (b : bool)   (* timed: wait_for returned b *)
| WDecd (b : bool)   (* timed: the waiter's own reference is dropped *)
| WQueued            (* sticky / on: submitted to the executor *)
| WDone              (* released: Wait returned (true) / the coroutine was resumed / the job was called *)
| WTmo.              (* WaitFor returned false *)

Record wrec := {
  wk : wkind;
  pc : wpc;
  reg : bool;        (* the push succeeded *)
  called : bool;     (* Set has invoked this job's Call (for a stack/heap waiter: its flag is set) *)
  edec : bool;       (* timed: the event's reference has been dropped *)
  wdec : bool;       (* timed: the waiter's reference has been dropped *)
  refs : nat;        (* timed: the reference counter *)
  frees : nat;       (* timed: how many times the heap object was destroyed *)
  relc : nat         (* how many times this waiter was released *)
}.

Definition new_w (k : wkind) : wrec :=
  {| wk := k; pc := W0; reg := false; called := false; edec := false; wdec := false;
     refs := (match k with KTimed => 2 | _ => 0 end); frees := 0; relc := 0 |}.

Definition is_coro (k : wkind) : bool :=
  match k with KInline | KSticky => true | _ => false end.

(* ---- futures ------------------------------------------------------------------------------------------ *)

Inductive fkind := FAttach | FConsume.
Inductive apc :=      (* the thread calling Attach / Consume *)
| A0                  (* not yet *)
| A1                  (* Add(1) done; SetCallback's load next *)
| A2                  (* load saw Empty; CAS next *)
| AOk                 (* the group's callback is in the word *)
| AFail               (* the future already had its result: [Consume: DecRef, then] Done(1) *)
| AFailRel            (* Consume: state released, Done(1) next *)
| ADone.              (* Done(1) of the failed path executed *)
Inductive ppc :=      (* the producer *)
| P0 | PStored        (* result stored in the slot, exchange next *)
| PCb                 (* exchange returned the group's callback: [Drop: DecRef, then] Sub(1) *)
| PCbRel              (* Consume: state released, Sub(1) next *)
| PDone.

Record frec := {
  fk : fkind;
  fw : fword;
  ap : apc;
  pp : ppc;
  fval : option nat;   (* None: the Result is not constructed yet *)
  frel : nat;          (* how many times the WaitGroup released the shared state *)
  holds : bool         (* a unit of the count stands for this future *)
}.

Definition new_f (k : fkind) : frec :=
  {| fk := k; fw := WE; ap := A0; pp := P0; fval := None; frel := 0; holds := false |}.

(* ---- state -------------------------------------------------------------------------------------------- *)

Record st := {
  cnt : nat;                   (* the counter *)
  uu : nat;                    (* ghost: units added by plain Add (or the constructor) and not yet handed to Done *)
  fired : bool;                (* ghost: a Sub has brought the count to zero / OneShotEvent::Set has been called *)
  broken : bool;               (* ghost: the documented rule of use has been violated *)
  crash : bool;                (* SetImpl exchanged when the head was already all-done (would dereference the sentinel) *)
  uaf : bool;                  (* a TimedWaiter was touched after it was destroyed *)
  head : hd;
  pend : nat;                  (* threads that saw the count reach zero and have not yet done SetImpl's exchange *)
  todo : list nat;             (* jobs the thread inside SetImpl has still to call, in order *)
  incall : option nat;         (* that thread is inside TimedWaiter::Call of this waiter, before its DecRef *)
  ws : list wrec;
  fs : list frec;
  rels : list (nat * nat * bool);      (* every release: waiter, value of the count, fired *)
  readys : list (nat * bool * bool);   (* every Ready() of an owner: future, answer, word = Result *)
  gots : list (nat * option nat)       (* every value read by an owner: future, value (None = garbage) *)
}.

Definition init (n : nat) : st :=
  {| cnt := n; uu := n; fired := false; broken := false; crash := false; uaf := false;
     head := Stack []; pend := 0; todo := []; incall := None; ws := []; fs := [];
     rels := []; readys := []; gots := [] |}.

Inductive ev :=
(* creation of threads / objects *)
| ENewW (k : wkind)
| ENewF (k : fkind)
(* counter *)
| EAdd (n v : nat)             (* Add(n): fetch_add, counter afterwards = v *)
| ESub (n v : nat)             (* Done(n): fetch_sub, counter afterwards = v *)
| EUserSet                     (* OneShotEvent::Set() called directly *)
(* SetImpl *)
| EXchg (old : hv)             (* exchange(all-done) returned old *)
| ECall (w : nat)              (* job w's Call() *)
| EDecE (w old : nat)          (* TimedWaiter::Call: DecRef, fetch_sub returned old *)
| ERun (w : nat)               (* the executor runs the submitted coroutine *)
(* a waiter *)
| EReadyChk (w : nat) (v : hv) (* await_ready: load *)
| ETryLd (w : nat) (v : hv)    (* TryAdd: first load *)
| ETryCas (w : nat) (a : hv)   (* TryAdd: compare_exchange_weak; head afterwards = a *)
| ERet (w : nat)               (* the waiter proceeds on its own thread: Wait returned / WaitFor returned true /
                                  the coroutine was not suspended / TryAdd returned false to the user *)
| ESelfSubmit (w : nat)        (* OnAwaiter: TryAdd failed, own Call() submits *)
| ETWake (w : nat) (b : bool)  (* timed: wait_for returned b (under the waiter's mutex) *)
| EDecW (w old : nat)          (* timed: the waiter drops its reference, fetch_sub returned old *)
| ETmo (w : nat)               (* WaitFor returned false *)
(* a future given to Attach / Consume *)
| EFAdd (j v : nat)            (* Add(1) inside Attach/Consume *)
| EFLd (j : nat) (v : fword)   (* SetCallback: load *)
| EFCas (j : nat) (ok : bool)  (* SetCallback: compare_exchange_strong(Empty -> callback) *)
| EFRelA (j : nat)             (* Consume, failed path: core.DecRef() destroys the state *)
| EFSubA (j v : nat)           (* failed path: Done(1) *)
| EFStore (j x : nat)          (* producer: Result constructed *)
| EFXchg (j : nat) (old : fword) (* producer: exchange(Result) returned old *)
| EFRelP (j : nat)             (* DropCallback: caller.DecRef() destroys the state *)
| EFSubP (j v : nat)           (* Call/DropCallback: Sub(1) *)
| EFReady (j : nat) (b : bool) (* the owner of an attached future asks Ready() *)
| EFGet (j : nat)              (* the owner reads the value *)
(* one Attach / Consume call for SEVERAL futures (variadic or iterator form): InsertRange does ONE Add(count) before
   the first callback is installed, then SetCallback per future, then ONE Done(count - wait_count) for those that
   already had their result *)
| EFAddN (js : list nat) (v : nat)   (* Add(|js|): fetch_add, counter afterwards = v *)
| EFSubN (js : list nat) (v : nat).  (* Done(|js|) for the futures js of the batch whose SetCallback failed *)

(* ---- helpers ------------------------------------------------------------------------------------------ *)

Fixpoint upd {A} (i : nat) (x : A) (l : list A) : list A :=
  match l, i with
  | [], _ => []
  | _ :: r, 0 => x :: r
  | y :: r, S i' => y :: upd i' x r
  end.

Definition set_w (w : nat) (r : wrec) (s : st) : st :=
  {| cnt := cnt s; uu := uu s; fired := fired s; broken := broken s; crash := crash s; uaf := uaf s;
     head := head s; pend := pend s; todo := todo s; incall := incall s; ws := upd w r (ws s); fs := fs s;
     rels := rels s; readys := readys s; gots := gots s |}.

Definition set_f (j : nat) (r : frec) (s : st) : st :=
  {| cnt := cnt s; uu := uu s; fired := fired s; broken := broken s; crash := crash s; uaf := uaf s;
     head := head s; pend := pend s; todo := todo s; incall := incall s; ws := ws s; fs := upd j r (fs s);
     rels := rels s; readys := readys s; gots := gots s |}.

Definition set_head (h : hd) (s : st) : st :=
  {| cnt := cnt s; uu := uu s; fired := fired s; broken := broken s; crash := crash s; uaf := uaf s;
     head := h; pend := pend s; todo := todo s; incall := incall s; ws := ws s; fs := fs s;
     rels := rels s; readys := readys s; gots := gots s |}.

Definition set_walk (t : list nat) (ic : option nat) (s : st) : st :=
  {| cnt := cnt s; uu := uu s; fired := fired s; broken := broken s; crash := crash s; uaf := uaf s;
     head := head s; pend := pend s; todo := t; incall := ic; ws := ws s; fs := fs s;
     rels := rels s; readys := readys s; gots := gots s |}.

Definition set_uaf (b : bool) (s : st) : st :=
  {| cnt := cnt s; uu := uu s; fired := fired s; broken := broken s; crash := crash s; uaf := uaf s || b;
     head := head s; pend := pend s; todo := todo s; incall := incall s; ws := ws s; fs := fs s;
     rels := rels s; readys := readys s; gots := gots s |}.

(* a release of waiter w is recorded together with what the count is at that moment *)
Definition note_rel (w : nat) (s : st) : st :=
  {| cnt := cnt s; uu := uu s; fired := fired s; broken := broken s; crash := crash s; uaf := uaf s;
     head := head s; pend := pend s; todo := todo s; incall := incall s; ws := ws s; fs := fs s;
     rels := rels s ++ [(w, cnt s, fired s)]; readys := readys s; gots := gots s |}.

(* fetch_add(n); du = how many of the units are plain (user) units; an Add after the count hit zero breaks the rule *)
Definition do_add (n du : nat) (s : st) : st :=
  {| cnt := cnt s + n; uu := uu s + du; fired := fired s; broken := broken s || fired s; crash := crash s;
     uaf := uaf s; head := head s; pend := pend s; todo := todo s; incall := incall s; ws := ws s; fs := fs s;
     rels := rels s; readys := readys s; gots := gots s |}.

(* fetch_sub(n) and, when it returned n (AtomicCounter::SubEqual), the obligation to call Set (SetDeleter);
   [bad]: the caller already knows that this Done is not matched by an Add *)
Definition do_sub (n du : nat) (bad : bool) (s : st) : st :=
  let hit := Nat.eqb (cnt s) n in
  {| cnt := cnt s - n; uu := uu s - du; fired := fired s || hit;
     broken := broken s || bad || Nat.ltb (cnt s) n || (hit && fired s);
     crash := crash s; uaf := uaf s; head := head s; pend := pend s + b2n hit; todo := todo s;
     incall := incall s; ws := ws s; fs := fs s; rels := rels s; readys := readys s; gots := gots s |}.

Definition user_set (s : st) : st :=
  {| cnt := cnt s; uu := uu s; fired := true; broken := broken s || fired s || negb (Nat.eqb (cnt s) 0);
     crash := crash s; uaf := uaf s; head := head s; pend := S (pend s); todo := todo s;
     incall := incall s; ws := ws s; fs := fs s; rels := rels s; readys := readys s; gots := gots s |}.

Definition sub_ok (n v : nat) (s : st) : bool := Nat.ltb (cnt s) n || Nat.eqb v (cnt s - n).

(* record updates of one waiter *)
Definition w_pc (p : wpc) (r : wrec) : wrec :=
  {| wk := wk r; pc := p; reg := reg r; called := called r; edec := edec r; wdec := wdec r;
     refs := refs r; frees := frees r; relc := relc r |}.
Definition w_release (extra_free : nat) (r : wrec) : wrec :=
  {| wk := wk r; pc := WDone; reg := reg r; called := called r; edec := edec r; wdec := wdec r;
     refs := refs r; frees := frees r + extra_free; relc := S (relc r) |}.
Definition w_register (r : wrec) : wrec :=
  {| wk := wk r; pc := WParked; reg := true; called := called r; edec := edec r; wdec := wdec r;
     refs := refs r; frees := frees r; relc := relc r |}.
Definition w_called (p : wpc) (r : wrec) : wrec :=
  {| wk := wk r; pc := p; reg := reg r; called := true; edec := edec r; wdec := wdec r;
     refs := refs r; frees := frees r; relc := relc r |}.
Definition w_called_release (r : wrec) : wrec :=
  {| wk := wk r; pc := WDone; reg := reg r; called := true; edec := edec r; wdec := wdec r;
     refs := refs r; frees := frees r; relc := S (relc r) |}.
Definition w_decref (by_event : bool) (p : wpc) (r : wrec) : wrec :=
  {| wk := wk r; pc := p; reg := reg r; called := called r;
     edec := edec r || by_event; wdec := wdec r || negb by_event;
     refs := refs r - 1; frees := frees r + b2n (Nat.eqb (refs r) 1); relc := relc r |}.

Definition f_upd (w' : fword) (a : apc) (p : ppc) (r : frec) : frec :=
  {| fk := fk r; fw := w'; ap := a; pp := p; fval := fval r; frel := frel r; holds := holds r |}.
Definition f_holds (b : bool) (a : apc) (p : ppc) (r : frec) : frec :=
  {| fk := fk r; fw := fw r; ap := a; pp := p; fval := fval r; frel := frel r; holds := b |}.
Definition f_rel (a : apc) (p : ppc) (r : frec) : frec :=
  {| fk := fk r; fw := fw r; ap := a; pp := p; fval := fval r; frel := S (frel r); holds := holds r |}.
Definition f_store (x : nat) (r : frec) : frec :=
  {| fk := fk r; fw := fw r; ap := ap r; pp := PStored; fval := Some x; frel := frel r; holds := holds r |}.

(* what an owner reads out of the future *)
Definition rd (r : frec) : option nat :=
  match fw r, frel r with WR, 0 => fval r | _, _ => None end.

(* ---- the transition function ----------------------------------------------------------------------- *)

Definition step_w (s : st) (w : nat) (r : wrec) (e : ev) : option st :=
  match e with
  | EReadyChk _ v =>
      if is_coro (wk r) && hv_eqb v (top (head s)) then
        match pc r with
        | W0 => Some (set_w w (w_pc (match v with HA => WPass | _ => WTry end) r) s)
        | _ => None
        end
      else None
  | ETryLd _ v =>
      if hv_eqb v (top (head s)) then
        match pc r, is_coro (wk r) with
        | W0, false | WTry, true =>
            Some (set_w w (w_pc (match v with HA => WPass | _ => WCas v end) r) s)
        | _, _ => None
        end
      else None
  | ETryCas _ a =>
      match pc r with
      | WCas e =>
          if hv_eqb a (HJ w) then
            (* success: the head still was the expected one *)
            match head s with
            | Stack l => if hv_eqb (top (head s)) e then Some (set_head (Stack (w :: l)) (set_w w (w_register r) s))
                         else None
            | AllDone => None
            end
          else if hv_eqb a (top (head s)) then
            (* failure: [expected] is refreshed (a spurious failure of the weak CAS leaves it as it was) *)
            Some (set_w w (w_pc (match a with HA => WPass | _ => WCas a end) r) s)
          else None
      | _ => None
      end
  | ERet _ =>
      match pc r, wk r with
      | WPass, KOn => None
      | WPass, KTimed => Some (note_rel w (set_w w (w_release 1 r) s))     (* delete waiter.Release() *)
      | WPass, _ => Some (note_rel w (set_w w (w_release 0 r) s))
      | WParked, KBlock => if called r then Some (note_rel w (set_w w (w_release 0 r) s)) else None
      | WDecd true, KTimed => Some (note_rel w (set_w w (w_release 0 r) s))
      | _, _ => None
      end
  | ESelfSubmit _ =>
      match pc r, wk r with
      | WPass, KOn => Some (set_w w (w_pc WQueued r) s)
      | _, _ => None
      end
  | ETWake _ b =>
      match pc r, wk r with
      | WParked, KTimed =>
          if Bool.eqb b (called r) then Some (set_uaf (Nat.ltb 0 (frees r)) (set_w w (w_pc (WWoke b) r) s)) else None
      | _, _ => None
      end
  | EDecW _ old =>
      match pc r, wk r with
      | WWoke b, KTimed =>
          if Nat.eqb old (refs r) then Some (set_uaf (Nat.ltb 0 (frees r)) (set_w w (w_decref false (WDecd b) r) s))
          else None
      | _, _ => None
      end
  | ETmo _ =>
      match pc r, wk r with
      | WDecd false, KTimed => Some (set_w w (w_pc WTmo r) s)
      | _, _ => None
      end
  | ERun _ =>
      match pc r with
      | WQueued => Some (note_rel w (set_w w (w_release 0 r) s))
      | _ => None
      end
  | ECall _ =>
      match todo s, incall s with
      | x :: rest, None =>
          if Nat.eqb x w then
            match wk r with
            | KBlock => Some (set_walk rest None (set_w w (w_called (pc r) r) s))
            | KTimed => Some (set_uaf (Nat.ltb 0 (frees r)) (set_walk rest (Some w) (set_w w (w_called (pc r) r) s)))
            | KInline | KJob => Some (note_rel w (set_walk rest None (set_w w (w_called_release r) s)))
            | KSticky | KOn => Some (set_walk rest None (set_w w (w_called WQueued r) s))
            end
          else None
      | _, _ => None
      end
  | EDecE _ old =>
      match incall s, wk r with
      | Some x, KTimed =>
          if Nat.eqb x w && Nat.eqb old (refs r) then
            Some (set_uaf (Nat.ltb 0 (frees r)) (set_walk (todo s) None (set_w w (w_decref true (pc r) r) s)))
          else None
      | _, _ => None
      end
  | _ => None
  end.

Definition step_f (s : st) (j : nat) (r : frec) (e : ev) : option st :=
  match e with
  | EFAdd _ v =>
      match ap r with
      | A0 => if Nat.eqb v (S (cnt s)) then Some (do_add 1 0 (set_f j (f_holds true A1 (pp r) r) s)) else None
      | _ => None
      end
  | EFLd _ v =>
      match ap r with
      | A1 => if fword_eqb v (fw r) then
                match v with
                | WE => Some (set_f j (f_upd (fw r) A2 (pp r) r) s)
                | WR => Some (set_f j (f_upd (fw r) AFail (pp r) r) s)
                | WC => None
                end
              else None
      | _ => None
      end
  | EFCas _ ok =>
      match ap r, fw r with
      | A2, WE => if ok then Some (set_f j (f_upd WC AOk (pp r) r) s) else None
      | A2, WR => if ok then None else Some (set_f j (f_upd WR AFail (pp r) r) s)
      | _, _ => None
      end
  | EFRelA _ =>
      match ap r, fk r with
      | AFail, FConsume => Some (set_f j (f_rel AFailRel (pp r) r) s)
      | _, _ => None
      end
  | EFSubA _ v =>
      match ap r, fk r with
      | AFail, FAttach | AFailRel, FConsume =>
          if sub_ok 1 v s then Some (do_sub 1 0 false (set_f j (f_holds false ADone (pp r) r) s)) else None
      | _, _ => None
      end
  | EFStore _ x =>
      match pp r with
      | P0 => Some (set_f j (f_store x r) s)
      | _ => None
      end
  | EFXchg _ old =>
      match pp r with
      | PStored =>
          if fword_eqb old (fw r) then
            match old with
            | WE => Some (set_f j (f_upd WR (ap r) PDone r) s)
            | WC => Some (set_f j (f_upd WR (ap r) PCb r) s)
            | WR => None
            end
          else None
      | _ => None
      end
  | EFRelP _ =>
      match pp r, fk r with
      | PCb, FConsume => Some (set_f j (f_rel (ap r) PCbRel r) s)
      | _, _ => None
      end
  | EFSubP _ v =>
      match pp r, fk r with
      | PCb, FAttach | PCbRel, FConsume =>
          if sub_ok 1 v s then Some (do_sub 1 0 false (set_f j (f_holds false (ap r) PDone r) s)) else None
      | _, _ => None
      end
  | EFReady _ b =>
      match fk r with
      | FAttach =>
          (* BaseCore::Empty() is [word != kResult]; Ready() is its negation *)
          if Bool.eqb b (fword_eqb (fw r) WR) then
            Some {| cnt := cnt s; uu := uu s; fired := fired s; broken := broken s; crash := crash s; uaf := uaf s;
                    head := head s; pend := pend s; todo := todo s; incall := incall s; ws := ws s; fs := fs s;
                    rels := rels s; readys := readys s ++ [(j, b, fword_eqb (fw r) WR)]; gots := gots s |}
          else None
      | FConsume => None
      end
  | EFGet _ =>
      match fk r with
      | FAttach =>
          Some {| cnt := cnt s; uu := uu s; fired := fired s; broken := broken s; crash := crash s; uaf := uaf s;
                  head := head s; pend := pend s; todo := todo s; incall := incall s; ws := ws s; fs := fs s;
                  rels := rels s; readys := readys s; gots := gots s ++ [(j, rd r)] |}
      | FConsume => None
      end
  | _ => None
  end.

Definition ev_w (e : ev) : option nat :=
  match e with
  | ECall w | EDecE w _ | ERun w | EReadyChk w _ | ETryLd w _ | ETryCas w _ | ERet w | ESelfSubmit w
  | ETWake w _ | EDecW w _ | ETmo w => Some w
  | _ => None
  end.
Definition ev_f (e : ev) : option nat :=
  match e with
  | EFAdd j _ | EFLd j _ | EFCas j _ | EFRelA j | EFSubA j _ | EFStore j _ | EFXchg j _ | EFRelP j | EFSubP j _
  | EFReady j _ | EFGet j => Some j
  | _ => None
  end.

Definition step1 (s : st) (e : ev) : option st :=
  match e with
  | ENewW k =>
      Some {| cnt := cnt s; uu := uu s; fired := fired s; broken := broken s; crash := crash s; uaf := uaf s;
              head := head s; pend := pend s; todo := todo s; incall := incall s; ws := ws s ++ [new_w k]; fs := fs s;
              rels := rels s; readys := readys s; gots := gots s |}
  | ENewF k =>
      Some {| cnt := cnt s; uu := uu s; fired := fired s; broken := broken s; crash := crash s; uaf := uaf s;
              head := head s; pend := pend s; todo := todo s; incall := incall s; ws := ws s; fs := fs s ++ [new_f k];
              rels := rels s; readys := readys s; gots := gots s |}
  | EAdd n v => if Nat.eqb v (cnt s + n) then Some (do_add n n s) else None
  | ESub n v =>
      if sub_ok n v s then Some (do_sub n n (Nat.eqb n 0 || Nat.ltb (uu s) n) s) else None
  | EUserSet => Some (user_set s)
  | EXchg old =>
      match pend s with
      | 0 => None
      | S p =>
          if hv_eqb old (top (head s)) then
            match head s with
            | Stack l =>
                Some {| cnt := cnt s; uu := uu s; fired := fired s; broken := broken s; crash := crash s;
                        uaf := uaf s; head := AllDone; pend := p; todo := l; incall := incall s; ws := ws s;
                        fs := fs s; rels := rels s; readys := readys s; gots := gots s |}
            | AllDone =>
                (* reinterpret_cast<Job*>(kAllDone)->next *)
                Some {| cnt := cnt s; uu := uu s; fired := fired s; broken := broken s; crash := true;
                        uaf := uaf s; head := AllDone; pend := p; todo := todo s; incall := incall s; ws := ws s;
                        fs := fs s; rels := rels s; readys := readys s; gots := gots s |}
            end
          else None
      end
  | _ =>
      match ev_w e, ev_f e with
      | Some w, _ => match nth_error (ws s) w with Some r => step_w s w r e | None => None end
      | None, Some j => match nth_error (fs s) j with Some r => step_f s j r e | None => None end
      | None, None => None
      end
  end.

Fixpoint run1 (s : st) (tr : list ev) : option st :=
  match tr with
  | [] => Some s
  | e :: r => match step1 s e with Some s' => run1 s' r | None => None end
  end.

(* ---- batches --------------------------------------------------------------------------------------------------
   The single fetch_add(n) of a batch is n times the step "Add(1) for future j" executed without any other thread in
   between, and the single fetch_sub(k) at the end of the call is k times the failed path's Done(1) (it returns k, i.e.
   triggers Set, exactly when the last of these unit steps brings the counter to zero; a counter smaller than k is outside
   the model).  [step1] is the machine of the unit steps; [step] adds the two batch operations on top of it. *)
Fixpoint add_seq (js : list nat) (c : nat) : list ev :=
  match js with [] => [] | j :: r => EFAdd j (S c) :: add_seq r (S c) end.
Fixpoint sub_seq (js : list nat) (c : nat) : list ev :=
  match js with [] => [] | j :: r => EFSubA j (c - 1) :: sub_seq r (c - 1) end.

Definition step (s : st) (e : ev) : option st :=
  match e with
  | EFAddN js v =>
      match js with
      | [] => None
      | _ => if Nat.eqb v (cnt s + length js) then run1 s (add_seq js (cnt s)) else None
      end
  | EFSubN js v =>
      match js with
      | [] => None
      | _ => if Nat.leb (length js) (cnt s) && Nat.eqb v (cnt s - length js) then run1 s (sub_seq js (cnt s)) else None
      end
  | _ => step1 s e
  end.

Fixpoint run (s : st) (tr : list ev) : option st :=
  match tr with
  | [] => Some s
  | e :: r => match step s e with Some s' => run s' r | None => None end
  end.

(* ---- the documented rule of use, as a predicate on traces alone -------------------------------------------
   "Add only while the count is non-zero": formally, no Add (explicit or inside Attach/Consume) after the count
   has been brought to zero; Done only for units that were added (or given to the constructor) and not yet done;
   OneShotEvent::Set (when used directly) at most once and not mixed with a non-zero counter.
   [rule_from c u f tr]: c = counter, u = units of plain Adds outstanding, f = the count has hit zero / Set called. *)
Fixpoint rule_from (c u : nat) (f : bool) (tr : list ev) : bool :=
  match tr with
  | [] => true
  | e :: r =>
      match e with
      | EAdd n _ => negb f && rule_from (c + n) (u + n) f r
      | EFAdd _ _ => negb f && rule_from (c + 1) u f r
      | EFAddN js _ => negb f && rule_from (c + length js) u f r
      | EFSubN js _ =>
          Nat.leb (length js) c && negb (Nat.eqb c (length js) && f) &&
          rule_from (c - length js) u (f || Nat.eqb c (length js)) r
      | ESub n _ =>
          negb (Nat.eqb n 0) && Nat.leb n u && Nat.leb n c && negb (Nat.eqb c n && f) &&
          rule_from (c - n) (u - n) (f || Nat.eqb c n) r
      | EFSubA _ _ | EFSubP _ _ =>
          Nat.leb 1 c && negb (Nat.eqb c 1 && f) && rule_from (c - 1) u (f || Nat.eqb c 1) r
      | EUserSet => negb f && Nat.eqb c 0 && rule_from c u true r
      | _ => rule_from c u f r
      end
  end.
Definition follows_rule (n : nat) (tr : list ev) : bool := rule_from n n false tr.

(* nothing is in flight inside SetImpl *)
Definition quiescent (s : st) : bool :=
  Nat.eqb (pend s) 0 && (match todo s with [] => true | _ => false end) &&
  (match incall s with None => true | Some _ => false end).
