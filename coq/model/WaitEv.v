(* WaitEv.v — Wait / WaitFor / WaitUntil on n futures (include/yaclib/async/detail/wait_impl.hpp, WaitRange with
   WaitCore / WaitIterator), as a transition system at the granularity of one wrapped atomic / mutex / condvar
   operation, for ANY number n of futures: n producers (Promise::Set) and one waiter.

   Source being modelled
     waiter     WaitRange (wait_impl.hpp:20-62):
                  wait_count = sum over the range of handle.SetCallback(event.GetCall())
                                 SetCallbackImpl<false> (base_core.cpp:19-24): load(word) == Empty && CAS_strong(Empty -> event)
                  if (wait_count == 0 || event.SubEqual(count - wait_count + 1)) return true;
                  token = event.Make();                                   MutexEvent::Make: lock(_m)
                  if timed:  if (event.Wait(token, timeout)) return true; cv.wait_for/until(token, timeout, [&]{return _is_ready;})
                             reset_count = sum over the range of handle.Reset()
                                 ResetImpl (base_core.cpp:30-34): expected = load(word); expected != Result && CAS_strong(expected -> Empty)
                             if (reset_count != 0 && (reset_count == wait_count || event.SubEqual(reset_count))) return false;
                  event.Wait(token);                                      while (!_is_ready) cv.wait(token)
                  return reset_count == 0;                                (the token unlocks _m on every return after Make)
     counter    AtomicCounter (atomic_counter.hpp): count starts at n + 1; SubEqual(k) = (fetch_sub(k) == k);
                Sub(k) = if SubEqual(k) then Set().   OneCounter (unique_counter.hpp, used when there is exactly one
                handle): SubEqual(k) = false without any operation, Sub(k) = Set() unconditionally.
     producer   Promise::Set: Store(result); old = exchange(word, Result) (base_core.cpp:52); if old is a callback:
                CallCallback::Here (wait_event.hpp:17-20) = event.Sub(1); Set() (mutex_event.cpp:15-19) =
                lock(_m); _is_ready = true; _cv.notify_one(); unlock(_m).
   The event (counter, mutex, flag, condvar) lives on the waiter's stack: [alive] is a ghost flag that becomes false
   when the call returns, and [bad_touch] counts producer operations on the event performed after that.

   Events are what the tracer sees on the real code.  Two of them are internal to the condition variable and are
   inferred by the trace mapping: [EWaitEnter] (first evaluation of the predicate under the lock; parks and releases the
   mutex if it is false) and [ETimeout] (the deadline fires for the parked waiter).  No proofs in this file. *)
From Coq Require Import List Arith Bool.
Import ListNotations.
From YV Require model.Handoff.

Notation word := Handoff.word.
Notation WE := Handoff.WE.
Notation WC := Handoff.WC.
Notation WR := Handoff.WR.
Notation word_eqb := Handoff.word_eqb.

(* producer i *)
Inductive ppc :=
| PInit        (* nothing done *)
| PStored      (* Result constructed in the slot *)
| PDoneE       (* exchanged, got Empty back: nothing to run *)
| PHold        (* exchanged, got the waiter's event back: event.Sub(1) is next (AtomicCounter) *)
| PSetL        (* Sub hit zero (or OneCounter): Set() -> lock(_m) next *)
| PSetN        (* holds _m: _is_ready = true; notify_one next *)
| PSetU        (* notified: unlock(_m) next *)
| PFin.        (* finished with the event *)

Record fut := {
  fw : word;               (* the callback word of the future *)
  fp : ppc;
  fslot : option nat;      (* None: the Result is not constructed yet *)
  freg : bool;             (* ghost: the waiter's registration CAS succeeded on this future *)
  frst : bool              (* ghost: the waiter's reset CAS succeeded on this future *)
}.

Definition fut0 : fut := {| fw := WE; fp := PInit; fslot := None; freg := false; frst := false |}.

Inductive owner := OW | OP (i : nat).

Inductive wpc :=
| WReg (i : nat)                 (* SetCallback on future i: pre-check load next *)
| WRegCas (i : nat)              (* the pre-check saw Empty: strong CAS next *)
| WSub1                          (* SubEqual(count - wait_count + 1) next *)
| WPreLock                       (* event.Make(): lock(_m) next *)
| WLocked1                       (* holds _m, about to evaluate the predicate of the first wait *)
| WNoPark                        (* inside wait_for / wait_until whose predicate held at once: holds _m, never parked *)
| WSleep1                        (* parked in the first wait; _m released *)
| WRst (i : nat)                 (* reset loop, future i: relaxed load next *)
| WRstCas (i : nat) (v : word)   (* loaded v <> Result: CAS_strong(v -> Empty) next *)
| WSub2                          (* SubEqual(reset_count) next *)
| WLocked2                       (* holds _m, about to evaluate _is_ready of the final untimed wait *)
| WSleep2                        (* parked in the final wait; _m released *)
| WRetL (b : bool)               (* returning b; the token still holds _m *)
| WRet (b : bool)                (* returning b; no token *)
| WDone.                         (* returned *)

Record st := {
  n : nat;                 (* number of futures in the range (= count) *)
  one : bool;              (* OneCounter: the single-handle fast path of WaitCore *)
  timed : bool;            (* WaitFor / WaitUntil (true) or Wait (false) *)
  futs : list fut;
  cnt : nat;               (* AtomicCounter::count (not used when [one]) *)
  mtx : option owner;      (* MutexEvent::_m *)
  ready : bool;            (* MutexEvent::_is_ready *)
  notified : bool;         (* the parked waiter has been notified *)
  timedout : bool;         (* ghost: the deadline has fired while the waiter was parked *)
  wp : wpc;
  wc : nat;                (* wait_count *)
  rc : nat;                (* reset_count *)
  alive : bool;            (* ghost: the call has not returned, the event exists *)
  ret : option bool;       (* what the call returned *)
  bad_touch : nat;         (* ghost: producer operations on the event after the call returned *)
  underflow : bool         (* ghost: some fetch_sub subtracted more than the counter held *)
}.

Definition init (n_ : nat) (one_ timed_ : bool) : st :=
  {| n := n_; one := one_; timed := timed_; futs := repeat fut0 n_; cnt := S n_; mtx := None; ready := false;
     notified := false; timedout := false; wp := WReg 0; wc := 0; rc := 0; alive := true; ret := None;
     bad_touch := 0; underflow := false |}.

Inductive ev :=
| ESet (i r : nat)                  (* P_i: Result constructed *)
| EXchg (i : nat) (old : word)      (* P_i: exchange(word_i, Result) returned old *)
| ESubP (i : nat) (new : nat)       (* P_i: count.fetch_sub(1) left new *)
| EPLock (i : nat)                  (* P_i: Set(): lock(_m) *)
| EPNotify (i : nat)                (* P_i: _is_ready = true; notify_one *)
| EPUnlock (i : nat)                (* P_i: unlock(_m) *)
| ELdW (i : nat) (v : word)         (* W: load(word_i) returned v (registration pre-check or reset) *)
| ECasW (i : nat) (ok : bool)       (* W: compare_exchange on word_i (registration or reset) *)
| ESubW (new : nat)                 (* W: count.fetch_sub(delta) left new *)
| EWLock                            (* W: Make(): lock(_m) *)
| EWaitEnter                        (* W: predicate evaluated under the lock; parks if false *)
| ETimeout                          (* the deadline fires *)
| EWaitRet                          (* W: cv.wait / wait_for / wait_until returned (with _m re-acquired) *)
| EWUnlock                          (* W: ~Token: unlock(_m) *)
| ERet.                             (* W: the call returned *)

Fixpoint set_nth (i : nat) (f : fut) (l : list fut) : list fut :=
  match l, i with
  | [], _ => []
  | _ :: t, 0 => f :: t
  | h :: t, S j => h :: set_nth j f t
  end.

Definition upd_fp (p : ppc) (f : fut) : fut :=
  {| fw := fw f; fp := p; fslot := fslot f; freg := freg f; frst := frst f |}.

Definition owner_eqb (a b : owner) : bool :=
  match a, b with
  | OW, OW => true
  | OP i, OP j => Nat.eqb i j
  | _, _ => false
  end.

Definition holds (s : st) (o : owner) : bool :=
  match mtx s with Some x => owner_eqb x o | None => false end.

Definition is_free (s : st) : bool := match mtx s with None => true | Some _ => false end.

Definition parked (s : st) : bool := match wp s with WSleep1 | WSleep2 => true | _ => false end.

(* one more producer operation on the event: counted if the event is already gone *)
Definition touch (s : st) : nat := if alive s then bad_touch s else S (bad_touch s).

Definition with_futs (l : list fut) (s : st) : st :=
  {| n := n s; one := one s; timed := timed s; futs := l; cnt := cnt s; mtx := mtx s; ready := ready s;
     notified := notified s; timedout := timedout s; wp := wp s; wc := wc s; rc := rc s; alive := alive s;
     ret := ret s; bad_touch := bad_touch s; underflow := underflow s |}.

Definition with_wp (p : wpc) (s : st) : st :=
  {| n := n s; one := one s; timed := timed s; futs := futs s; cnt := cnt s; mtx := mtx s; ready := ready s;
     notified := notified s; timedout := timedout s; wp := p; wc := wc s; rc := rc s; alive := alive s;
     ret := ret s; bad_touch := bad_touch s; underflow := underflow s |}.

(* where the waiter goes after SetCallback on future i *)
Definition after_reg (s : st) (i : nat) (wc' : nat) : wpc :=
  if Nat.ltb (S i) (n s) then WReg (S i)
  else if Nat.eqb wc' 0 then WRet true                 (* wait_count == 0 *)
  else if one s then WPreLock                          (* OneCounter::SubEqual is constantly false *)
  else WSub1.

(* where the waiter goes after Reset on future i *)
Definition after_rst (s : st) (i : nat) (rc' : nat) : wpc :=
  if Nat.ltb (S i) (n s) then WRst (S i)
  else if Nat.eqb rc' 0 then WLocked2                  (* reset_count == 0: final wait *)
  else if Nat.eqb rc' (wc s) then WRetL false          (* reset_count == wait_count *)
  else if one s then WLocked2
  else WSub2.

Definition step (s : st) (e : ev) : option st :=
  match e with
  (* ------------------------------------------------------------------ producers *)
  | ESet i r =>
      match nth_error (futs s) i with
      | Some f =>
          match fp f with
          | PInit => Some (with_futs (set_nth i {| fw := fw f; fp := PStored; fslot := Some r; freg := freg f;
                                                   frst := frst f |} (futs s)) s)
          | _ => None
          end
      | None => None
      end
  | EXchg i old =>
      match nth_error (futs s) i with
      | Some f =>
          match fp f with
          | PStored =>
              if word_eqb old (fw f) then
                match old with
                | WR => None                                      (* YACLIB_ASSERT(expected != kResult) *)
                | WE => Some (with_futs (set_nth i {| fw := WR; fp := PDoneE; fslot := fslot f; freg := freg f;
                                                      frst := frst f |} (futs s)) s)
                | WC => Some (with_futs (set_nth i {| fw := WR; fp := (if one s then PSetL else PHold);
                                                      fslot := fslot f; freg := freg f; frst := frst f |}
                                                 (futs s)) s)
                end
              else None
          | _ => None
          end
      | None => None
      end
  | ESubP i new =>
      match nth_error (futs s) i with
      | Some f =>
          match fp f with
          | PHold =>
              if Nat.eqb new (cnt s - 1) then
                Some {| n := n s; one := one s; timed := timed s;
                        futs := set_nth i (upd_fp (if Nat.eqb (cnt s) 1 then PSetL else PFin) f) (futs s);
                        cnt := new; mtx := mtx s; ready := ready s; notified := notified s; timedout := timedout s;
                        wp := wp s; wc := wc s; rc := rc s; alive := alive s; ret := ret s; bad_touch := touch s;
                        underflow := underflow s || Nat.ltb (cnt s) 1 |}
              else None
          | _ => None
          end
      | None => None
      end
  | EPLock i =>
      match nth_error (futs s) i with
      | Some f =>
          match fp f with
          | PSetL =>
              if is_free s then
                Some {| n := n s; one := one s; timed := timed s; futs := set_nth i (upd_fp PSetN f) (futs s);
                        cnt := cnt s; mtx := Some (OP i); ready := ready s; notified := notified s;
                        timedout := timedout s; wp := wp s; wc := wc s; rc := rc s; alive := alive s; ret := ret s;
                        bad_touch := touch s; underflow := underflow s |}
              else None
          | _ => None
          end
      | None => None
      end
  | EPNotify i =>
      match nth_error (futs s) i with
      | Some f =>
          match fp f with
          | PSetN =>
              if holds s (OP i) then
                Some {| n := n s; one := one s; timed := timed s; futs := set_nth i (upd_fp PSetU f) (futs s);
                        cnt := cnt s; mtx := mtx s; ready := true; notified := notified s || parked s;
                        timedout := timedout s; wp := wp s; wc := wc s; rc := rc s; alive := alive s; ret := ret s;
                        bad_touch := touch s; underflow := underflow s |}
              else None
          | _ => None
          end
      | None => None
      end
  | EPUnlock i =>
      match nth_error (futs s) i with
      | Some f =>
          match fp f with
          | PSetU =>
              if holds s (OP i) then
                Some {| n := n s; one := one s; timed := timed s; futs := set_nth i (upd_fp PFin f) (futs s);
                        cnt := cnt s; mtx := None; ready := ready s; notified := notified s;
                        timedout := timedout s; wp := wp s; wc := wc s; rc := rc s; alive := alive s; ret := ret s;
                        bad_touch := touch s; underflow := underflow s |}
              else None
          | _ => None
          end
      | None => None
      end
  (* ------------------------------------------------------------------ waiter *)
  | ELdW i v =>
      match nth_error (futs s) i with
      | Some f =>
          if word_eqb v (fw f) then
            match wp s with
            | WReg j =>
                if Nat.eqb i j then
                  match v with
                  | WE => Some (with_wp (WRegCas i) s)
                  | _ => Some (with_wp (after_reg s i (wc s)) s)       (* SetCallback returns false *)
                  end
                else None
            | WRst j =>
                if Nat.eqb i j then
                  match v with
                  | WR => Some (with_wp (after_rst s i (rc s)) s)      (* Reset returns false *)
                  | _ => Some (with_wp (WRstCas i v) s)
                  end
                else None
            | _ => None
            end
          else None
      | None => None
      end
  | ECasW i ok =>
      match nth_error (futs s) i with
      | Some f =>
          match wp s with
          | WRegCas j =>
              if Nat.eqb i j && Bool.eqb ok (word_eqb (fw f) WE) then
                if ok then
                  Some {| n := n s; one := one s; timed := timed s;
                          futs := set_nth i {| fw := WC; fp := fp f; fslot := fslot f; freg := true; frst := frst f |}
                                          (futs s);
                          cnt := cnt s; mtx := mtx s; ready := ready s; notified := notified s;
                          timedout := timedout s; wp := after_reg s i (S (wc s)); wc := S (wc s); rc := rc s;
                          alive := alive s; ret := ret s; bad_touch := bad_touch s; underflow := underflow s |}
                else Some (with_wp (after_reg s i (wc s)) s)
              else None
          | WRstCas j v =>
              if Nat.eqb i j && Bool.eqb ok (word_eqb (fw f) v) then
                if ok then
                  Some {| n := n s; one := one s; timed := timed s;
                          futs := set_nth i {| fw := WE; fp := fp f; fslot := fslot f; freg := freg f; frst := true |}
                                          (futs s);
                          cnt := cnt s; mtx := mtx s; ready := ready s; notified := notified s;
                          timedout := timedout s; wp := after_rst s i (S (rc s)); wc := wc s; rc := S (rc s);
                          alive := alive s; ret := ret s; bad_touch := bad_touch s; underflow := underflow s |}
                else Some (with_wp (after_rst s i (rc s)) s)
              else None
          | _ => None
          end
      | None => None
      end
  | ESubW new =>
      match wp s with
      | WSub1 =>
          let delta := n s - wc s + 1 in
          if Nat.eqb new (cnt s - delta) then
            Some {| n := n s; one := one s; timed := timed s; futs := futs s; cnt := new; mtx := mtx s;
                    ready := ready s; notified := notified s; timedout := timedout s;
                    wp := (if Nat.eqb (cnt s) delta then WRet true else WPreLock);
                    wc := wc s; rc := rc s; alive := alive s; ret := ret s; bad_touch := bad_touch s;
                    underflow := underflow s || Nat.ltb (cnt s) delta |}
          else None
      | WSub2 =>
          let delta := rc s in
          if Nat.eqb new (cnt s - delta) then
            Some {| n := n s; one := one s; timed := timed s; futs := futs s; cnt := new; mtx := mtx s;
                    ready := ready s; notified := notified s; timedout := timedout s;
                    wp := (if Nat.eqb (cnt s) delta then WRetL false else WLocked2);
                    wc := wc s; rc := rc s; alive := alive s; ret := ret s; bad_touch := bad_touch s;
                    underflow := underflow s || Nat.ltb (cnt s) delta |}
          else None
      | _ => None
      end
  | EWLock =>
      match wp s with
      | WPreLock =>
          if is_free s then
            Some {| n := n s; one := one s; timed := timed s; futs := futs s; cnt := cnt s; mtx := Some OW;
                    ready := ready s; notified := notified s; timedout := timedout s; wp := WLocked1;
                    wc := wc s; rc := rc s; alive := alive s; ret := ret s; bad_touch := bad_touch s;
                    underflow := underflow s |}
          else None
      | _ => None
      end
  | EWaitEnter =>
      match wp s with
      | WLocked1 =>
          (* timed: cv.wait_for(token, d, pred) is called and evaluates pred; untimed: while (!_is_ready) skips the loop *)
          if ready s then Some (with_wp (if timed s then WNoPark else WRetL true) s)
          else Some {| n := n s; one := one s; timed := timed s; futs := futs s; cnt := cnt s; mtx := None;
                       ready := ready s; notified := false; timedout := timedout s; wp := WSleep1;
                       wc := wc s; rc := rc s; alive := alive s; ret := ret s; bad_touch := bad_touch s;
                       underflow := underflow s |}
      | WLocked2 =>
          if ready s then Some (with_wp (WRetL (Nat.eqb (rc s) 0)) s)
          else Some {| n := n s; one := one s; timed := timed s; futs := futs s; cnt := cnt s; mtx := None;
                       ready := ready s; notified := false; timedout := timedout s; wp := WSleep2;
                       wc := wc s; rc := rc s; alive := alive s; ret := ret s; bad_touch := bad_touch s;
                       underflow := underflow s |}
      | _ => None
      end
  | ETimeout =>
      match wp s with
      | WSleep1 =>
          if timed s then
            Some {| n := n s; one := one s; timed := timed s; futs := futs s; cnt := cnt s; mtx := mtx s;
                    ready := ready s; notified := notified s; timedout := true; wp := wp s;
                    wc := wc s; rc := rc s; alive := alive s; ret := ret s; bad_touch := bad_touch s;
                    underflow := underflow s |}
          else None
      | _ => None
      end
  | EWaitRet =>
      let relock (p : wpc) :=
        {| n := n s; one := one s; timed := timed s; futs := futs s; cnt := cnt s; mtx := Some OW;
           ready := ready s; notified := notified s; timedout := timedout s; wp := p;
           wc := wc s; rc := rc s; alive := alive s; ret := ret s; bad_touch := bad_touch s;
           underflow := underflow s |} in
      match wp s with
      | WNoPark => Some (with_wp (WRetL true) s)
      | WSleep1 =>
          if is_free s && (notified s || timedout s) then
            if ready s then Some (relock (WRetL true))            (* the predicate holds: true, timeout or not *)
            else if timed s && timedout s then Some (relock (WRst 0))
            else None                                             (* woken without the flag: would wait again *)
          else None
      | WSleep2 =>
          if is_free s && notified s && ready s then Some (relock (WRetL (Nat.eqb (rc s) 0))) else None
      | _ => None
      end
  | EWUnlock =>
      match wp s with
      | WRetL b =>
          if holds s OW then
            Some {| n := n s; one := one s; timed := timed s; futs := futs s; cnt := cnt s; mtx := None;
                    ready := ready s; notified := notified s; timedout := timedout s; wp := WRet b;
                    wc := wc s; rc := rc s; alive := alive s; ret := ret s; bad_touch := bad_touch s;
                    underflow := underflow s |}
          else None
      | _ => None
      end
  | ERet =>
      match wp s with
      | WRet b =>
          Some {| n := n s; one := one s; timed := timed s; futs := futs s; cnt := cnt s; mtx := mtx s;
                  ready := ready s; notified := notified s; timedout := timedout s; wp := WDone;
                  wc := wc s; rc := rc s; alive := false; ret := Some b; bad_touch := bad_touch s;
                  underflow := underflow s |}
      | _ => None
      end
  end.

Fixpoint run (s : st) (tr : list ev) : option st :=
  match tr with
  | [] => Some s
  | e :: r => match step s e with Some s' => run s' r | None => None end
  end.

(* The state of future i as a state of the C01 transition system (Handoff), seen by whoever owns the future next:
   an idle owner (cpc = C0) of a state whose word, slot and producer progress are those of future i. *)
Definition hpc (p : ppc) : nat := match p with PInit => 0 | PStored => 1 | _ => 2 end.

Definition proj (k : Handoff.kind) (f : fut) : Handoff.st :=
  {| Handoff.kd := k; Handoff.w := fw f; Handoff.is_event := word_eqb (fw f) WC; Handoff.slot := fslot f;
     Handoff.alive := true; Handoff.ppc := hpc (fp f); Handoff.cpc := Handoff.C0; Handoff.signalled := false;
     Handoff.waited := false; Handoff.tokens := []; Handoff.taken := None; Handoff.cbs := []; Handoff.gots := [];
     Handoff.readys := []; Handoff.frees := 0 |}.
