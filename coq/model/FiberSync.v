(* FiberSync.v — the yaclib_std synchronisation primitives of the FIBER backend as transition systems.

   Cooperative semantics (src/fault/fiber/scheduler.cpp): one fiber runs at a time; it loses the processor
   only when it blocks (FiberQueue::Wait, Scheduler::Sleep, Thread::join), exits, or yields at the injection
   point in front of a wrapped operation (YACLIB_INJECT_FAULT, include/yaclib/fault/inject.hpp).  Hence the
   body of every operation below runs atomically up to its first Wait, and from each wake-up to the next
   Wait or to the return.  An event is one such atomic piece:

     EOp f o     fiber f (idle) starts operation o and runs it to its first blocking point or to the end
     ERun f t    the scheduler resumes f at virtual time t (Scheduler::RunLoop: WakeUpNeeded, TickTime, Resume):
                 a fiber blocked inside an operation continues it exactly as the C++ does after Wait returns

   FiberQueue (include/yaclib/fault/detail/fiber/queue.hpp, src/fault/fiber/queue.cpp) is a list of parked
   fibers in PushBack order.  NotifyOne removes PollRandomElementFromList's choice — the index is an event
   parameter, the explorer's kPick decision; NotifyAll removes everything.  A removed fiber is runnable.
   Wait(time_point) additionally puts the fiber on the scheduler's sleep map; WakeUpNeeded makes it runnable
   once the deadline is <= the scheduler time, leaving it in the wait queue; after the switch back
   `queue_node->Erase()` tells which of the two happened: still linked => Timeout, else Ready.  In the model a
   fiber blocked in a Wait is resumable iff it is no longer in the queue (notified) or its deadline is <= t;
   the status is computed from queue membership exactly like Erase() does.  Sleep(ns) returns at once when
   ns <= now (scheduler.cpp:149-152).  Virtual time only grows (TickTime / AdvanceTime).

   Every lock class is written EXACTLY as the source, with one boolean per place where the pinned source is
   suspected wrong (record [variant]): the flag selects the pinned text (false) or the repaired text (true).
   checks/c18.py regenerates gen/FiberSyncSource.v (`source_variant`) from the tree under test.

   Ghost state (never read by the algorithm): who the CLIENTS believe holds the lock (a fiber enters the list
   when its acquisition reports success and leaves when it calls unlock), and a log of results.
   No proofs in this file. *)

From Coq Require Import List Arith Bool PeanoNat.
Import ListNotations.

Definition fid := nat.

Record variant := {
  v_tm_while : bool;   (* TimedMutex::TimedWaitHelper          timed_mutex.hpp:28            if -> while (r && ..) *)
  v_rc_notify : bool;  (* RecursiveMutex::unlock               recursive_mutex.cpp:24-26     + _queue.NotifyOne() *)
  v_rc_while : bool;   (* RecursiveMutex::lock                 recursive_mutex.cpp:7         if -> while *)
  v_rt_while : bool;   (* RecursiveTimedMutex::TimedWaitHelper recursive_timed_mutex.hpp:28  if -> while (r && ..) *)
  v_sh_while : bool;   (* SharedMutex::lock                    shared_mutex.cpp:8            if -> while *)
  v_shs_while : bool;  (* SharedMutex::lock_shared             shared_mutex.cpp:33           if -> while *)
  v_st_while : bool;   (* SharedTimedMutex::TimedWaitHelper    shared_timed_mutex.hpp:39     if -> while (r && ..) *)
  v_st_helper : bool;  (* SharedTimedMutex::TimedWaitHelper    shared_timed_mutex.hpp:48     LockHelper() when exclusive *)
  v_shs_eq : bool;     (* SharedMutex::lock_shared             shared_mutex.cpp:34           blocked readers wait on _exclusive_queue *)
  v_sl_guard : bool    (* Scheduler::SleepPreemptive           scheduler.cpp:162-166         it != end() && before it->second *)
}.

Definition v_pinned : variant :=
  {| v_tm_while := false; v_rc_notify := false; v_rc_while := false; v_rt_while := false;
     v_sh_while := false; v_shs_while := false; v_st_while := false; v_st_helper := false;
     v_shs_eq := true; v_sl_guard := false |}.
Definition v_repaired : variant :=
  {| v_tm_while := true; v_rc_notify := true; v_rc_while := true; v_rt_while := true;
     v_sh_while := true; v_shs_while := true; v_st_while := true; v_st_helper := true;
     v_shs_eq := true; v_sl_guard := true |}.

(* ------------------------------------------------------------------ shared vocabulary *)

Definition upd {A : Type} (m : fid -> A) (i : fid) (v : A) : fid -> A :=
  fun j => if Nat.eqb j i then v else m j.

(* Node::Erase on a wait queue *)
Definition rem (f : fid) (q : list fid) : list fid := filter (fun g => negb (Nat.eqb g f)) q.
Definition mem (f : fid) (q : list fid) : bool := existsb (Nat.eqb f) q.
Definition nonempty {A : Type} (l : list A) : bool := match l with [] => false | _ => true end.

(* FiberQueue::NotifyOne with PollRandomElementFromList's choice [pick] (queue.cpp:21-27): the queue that is
   left and the fiber that was removed *)
Definition notify_one (q : list fid) (pick : nat) : option (list fid * list fid) :=
  match q with
  | [] => Some ([], [])
  | _ => match nth_error q pick with Some g => Some (rem g q, [g]) | None => None end
  end.

(* Scheduler::_sleep_list, a std::map from deadline to the list of fibers sleeping until then
   (scheduler.cpp:100-170).  [keys]: the keys present in the map; [sleepers]: which fiber is linked under
   which key; [ub]: SleepPreemptive dereferenced _sleep_list.end() (its YACLIB_DEBUG also fires). *)
Record smap := { keys : list nat; sleepers : list (nat * fid); ub : bool }.
Definition sm0 : smap := {| keys := []; sleepers := []; ub := false |}.
Definition tick : nat := 10.   (* sTickLength, scheduler.cpp:17 *)

(* Scheduler::Sleep(ns) with ns > now: _sleep_list[ns].PushBack(current) *)
Definition sm_sleep (m : smap) (ns : nat) (f : fid) : smap :=
  {| keys := if mem ns (keys m) then keys m else ns :: keys m; sleepers := (ns, f) :: sleepers m; ub := ub m |}.
(* FiberQueue::ScheduleAndRemove: static_cast<BiNodeScheduler*>(node)->Erase() for every notified fiber *)
Definition sm_unlink (m : smap) (l : list fid) : smap :=
  {| keys := keys m; sleepers := filter (fun p => negb (mem (snd p) l)) (sleepers m); ub := ub m |}.
(* WakeUpNeeded at scheduler time T: every entry with key <= T is moved to the run queue and erased *)
Definition sm_wake (m : smap) (T : nat) : smap :=
  {| keys := filter (fun k => Nat.ltb T k) (keys m);
     sleepers := filter (fun p => Nat.ltb T (fst p)) (sleepers m); ub := ub m |}.
(* SleepPreemptive after Sleep(ns) returned (scheduler.cpp:159-167).
     guarded (the tree since the sleep-map fix):
       if (auto it = find(ns); it != end() && it->second.Empty()) erase(it);
     unguarded (the text before it):
       if (_time <= ns) { it = find(ns); YACLIB_DEBUG(it == end(), ..); if (it->second.Empty()) erase(ns); } *)
Definition sm_after (guard : bool) (m : smap) (ns now : nat) : smap :=
  let erase_if_empty :=
    if existsb (fun p => Nat.eqb (fst p) ns) (sleepers m) then m
    else {| keys := rem ns (keys m); sleepers := sleepers m; ub := ub m |} in
  if guard then (if mem ns (keys m) then erase_if_empty else m)
  else if Nat.leb now ns then
    (if mem ns (keys m) then erase_if_empty else {| keys := keys m; sleepers := sleepers m; ub := true |})
  else m.

(* the two Wait(timeout) overloads: a duration is added to SystemClock::now() (queue.hpp:22-25) *)
Inductive tmo := Dur (d : nat) | Abs (tp : nat).
Definition deadline (now : nat) (t : tmo) : nat := match t with Dur d => now + d | Abs tp => tp end.

(* status of a Wait after the switch back: true = Ready (somebody unlinked us), false = Timeout.
   [None] : the fiber is not resumable at time t.  The timer path: WakeUpNeeded at scheduler time T moves the
   sleepers with deadline <= T to the run queue, and a fiber picked then runs at T + tick or later. *)
Definition fired (dl t : nat) : bool := Nat.leb (dl + tick) t.
Definition wait_status (f : fid) (q : list fid) (dl : option nat) (t : nat) : option bool :=
  if mem f q then
    match dl with Some d => if fired d t then Some false else None | None => None end
  else Some true.

(* ================================================================== Mutex, TimedMutex, ConditionVariable *)
Module Mx.

Inductive cont :=
| KLock                                   (* Mutex::lock called by the client *)
| KCv (notified : bool) (dl : option nat). (* Mutex::lock called by ConditionVariable::WaitImpl after the wait *)

Inductive pc :=
| Idle
| InLock (k : cont)            (* inside the while loop of Mutex::lock (mutex.cpp:5-10) *)
| InTimed (t : tmo) (dl : nat) (* inside _queue.Wait(timeout) of TimedMutex::TimedWaitHelper *)
| InCv (dl : option nat)       (* inside _queue.Wait of ConditionVariable::WaitImpl (condition_variable.hpp:74-81) *)
| InSleep (dl : nat).          (* this_thread::sleep_until -> Scheduler::Sleep *)

Inductive res :=
| RLock (f : fid)
| RUnlock (f : fid)
| RTry (f : fid) (ok : bool) (justified : bool)        (* justified: another client held the mutex *)
| RTimed (f : fid) (ok : bool) (dl : nat) (t : nat)    (* t = virtual time at the return *)
| RCv (f : fid) (notified : bool) (dl : option nat) (t : nat)
| RSleep (f : fid) (dl : nat) (t : nat)
| RNotify (f : fid) (before : list fid) (after : list fid).

Record st := {
  now : nat;
  occ : bool;               (* Mutex::_occupied *)
  q : list fid;             (* Mutex::_queue *)
  cvq : list fid;           (* ConditionVariable::_queue *)
  pcs : fid -> pc;
  sm : smap;                (* Scheduler::_sleep_list *)
  holders : list fid;       (* ghost *)
  log : list res            (* ghost, newest first *)
}.

Definition init : st :=
  {| now := 0; occ := false; q := []; cvq := []; pcs := fun _ => Idle; sm := sm0; holders := []; log := [] |}.

Inductive op :=
| OLock | OTry | OUnlock (pick : nat) | OTimed (t : tmo)
| OCvWait (t : option tmo) (pick : nat)     (* pick: the NotifyOne of the unlock inside WaitImpl *)
| ONotifyOne (pick : nat) | ONotifyAll
| OSleep (dl : nat).

Inductive ev := ERun (f : fid) (t : nat) | EOp (f : fid) (o : op).

Definition set_pc (s : st) (f : fid) (p : pc) : st :=
  {| now := now s; occ := occ s; q := q s; cvq := cvq s; pcs := upd (pcs s) f p; sm := sm s;
     holders := holders s; log := log s |}.
Definition add_log (s : st) (r : res) : st :=
  {| now := now s; occ := occ s; q := q s; cvq := cvq s; pcs := pcs s; sm := sm s;
     holders := holders s; log := r :: log s |}.
Definition set_q (s : st) (l : list fid) : st :=
  {| now := now s; occ := occ s; q := l; cvq := cvq s; pcs := pcs s; sm := sm s;
     holders := holders s; log := log s |}.
Definition set_cvq (s : st) (l : list fid) : st :=
  {| now := now s; occ := occ s; q := q s; cvq := l; pcs := pcs s; sm := sm s;
     holders := holders s; log := log s |}.
Definition set_sm (s : st) (m : smap) : st :=
  {| now := now s; occ := occ s; q := q s; cvq := cvq s; pcs := pcs s; sm := m;
     holders := holders s; log := log s |}.
(* RunLoop: WakeUpNeeded at the time before the tick, then TickTime *)
Definition set_now (s : st) (t : nat) : st :=
  {| now := t; occ := occ s; q := q s; cvq := cvq s; pcs := pcs s; sm := sm_wake (sm s) (t - tick);
     holders := holders s; log := log s |}.

(* the client now believes it owns the mutex: _occupied = true (mutex.cpp:9, :16; timed_mutex.hpp:33) *)
Definition acquire (s : st) (f : fid) : st :=
  {| now := now s; occ := true; q := q s; cvq := cvq s; pcs := pcs s; sm := sm s;
     holders := f :: holders s; log := log s |}.
(* Mutex::unlock (mutex.cpp:20-23) *)
Definition release (s : st) (f : fid) (pick : nat) : option st :=
  match notify_one (q s) pick with
  | Some (q', gone) =>
      Some {| now := now s; occ := false; q := q'; cvq := cvq s; pcs := pcs s; sm := sm_unlink (sm s) gone;
              holders := rem f (holders s); log := log s |}
  | None => None
  end.

Definition ret_of (k : cont) (f : fid) (t : nat) : res :=
  match k with KLock => RLock f | KCv n dl => RCv f n dl t end.

(* Mutex::lock: while (_occupied) _queue.Wait(NoTimeoutTag{});  _occupied = true; *)
Definition do_lock (s : st) (f : fid) (k : cont) : st :=
  if occ s then set_pc (set_q s (q s ++ [f])) f (InLock k)
  else add_log (set_pc (acquire s f) f Idle) (ret_of k f (now s)).

(* TimedWaitHelper at the loop head with r = true.
     pinned :  if (_occupied) r = Wait(timeout) == Ready;  if (r) _occupied = true;  return r;
     repaired: while (r && _occupied) r = Wait(timeout) == Ready;  ...
   [first]: we come from the call (true) or from a Ready wake-up (false). *)
Definition timed_head (v : variant) (s : st) (f : fid) (t : tmo) (first : bool) : st :=
  if occ s && (first || v_tm_while v) then
    let dl := deadline (now s) t in
    if Nat.leb dl (now s)
    then (* Sleep returns at once; Erase() finds the node linked: Timeout *)
      add_log (set_pc (set_sm s (sm_after (v_sl_guard v) (sm s) dl (now s))) f Idle) (RTimed f false dl (now s))
    else set_pc (set_sm (set_q s (q s ++ [f])) (sm_sleep (sm s) dl f)) f (InTimed t dl)
  else add_log (set_pc (acquire s f) f Idle) (RTimed f true (deadline (now s) t) (now s)).

Definition step (v : variant) (s : st) (e : ev) : option st :=
  match e with
  | ERun f t =>
      if Nat.leb (now s) t then
        let s := set_now s t in
        match pcs s f with
        | Idle => Some s
        | InLock k =>
            if mem f (q s) then None else Some (do_lock s f k)
        | InTimed tm dl =>
            match wait_status f (q s) (Some dl) t with
            | None => None
            | Some r =>
                let s := set_sm (set_q s (rem f (q s))) (sm_after (v_sl_guard v) (sm s) dl t) in
                if r then Some (timed_head v s f tm false)
                else Some (add_log (set_pc s f Idle) (RTimed f false dl t))
            end
        | InCv dl =>
            match wait_status f (cvq s) dl t with
            | None => None
            | Some r =>
                let m := match dl with Some d => sm_after (v_sl_guard v) (sm s) d t | None => sm s end in
                Some (do_lock (set_sm (set_cvq s (rem f (cvq s))) m) f (KCv r dl))
            end
        | InSleep dl =>
            if fired dl t then Some (add_log (set_pc s f Idle) (RSleep f dl t)) else None
        end
      else None
  | EOp f o =>
      match pcs s f with
      | Idle =>
          match o with
          | OLock => if mem f (holders s) then None else Some (do_lock s f KLock)
          | OTry =>
              if mem f (holders s) then None
              else if occ s then Some (add_log s (RTry f false (nonempty (holders s))))
              else Some (add_log (acquire s f) (RTry f true true))
          | OUnlock pick =>
              if mem f (holders s) then
                match release s f pick with Some s' => Some (add_log s' (RUnlock f)) | None => None end
              else None
          | OTimed tm => if mem f (holders s) then None else Some (timed_head v s f tm true)
          | OCvWait tm pick =>
              if mem f (holders s) then
                match release s f pick with
                | None => None
                | Some s1 =>
                    match tm with
                    | None => Some (set_pc (set_cvq s1 (cvq s1 ++ [f])) f (InCv None))
                    | Some tm =>
                        let dl := deadline (now s1) tm in
                        if Nat.leb dl (now s1)
                        then Some (do_lock (set_sm s1 (sm_after (v_sl_guard v) (sm s1) dl (now s1))) f
                                           (KCv false (Some dl)))
                        else Some (set_pc (set_sm (set_cvq s1 (cvq s1 ++ [f])) (sm_sleep (sm s1) dl f)) f
                                          (InCv (Some dl)))
                    end
                end
              else None
          | ONotifyOne pick =>
              match notify_one (cvq s) pick with
              | Some (l, gone) => Some (add_log (set_sm (set_cvq s l) (sm_unlink (sm s) gone)) (RNotify f (cvq s) l))
              | None => None
              end
          | ONotifyAll =>
              Some (add_log (set_sm (set_cvq s []) (sm_unlink (sm s) (cvq s))) (RNotify f (cvq s) []))
          | OSleep dl =>
              if Nat.leb dl (now s) then Some (add_log s (RSleep f dl (now s)))
              else Some (set_pc (set_sm s (sm_sleep (sm s) dl f)) f (InSleep dl))
          end
      | _ => None
      end
  end.

Fixpoint run (v : variant) (s : st) (tr : list ev) : option st :=
  match tr with
  | [] => Some s
  | e :: r => match step v s e with Some s' => run v s' r | None => None end
  end.

(* a fiber inside an operation that the scheduler can (eventually) resume *)
Definition resumable (s : st) (f : fid) : bool :=
  match pcs s f with
  | Idle => false
  | InLock _ => negb (mem f (q s))
  | InTimed _ _ => true
  | InCv None => negb (mem f (cvq s))
  | InCv (Some _) => true
  | InSleep _ => true
  end.

End Mx.

(* ================================================================== RecursiveMutex, RecursiveTimedMutex *)
Module Rc.

Inductive pc :=
| Idle
| InLock                       (* inside RecursiveMutex::lock's Wait (recursive_mutex.cpp:6-11) *)
| InTimed (t : tmo) (dl : nat). (* inside RecursiveTimedMutex::TimedWaitHelper's Wait *)

Inductive res :=
| RLock (f : fid)
| RUnlock (f : fid)
| RTry (f : fid) (ok : bool) (justified : bool)
| RTimed (f : fid) (ok : bool) (dl : nat) (t : nat).

Record st := {
  now : nat;
  owner : fid;              (* _owner_id, 0 = nobody; fiber ids are > 0 (fiber_base.cpp:8,12) *)
  cnt : nat;                (* _occupied_count *)
  q : list fid;
  pcs : fid -> pc;
  sm : smap;
  holders : list fid;       (* ghost multiset: one entry per successful, not yet released acquisition *)
  log : list res
}.

Definition init : st :=
  {| now := 0; owner := 0; cnt := 0; q := []; pcs := fun _ => Idle; sm := sm0; holders := []; log := [] |}.

Inductive op := OLock | OTry | OUnlock (pick : nat) | OTimed (t : tmo).
Inductive ev := ERun (f : fid) (t : nat) | EOp (f : fid) (o : op).

Definition set_pc (s : st) (f : fid) (p : pc) : st :=
  {| now := now s; owner := owner s; cnt := cnt s; q := q s; pcs := upd (pcs s) f p; sm := sm s;
     holders := holders s; log := log s |}.
Definition add_log (s : st) (r : res) : st :=
  {| now := now s; owner := owner s; cnt := cnt s; q := q s; pcs := pcs s; sm := sm s;
     holders := holders s; log := r :: log s |}.
Definition set_q (s : st) (l : list fid) : st :=
  {| now := now s; owner := owner s; cnt := cnt s; q := l; pcs := pcs s; sm := sm s;
     holders := holders s; log := log s |}.
Definition set_sm (s : st) (m : smap) : st :=
  {| now := now s; owner := owner s; cnt := cnt s; q := q s; pcs := pcs s; sm := m;
     holders := holders s; log := log s |}.
Definition set_now (s : st) (t : nat) : st :=
  {| now := t; owner := owner s; cnt := cnt s; q := q s; pcs := pcs s; sm := sm_wake (sm s) (t - tick);
     holders := holders s; log := log s |}.

(* _occupied_count != 0 && _owner_id != GetId() *)
Definition blocked (s : st) (f : fid) : bool := negb (Nat.eqb (cnt s) 0) && negb (Nat.eqb (owner s) f).

(* LockHelper (recursive_mutex.cpp:28-31) + the client's belief *)
Definition acquire (s : st) (f : fid) : st :=
  {| now := now s; owner := f; cnt := S (cnt s); q := q s; pcs := pcs s; sm := sm s;
     holders := f :: holders s; log := log s |}.

Fixpoint rem1 (f : fid) (l : list fid) : list fid :=
  match l with [] => [] | x :: r => if Nat.eqb x f then r else x :: rem1 f r end.

(* RecursiveMutex::unlock (recursive_mutex.cpp:21-27).  None: the library assertion "unlock on not locked
   recursive mutex" (the count would wrap). *)
Definition release (v : variant) (s : st) (f : fid) (pick : nat) : option st :=
  match cnt s with
  | 0 => None
  | S c =>
      let h := rem1 f (holders s) in
      match c with
      | 0 =>
          if v_rc_notify v then
            match notify_one (q s) pick with
            | Some (q', gone) =>
                Some {| now := now s; owner := 0; cnt := 0; q := q'; pcs := pcs s; sm := sm_unlink (sm s) gone;
                        holders := h; log := log s |}
            | None => None
            end
          else Some {| now := now s; owner := 0; cnt := 0; q := q s; pcs := pcs s; sm := sm s;
                       holders := h; log := log s |}
      | S _ => Some {| now := now s; owner := owner s; cnt := c; q := q s; pcs := pcs s; sm := sm s;
                       holders := h; log := log s |}
      end
  end.

(* RecursiveMutex::lock at the test; [first]: from the call / from a wake-up *)
Definition lock_head (v : variant) (s : st) (f : fid) (first : bool) : st :=
  if blocked s f && (first || v_rc_while v)
  then set_pc (set_q s (q s ++ [f])) f InLock
  else add_log (set_pc (acquire s f) f Idle) (RLock f).

Definition timed_head (v : variant) (s : st) (f : fid) (t : tmo) (first : bool) : st :=
  if blocked s f && (first || v_rt_while v) then
    let dl := deadline (now s) t in
    if Nat.leb dl (now s)
    then add_log (set_pc (set_sm s (sm_after (v_sl_guard v) (sm s) dl (now s))) f Idle) (RTimed f false dl (now s))
    else set_pc (set_sm (set_q s (q s ++ [f])) (sm_sleep (sm s) dl f)) f (InTimed t dl)
  else add_log (set_pc (acquire s f) f Idle) (RTimed f true (deadline (now s) t) (now s)).

Definition others (f : fid) (l : list fid) : bool := existsb (fun g => negb (Nat.eqb g f)) l.

Definition step (v : variant) (s : st) (e : ev) : option st :=
  match e with
  | ERun f t =>
      if Nat.leb (now s) t then
        let s := set_now s t in
        match pcs s f with
        | Idle => Some s
        | InLock => if mem f (q s) then None else Some (lock_head v s f false)
        | InTimed tm dl =>
            match wait_status f (q s) (Some dl) t with
            | None => None
            | Some r =>
                let s := set_sm (set_q s (rem f (q s))) (sm_after (v_sl_guard v) (sm s) dl t) in
                if r then Some (timed_head v s f tm false)
                else Some (add_log (set_pc s f Idle) (RTimed f false dl t))
            end
        end
      else None
  | EOp f o =>
      if Nat.eqb f 0 then None else
      match pcs s f with
      | Idle =>
          match o with
          | OLock => Some (lock_head v s f true)
          | OTry =>
              if blocked s f then Some (add_log s (RTry f false (others f (holders s))))
              else Some (add_log (acquire s f) (RTry f true true))
          | OUnlock pick =>
              if mem f (holders s) then
                match release v s f pick with Some s' => Some (add_log s' (RUnlock f)) | None => None end
              else None
          | OTimed tm => Some (timed_head v s f tm true)
          end
      | _ => None
      end
  end.

Fixpoint run (v : variant) (s : st) (tr : list ev) : option st :=
  match tr with
  | [] => Some s
  | e :: r => match step v s e with Some s' => run v s' r | None => None end
  end.

Definition resumable (s : st) (f : fid) : bool :=
  match pcs s f with
  | Idle => false
  | InLock => negb (mem f (q s))
  | InTimed _ _ => true
  end.

End Rc.

(* ================================================================== SharedMutex, SharedTimedMutex *)
Module Sh.

Inductive pc :=
| Idle
| InLockX                                  (* SharedMutex::lock's Wait on _exclusive_queue (shared_mutex.cpp:7-12) *)
| InLockS                                  (* SharedMutex::lock_shared's Wait — also on _exclusive_queue (:32-37);
                                              with v_shs_eq = false on _shared_queue *)
| InTimed (x : bool) (t : tmo) (dl : nat). (* SharedTimedMutex::TimedWaitHelper: exclusive -> _exclusive_queue,
                                              shared -> _shared_queue (shared_timed_mutex.hpp:39-45) *)

Inductive res :=
| RLock (f : fid) (x : bool)
| RUnlock (f : fid) (x : bool)
| RTry (f : fid) (x : bool) (ok : bool) (justified : bool)
| RTimed (f : fid) (x : bool) (ok : bool) (dl : nat) (t : nat).

Record st := {
  now : nat;
  occ : bool;               (* _occupied *)
  exm : bool;               (* _exclusive_mode *)
  cnt : nat;                (* _shared_owners_count *)
  sq : list fid;            (* _shared_queue *)
  eq : list fid;            (* _exclusive_queue *)
  pcs : fid -> pc;
  sm : smap;
  xh : list fid;            (* ghost: clients that believe they hold the lock exclusively *)
  sh : list fid;            (* ghost: clients that believe they hold it shared *)
  log : list res
}.

Definition init : st :=
  {| now := 0; occ := false; exm := false; cnt := 0; sq := []; eq := []; pcs := fun _ => Idle; sm := sm0;
     xh := []; sh := []; log := [] |}.

Inductive op :=
| OLockX | OTryX | OUnlockX (rnd : bool) (pick : nat)   (* rnd: GetRandNumber(2) == 0 (shared_mutex.cpp:23) *)
| OLockS | OTryS | OUnlockS (pick : nat)
| OTimedX (t : tmo) | OTimedS (t : tmo).
Inductive ev := ERun (f : fid) (t : nat) | EOp (f : fid) (o : op).

Definition set_pc (s : st) (f : fid) (p : pc) : st :=
  {| now := now s; occ := occ s; exm := exm s; cnt := cnt s; sq := sq s; eq := eq s; pcs := upd (pcs s) f p;
     sm := sm s; xh := xh s; sh := sh s; log := log s |}.
Definition add_log (s : st) (r : res) : st :=
  {| now := now s; occ := occ s; exm := exm s; cnt := cnt s; sq := sq s; eq := eq s; pcs := pcs s;
     sm := sm s; xh := xh s; sh := sh s; log := r :: log s |}.
Definition set_eq (s : st) (l : list fid) : st :=
  {| now := now s; occ := occ s; exm := exm s; cnt := cnt s; sq := sq s; eq := l; pcs := pcs s;
     sm := sm s; xh := xh s; sh := sh s; log := log s |}.
Definition set_sq (s : st) (l : list fid) : st :=
  {| now := now s; occ := occ s; exm := exm s; cnt := cnt s; sq := l; eq := eq s; pcs := pcs s;
     sm := sm s; xh := xh s; sh := sh s; log := log s |}.
Definition set_sm (s : st) (m : smap) : st :=
  {| now := now s; occ := occ s; exm := exm s; cnt := cnt s; sq := sq s; eq := eq s; pcs := pcs s;
     sm := m; xh := xh s; sh := sh s; log := log s |}.
Definition set_now (s : st) (t : nat) : st :=
  {| now := t; occ := occ s; exm := exm s; cnt := cnt s; sq := sq s; eq := eq s; pcs := pcs s;
     sm := sm_wake (sm s) (t - tick); xh := xh s; sh := sh s; log := log s |}.
(* the queue a waiter of kind x sits in *)
Definition wq (s : st) (x : bool) : list fid := if x then eq s else sq s.
Definition set_wq (s : st) (x : bool) (l : list fid) : st := if x then set_eq s l else set_sq s l.

(* LockHelper / SharedLockHelper (shared_mutex.cpp:55-64); [x]: what the CLIENT asked for (its belief) *)
Definition helper_x (s : st) : st :=
  {| now := now s; occ := true; exm := true; cnt := cnt s; sq := sq s; eq := eq s; pcs := pcs s;
     sm := sm s; xh := xh s; sh := sh s; log := log s |}.
Definition helper_s (s : st) : st :=
  {| now := now s; occ := true; exm := false; cnt := S (cnt s); sq := sq s; eq := eq s; pcs := pcs s;
     sm := sm s; xh := xh s; sh := sh s; log := log s |}.
Definition believe (s : st) (f : fid) (x : bool) : st :=
  {| now := now s; occ := occ s; exm := exm s; cnt := cnt s; sq := sq s; eq := eq s; pcs := pcs s; sm := sm s;
     xh := if x then f :: xh s else xh s; sh := if x then sh s else f :: sh s; log := log s |}.

Definition blocked (s : st) (x : bool) : bool := occ s && (x || exm s).

(* SharedMutex::unlock (shared_mutex.cpp:22-30) *)
Definition release_x (s : st) (f : fid) (rnd : bool) (pick : nat) : option st :=
  let unlock_shared := nonempty (sq s) && (negb (nonempty (eq s)) || rnd) in
  if unlock_shared then
    Some {| now := now s; occ := false; exm := exm s; cnt := cnt s; sq := []; eq := eq s; pcs := pcs s;
            sm := sm_unlink (sm s) (sq s); xh := rem f (xh s); sh := sh s; log := log s |}
  else
    match notify_one (eq s) pick with
    | Some (l, gone) =>
        Some {| now := now s; occ := false; exm := exm s; cnt := cnt s; sq := sq s; eq := l; pcs := pcs s;
                sm := sm_unlink (sm s) gone; xh := rem f (xh s); sh := sh s; log := log s |}
    | None => None
    end.

(* SharedMutex::unlock_shared (shared_mutex.cpp:47-53).  None: the unsigned count would wrap. *)
Definition release_s (s : st) (f : fid) (pick : nat) : option st :=
  match cnt s with
  | 0 => None
  | S 0 =>
      match notify_one (eq s) pick with
      | Some (l, gone) =>
          Some {| now := now s; occ := false; exm := exm s; cnt := 0; sq := sq s; eq := l; pcs := pcs s;
                  sm := sm_unlink (sm s) gone; xh := xh s; sh := rem f (sh s); log := log s |}
      | None => None
      end
  | S c => Some {| now := now s; occ := occ s; exm := exm s; cnt := c; sq := sq s; eq := eq s; pcs := pcs s;
                   sm := sm s; xh := xh s; sh := rem f (sh s); log := log s |}
  end.

Definition uses_while (v : variant) (x : bool) : bool := if x then v_sh_while v else v_shs_while v.

(* SharedMutex::lock / lock_shared at the test *)
Definition lock_head (v : variant) (s : st) (f : fid) (x : bool) (first : bool) : st :=
  if blocked s x && (first || uses_while v x)
  then (let e := x || v_shs_eq v in set_pc (set_wq s e (wq s e ++ [f])) f (if x then InLockX else InLockS))
  else add_log (set_pc (believe (if x then helper_x s else helper_s s) f x) f Idle) (RLock f x).

(* SharedTimedMutex::TimedWaitHelper(timeout, exclusive) at the test *)
Definition timed_head (v : variant) (s : st) (f : fid) (x : bool) (t : tmo) (first : bool) : st :=
  if blocked s x && (first || v_st_while v) then
    let dl := deadline (now s) t in
    if Nat.leb dl (now s)
    then add_log (set_pc (set_sm s (sm_after (v_sl_guard v) (sm s) dl (now s))) f Idle)
                 (RTimed f x false dl (now s))
    else set_pc (set_sm (set_wq s x (wq s x ++ [f])) (sm_sleep (sm s) dl f)) f (InTimed x t dl)
  else
    add_log (set_pc (believe (if x && v_st_helper v then helper_x s else helper_s s) f x) f Idle)
            (RTimed f x true (deadline (now s) t) (now s)).

Definition held (s : st) (f : fid) : bool := mem f (xh s) || mem f (sh s).

Definition step (v : variant) (s : st) (e : ev) : option st :=
  match e with
  | ERun f t =>
      if Nat.leb (now s) t then
        let s := set_now s t in
        match pcs s f with
        | Idle => Some s
        | InLockX => if mem f (eq s) then None else Some (lock_head v s f true false)
        | InLockS => if mem f (wq s (v_shs_eq v)) then None else Some (lock_head v s f false false)
        | InTimed x tm dl =>
            match wait_status f (wq s x) (Some dl) t with
            | None => None
            | Some r =>
                let s := set_sm (set_wq s x (rem f (wq s x))) (sm_after (v_sl_guard v) (sm s) dl t) in
                if r then Some (timed_head v s f x tm false)
                else Some (add_log (set_pc s f Idle) (RTimed f x false dl t))
            end
        end
      else None
  | EOp f o =>
      match pcs s f with
      | Idle =>
          match o with
          | OLockX => if held s f then None else Some (lock_head v s f true true)
          | OLockS => if held s f then None else Some (lock_head v s f false true)
          | OTryX =>
              if held s f then None
              else if blocked s true
              then Some (add_log s (RTry f true false (nonempty (xh s) || nonempty (sh s))))
              else Some (add_log (believe (helper_x s) f true) (RTry f true true true))
          | OTryS =>
              if held s f then None
              else if blocked s false
              then Some (add_log s (RTry f false false (nonempty (xh s))))
              else Some (add_log (believe (helper_s s) f false) (RTry f false true true))
          | OUnlockX rnd pick =>
              if mem f (xh s) then
                match release_x s f rnd pick with Some s' => Some (add_log s' (RUnlock f true)) | None => None end
              else None
          | OUnlockS pick =>
              if mem f (sh s) then
                match release_s s f pick with Some s' => Some (add_log s' (RUnlock f false)) | None => None end
              else None
          | OTimedX tm => if held s f then None else Some (timed_head v s f true tm true)
          | OTimedS tm => if held s f then None else Some (timed_head v s f false tm true)
          end
      | _ => None
      end
  end.

Fixpoint run (v : variant) (s : st) (tr : list ev) : option st :=
  match tr with
  | [] => Some s
  | e :: r => match step v s e with Some s' => run v s' r | None => None end
  end.

Definition resumable (s : st) (f : fid) : bool :=
  match pcs s f with
  | Idle => false
  | InLockX => negb (mem f (eq s))
  | InLockS => negb (mem f (eq s) || mem f (sq s))
  | InTimed _ _ _ => true
  end.

End Sh.

(* ================================================================== Thread: spawn / exit / join / detach *)
Module Jn.

Inductive tstate := TNone | TRun | TDone.   (* no such fiber yet / running / FiberState::Completed *)

Record st := {
  ts : fid -> tstate;
  handle : fid -> bool;          (* the Thread object of this fiber still has its _impl *)
  joiner : fid -> option fid;    (* FiberBase::_joining_fiber *)
  alive : fid -> bool;           (* FiberBase::_thread_alive *)
  jpc : fid -> option fid;       (* this fiber is suspended inside Thread::join on that thread *)
  woken : fid -> bool;           (* ... and FiberBase::Exit has scheduled it *)
  log : list (fid * fid * bool)  (* join returned: (joiner, joined, the joined function had finished) *)
}.

Definition init (root : fid) : st :=
  {| ts := fun f => if Nat.eqb f root then TRun else TNone; handle := fun _ => false; joiner := fun _ => None;
     alive := fun _ => true; jpc := fun _ => None; woken := fun _ => false; log := [] |}.

Inductive ev :=
| ESpawn (p c : fid)        (* Thread(f): new Fiber, Schedule *)
| EExit (c : fid)           (* the thread function returned: FiberBase::Exit (fiber_base.cpp:42-48) *)
| EJoin (j c : fid)         (* Thread::join (thread.cpp:22-36) up to its first Suspend or to the end *)
| ERun (j : fid)            (* the scheduler resumes a fiber suspended in join *)
| EDetach (j c : fid).      (* Thread::detach *)

Definition is_done (t : tstate) : bool := match t with TDone => true | _ => false end.
Definition is_none (t : tstate) : bool := match t with TNone => true | _ => false end.
Definition is_some {A : Type} (o : option A) : bool := match o with Some _ => true | None => false end.

(* AfterJoinOrDetach (thread.cpp:75-83) *)
Definition after (s : st) (c : fid) : st :=
  {| ts := ts s; handle := upd (handle s) c false; joiner := joiner s;
     alive := if is_done (ts s c) then alive s else upd (alive s) c false;
     jpc := jpc s; woken := woken s; log := log s |}.

(* while (_impl->GetState() != Completed) { SetJoiningFiber(Current()); Suspend(); }  AfterJoinOrDetach(); *)
Definition join_head (s : st) (j c : fid) : st :=
  if is_done (ts s c) then
    let s1 := after s c in
    {| ts := ts s1; handle := handle s1; joiner := joiner s1; alive := alive s1;
       jpc := upd (jpc s1) j None; woken := upd (woken s1) j false; log := (j, c, is_done (ts s c)) :: log s1 |}
  else
    {| ts := ts s; handle := handle s; joiner := upd (joiner s) c (Some j); alive := alive s;
       jpc := upd (jpc s) j (Some c); woken := upd (woken s) j false; log := log s |}.

Definition step (s : st) (e : ev) : option st :=
  match e with
  | ESpawn p c =>
      if is_none (ts s c) && negb (is_none (ts s p)) && negb (is_done (ts s p)) then
        Some {| ts := upd (ts s) c TRun; handle := upd (handle s) c true; joiner := joiner s; alive := alive s;
                jpc := jpc s; woken := woken s; log := log s |}
      else None
  | EExit c =>
      match ts s c, jpc s c with
      | TRun, None =>
          Some {| ts := upd (ts s) c TDone; handle := handle s; joiner := joiner s; alive := alive s; jpc := jpc s;
                  woken := match joiner s c with
                           | Some j => if alive s c then upd (woken s) j true else woken s
                           | None => woken s
                           end;
                  log := log s |}
      | _, _ => None
      end
  | EJoin j c =>
      (* joinable(): get_id() != GetId(); one client thread uses a Thread object at a time *)
      if handle s c && negb (Nat.eqb j c) && negb (is_some (jpc s j)) && negb (is_some (joiner s c))
         && negb (is_none (ts s j)) && negb (is_done (ts s j))
      then Some (join_head s j c) else None
  | ERun j =>
      match jpc s j with
      | Some c => if woken s j then Some (join_head s j c) else None
      | None => None
      end
  | EDetach j c =>
      if handle s c && negb (Nat.eqb j c) && negb (is_some (joiner s c)) then Some (after s c) else None
  end.

Fixpoint run (s : st) (tr : list ev) : option st :=
  match tr with
  | [] => Some s
  | e :: r => match step s e with Some s' => run s' r | None => None end
  end.

End Jn.

(* ================================================================== thread-local pointers *)
Module Tl.

(* FiberBase::_tls / GetTLS / SetTLS (fiber_base.cpp:66-76) and the process-wide defaults map
   (thread_local_proxy.cpp).  Pointers are numbers, 0 = nullptr. *)
Record st := {
  tls : fid -> nat -> option nat;    (* per fiber: variable index -> stored pointer *)
  dflt : nat -> nat;                 (* defaults map *)
  reads : list (fid * nat * nat)     (* (fiber, variable, value read), newest first *)
}.

Definition init : st := {| tls := fun _ _ => None; dflt := fun _ => 0; reads := [] |}.

Inductive ev :=
| ESet (f : fid) (x : nat) (v : nat)     (* proxy = value  ->  Set(value, i) *)
| EGet (f : fid) (x : nat)               (* proxy.Get()    ->  GetImpl(i) *)
| EDefault (x : nat) (v : nat).          (* SetDefault (construction from a value / copy) *)

Definition get (s : st) (f : fid) (x : nat) : nat :=
  match tls s f x with Some v => v | None => dflt s x end.

Definition step (s : st) (e : ev) : st :=
  match e with
  | ESet f x v => {| tls := upd (tls s) f (upd (tls s f) x (Some v)); dflt := dflt s; reads := reads s |}
  | EGet f x => {| tls := tls s; dflt := dflt s; reads := (f, x, get s f x) :: reads s |}
  | EDefault x v => {| tls := tls s; dflt := upd (dflt s) x v; reads := reads s |}
  end.

Fixpoint run (s : st) (tr : list ev) : st :=
  match tr with [] => s | e :: r => run (step s e) r end.

(* The variable index is handed out by ThreadLocalPtrProxy's constructors (thread_local_proxy.hpp).  [tys]: the
   pointee types of the proxies in construction order.  one_counter = false: the pinned text, the counter is a
   static member of the class template, i.e. one counter per pointee type; true: one counter for all. *)
Fixpoint slots_from (one_counter : bool) (seen : list nat) (tys : list nat) : list nat :=
  match tys with
  | [] => []
  | t :: r =>
      (if one_counter then length seen else count_occ Nat.eq_dec seen t) :: slots_from one_counter (seen ++ [t]) r
  end.
Definition slots (one_counter : bool) (tys : list nat) : list nat := slots_from one_counter [] tys.

End Tl.
