(* C19 — the contract of std::atomic<T>, std::atomic_flag and the fences, as functions on Z.
   ([atomics.types.operations], [atomics.types.int], [atomics.types.float], [atomics.types.pointer],
   [atomics.flag]): every operation is total on representable values; integer arithmetic is two's complement
   with silent wrap-around for signed and unsigned T ("there are no undefined results"), pointer arithmetic is
   scaled by the element size, compare_exchange compares value representations, a weak compare_exchange may
   fail spuriously: it then returns false, stores the value read into [expected] and changes nothing.

   Hand-written from the standard's text; validated against the real std::atomic by the differential harness
   (checks/c19.py compares [run std_*] with what libstdc++'s std::atomic returned on the same sequences).
   No proofs here. *)
From Coq Require Import ZArith List Bool.
Import ListNotations.
Open Scope Z_scope.
From YV Require Import model.AtomicCSem.

(* result of  (stored op arg)  in type T *)
Definition std_arith (S : sem) (T : cty) (op : bop) (v a : Z) : Z :=
  match T with
  | CInt w sg => norm w sg (raw op v a)
  | CPtr sz _ => norm 64 false (raw op v (sz * a))
  | CFlt => match op with BAdd => fadd S v a | BSub => fsub S v a | _ => v end
  | CBool | CFltW => v
  end.

Definition std_store : opfun := fun _ _ _ v a1 _ => Some (a1, 0, a1).
Definition std_assign : opfun := fun _ _ _ v a1 _ => Some (a1, a1, a1).
Definition std_load : opfun := fun _ _ _ v a1 _ => Some (v, v, a1).
Definition std_xchg : opfun := fun _ _ _ v a1 _ => Some (a1, v, a1).
(* compare_exchange_strong(expected = a1, desired = a2): never fails spuriously *)
Definition std_ces : opfun := fun _ _ _ v a1 a2 => if v =? a1 then Some (a2, 1, a1) else Some (v, 0, v).
(* compare_exchange_weak: [spur] = the implementation chose to fail spuriously *)
Definition std_cew : opfun := fun S T spur v a1 a2 => if spur then Some (v, 0, v) else std_ces S T spur v a1 a2.

Definition std_fetch (op : bop) : opfun := fun S T _ v a1 _ => Some (std_arith S T op v a1, v, a1).
Definition std_opassign (op : bop) : opfun :=
  fun S T _ v a1 _ => let n := std_arith S T op v a1 in Some (n, n, a1).
Definition std_pre (op : bop) : opfun := fun S T _ v a1 _ => let n := std_arith S T op v 1 in Some (n, n, a1).
Definition std_post (op : bop) : opfun := fun S T _ v a1 _ => Some (std_arith S T op v 1, v, a1).

Definition std_clear : opfun := fun _ _ _ v a1 _ => Some (0, 0, a1).
Definition std_tas : opfun := fun _ _ _ v a1 _ => Some (1, v, a1).

Definition std_base (o : opn) : option opfun :=
  match o with
  | Assign => Some std_assign | Store => Some std_store | Load | Conv => Some std_load | Xchg => Some std_xchg
  | Cew2 | Cew1 => Some std_cew | Ces2 | Ces1 => Some std_ces
  | _ => None
  end.

Definition std_addsub (o : opn) : option opfun :=
  match o with
  | FAdd => Some (std_fetch BAdd) | FSub => Some (std_fetch BSub)
  | AddA => Some (std_opassign BAdd) | SubA => Some (std_opassign BSub)
  | _ => None
  end.

Definition std_incdec (o : opn) : option opfun :=
  match o with
  | PreInc => Some (std_pre BAdd) | PostInc => Some (std_post BAdd)
  | PreDec => Some (std_pre BSub) | PostDec => Some (std_post BSub)
  | _ => None
  end.

Definition std_bits (o : opn) : option opfun :=
  match o with
  | FAnd => Some (std_fetch BAnd) | FOr => Some (std_fetch BOr) | FXor => Some (std_fetch BXor)
  | AndA => Some (std_opassign BAnd) | OrA => Some (std_opassign BOr) | XorA => Some (std_opassign BXor)
  | _ => None
  end.

Definition orelse {A} (a b : option A) : option A := match a with Some _ => a | None => b end.

(* the member functions std::atomic<T> has, by kind of T *)
Definition std_bool : opn -> option opfun := std_base.
Definition std_flt (o : opn) : option opfun := orelse (std_base o) (std_addsub o).
Definition std_ptr (o : opn) : option opfun := orelse (std_base o) (orelse (std_addsub o) (std_incdec o)).
Definition std_int (o : opn) : option opfun :=
  orelse (std_base o) (orelse (std_addsub o) (orelse (std_incdec o) (std_bits o))).
Definition std_flag (o : opn) : option opfun :=
  match o with Clear => Some std_clear | TAS => Some std_tas | Test => Some std_load | _ => None end.

(* std::atomic<T> seen as the Impl parameter of the THREAD wrapper (volatile and non-volatile overloads agree) *)
Definition std_impl (k : opn -> option opfun) : impl := fun o _ => k o.

(* atomic_thread_fence / atomic_signal_fence do not touch any object *)
Definition std_fence (v : Z) : Z := v.

(* the kind of T *)
Inductive kind := KInt | KBool | KPtr | KFlt | KFlag.

Definition std_of (k : kind) : opn -> option opfun :=
  match k with KInt => std_int | KBool => std_bool | KPtr => std_ptr | KFlt => std_flt | KFlag => std_flag end.

(* T is a type of kind k *)
Definition ty_of (k : kind) (T : cty) : bool :=
  match k with
  | KInt => int_ty T
  | KBool | KFlag => match T with CBool => true | _ => false end
  | KPtr => ptr_ty T
  | KFlt => match T with CFlt => true | _ => false end
  end.

(* type of the (first) argument of operation o on an atomic<T> *)
Definition arg_ty (T : cty) (o : opn) : cty :=
  match T, o with
  | CPtr _ _, (FAdd | FSub | AddA | SubA) => ptrdiff_t
  | _, _ => T
  end.

(* memory-order preconditions of the std member functions (single-order compare_exchange accepts every order) *)
Definition std_orders_ok (o : opn) (ms : list mo) : bool := call_orders_ok (o, ms).
