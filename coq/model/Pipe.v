(* Pipe — continuation pipelines of YACLib as programs, with two semantics.

   [core_run]  mirrors the structure of the implementation (include/yaclib/algo/detail/core.hpp at the pinned
               commit): signature dispatch by invocability in the order of Tag/CallImpl/CallResolveState,
               the function-try-block of CallImpl, CallResolveAsync with the unwrapping flag and the re-entry
               through Impl/async_done, Done, executor transfer (BaseCore::TransferExecutorTo), Submit on an
               alive / stopped executor (Job::Call / Job::Drop), the way a returned Task is started
               (CallResolveAsync task branch: StoreCallback + MoveToCaller + Submit of the head to its own
               executor, as detail::Start does), PromiseCore, ReadyCore, PromiseType.
   [seq_eval]  is the sequential reading of the property text (C02) and nothing else.

   No proofs here.  Values, errors and exceptions are numbers; callback bodies are arbitrary total Coq
   functions from the callback's input to its outcome (so theorems quantify over all callbacks).

   The program type is shared with C05 (executor placement: every event records the executor the step's
   core held and whether it was submitted), C12 (Lazy.v) and C20. *)
From Coq Require Import List ZArith Bool.
Import ListNotations.

(* ------------------------------------------------------------------------------------------ data *)

Inductive val := VInt (z : Z) | VUnit.
Definition err := Z.
Definition exc := Z.
Definition EStop : err := (-1)%Z.              (* E{StopTag{}} : the distinguished error *)

Inductive res := Val (v : val) | Err (e : err) | Exc (x : exc).   (* Result<V,E> states Value/Error/Exception *)

(* executors the harness uses: MakeInline(), an instrumented ManualExecutor (drained until quiescent),
   MakeInline(StopTag{}) *)
Inductive exec := XInline | XManual (n : nat) | XStopped.
Definition alive (e : exec) : bool := match e with XStopped => false | _ => true end.

Inductive ty := TInt | TVoid.                   (* the value type V of the current Future/Task *)
Definition ty_eqb (a b : ty) : bool :=
  match a, b with TInt, TInt | TVoid, TVoid => true | _, _ => false end.

(* which handle type the program is currently in: Future, FutureOn, Task, SharedFuture, SharedFutureOn *)
Inductive wkind := WF | WO | WT | WS | WSO.

(* parameter class of a callback (the C++ functor types of harness/h_c02_lib.hpp):
   PResult  f(Result<V,E>)        PValue  f(int)             PError  f(E)       PExc  f(std::exception_ptr)
   PNone    f()                   PUnit   f(yaclib::Unit)    PAuto   template <class T> f(T&&)            *)
Inductive pclass := PResult | PValue | PError | PExc | PNone | PUnit | PAuto.

Inductive attach := AInline | AOn (e : exec) | AInherit.   (* ThenInline(f) | Then(e, f) | Then(f) *)

(* what a callback was invoked with *)
Inductive input := IRes (r : res) | IVal (v : val) | IErr (e : err) | IExc (x : exc) | INone | IUnit.

Inductive akind := KFuture | KShared | KTask.   (* returned Future/FutureOn | SharedFuture | Task *)

(* what the function given to AsyncContract/LazyContract does with its Promise *)
Inductive prom_beh := PBSet (late : bool) (r : res) | PBThrow (x : exc).

Inductive outcome :=
| Throw (x : exc)                      (* throw Ex{x} *)
| RetV (v : val)                       (* return v *)
| RetVoid                              (* return; *)
| RetRes (r : res)                     (* return Result<..>{r} *)
| RetAsync (k : akind) (p : prog)      (* return the Future / SharedFuture / Task built by p *)
with prog :=
(* sources *)
| PReady (w : wkind) (t : ty) (r : res)
    (* MakeFuture<V,E>(r) (WF) / MakeTask<V,E>(r) (WT) *)
| PContract (w : wkind) (t : ty) (e : exec) (late : bool) (r : res)
    (* MakeContract (WF) / MakeContractOn(e) (WO) / MakeSharedContract (WS); the promise is fulfilled with r before
       (late = false) or after (late = true) the rest of the chain is attached *)
| PRun (w : wkind) (e : exec) (id : nat) (par : pclass) (rt : ty) (body : input -> outcome)
    (* Run(f) (WF) / Run(e,f) (WO) / RunShared(f) (WS) / RunShared(e,f) (WSO) / Schedule(e,f) (WT):
       Core<.., CoreType::Run | Call, ..> *)
| PProm (w : wkind) (t : ty) (e : exec) (id : nat) (b : prom_beh)
    (* AsyncContract (WF/WO) / AsyncSharedContract (WS/WSO) / LazyContract (WT): PromiseCore *)
| PCoro (w : wkind) (t : ty) (id : nat) (r : res)
    (* a coroutine returning Future (WF) / Task (WT) that co_returns r (Exc x: lets Ex{x} escape): PromiseType *)
(* steps *)
| PThen (q : prog) (id : nat) (par : pclass) (a : attach) (rt : ty) (body : input -> outcome)
| PToFuture (q : prog)                 (* Task::ToFuture() *)
| POnNull (q : prog).                  (* FutureOn::On(nullptr) / SharedFutureOn::On(nullptr) *)

Scheme outcome_mind := Induction for outcome Sort Prop
  with prog_mind := Induction for prog Sort Prop.
Combined Scheme outcome_prog_mind from outcome_mind, prog_mind.

(* one callback invocation: which function, the executor its core held, whether the core was submitted to
   that executor (Then(e,f) / Then(f) / Run) or ran in line (ThenInline), and the argument *)
Record event := Ev { ev_id : nat; ev_exec : exec; ev_sub : bool; ev_in : input }.

Record out := Out { o_res : res; o_exec : exec; o_ty : ty; o_evs : list event }.

(* ------------------------------------------------------------------ compile-time dispatch tables *)

(* Argument kinds the library probes a functor with. *)
Inductive argk := GResult | GValue | GError | GExc | GUnit.

(* yaclib::is_invocable_v<F, A> for the harness functor of class p in a world of value type t, where
   A = Result<V,E> | V | E | std::exception_ptr | Unit.  is_invocable_v<F, void> means "callable with no
   argument" (util/detail/type_traits_impl.hpp:22).  Result<V,E> has an unconstrained converting
   constructor template (util/result.hpp:103), so a functor taking Result is "invocable" with anything that
   is passed as one argument.  The harness checks this whole table against the compiler by static_assert. *)
Definition invocable (p : pclass) (t : ty) (a : argk) : bool :=
  match p, a with
  | (PResult | PAuto), GValue => ty_eqb t TInt
  | (PResult | PAuto), _ => true
  | PValue, GValue => ty_eqb t TInt
  | PError, GError => true
  | PExc, GExc => true
  | PNone, GValue => ty_eqb t TVoid
  | PUnit, GUnit => true
  | _, _ => false
  end.

(* detail::Tag<V,E,Func>() core.hpp:317-332: which argument type defines the callback's return type *)
Definition tag (p : pclass) (t : ty) : nat :=
  if invocable p t GResult then 1
  else if invocable p t GValue then 2
  else if invocable p t GError then 3
  else if invocable p t GExc then 4
  else if invocable p t GUnit then 5
  else 0.

Definition is_void (t : ty) : bool := ty_eqb t TVoid.

(* CallResolveVoid core.hpp:298-314: kArgVoid = is_invocable_v<Invoke> decides f() versus f(value) *)
Definition value_input (p : pclass) (t : ty) (v : val) : input :=
  if is_void t then (if invocable p t GValue then INone else IUnit) else IVal v.

(* Decision taken by CallImpl + CallResolveState before anything is called *)
Inductive route := Invoke (i : input) | Pass (r : res).

(* Core::CallImpl core.hpp:189-198 and Core::CallResolveState core.hpp:233-272, r = the Result handed to
   the core (predecessor's result, or Result{StopTag} from Drop). None = static_assert at core.hpp:264. *)
Definition call_impl (p : pclass) (t : ty) (r : res) : option route :=
  if invocable p t GResult then Some (Invoke (IRes r))                         (* :191-192 *)
  else if invocable p t GValue || (is_void t && invocable p t GUnit) then      (* :236 *)
    match r with
    | Val v => Some (Invoke (value_input p t v))                               (* :237-238 *)
    | Exc x => Some (Pass (Exc x))                                             (* :239-240 *)
    | Err e => Some (Pass (Err e))                                             (* :241-243 *)
    end
  else
    let kx := invocable p t GExc in
    let ke := invocable p t GError in
    if xorb kx ke then                                                         (* :262-264 *)
      match r, kx with
      | Exc x, true => Some (Invoke (IExc x))                                  (* :266-268 *)
      | Err e, false => Some (Invoke (IErr e))
      | _, _ => Some (Pass r)                                                  (* :270 Done(std::move(r)) *)
      end
    else None.

(* The first core of Run/Schedule (IsRun): Core::Call core.hpp:128-134 calls f() directly when f takes no
   argument, otherwise goes through CallImpl with Result<void,E>{Unit{}}; Core::Drop core.hpp:142-144 always goes
   through CallImpl with Result{StopTag}. *)
Definition run_call (p : pclass) (stopped : bool) : option route :=
  if stopped then call_impl p TVoid (Err EStop)
  else if invocable p TVoid GValue then Some (Invoke INone)
  else call_impl p TVoid (Val VUnit).

(* What the core holds after the callback returned or threw: CallImpl's catch (core.hpp:196-198),
   CallResolveAsync (:274-296), CallResolveVoid (:298-314), Done (:200-231).
   For a callback that returned a Future / SharedFuture / Task (kAsync != None) see [run]. *)
Definition done_result (o : outcome) : res :=
  match o with
  | Throw x => Exc x             (* catch (...) { Done(std::current_exception()) } *)
  | RetV v => Val v              (* kAsync == None: Done(CallResolveVoid(..)) *)
  | RetVoid => Val VUnit         (* kRetVoid: return Unit{} *)
  | RetRes r => r                (* Store(Result&&): stored as is *)
  | RetAsync _ _ => Val VUnit    (* not used: [run] handles this case itself *)
  end.

(* SetCallback core.hpp:404 stores the executor argument (nullptr for ThenInline / Then(f)); Impl core.hpp:165
   TransferExecutorTo takes the caller's executor when the callback has none *)
Definition transfer_exec (a : attach) (caller_exec : exec) : exec :=
  match a with AOn e => e | _ => caller_exec end.

(* IsCall(Type): Then(e,f) and Then(f) submit the core to its executor, ThenInline does not (core.hpp:171-177) *)
Definition is_call (a : attach) : bool := match a with AInline => false | _ => true end.

(* Submit on Inline<Stopped> / ManualExecutor: Call when alive, Drop when stopped (src/exe/inline.cpp:21-27);
   Drop hands Result{StopTag} to CallImpl instead of the caller's result (core.hpp:142-144) *)
Definition step_input (a : attach) (ex : exec) (caller_res : res) : res :=
  if is_call a && negb (alive ex) then Err EStop else caller_res.

(* PromiseCore::Call promise_core.hpp:31-49 / Drop :51-55 *)
Definition prom_result (b : prom_beh) (stopped : bool) : res * bool :=
  if stopped then (Err EStop, false)
  else match b with
       | PBSet _ r => (r, true)
       | PBThrow x => (Exc x, true)       (* promise.Valid(): Set(current_exception) *)
       end.

(* ------------------------------------------------------------------------- the implementation's run *)

(* A chain is run to completion: built eagerly, or (Task) started by detail::Start (src/lazy/task_impl.cpp:6-15),
   or (a Task returned from a callback) started by CallResolveAsync, which since 898bf94 does what detail::Start
   does: head = MoveToCaller(core); head->_executor->Submit( *head).  None = the program does not compile. *)
Fixpoint run (p : prog) {struct p} : option out :=
  match p with
  | PReady w t r => Some (Out r XInline t [])
      (* UniqueCore{result} / ReadyCore: BaseCore::_executor defaults to MakeInline(); ReadyCore::Call just
         SetResult (lazy/make.hpp:18-20) *)
  | PContract w t e late r => Some (Out r e t [])
  | PRun w e id par rt body =>
      match run_call par (negb (alive e)) with
      | None => None
      | Some (Pass r) => Some (Out r e rt [])
      | Some (Invoke i) =>
          let ev := Ev id e true i in
          match body i with
          | RetAsync k p' =>
              match run p' with
              | Some oi =>   (* Impl (IsRun): async_done -> Done<Async>(inner result) core.hpp:148-156 *)
                  Some (Out (o_res oi) e rt (ev :: o_evs oi))
              | None => None
              end
          | o' => Some (Out (done_result o') e rt [ev])
          end
      end
  | PProm w t e id b =>
      let '(r, called) := prom_result b (negb (alive e)) in
      Some (Out r e t (if called then [Ev id e true INone] else []))
  | PCoro w t id r => Some (Out r XInline t [Ev id XInline false INone])
  | PThen q id par a rt body =>
      match run q with
      | Some o =>
          let ex := transfer_exec a (o_exec o) in                              (* Impl core.hpp:163-165 *)
          match call_impl par (o_ty o) (step_input a ex (o_res o)) with        (* :171-177, Call :136-138, Drop :143 *)
          | None => None
          | Some (Pass r) => Some (Out r ex rt (o_evs o))                      (* Done *)
          | Some (Invoke i) =>
              let ev := Ev id ex (is_call a) i in
              match body i with
              | RetAsync k p' =>
                  (* CallResolveAsync core.hpp:277-296: Future/SharedFuture: core->SetInline( *this);
                     Task: core->StoreCallback( *this); head = MoveToCaller(core); head->_executor->Submit( *head) *)
                  match run p' with
                  | Some oi =>
                      (* inner completes -> this->Here(inner): Impl sees unwrapping != 0 (core.hpp:158-161) ->
                         async_done -> Done<Async>(inner result moved / copied); the core keeps its own executor *)
                      Some (Out (o_res oi) ex rt (o_evs o ++ ev :: o_evs oi))
                  | None => None
                  end
              | o' => Some (Out (done_result o') ex rt (o_evs o ++ [ev]))       (* Done *)
              end
          end
      | None => None
      end
  | PToFuture q => run q
  | POnNull q => run q
  end.

Definition core_run (p : prog) : option out := run p.

(* ------------------------------------------------------------------ the sequential reading (C02) *)

(* "a callback taking the value runs only on success; a callback taking the error type or std::exception_ptr
   runs only on that kind of failure; a callback taking Result always runs" *)
Definition invoked (p : pclass) (r : res) : option input :=
  match p, r with
  | (PResult | PAuto), _ => Some (IRes r)
  | PValue, Val v => Some (IVal v)
  | PNone, Val _ => Some INone
  | PUnit, Val _ => Some IUnit
  | PError, Err e => Some (IErr e)
  | PExc, Exc x => Some (IExc x)
  | _, _ => None
  end.

(* a step handed to a stopped executor sees StopError instead of its predecessor's Result (C05) *)
Definition seq_input (a : attach) (ex : exec) (r : res) : res :=
  match a with
  | AInline => r
  | _ => if alive ex then r else Err EStop
  end.

Fixpoint seq (p : prog) {struct p} : out :=
  match p with
  | PReady _ t r => Out r XInline t []
  | PContract _ t e _ r => Out r e t []
  | PRun _ e id par rt body =>
      match invoked par (if alive e then Val VUnit else Err EStop) with
      | None => Out (if alive e then Val VUnit else Err EStop) e rt []
      | Some i =>
          match body i with
          | Throw x => Out (Exc x) e rt [Ev id e true i]
          | RetV v => Out (Val v) e rt [Ev id e true i]
          | RetVoid => Out (Val VUnit) e rt [Ev id e true i]
          | RetRes r => Out r e rt [Ev id e true i]
          | RetAsync k p' =>      (* flattened: the step completes with the inner result *)
              let oi := seq p' in
              Out (o_res oi) e rt (Ev id e true i :: o_evs oi)
          end
      end
  | PProm _ t e id b =>
      if alive e
      then Out (match b with PBSet _ r => r | PBThrow x => Exc x end) e t [Ev id e true INone]
      else Out (Err EStop) e t []
  | PCoro w t id r =>
      Out r XInline t [Ev id XInline false INone]
  | PThen q id par a rt body =>
      let o := seq q in
      let ex := match a with AOn e => e | _ => o_exec o end in
      let r := seq_input a ex (o_res o) in
      match invoked par r with
      | None => Out r ex rt (o_evs o)                      (* passes through unchanged *)
      | Some i =>
          match body i with
          | Throw x => Out (Exc x) ex rt (o_evs o ++ [Ev id ex (is_call a) i])
          | RetV v => Out (Val v) ex rt (o_evs o ++ [Ev id ex (is_call a) i])
          | RetVoid => Out (Val VUnit) ex rt (o_evs o ++ [Ev id ex (is_call a) i])
          | RetRes r' => Out r' ex rt (o_evs o ++ [Ev id ex (is_call a) i])
          | RetAsync k p' =>
              let oi := seq p' in
              Out (o_res oi) ex rt (o_evs o ++ Ev id ex (is_call a) i :: o_evs oi)
          end
      end
  | PToFuture q => seq q
  | POnNull q => seq q
  end.

Definition seq_eval (p : prog) : out := seq p.

(* the C02 observables: final Result and the ordered list of (callback id, argument) *)
Definition obs (o : out) : res * list (nat * input) :=
  (o_res o, map (fun e => (ev_id e, ev_in e)) (o_evs o)).

(* [src] followed by [steps], for the statement "forall src steps" *)
Record step := Step { s_id : nat; s_par : pclass; s_att : attach; s_rt : ty; s_body : input -> outcome }.

Definition then_step (p : prog) (s : step) : prog :=
  PThen p (s_id s) (s_par s) (s_att s) (s_rt s) (s_body s).

Definition chain (src : prog) (steps : list step) : prog := fold_left then_step steps src.

(* ------------------------------------------------------------------ one step applied to a finished predecessor *)
(* The PThen case of [run] as a function of the predecessor's outcome (proofs/PipeProofs.v then_unfold); used by
   Lazy.v, where a chain is first built and later started. *)

(* the executor the step's core holds, and the Result that reaches it *)
Definition exec_of (a : attach) (oq : out) : exec := match a with AOn e => e | _ => o_exec oq end.
Definition arrives (a : attach) (oq : out) : res := seq_input a (exec_of a oq) (o_res oq).

(* the parameter classes that compile in a world of value type t *)
Definition par_ok (p : pclass) (t : ty) : bool :=
  match p, t with
  | PValue, TVoid => false
  | (PNone | PUnit), TInt => false
  | _, _ => true
  end.

Definition step_result (oq : out) (id : nat) (par : pclass) (a : attach) (rt : ty) (body : input -> outcome) : option out :=
  let ex := exec_of a oq in
  let r := arrives a oq in
  if par_ok par (o_ty oq) then
    match invoked par r with
    | None => Some (Out r ex rt (o_evs oq))
    | Some i =>
        match body i with
        | RetAsync k p' =>
            match run p' with
            | Some oi => Some (Out (o_res oi) ex rt (o_evs oq ++ Ev id ex (is_call a) i :: o_evs oi))
            | None => None
            end
        | o' => Some (Out (done_result o') ex rt (o_evs oq ++ [Ev id ex (is_call a) i]))
        end
    end
  else None.

(* -------------------------------------------------------------------------------- static typing *)
(* The part of the C++ type system the generated table relies on; [prog_ty p = Some (w, t)] iff the C++
   expression denoted by p compiles and has handle kind w and value type t. *)

Inductive rclass := RcPlain | RcAsync (k : akind).

Definition wkind_eqb (a b : wkind) : bool :=
  match a, b with WF, WF | WO, WO | WT, WT | WS, WS | WSO, WSO => true | _, _ => false end.

(* the world after attaching a step with mode a in world w (future.hpp, shared_future.hpp, task.hpp) *)
Definition then_world (w : wkind) (a : attach) : option wkind :=
  match w, a with
  | WF, AInline => Some WF
  | WF, AOn _ => Some WO
  | WF, AInherit => None            (* Future has no Then(f) *)
  | WO, _ => Some WO
  | WT, _ => Some WT
  | WS, AInline => Some WF
  | WS, AOn _ => Some WO
  | WS, AInherit => None
  | WSO, _ => Some WO
  end.

(* the static_assert of CallResolveState (core.hpp:264) does not fire *)
Definition dispatch_ok (p : pclass) (t : ty) : bool :=
  invocable p t GResult || invocable p t GValue || (is_void t && invocable p t GUnit)
  || xorb (invocable p t GExc) (invocable p t GError).

(* Return<V,E,Func> exists (Tag != 0, core.hpp:334-360), CallResolveState compiles, and a recovery callback keeps the
   value type (core.hpp:246-261, :270: Done(std::move(r)) stores a Result<Arg,E> into a Result<Ret,E>) *)
Definition step_types (par : pclass) (t rt : ty) : bool :=
  dispatch_ok par t &&
  match tag par t with
  | 0 => false
  | 3 | 4 => ty_eqb t rt
  | _ => true
  end.

Definition exec_eqb (a b : exec) : bool :=
  match a, b with
  | XInline, XInline | XStopped, XStopped => true
  | XManual n, XManual m => Nat.eqb n m
  | _, _ => false
  end.

Definition res_has_ty (t : ty) (r : res) : bool :=
  match r, t with
  | Val (VInt _), TInt => true
  | Val VUnit, TVoid => true
  | Val _, _ => false
  | _, _ => true
  end.

Definition w_in (w : wkind) (l : list wkind) : bool := existsb (wkind_eqb w) l.

(* APIs without an executor argument leave the default MakeInline() in the core *)
Definition exec_fits (w : wkind) (e : exec) : bool :=
  match w with WF | WS => exec_eqb e XInline | _ => true end.

(* handle kind and value type of the C++ expression, bodies not inspected *)
Fixpoint prog_ty (p : prog) : option (wkind * ty) :=
  match p with
  | PReady w t r => if w_in w [WF; WT] && res_has_ty t r then Some (w, t) else None
  | PContract w t e _ r =>
      if w_in w [WF; WO; WS] && res_has_ty t r && exec_fits w e then Some (w, t) else None
  | PRun w e _ par rt _ => if step_types par TVoid rt && exec_fits w e then Some (w, rt) else None
  | PProm w t e _ b =>
      if exec_fits w e && match b with PBSet _ r => res_has_ty t r | PBThrow _ => true end then Some (w, t) else None
  | PCoro w t _ r => if w_in w [WF; WT] && res_has_ty t r then Some (w, t) else None
  | PThen q _ par a rt _ =>
      match prog_ty q with
      | Some (w, t) =>
          if step_types par t rt
          then match then_world w a with Some w' => Some (w', rt) | None => None end
          else None
      | None => None
      end
  | PToFuture q => match prog_ty q with Some (WT, t) => Some (WF, t) | _ => None end
  | POnNull q =>
      match prog_ty q with
      | Some (WO, t) => Some (WF, t)
      | Some (WSO, t) => Some (WS, t)
      | _ => None
      end
  end.

Definition akind_of (w : wkind) : akind :=
  match w with WF | WO => KFuture | WS | WSO => KShared | WT => KTask end.

Definition akind_eqb (a b : akind) : bool :=
  match a, b with KFuture, KFuture | KShared, KShared | KTask, KTask => true | _, _ => false end.

(* the whole program type-checks, including what every callback returns for every argument *)
Fixpoint wt (p : prog) : Prop :=
  match p with
  | PRun w e _ par rt body => prog_ty p <> None /\ forall i, wt_o rt (body i)
  | PThen q _ par a rt body => prog_ty p <> None /\ wt q /\ forall i, wt_o rt (body i)
  | PToFuture q => prog_ty p <> None /\ wt q
  | POnNull q => prog_ty p <> None /\ wt q
  | _ => prog_ty p <> None
  end
with wt_o (rt : ty) (o : outcome) : Prop :=
  match o with
  | Throw _ => True
  | RetV (VInt _) => rt = TInt
  | RetV VUnit => False                     (* nothing returns yaclib::Unit as a value *)
  | RetVoid => rt = TVoid
  | RetRes r => res_has_ty rt r = true
  | RetAsync k p' => wt p' /\ exists w, prog_ty p' = Some (w, rt) /\ akind_of w = k
  end.

(* ------------------------------------------------------------------ one shared source with several users *)
(* A SharedFuture built once by a source chain and then returned from callbacks of several pipelines (and read
   directly): every copy of the handle refers to one shared state (SharedCore), and reading that state — Get() const&,
   async_done copying core.Get() for AsyncType::Shared (core.hpp:148-154), a callback registered on it — does not
   change it.  So for each user the handle is a SharedFuture that is (or becomes) fulfilled with the Result the source
   chain produced, and whose own functions have already been accounted for where it was built. *)
Definition handle_of (os : out) : prog := PContract WS (o_ty os) XInline false (o_res os).
