(* Encoding of the outcome of replaying an implementation trace through When.run as a list of numbers that the
   checker reads back.
     [0; i]                         : the model rejects event number i
     [1; terminal; crashed; deleted; count; k] ++ (k outputs) ++ [n] ++ (n inputs) ++ [win; dt]
   one output  = [by; from_destructor; kind; len; codes...]   kind 0 vector, 1 unit, 2 single outcome
   one input   = [released; consumed]
   code        : 0 garbage, 1+3v value v, 2+3e error e, 3+3e exception e;  win/dt : 0 none, 1+i input i *)
From Coq Require Import List Arith Bool NArith.
Import ListNotations.
From YV Require Import model.When.

Fixpoint run_at (s : st) (tr : list ev) (i : nat) : nat + st :=
  match tr with
  | [] => inr s
  | e :: r => match step s e with Some s' => run_at s' r (S i) | None => inl i end
  end.

Definition encb (b : bool) : nat := if b then 1 else 0.
Definition enc (o : option res) : nat :=
  match o with
  | None => 0
  | Some (RVal v) => 1 + 3 * v
  | Some (RErr e) => 2 + 3 * e
  | Some (RExc e) => 3 + 3 * e
  end.
Definition enco (o : option nat) : nat := match o with Some i => S i | None => 0 end.

Definition enc_out (o : outrec) : list nat :=
  [oby o; encb (odtor o)] ++
  match oval o with
  | OVec l => [0; length l] ++ map enc l
  | OUnit => [1; 0]
  | OOne r => [2; 1; enc r]
  end.

Definition obs_state (s : st) : list nat :=
  [1; encb (terminal s); encb (crashed s); deleted s; count s; length (outs s)] ++
  flat_map enc_out (outs s) ++ [n s] ++ flat_map (fun x => [ifree x; icons x]) (ins s) ++
  [enco (win s); enco (dt s)].

Definition obs_nat (g : strat) (k : nat) (tr : list ev) : list nat :=
  match run_at (init g k) tr 0 with
  | inl i => [0; i]
  | inr s => obs_state s
  end.

(* several traces at once: each result is prefixed by its length *)
Definition obs_many (g : strat) (k : nat) (trs : list (list ev)) : list nat :=
  flat_map (fun tr => let o := obs_nat g k tr in length o :: o) trs.
