(* Encoding of Lazy's predictions for checks/c12.py.
   lazy_obs ops p = [built; ran; twin; #results; (kind, payload)*; #events; (id, input kind, res kind, payload)*; #freed; id*]
   where p is the lazy program the harness built, ops what was then done to the Task object
   ([TStart SOwn] | [TStart (SOn e)] | [TDestroy] | [TAwait; TDestroy]) and twin = 1 iff starting on its own executor
   gives exactly the observables of core_run (eager p). *)
From Coq Require Import List ZArith Bool.
Import ListNotations.
From YV Require Import model.Pipe model.PipeObs model.Lazy.
Local Open Scope Z_scope.

Definition enc_world (w : tworld) : list Z :=
  [nz (length (w_results w))] ++ flat_map enc_res (w_results w) ++
  [nz (length (w_evs w))] ++ flat_map (fun e => nz (ev_id e) :: enc_input (ev_in e)) (w_evs w) ++
  [nz (length (w_freed w))] ++ map nz (w_freed w).

Definition twin_agrees (tk : task) (p : prog) : bool :=
  match run_task SOwn tk, core_run (eager p) with
  | Some (o, _), Some o' => obs_eqb (obs o) (obs o')
  | None, None => true
  | _, _ => false
  end.

Definition lazy_obs (ops : list top) (p : prog) : list Z :=
  match build p with
  | None => [0]
  | Some tk =>
      match trun (TW (TUnstarted tk) [] [] []) ops with
      | None => [1; 0]
      | Some w => [1; 1; encb (twin_agrees tk p)] ++ enc_world w
      end
  end.

Definition lazy_many (l : list (list top * prog)) : list Z :=
  flat_map (fun x => let r := lazy_obs (fst x) (snd x) in nz (length r) :: r) l.
