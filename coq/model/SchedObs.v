(* Encoding of what Sched.run predicts for a client program, as a list of numbers the checker compares token by token
   with what the recorder saw on the real library (harness/h_c17.cpp):
     [1; f; t] resume of fiber f at virtual time t      [2] injection point        [3; n] pick from n nodes
     [4; max] GetRandNumber(max)                        [5] ShouldFailAtomicWeak   [6; f; ok] compare_exchange_weak result
     [7; f; timeout] status of a timed wait             [8; code] the real code would crash here
     [9; count; state] recorded (random count, injector state)
   followed by the trailer [0; finished; crashed; rc; inj; live; now] : finished = the run loop returned within the
   fuel; live = fibers that have not completed (parked for ever). *)
From Coq Require Import List Arith Bool NArith.
Import ListNotations.
From YV Require Import model.Sched.

Local Open Scope N_scope.

Definition encb (b : bool) : N := if b then 1 else 0.
Definition enc_obs (o : obs) : list N :=
  match o with
  | OResume f t => [1; N.of_nat f; t]
  | OYieldReq => [2]
  | OPick n => [3; N.of_nat n]
  | ODraw _ max _ => [4; max]
  | OWeakReq => [5]
  | OCas f ok => [6; N.of_nat f; encb ok]
  | OTimed f b => [7; N.of_nat f; encb b]
  | OCrash c => [8; N.of_nat c]
  | OCheck c i => [9; N.of_nat c; i]
  | OVal f v => [10; N.of_nat f; v]
  end.

Definition draws_of (l : list N) : nat -> N := fun k => nth k l 0.

(* mode 0: the run starts when the driver thread is created (SetSeed was called before, outside the fibers);
   mode 1: the run starts inside the already running driver right after it called SetSeed / SetInjectorState(0). *)
Definition start (mode : nat) (t0 : N) (d : fid) (p : list cmd) (rc0 : nat) (inj0 : N) : st :=
  match mode with
  | 0%nat => init t0 d (expand p) rc0 inj0 0
  | _ => quiescent t0 d (expand p) rc0 inj0 0
  end.

Definition obs_N (cf : cfg) (dl : list N) (mode : nat) (t0 : N) (d : fid) (rc0 : nat) (inj0 : N) (fuel : nat)
                 (p : list cmd) : list N :=
  let al := fun k => (d + 1 + k)%nat in
  let s0 := start mode t0 d p rc0 inj0 in
  let tr := run cf (draws_of dl) al fuel s0 in
  let s := steps cf (draws_of dl) al fuel s0 in
  let fin := match step cf (draws_of dl) al s with None => negb (crashed s) | Some _ => false end in
  flat_map enc_obs tr ++
  [0; encb fin; encb (crashed s); N.of_nat (rc s); inj s;
   N.of_nat (length (filter (fun fr => negb (fstate_eqb (fs (snd fr)) FCompleted)) (fibers s))); now s].

Arguments obs_N cf dl%list_scope mode%nat_scope t0%N_scope d%nat_scope rc0%nat_scope inj0%N_scope fuel%nat_scope p%list_scope.
Arguments start mode%nat_scope t0%N_scope d%nat_scope p%list_scope rc0%nat_scope inj0%N_scope.
