(* RAHandoff.v — the unique callback word in the release/acquire machine of lib/RA.v.
   Locations: 0 the word (values 0 Empty, 1 callback pointer, 2 Result), 1 the result slot S (non-atomic,
   written by the producer before its exchange, read by whoever runs the continuation), 2 the continuation
   payload K (non-atomic: the callback object / the waiter's event, constructed by the consumer before its
   CAS, touched by the producer when its exchange returns the pointer).
   Producer:  na S ; xchg(o_xchg) ; if it read the pointer: na K.
   Consumer:  na K ; load(o_load) ; Empty -> CAS(o_cas_s / o_cas_f) ; on Result (load or failed CAS): na S.
   The memory orders are parameters; the shipped ones come from coq/gen/Gen_orders.v. *)
From Coq Require Import List Arith Bool.
Import ListNotations.
From YV Require Import lib.RA.

Record orders := { o_load : mo; o_cas_s : mo; o_cas_f : mo; o_xchg : mo }.

Inductive ppc := P0 | P1 | P2 | PDone | PFin.   (* PDone: exchanged, nothing to run; PFin: ran the continuation *)
Inductive cpc := C0 | C1 | C2 | C4 | CAtt | CFin.   (* CAtt: CAS succeeded; CFin: read the result itself *)

Record st := {
  hist : list msg;        (* history of the word; index = timestamp *)
  s_ts : nat; k_ts : nat; (* timestamp of the last access of S and of K *)
  pp : ppc; pt : thr;
  cp : cpc; ct : thr;
  race : bool
}.

Definition init : st :=
  {| hist := [ {| mval := 0; mview := vbot |} ]; s_ts := 0; k_ts := 0;
     pp := P0; pt := thr0; cp := C0; ct := thr0; race := false |}.

Inductive ev := PWriteS | PXchg | PReadK | CWriteK | CLoad (i : nat) | CCas | CReadS.

Section Machine.
Variable o : orders.

Definition step (s : st) (e : ev) : option st :=
  match e, pp s, cp s with
  | PWriteS, P0, _ =>
      let '(r, ts, t) := na_access (pt s) 1 (s_ts s) in
      Some {| hist := hist s; s_ts := ts; k_ts := k_ts s; pp := P1; pt := t; cp := cp s; ct := ct s;
              race := race s || r |}
  | PXchg, P1, _ =>
      let m := last_msg (hist s) in
      let '(t, nm) := rmw_write (pt s) (o_xchg o) (length (hist s)) m 2 in
      Some {| hist := hist s ++ [nm]; s_ts := s_ts s; k_ts := k_ts s;
              pp := (match mval m with 1 => P2 | _ => PDone end); pt := t; cp := cp s; ct := ct s;
              race := race s |}
  | PReadK, P2, _ =>
      let '(r, ts, t) := na_access (pt s) 2 (k_ts s) in
      Some {| hist := hist s; s_ts := s_ts s; k_ts := ts; pp := PFin; pt := t; cp := cp s; ct := ct s;
              race := race s || r |}
  | CWriteK, _, C0 =>
      let '(r, ts, t) := na_access (ct s) 2 (k_ts s) in
      Some {| hist := hist s; s_ts := s_ts s; k_ts := ts; pp := pp s; pt := pt s; cp := C1; ct := t;
              race := race s || r |}
  | CLoad i, _, C1 =>
      match nth_error (hist s) i with
      | Some m =>
          if Nat.leb (cur (ct s) 0) i then
            Some {| hist := hist s; s_ts := s_ts s; k_ts := k_ts s; pp := pp s; pt := pt s;
                    cp := (match mval m with 0 => C2 | _ => C4 end); ct := a_read (ct s) (o_load o) i m;
                    race := race s |}
          else None
      | None => None
      end
  | CCas, _, C2 =>
      let m := last_msg (hist s) in
      match mval m with
      | 0 =>
          let '(t, nm) := rmw_write (ct s) (o_cas_s o) (length (hist s)) m 1 in
          Some {| hist := hist s ++ [nm]; s_ts := s_ts s; k_ts := k_ts s; pp := pp s; pt := pt s;
                  cp := CAtt; ct := t; race := race s |}
      | _ =>
          Some {| hist := hist s; s_ts := s_ts s; k_ts := k_ts s; pp := pp s; pt := pt s;
                  cp := C4; ct := a_read (ct s) (o_cas_f o) (length (hist s) - 1) m; race := race s |}
      end
  | CReadS, _, C4 =>
      let '(r, ts, t) := na_access (ct s) 1 (s_ts s) in
      Some {| hist := hist s; s_ts := ts; k_ts := k_ts s; pp := pp s; pt := pt s; cp := CFin; ct := t;
              race := race s || r |}
  | _, _, _ => None
  end.

Fixpoint run (s : st) (tr : list ev) : option st :=
  match tr with [] => Some s | e :: r => match step s e with Some s' => run s' r | None => None end end.
End Machine.

(* the side conditions under which the protocol is race free; each one is necessary (RAHandoffProofs.v) *)
Definition side_ok (o : orders) : bool :=
  is_acq (o_load o) && is_acq (o_cas_f o) && is_rel (o_cas_s o) && is_acq (o_xchg o) && is_rel (o_xchg o).
