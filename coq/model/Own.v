(* Own.v — lifetime accounting of a pipeline of unique shared states ("cores"), any length.

   Source being modelled: Core::Impl / CallImpl / Done (include/yaclib/algo/detail/core.hpp:147-231), the Drop
   core (src/algo/drop_core.cpp), FutureBase::Detach, ~ResultCore.  Every step i >= 1 of a chain owns, while it
   fires, its caller (core i-1): it reads the caller's result, (maybe) invokes its functor, stores its own
   result, RELEASES THE CALLER, DESTROYS ITS FUNCTOR and only then PUBLISHES (SetResult) — after which it may
   itself be released by step i+1 at any moment, on any thread.  The last core is released by the final
   consumer (Get&&, the Drop continuation of a dropped/detached future).

   Because step i+1 cannot start before core i is published and core i-1 is released before core i is published,
   at most two cores are alive "at the front"; the state is therefore a handful of counters plus the phase of
   the firing core.  The consumer thread builds and attaches cores concurrently with the front moving.

   Events are what the tracer sees (checks/c03.py): construction of a core, the attach CAS on a named callback
   word, the functor call / functor destructor markers of instrumented functors, ~ResultCore's reload of the
   word (= the core is freed), the exchange that publishes.  Liveness violations do not block a step: they are
   counted in [errs] and the theorems say the count stays 0. *)
From Coq Require Import List Arith Bool.
Import ListNotations.

Inductive fph := FIdle | FCalled | FCallerFreed | FFnDead.

Record st := {
  src_fn : bool;      (* the source core has a functor (Run/Schedule) or not (contract / ready core) *)
  built : nat;        (* cores 0 .. built-1 constructed *)
  att : nat;          (* links 1 .. att resolved (link k attaches core k to core k-1, or found it published) *)
  done : nat;         (* cores 0 .. done-1 published *)
  fire : fph;         (* phase of core [done] *)
  freed : nat;        (* cores 0 .. freed-1 released *)
  fn_dtors : nat;     (* functor destructions so far *)
  calls : list nat;   (* indices of invoked functors, in order *)
  closed : bool;      (* the final consumer is decided: no more steps will be attached *)
  errs : nat          (* accesses to a released core / functor, double releases, double destructions *)
}.

Definition init (sf : bool) : st :=
  {| src_fn := sf; built := 0; att := 0; done := 0; fire := FIdle; freed := 0; fn_dtors := 0; calls := [];
     closed := false; errs := 0 |}.

Inductive ev :=
| ENew                      (* consumer constructs the next core (Then*/Detach* allocate it; core 0: the source) *)
| EAttach (ok : bool)       (* consumer's CAS attaching the newest core to its predecessor; false: already published *)
| ECall (i : nat)           (* functor of core i invoked *)
| EFreeCaller (i : nat)     (* step i releases core i-1 (caller->DecRef() in Done) *)
| EFnDtor (i : nat)         (* functor storage of core i destroyed *)
| EPublish (i : nat)        (* core i: SetResult *)
| EClose                    (* Get&& / Detach / ~Future on the last core *)
| EFinalFree.               (* the last core is released by the final consumer or the Drop continuation *)

Definition b2n (b : bool) : nat := if b then 1 else 0.
Definition has_fn (s : st) (i : nat) : bool := match i with 0 => src_fn s | _ => true end.

Definition step (s : st) (e : ev) : option st :=
  match e with
  | ENew =>
      if closed s then None else
      if Nat.eqb (built s) 0 || Nat.eqb (S (att s)) (built s) then
        Some {| src_fn := src_fn s; built := S (built s); att := att s; done := done s; fire := fire s;
                freed := freed s; fn_dtors := fn_dtors s; calls := calls s; closed := false; errs := errs s |}
      else None
  | EAttach ok =>
      (* link k = att+1 between core k-1 and core k = built-1 *)
      if Nat.eqb (S (S (att s))) (built s) then
        let k := S (att s) in
        if Bool.eqb ok (Nat.leb (done s) (k - 1)) then
          Some {| src_fn := src_fn s; built := built s; att := k; done := done s; fire := fire s;
                  freed := freed s; fn_dtors := fn_dtors s; calls := calls s; closed := closed s; errs := errs s |}
        else None
      else None
  | ECall i =>
      if Nat.eqb i (done s) && Nat.ltb i (built s) && has_fn s i && (Nat.eqb i 0 || Nat.leb i (att s)) then
        match fire s with
        | FIdle =>
            Some {| src_fn := src_fn s; built := built s; att := att s; done := done s; fire := FCalled;
                    freed := freed s; fn_dtors := fn_dtors s; calls := calls s ++ [i]; closed := closed s;
                    errs := errs s + b2n (negb (Nat.eqb i 0) && negb (Nat.eqb (S (freed s)) i)) |}
        | _ => None
        end
      else None
  | EFreeCaller i =>
      if Nat.eqb i (done s) && Nat.ltb i (built s) && negb (Nat.eqb i 0) && Nat.leb i (att s) then
        match fire s with
        | FIdle | FCalled =>
            Some {| src_fn := src_fn s; built := built s; att := att s; done := done s; fire := FCallerFreed;
                    freed := i; fn_dtors := fn_dtors s; calls := calls s; closed := closed s;
                    errs := errs s + b2n (negb (Nat.eqb (S (freed s)) i)) |}
        | _ => None
        end
      else None
  | EFnDtor i =>
      if Nat.eqb i (done s) && Nat.ltb i (built s) && has_fn s i then
        match fire s, i with
        | FCallerFreed, S _ | FIdle, 0 | FCalled, 0 =>
            Some {| src_fn := src_fn s; built := built s; att := att s; done := done s; fire := FFnDead;
                    freed := freed s; fn_dtors := S (fn_dtors s); calls := calls s; closed := closed s;
                    errs := errs s |}
        | _, _ => None
        end
      else None
  | EPublish i =>
      if Nat.eqb i (done s) && Nat.ltb i (built s) then
        match fire s with
        | FFnDead =>
            Some {| src_fn := src_fn s; built := built s; att := att s; done := S i; fire := FIdle;
                    freed := freed s; fn_dtors := fn_dtors s; calls := calls s; closed := closed s; errs := errs s |}
        | FIdle =>
            if has_fn s i then None else      (* a contract / ready source has no functor to run *)
            Some {| src_fn := src_fn s; built := built s; att := att s; done := S i; fire := FIdle;
                    freed := freed s; fn_dtors := fn_dtors s; calls := calls s; closed := closed s; errs := errs s |}
        | _ => None
        end
      else None
  | EClose =>
      if negb (closed s) && negb (Nat.eqb (built s) 0) && Nat.eqb (S (att s)) (built s) then
        Some {| src_fn := src_fn s; built := built s; att := att s; done := done s; fire := fire s;
                freed := freed s; fn_dtors := fn_dtors s; calls := calls s; closed := true; errs := errs s |}
      else None
  | EFinalFree =>
      (* at most one final release: that is C01's theorem about the last core's callback word *)
      if closed s && Nat.eqb (done s) (built s) && Nat.ltb (freed s) (built s) then
        Some {| src_fn := src_fn s; built := built s; att := att s; done := done s; fire := fire s;
                freed := built s; fn_dtors := fn_dtors s; calls := calls s; closed := true;
                errs := errs s + b2n (negb (Nat.eqb (S (freed s)) (built s))) |}
      else None
  end.

Fixpoint run (s : st) (tr : list ev) : option st :=
  match tr with [] => Some s | e :: r => match step s e with Some s' => run s' r | None => None end end.

Definition terminal (s : st) : bool := closed s && Nat.eqb (freed s) (built s).
