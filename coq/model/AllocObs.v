(* C20 — numbers read back by checks/c20.py (vlib.coq_eval_cases evaluates terms of type list nat).

   obs_pipe p        = [wf; blocks; executed steps; callbacks invoked; final state; error-payload copies; value-payload copies;
                        code of every executed site ...]
                       final state: 0 value, 1 error, 2 exception; site code = 2 * kind + blocks requested there,
                       kind: 0 conversion, 1 MakeFuture/MakeTask, 2 contract, 3 Run/Schedule, 4 AsyncContract, 5 coroutine,
                       6 Then*, 7 Detach*(f)/Subscribe*, 8 Detach(), 9 Split, 10 Share
   obs_when ... N    = [build(0); total(0); build(1); total(1); ...; build(N); total(N)]
   obs_wait ... N    = [wait_allocs 0; ...; wait_allocs N]          (same shape for the other ranges) *)
From Coq Require Import List Arith Bool.
Import ListNotations.
From YV Require Import model.Alloc.

Definition encb (b : bool) : nat := if b then 1 else 0.
Definition enc_res (r : res) : nat := match r with RVal => 0 | RErr => 1 | RExc => 2 end.
Definition enc_kind (k : skind) : nat :=
  match k with
  | KConv => 0 | KReady => 1 | KContract => 2 | KRun => 3 | KProm => 4 | KCoro => 5
  | KThen => 6 | KDetach => 7 | KDetach0 => 8 | KSplit => 9 | KShare => 10
  end.
Definition enc_site (k : skind) : nat := 2 * enc_kind k + site_blocks k.

Definition obs_pipe (p : pipe) : list nat :=
  let o := run p in
  [encb (wf p); allocs_pipeline p; steps p; calls o; enc_res (st o); error_copies p; value_copies p] ++ map enc_site (sites o).

Definition range (n : nat) : list nat := seq 0 (S n).

Definition obs_when (k : ckind) (pol : policy) (f : form) (ik : ikind) (vs : ivals) (oc : outcome) (t : timing)
           (upto : nat) : list nat :=
  flat_map (fun n => let r := when_allocs k pol f ik vs oc t n in [fst r; snd r]) (range upto).

Definition obs_K (k : ckind) (f : form) (ik : ikind) : list nat := [K k f ik].

Definition obs_wait (w : wfun) (f : form) (ik : ikind) (upto : nat) : list nat :=
  map (wait_allocs w f ik) (range upto).

Definition obs_get (w : world) (ready : bool) : list nat := [get_allocs w ready].

Definition obs_strand (existing : bool) (upto : nat) : list nat := map (strand_allocs existing) (range upto).

(* [await only; whole coroutine call] for n = 0..upto *)
Definition obs_await (a : awform) (ik : ikind) (upto : nat) : list nat :=
  flat_map (fun n => [await_allocs a ik n; coro_call_allocs a ik n]) (range upto).
