(* Pool.v -- yaclib::FairThreadPool (src/runtime/fair_thread_pool.cpp, include/yaclib/runtime/fair_thread_pool.hpp,
   queue = src/util/intrusive_list.cpp) as a transition system whose steps are the critical sections of the pool
   mutex _m plus the operations on the condition variable _idle and the Call/Drop of jobs outside the lock.

   Threads:
     * any number of workers (Loop, :71-89), identified by their index in [workers];
     * any number of submitters (Submit, :28-39) -- anonymous: what a submitter still owes after its critical section
       is kept in the bags [pnotify] (a notify_one, :38) and [pdrop] (job.Drop() of a rejected job, :32);
     * one stopper that calls one of Stop (:50) | SoftStop (:41) | HardStop (:54) -- the [kind] of the run -- and then
       Wait (:64, joins every worker).
   The word _jobs_count is [jc], updated and tested with exactly the operations of the source (the literals come from
   gen/Gen_pool_consts.v, extracted from the .cpp); [cnt], [want], [stopped] are the abstract reading of the word
   (queued+running, bit 1, bit 0), updated in parallel and never consulted by [step]: that the word always encodes
   them is a theorem (PoolProofs.encoding).
   Condition variable: notify_one wakes one waiting worker if there is one, notify_all wakes all of them, and a
   waiting worker may also wake up spuriously (ESpurious).
   The lists [accepted] ... [stop_sets] are history (ghost) variables.  No proofs in this file. *)
From Coq Require Import List Arith Bool.
Import ListNotations.
From YV Require Import gen.Gen_pool_consts.

Definition job := nat.

Inductive skind := KStop | KSoft | KHard.

Inductive wpc :=
| WLocked            (* about to run a critical section of Loop: at thread start (:72) or after a wake-up (:87) *)
| WTaken (j : job)   (* popped j and released the lock (:75-76); Call not begun *)
| WRunning (j : job) (* inside / after job.Call() (:77), before lock.lock() (:78) *)
| WWaiting           (* parked in _idle.wait (:87), lock released *)
| WNotify            (* left Loop through Stop(lock) (:82): flag set, lock released, notify_all (:106) not done yet *)
| WExited.           (* Loop returned *)

Inductive spc :=
| TIdle              (* has not called its stop function yet *)
| TNotify            (* inside Stop(lock): flag set, lock released, notify_all (:106) not done yet *)
| TDone              (* stop function past its last pool operation (HardStop: the drop loop :58-61 may still run) *)
| TWaited.           (* Wait returned *)

Record st := {
  kind : skind;
  jc : nat;
  cnt : nat;
  want : bool;
  stopped : bool;
  queue : list job;
  workers : list wpc;
  tpc : spc;
  stolen : list job;
  pnotify : nat;
  pdrop : list job;
  accepted : list job;
  rejected : list job;
  takes : list job;
  calls : list job;
  hdrops : list job;
  rdrops : list job;
  acc_at_stop : list job;
  stolen_all : list job;
  stop_sets : list (nat * nat);
  bad : bool
}.

Definition set_jc (v : nat) (s : st) : st :=
  {| kind := kind s; jc := v; cnt := cnt s; want := want s; stopped := stopped s; queue := queue s; workers := workers s; tpc := tpc s; stolen := stolen s; pnotify := pnotify s; pdrop := pdrop s; accepted := accepted s; rejected := rejected s; takes := takes s; calls := calls s; hdrops := hdrops s; rdrops := rdrops s; acc_at_stop := acc_at_stop s; stolen_all := stolen_all s; stop_sets := stop_sets s; bad := bad s |}.
Definition set_cnt (v : nat) (s : st) : st :=
  {| kind := kind s; jc := jc s; cnt := v; want := want s; stopped := stopped s; queue := queue s; workers := workers s; tpc := tpc s; stolen := stolen s; pnotify := pnotify s; pdrop := pdrop s; accepted := accepted s; rejected := rejected s; takes := takes s; calls := calls s; hdrops := hdrops s; rdrops := rdrops s; acc_at_stop := acc_at_stop s; stolen_all := stolen_all s; stop_sets := stop_sets s; bad := bad s |}.
Definition set_want (v : bool) (s : st) : st :=
  {| kind := kind s; jc := jc s; cnt := cnt s; want := v; stopped := stopped s; queue := queue s; workers := workers s; tpc := tpc s; stolen := stolen s; pnotify := pnotify s; pdrop := pdrop s; accepted := accepted s; rejected := rejected s; takes := takes s; calls := calls s; hdrops := hdrops s; rdrops := rdrops s; acc_at_stop := acc_at_stop s; stolen_all := stolen_all s; stop_sets := stop_sets s; bad := bad s |}.
Definition set_stopped (v : bool) (s : st) : st :=
  {| kind := kind s; jc := jc s; cnt := cnt s; want := want s; stopped := v; queue := queue s; workers := workers s; tpc := tpc s; stolen := stolen s; pnotify := pnotify s; pdrop := pdrop s; accepted := accepted s; rejected := rejected s; takes := takes s; calls := calls s; hdrops := hdrops s; rdrops := rdrops s; acc_at_stop := acc_at_stop s; stolen_all := stolen_all s; stop_sets := stop_sets s; bad := bad s |}.
Definition set_queue (v : list job) (s : st) : st :=
  {| kind := kind s; jc := jc s; cnt := cnt s; want := want s; stopped := stopped s; queue := v; workers := workers s; tpc := tpc s; stolen := stolen s; pnotify := pnotify s; pdrop := pdrop s; accepted := accepted s; rejected := rejected s; takes := takes s; calls := calls s; hdrops := hdrops s; rdrops := rdrops s; acc_at_stop := acc_at_stop s; stolen_all := stolen_all s; stop_sets := stop_sets s; bad := bad s |}.
Definition set_workers (v : list wpc) (s : st) : st :=
  {| kind := kind s; jc := jc s; cnt := cnt s; want := want s; stopped := stopped s; queue := queue s; workers := v; tpc := tpc s; stolen := stolen s; pnotify := pnotify s; pdrop := pdrop s; accepted := accepted s; rejected := rejected s; takes := takes s; calls := calls s; hdrops := hdrops s; rdrops := rdrops s; acc_at_stop := acc_at_stop s; stolen_all := stolen_all s; stop_sets := stop_sets s; bad := bad s |}.
Definition set_tpc (v : spc) (s : st) : st :=
  {| kind := kind s; jc := jc s; cnt := cnt s; want := want s; stopped := stopped s; queue := queue s; workers := workers s; tpc := v; stolen := stolen s; pnotify := pnotify s; pdrop := pdrop s; accepted := accepted s; rejected := rejected s; takes := takes s; calls := calls s; hdrops := hdrops s; rdrops := rdrops s; acc_at_stop := acc_at_stop s; stolen_all := stolen_all s; stop_sets := stop_sets s; bad := bad s |}.
Definition set_stolen (v : list job) (s : st) : st :=
  {| kind := kind s; jc := jc s; cnt := cnt s; want := want s; stopped := stopped s; queue := queue s; workers := workers s; tpc := tpc s; stolen := v; pnotify := pnotify s; pdrop := pdrop s; accepted := accepted s; rejected := rejected s; takes := takes s; calls := calls s; hdrops := hdrops s; rdrops := rdrops s; acc_at_stop := acc_at_stop s; stolen_all := stolen_all s; stop_sets := stop_sets s; bad := bad s |}.
Definition set_pnotify (v : nat) (s : st) : st :=
  {| kind := kind s; jc := jc s; cnt := cnt s; want := want s; stopped := stopped s; queue := queue s; workers := workers s; tpc := tpc s; stolen := stolen s; pnotify := v; pdrop := pdrop s; accepted := accepted s; rejected := rejected s; takes := takes s; calls := calls s; hdrops := hdrops s; rdrops := rdrops s; acc_at_stop := acc_at_stop s; stolen_all := stolen_all s; stop_sets := stop_sets s; bad := bad s |}.
Definition set_pdrop (v : list job) (s : st) : st :=
  {| kind := kind s; jc := jc s; cnt := cnt s; want := want s; stopped := stopped s; queue := queue s; workers := workers s; tpc := tpc s; stolen := stolen s; pnotify := pnotify s; pdrop := v; accepted := accepted s; rejected := rejected s; takes := takes s; calls := calls s; hdrops := hdrops s; rdrops := rdrops s; acc_at_stop := acc_at_stop s; stolen_all := stolen_all s; stop_sets := stop_sets s; bad := bad s |}.
Definition set_accepted (v : list job) (s : st) : st :=
  {| kind := kind s; jc := jc s; cnt := cnt s; want := want s; stopped := stopped s; queue := queue s; workers := workers s; tpc := tpc s; stolen := stolen s; pnotify := pnotify s; pdrop := pdrop s; accepted := v; rejected := rejected s; takes := takes s; calls := calls s; hdrops := hdrops s; rdrops := rdrops s; acc_at_stop := acc_at_stop s; stolen_all := stolen_all s; stop_sets := stop_sets s; bad := bad s |}.
Definition set_rejected (v : list job) (s : st) : st :=
  {| kind := kind s; jc := jc s; cnt := cnt s; want := want s; stopped := stopped s; queue := queue s; workers := workers s; tpc := tpc s; stolen := stolen s; pnotify := pnotify s; pdrop := pdrop s; accepted := accepted s; rejected := v; takes := takes s; calls := calls s; hdrops := hdrops s; rdrops := rdrops s; acc_at_stop := acc_at_stop s; stolen_all := stolen_all s; stop_sets := stop_sets s; bad := bad s |}.
Definition set_takes (v : list job) (s : st) : st :=
  {| kind := kind s; jc := jc s; cnt := cnt s; want := want s; stopped := stopped s; queue := queue s; workers := workers s; tpc := tpc s; stolen := stolen s; pnotify := pnotify s; pdrop := pdrop s; accepted := accepted s; rejected := rejected s; takes := v; calls := calls s; hdrops := hdrops s; rdrops := rdrops s; acc_at_stop := acc_at_stop s; stolen_all := stolen_all s; stop_sets := stop_sets s; bad := bad s |}.
Definition set_calls (v : list job) (s : st) : st :=
  {| kind := kind s; jc := jc s; cnt := cnt s; want := want s; stopped := stopped s; queue := queue s; workers := workers s; tpc := tpc s; stolen := stolen s; pnotify := pnotify s; pdrop := pdrop s; accepted := accepted s; rejected := rejected s; takes := takes s; calls := v; hdrops := hdrops s; rdrops := rdrops s; acc_at_stop := acc_at_stop s; stolen_all := stolen_all s; stop_sets := stop_sets s; bad := bad s |}.
Definition set_hdrops (v : list job) (s : st) : st :=
  {| kind := kind s; jc := jc s; cnt := cnt s; want := want s; stopped := stopped s; queue := queue s; workers := workers s; tpc := tpc s; stolen := stolen s; pnotify := pnotify s; pdrop := pdrop s; accepted := accepted s; rejected := rejected s; takes := takes s; calls := calls s; hdrops := v; rdrops := rdrops s; acc_at_stop := acc_at_stop s; stolen_all := stolen_all s; stop_sets := stop_sets s; bad := bad s |}.
Definition set_rdrops (v : list job) (s : st) : st :=
  {| kind := kind s; jc := jc s; cnt := cnt s; want := want s; stopped := stopped s; queue := queue s; workers := workers s; tpc := tpc s; stolen := stolen s; pnotify := pnotify s; pdrop := pdrop s; accepted := accepted s; rejected := rejected s; takes := takes s; calls := calls s; hdrops := hdrops s; rdrops := v; acc_at_stop := acc_at_stop s; stolen_all := stolen_all s; stop_sets := stop_sets s; bad := bad s |}.
Definition set_acc_at_stop (v : list job) (s : st) : st :=
  {| kind := kind s; jc := jc s; cnt := cnt s; want := want s; stopped := stopped s; queue := queue s; workers := workers s; tpc := tpc s; stolen := stolen s; pnotify := pnotify s; pdrop := pdrop s; accepted := accepted s; rejected := rejected s; takes := takes s; calls := calls s; hdrops := hdrops s; rdrops := rdrops s; acc_at_stop := v; stolen_all := stolen_all s; stop_sets := stop_sets s; bad := bad s |}.
Definition set_stolen_all (v : list job) (s : st) : st :=
  {| kind := kind s; jc := jc s; cnt := cnt s; want := want s; stopped := stopped s; queue := queue s; workers := workers s; tpc := tpc s; stolen := stolen s; pnotify := pnotify s; pdrop := pdrop s; accepted := accepted s; rejected := rejected s; takes := takes s; calls := calls s; hdrops := hdrops s; rdrops := rdrops s; acc_at_stop := acc_at_stop s; stolen_all := v; stop_sets := stop_sets s; bad := bad s |}.
Definition set_stop_sets (v : list (nat * nat)) (s : st) : st :=
  {| kind := kind s; jc := jc s; cnt := cnt s; want := want s; stopped := stopped s; queue := queue s; workers := workers s; tpc := tpc s; stolen := stolen s; pnotify := pnotify s; pdrop := pdrop s; accepted := accepted s; rejected := rejected s; takes := takes s; calls := calls s; hdrops := hdrops s; rdrops := rdrops s; acc_at_stop := acc_at_stop s; stolen_all := stolen_all s; stop_sets := v; bad := bad s |}.
Definition set_bad (v : bool) (s : st) : st :=
  {| kind := kind s; jc := jc s; cnt := cnt s; want := want s; stopped := stopped s; queue := queue s; workers := workers s; tpc := tpc s; stolen := stolen s; pnotify := pnotify s; pdrop := pdrop s; accepted := accepted s; rejected := rejected s; takes := takes s; calls := calls s; hdrops := hdrops s; rdrops := rdrops s; acc_at_stop := acc_at_stop s; stolen_all := stolen_all s; stop_sets := stop_sets s; bad := v |}.

Definition init (n : nat) (k : skind) : st :=
  {| kind := k; jc := 0; cnt := 0; want := false; stopped := false; queue := []; workers := repeat WLocked n;
     tpc := TIdle; stolen := []; pnotify := 0; pdrop := []; accepted := []; rejected := []; takes := [];
     calls := []; hdrops := []; rdrops := []; acc_at_stop := []; stolen_all := []; stop_sets := []; bad := false |}.

Inductive ev :=
| ESubmit (j : job)            (* Submit's critical section :29-37 (either branch) *)
| ENotifyOne (w : option nat)  (* a submitter's _idle.notify_one() :38 -- wakes worker w / finds nobody waiting *)
| EDropRej (j : job)           (* a rejected submitter's job.Drop() :32 *)
| EWork (w : nat)              (* one critical section of worker w's Loop: [:78-79 if it comes from a Call], then
                                  :74-76 (pop, unlock) or :81-82 (Stop) or :84-85 (return) or :87 (wait: unlock+park) *)
| ECall (w : nat) (j : job)    (* job.Call() begins on worker w :77 *)
| ENotifyAllW (w : nat)        (* worker w's _idle.notify_all() :106 *)
| EStop                        (* the stopper's critical section: :51+:104-105 | :42-47 | :55-57+:104-105 *)
| ENotifyAllT                  (* the stopper's _idle.notify_all() :106 *)
| EDropStolen (j : job)        (* HardStop's loop :58-61 drops the front of its private list *)
| EWait                        (* Wait returned :64-69 -- possible only when every worker thread has finished *)
| ESpurious (w : nat).         (* spurious wake-up of worker w *)

(* ---- helpers ------------------------------------------------------------------------------------------ *)

Fixpoint upd {A} (i : nat) (x : A) (l : list A) : list A :=
  match l, i with
  | [], _ => []
  | _ :: r, 0 => x :: r
  | a :: r, S k => a :: upd k x r
  end.

Fixpoint cntp (f : wpc -> bool) (l : list wpc) : nat :=
  match l with
  | [] => 0
  | p :: r => (if f p then 1 else 0) + cntp f r
  end.

Definition is_waiting (p : wpc) : bool := match p with WWaiting => true | _ => false end.
Definition is_notify (p : wpc) : bool := match p with WNotify => true | _ => false end.
Definition is_exited (p : wpc) : bool := match p with WExited => true | _ => false end.
Definition is_busy (p : wpc) : bool := match p with WTaken _ | WRunning _ => true | _ => false end.
Definition is_active (p : wpc) : bool := match p with WLocked | WTaken _ | WRunning _ => true | _ => false end.

Definition wake (p : wpc) : wpc := match p with WWaiting => WLocked | _ => p end.

Fixpoint remove1 (j : job) (l : list job) : list job :=
  match l with
  | [] => []
  | x :: r => if Nat.eqb x j then r else x :: remove1 j r
  end.

Definition mem (j : job) (l : list job) : bool := existsb (Nat.eqb j) l.

(* ---- the three predicates of the source, on the word -------------------------------------------------- *)
Definition was_stop (s : st) : bool := negb (Nat.land (jc s) kStopTest =? 0).      (* :91-93 *)
Definition want_stop (s : st) : bool := negb (Nat.land (jc s) kWantTest =? 0).     (* :95-97 *)
Definition no_jobs (s : st) : bool := Nat.shiftr (jc s) kShift =? 0.               (* :99-101 *)

(* Stop(lock) up to the unlock, :104-105.  History: the reading of the counter and the number of jobs queued or
   held by a worker at this very moment. *)
Definition mark_stop (s : st) : st :=
  set_stop_sets (stop_sets s ++ [(Nat.shiftr (jc s) kShift, length (queue s) + cntp is_busy (workers s))])
    (set_stopped true (set_jc (Nat.lor (jc s) kStopBit) s)).

(* :79.  The C++ counter is unsigned: a decrement below zero would wrap around; the model flags it ([bad]) and stops
   tracking the word.  PoolProofs shows [bad] stays false. *)
Definition dec_job (s : st) : st :=
  if jc s <? kJobDec then set_bad true s
  else set_cnt (cnt s - 1) (set_jc (jc s - kJobDec) s).

(* :74-88, from the loop head to the point where the lock is released *)
Definition loop_body (w : nat) (s : st) : st :=
  match queue s with
  | j :: q =>                                                           (* :74-76 *)
      set_takes (takes s ++ [j]) (set_workers (upd w (WTaken j) (workers s)) (set_queue q s))
  | [] =>
      if no_jobs s && want_stop s then                                  (* :81-82 *)
        mark_stop (set_workers (upd w WNotify (workers s)) s)
      else if was_stop s then                                           (* :84-85 *)
        set_workers (upd w WExited (workers s)) s
      else                                                              (* :87 *)
        set_workers (upd w WWaiting (workers s)) s
  end.

Definition step (s : st) (e : ev) : option st :=
  match e with
  | ESubmit j =>
      if mem j (accepted s ++ rejected s) then None                     (* a job object is submitted once *)
      else if was_stop s then                                           (* :30-31 *)
        Some (set_rejected (rejected s ++ [j]) (set_pdrop (pdrop s ++ [j]) s))
      else                                                              (* :35-37 *)
        Some (set_accepted (accepted s ++ [j]) (set_pnotify (S (pnotify s))
               (set_cnt (S (cnt s)) (set_jc (jc s + kJobInc) (set_queue (queue s ++ [j]) s)))))
  | ENotifyOne o =>
      match pnotify s with
      | 0 => None
      | S p =>
          match o with
          | Some w =>
              match nth_error (workers s) w with
              | Some WWaiting => Some (set_pnotify p (set_workers (upd w WLocked (workers s)) s))
              | _ => None
              end
          | None => if cntp is_waiting (workers s) =? 0 then Some (set_pnotify p s) else None
          end
      end
  | EDropRej j =>
      if mem j (pdrop s) then Some (set_rdrops (rdrops s ++ [j]) (set_pdrop (remove1 j (pdrop s)) s)) else None
  | EWork w =>
      match nth_error (workers s) w with
      | Some WLocked => Some (loop_body w s)
      | Some (WRunning _) => Some (loop_body w (dec_job s))              (* :78-79 first *)
      | _ => None
      end
  | ECall w j =>
      match nth_error (workers s) w with
      | Some (WTaken j') =>
          if Nat.eqb j j' then Some (set_calls (calls s ++ [j]) (set_workers (upd w (WRunning j) (workers s)) s))
          else None
      | _ => None
      end
  | ENotifyAllW w =>
      match nth_error (workers s) w with
      | Some WNotify => Some (set_workers (map wake (upd w WExited (workers s))) s)
      | _ => None
      end
  | EStop =>
      match tpc s with
      | TIdle =>
          let s0 := set_acc_at_stop (accepted s) s in
          match kind s with
          | KStop => Some (set_tpc TNotify (mark_stop s0))                                  (* :51, :104-105 *)
          | KSoft =>
              if no_jobs s then Some (set_tpc TNotify (mark_stop s0))                       (* :43-44 *)
              else Some (set_tpc TDone (set_want true (set_jc (Nat.lor (jc s) kWantBit) s0)))   (* :46 *)
          | KHard =>                                                                        (* :56-57 *)
              Some (set_tpc TNotify (set_stolen_all (queue s) (set_stolen (queue s) (set_queue [] (mark_stop s0)))))
          end
      | _ => None
      end
  | ENotifyAllT =>
      match tpc s with
      | TNotify => Some (set_tpc TDone (set_workers (map wake (workers s)) s))
      | _ => None
      end
  | EDropStolen j =>
      match tpc s, stolen s with
      | TDone, j' :: r => if Nat.eqb j j' then Some (set_hdrops (hdrops s ++ [j]) (set_stolen r s)) else None
      | _, _ => None
      end
  | EWait =>
      match tpc s, stolen s with
      | TDone, [] => if cntp is_exited (workers s) =? length (workers s) then Some (set_tpc TWaited s) else None
      | _, _ => None
      end
  | ESpurious w =>
      match nth_error (workers s) w with
      | Some WWaiting => Some (set_workers (upd w WLocked (workers s)) s)
      | _ => None
      end
  end.

Fixpoint run (s : st) (tr : list ev) : option st :=
  match tr with
  | [] => Some s
  | e :: r => match step s e with Some s' => run s' r | None => None end
  end.

(* ---- notions used by the theorems ---------------------------------------------------------------------- *)

Definition all_exited (s : st) : Prop := cntp is_exited (workers s) = length (workers s).

(* the stopper is not in the middle of its stop call *)
Definition stopper_at_rest (s : st) : Prop :=
  (tpc s = TIdle \/ tpc s = TDone \/ tpc s = TWaited) /\ stolen s = [].

(* the stopper has made its stop call and finished it *)
Definition stopper_done (s : st) : Prop := (tpc s = TDone \/ tpc s = TWaited) /\ stolen s = [].

(* nothing is in flight: no submitter owes a notify or a Drop, no worker is between two of its blocking points
   (every worker is parked in the condition variable or has returned) *)
Definition quiescent (s : st) : Prop :=
  pnotify s = 0 /\ pdrop s = [] /\ cntp is_active (workers s) = 0 /\ cntp is_notify (workers s) = 0.

Definition quiescentb (s : st) : bool :=
  (pnotify s =? 0) && (match pdrop s with [] => true | _ => false end) &&
  (cntp is_active (workers s) =? 0) && (cntp is_notify (workers s) =? 0) &&
  (match tpc s with TNotify => false | _ => true end) && (match stolen s with [] => true | _ => false end).

Definition drops (s : st) : list job := hdrops s ++ rdrops s.
