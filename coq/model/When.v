(* When.v — the combinators WhenAll / Join / WhenAny (include/yaclib/async/when/{when,all,all_tuple,join,any}.hpp)
   as a transition system at the granularity of one atomic operation, for ANY number n of inputs.

   What is modelled, with the source it follows:

   * when.hpp  When(): `MakeShared<FinalCombinator>(count, count, p)` — the combinator's reference counter
     starts at n; `combinator->Set(...)` walks the inputs in index order: `st.Register(i, core)` (Owned
     strategies), then `core.SetCallback(cb)`; if that fails the input is complete and the builder runs
     `Consume(st, core, i); DecRef()` itself.  Otherwise the input's producer finds the callback when it
     exchanges the callback word and runs `CombinatorCallback::Impl` / `SingleCombinator::Impl`:
     `Consume(...)` then `_self->DecRef()`.  The decrement that returns 1 deletes the combinator, i.e. runs the
     strategy's destructor on that thread.  An empty input set returns `Future{nullptr}` and allocates nothing.
   * the hand-off of one input is C01's protocol, kept with its two deciding operations: the producer's
     `exchange(_callback, kResult)` ([EXchg i old]) and the builder's SetCallback ([EReg i ok]: its pre-check
     load that returned Result, or its compare-exchange).  ABSTRACTION (checked by the correspondence): the
     builder's pre-check load that returns Empty is not an event; for SharedFuture inputs the callback word
     holds a list, of which this combinator's callback is the only element, and the operations of the shared
     state's own reference counter that belong to its promise are not events.
   * the strategies, one small step function each, same atomic operations in the same order:
       All<None>        ConsumePolicy::None, Owned:   nothing per input; ~All retires every core in index
                        order into a vector and sets the promise.
       All<FirstFail>   Unordered, Owned: Consume reads core.Get(); a failure does `_done.load`,
                        `_done.exchange(true)` and, if it got false, sets the promise with its error/exception;
                        ~All: `_p.Valid()` ? retire every core's value into a vector and set : DecRef every core.
       AllTuple<None>   Static, Managed: Consume<I>(core.Retire()) stores into slot I; ~AllTuple sets.
       AllTuple<FirstFail>  as All<FirstFail> on the retired Result, a value is stored into slot I
                        (source after commit 415ee5d: a failure that does not win `_done` is ignored).
       Join<None>       None, Managed: core.DecRef(); ~Join sets.
       Join<FirstFail>  Unordered, Managed: `_done` election on the retired Result; ~Join sets if still valid.
       Any<None>        `_done` election among all inputs; the winner forwards its Result.
       Any<FirstFail>   `_state` in {kEmpty=0, kError=1, kValue=2}: a value does load (!= kValue) and
                        exchange(kValue) (!= kValue -> Set); a failure does load (== kEmpty) and
                        compare_exchange_strong(kEmpty -> kError) and, on success, saves its error; ~Any publishes
                        the saved error if the promise is still valid.
       Any<LastFail>    `_state` starts at 2*n (size_t arithmetic, modulo 2^64): every input loads it (odd =
                        done); a value does exchange(1) and sets if the old value was even; a failure does
                        fetch_sub(2) and sets if the old value was 2.
   * reads of an input's Result return garbage ([None]) once that input state has been released, and steps the
     real code cannot survive (std::get on the wrong alternative, Set on an invalid promise, counter underflow)
     set [crashed]; that neither happens is a theorem, not a guard.

   NOT modelled: which callback object is attached (SingleCombinator / StaticCombinator / DynamicCombinator differ
   only in that), executors, the consumer of the output future (C01), memory orders (C04).

   Ghost state (never read by a guard that the code does not have): [win] who was elected to set the promise,
   [fwin] whose error Any<FirstFail> saved, [dt] whose decrement ran the destructor, [dprog] how far it got, [elog] the order in which
   inputs performed their (successful) read-modify-write on `_done` / `_state`.  No proofs in this file. *)

From Coq Require Import List Arith Bool NArith.
Import ListNotations.

Inductive word := WE | WC | WR.
Inductive res := RVal (v : nat) | RErr (e : nat) | RExc (e : nat).
Inductive strat := SAllNone | SAllFF | STupNone | STupFF | SJoinNone | SJoinFF | SAnyNone | SAnyFF | SAnyLF.

Inductive pc :=
| PIdle            (* the callback has not fired / the input has not been consumed *)
| PCons            (* consume step entered; Managed strategies retire (release) the input state first *)
| PStrat           (* inside Strategy::Consume, before its pre-check load *)
| PRmw             (* pre-check passed: the read-modify-write is next *)
| PSet             (* elected: Promise::Set is next *)
| PDec             (* Strategy::Consume returned: combinator DecRef is next *)
| PDtor (k : nat)  (* its decrement was the last: the destructor is releasing input k *)
| PPub             (* destructor: sets the promise *)
| PFin.

Inductive content :=
| OVec (l : list (option res))    (* WhenAll: element i (None: garbage / never stored) *)
| OUnit                            (* Join *)
| OOne (r : option res).           (* one outcome: the failure (FirstFail), or WhenAny's winner *)

Record outrec := { oby : nat; odtor : bool; oval : content }.

Record inp := {
  ires : option res;   (* Result stored by the producer *)
  iw : word;           (* callback word of the input *)
  ipc : pc;            (* progress of this input's consume step *)
  ifree : nat;         (* how many times the combinator released this input state *)
  icons : nat          (* how many times a consume step was started for it *)
}.

Record st := {
  sg : strat;
  n : nat;
  ovalid : bool;                  (* the returned future is valid *)
  ins : list inp;
  nreg : nat;                     (* inputs registered so far *)
  count : nat;                    (* combinator reference counter *)
  done : bool;                    (* `_done` *)
  state : N;                      (* `_state` *)
  saved : option res;             (* Any<FirstFail>::error *)
  slots : list (option res);      (* AllTuple::_tuple *)
  acc : list (option res);        (* the vector ~All is filling *)
  pvalid : bool;                  (* `_p.Valid()` *)
  win : option nat;
  fwin : option nat;
  dt : option nat;
  dprog : nat;                    (* ghost: how many inputs the destructor has released *)
  elog : list nat;
  outs : list outrec;             (* every Set of the output promise *)
  crashed : bool;
  deleted : nat                   (* how many times the combinator was deleted *)
}.

Inductive ev :=
| EComplete (i : nat) (r : res)     (* producer i: Result stored (Promise::Set before its exchange) *)
| EXchg (i : nat) (old : word)      (* producer i: exchange(_callback, kResult) returned old *)
| EReg (i : nat) (ok : bool)        (* builder: Register + SetCallback(input i) succeeded / found it complete *)
| EFree (i : nat)                   (* consume step of i releases input i (Retire / DecRef; Managed) *)
| ELdDone (i : nat) (v : bool)
| EXchgDone (i : nat) (old : bool)
| ELdState (i : nat) (v : N)
| EXchgState (i : nat) (old : N)
| ECasState (i : nat) (ok : bool)
| ESubState (i : nat) (old : N)
| ESetOut (i : nat)                 (* Promise::Set inside Strategy::Consume of input i *)
| EDec (i : nat) (old : nat)        (* combinator count.fetch_sub(1) returned old *)
| EDFree (i k : nat)                (* destructor, running in i's consume step, releases input k *)
| EPublish (i : nat).               (* destructor sets the promise *)

Definition word_eqb (a b : word) : bool :=
  match a, b with WE, WE | WC, WC | WR, WR => true | _, _ => false end.

Definition failing (r : res) : bool := match r with RVal _ => false | _ => true end.
Definition ofailing (o : option res) : bool := match o with Some r => failing r | None => false end.
Definition ovalue (o : option res) : bool := match o with Some r => negb (failing r) | None => false end.

Definition owned (g : strat) : bool := match g with SAllNone | SAllFF => true | _ => false end.
Definition uses_done (g : strat) : bool :=
  match g with SAllFF | SJoinFF | STupFF | SAnyNone => true | _ => false end.
Definition is_any (g : strat) : bool := match g with SAnyNone | SAnyFF | SAnyLF => true | _ => false end.
(* FirstFail flavours of WhenAll / Join: only failures take part in the `_done` election *)
Definition is_ff (g : strat) : bool := match g with SAllFF | SJoinFF | STupFF => true | _ => false end.

Definition two64 : N := 18446744073709551616%N.
Definition sub2 (x : N) : N := if (x <? 2)%N then (x + (two64 - 2))%N else (x - 2)%N.   (* size_t: x - 2 *)
Definition init_state (g : strat) (k : nat) : N :=
  match g with SAnyLF => ((2 * N.of_nat k) mod two64)%N | _ => 0%N end.

Definition set_ins (v : list inp) (s : st) : st :=
  {| sg := sg s; n := n s; ovalid := ovalid s; ins := v; nreg := nreg s; count := count s; done := done s; state := state s; saved := saved s; slots := slots s; acc := acc s; pvalid := pvalid s; win := win s; fwin := fwin s; dt := dt s; dprog := dprog s; elog := elog s; outs := outs s; crashed := crashed s; deleted := deleted s |}.
Definition set_nreg (v : nat) (s : st) : st :=
  {| sg := sg s; n := n s; ovalid := ovalid s; ins := ins s; nreg := v; count := count s; done := done s; state := state s; saved := saved s; slots := slots s; acc := acc s; pvalid := pvalid s; win := win s; fwin := fwin s; dt := dt s; dprog := dprog s; elog := elog s; outs := outs s; crashed := crashed s; deleted := deleted s |}.
Definition set_count (v : nat) (s : st) : st :=
  {| sg := sg s; n := n s; ovalid := ovalid s; ins := ins s; nreg := nreg s; count := v; done := done s; state := state s; saved := saved s; slots := slots s; acc := acc s; pvalid := pvalid s; win := win s; fwin := fwin s; dt := dt s; dprog := dprog s; elog := elog s; outs := outs s; crashed := crashed s; deleted := deleted s |}.
Definition set_done (v : bool) (s : st) : st :=
  {| sg := sg s; n := n s; ovalid := ovalid s; ins := ins s; nreg := nreg s; count := count s; done := v; state := state s; saved := saved s; slots := slots s; acc := acc s; pvalid := pvalid s; win := win s; fwin := fwin s; dt := dt s; dprog := dprog s; elog := elog s; outs := outs s; crashed := crashed s; deleted := deleted s |}.
Definition set_state (v : N) (s : st) : st :=
  {| sg := sg s; n := n s; ovalid := ovalid s; ins := ins s; nreg := nreg s; count := count s; done := done s; state := v; saved := saved s; slots := slots s; acc := acc s; pvalid := pvalid s; win := win s; fwin := fwin s; dt := dt s; dprog := dprog s; elog := elog s; outs := outs s; crashed := crashed s; deleted := deleted s |}.
Definition set_saved (v : option res) (s : st) : st :=
  {| sg := sg s; n := n s; ovalid := ovalid s; ins := ins s; nreg := nreg s; count := count s; done := done s; state := state s; saved := v; slots := slots s; acc := acc s; pvalid := pvalid s; win := win s; fwin := fwin s; dt := dt s; dprog := dprog s; elog := elog s; outs := outs s; crashed := crashed s; deleted := deleted s |}.
Definition set_slots (v : list (option res)) (s : st) : st :=
  {| sg := sg s; n := n s; ovalid := ovalid s; ins := ins s; nreg := nreg s; count := count s; done := done s; state := state s; saved := saved s; slots := v; acc := acc s; pvalid := pvalid s; win := win s; fwin := fwin s; dt := dt s; dprog := dprog s; elog := elog s; outs := outs s; crashed := crashed s; deleted := deleted s |}.
Definition set_acc (v : list (option res)) (s : st) : st :=
  {| sg := sg s; n := n s; ovalid := ovalid s; ins := ins s; nreg := nreg s; count := count s; done := done s; state := state s; saved := saved s; slots := slots s; acc := v; pvalid := pvalid s; win := win s; fwin := fwin s; dt := dt s; dprog := dprog s; elog := elog s; outs := outs s; crashed := crashed s; deleted := deleted s |}.
Definition set_pvalid (v : bool) (s : st) : st :=
  {| sg := sg s; n := n s; ovalid := ovalid s; ins := ins s; nreg := nreg s; count := count s; done := done s; state := state s; saved := saved s; slots := slots s; acc := acc s; pvalid := v; win := win s; fwin := fwin s; dt := dt s; dprog := dprog s; elog := elog s; outs := outs s; crashed := crashed s; deleted := deleted s |}.
Definition set_win (v : option nat) (s : st) : st :=
  {| sg := sg s; n := n s; ovalid := ovalid s; ins := ins s; nreg := nreg s; count := count s; done := done s; state := state s; saved := saved s; slots := slots s; acc := acc s; pvalid := pvalid s; win := v; fwin := fwin s; dt := dt s; dprog := dprog s; elog := elog s; outs := outs s; crashed := crashed s; deleted := deleted s |}.
Definition set_fwin (v : option nat) (s : st) : st :=
  {| sg := sg s; n := n s; ovalid := ovalid s; ins := ins s; nreg := nreg s; count := count s; done := done s; state := state s; saved := saved s; slots := slots s; acc := acc s; pvalid := pvalid s; win := win s; fwin := v; dt := dt s; dprog := dprog s; elog := elog s; outs := outs s; crashed := crashed s; deleted := deleted s |}.
Definition set_dt (v : option nat) (s : st) : st :=
  {| sg := sg s; n := n s; ovalid := ovalid s; ins := ins s; nreg := nreg s; count := count s; done := done s; state := state s; saved := saved s; slots := slots s; acc := acc s; pvalid := pvalid s; win := win s; fwin := fwin s; dt := v; dprog := dprog s; elog := elog s; outs := outs s; crashed := crashed s; deleted := deleted s |}.
Definition set_dprog (v : nat) (s : st) : st :=
  {| sg := sg s; n := n s; ovalid := ovalid s; ins := ins s; nreg := nreg s; count := count s; done := done s; state := state s; saved := saved s; slots := slots s; acc := acc s; pvalid := pvalid s; win := win s; fwin := fwin s; dt := dt s; dprog := v; elog := elog s; outs := outs s; crashed := crashed s; deleted := deleted s |}.
Definition set_elog (v : list nat) (s : st) : st :=
  {| sg := sg s; n := n s; ovalid := ovalid s; ins := ins s; nreg := nreg s; count := count s; done := done s; state := state s; saved := saved s; slots := slots s; acc := acc s; pvalid := pvalid s; win := win s; fwin := fwin s; dt := dt s; dprog := dprog s; elog := v; outs := outs s; crashed := crashed s; deleted := deleted s |}.
Definition set_outs (v : list outrec) (s : st) : st :=
  {| sg := sg s; n := n s; ovalid := ovalid s; ins := ins s; nreg := nreg s; count := count s; done := done s; state := state s; saved := saved s; slots := slots s; acc := acc s; pvalid := pvalid s; win := win s; fwin := fwin s; dt := dt s; dprog := dprog s; elog := elog s; outs := v; crashed := crashed s; deleted := deleted s |}.
Definition set_crashed (v : bool) (s : st) : st :=
  {| sg := sg s; n := n s; ovalid := ovalid s; ins := ins s; nreg := nreg s; count := count s; done := done s; state := state s; saved := saved s; slots := slots s; acc := acc s; pvalid := pvalid s; win := win s; fwin := fwin s; dt := dt s; dprog := dprog s; elog := elog s; outs := outs s; crashed := v; deleted := deleted s |}.
Definition set_deleted (v : nat) (s : st) : st :=
  {| sg := sg s; n := n s; ovalid := ovalid s; ins := ins s; nreg := nreg s; count := count s; done := done s; state := state s; saved := saved s; slots := slots s; acc := acc s; pvalid := pvalid s; win := win s; fwin := fwin s; dt := dt s; dprog := dprog s; elog := elog s; outs := outs s; crashed := crashed s; deleted := v |}.
Definition with_ires (v : option res) (x : inp) : inp :=
  {| ires := v; iw := iw x; ipc := ipc x; ifree := ifree x; icons := icons x |}.
Definition with_iw (v : word) (x : inp) : inp :=
  {| ires := ires x; iw := v; ipc := ipc x; ifree := ifree x; icons := icons x |}.
Definition with_ipc (v : pc) (x : inp) : inp :=
  {| ires := ires x; iw := iw x; ipc := v; ifree := ifree x; icons := icons x |}.
Definition with_ifree (v : nat) (x : inp) : inp :=
  {| ires := ires x; iw := iw x; ipc := ipc x; ifree := v; icons := icons x |}.
Definition with_icons (v : nat) (x : inp) : inp :=
  {| ires := ires x; iw := iw x; ipc := ipc x; ifree := ifree x; icons := v |}.

Fixpoint upd {A} (i : nat) (f : A -> A) (l : list A) : list A :=
  match l, i with
  | [], _ => []
  | x :: r, 0 => f x :: r
  | x :: r, S i' => x :: upd i' f r
  end.

Definition set_in (i : nat) (x : inp) (s : st) : st := set_ins (upd i (fun _ => x) (ins s)) s.

Definition init (g : strat) (k : nat) : st :=
  {| sg := g; n := k; ovalid := negb (Nat.eqb k 0);
     ins := repeat {| ires := None; iw := WE; ipc := PIdle; ifree := 0; icons := 0 |} k;
     nreg := 0; count := k; done := false; state := init_state g k; saved := None;
     slots := repeat None k; acc := []; pvalid := negb (Nat.eqb k 0);
     win := None; fwin := None; dt := None; dprog := 0; elog := []; outs := []; crashed := false; deleted := 0 |}.

(* a read of input x's Result by the combinator: garbage once the state has been released *)
Definition rd (x : inp) : option res := if Nat.eqb (ifree x) 0 then ires x else None.

(* where Strategy::Consume goes for a Result r before its first atomic operation *)
Definition strat_entry (g : strat) (r : option res) : pc :=
  match g with
  | SAllNone | SJoinNone | STupNone => PDec
  | SAllFF | SJoinFF | STupFF => if ofailing r then PStrat else PDec
  | SAnyNone | SAnyFF | SAnyLF => PStrat
  end.

(* the consume step of input i starts (callback fired on the producer's thread, or inline on the builder's) *)
Definition begin (i : nat) (x : inp) (s : st) : st :=
  let p := if owned (sg s) then strat_entry (sg s) (ires x) else PCons in
  set_in i (with_icons (S (icons x)) (with_ipc p x)) s.

(* AllTuple: Consume<I> stores into slot I (FirstFail: values only) *)
Definition store_slot (i : nat) (r : option res) (s : st) : st :=
  match sg s with
  | STupNone => set_slots (upd i (fun _ => r) (slots s)) s
  | STupFF => if ovalue r then set_slots (upd i (fun _ => r) (slots s)) s else s
  | _ => s
  end.

Definition elected (i : nat) (x : inp) (s : st) : st := set_win (Some i) (set_in i (with_ipc PSet x) s).
Definition goto (i : nat) (p : pc) (x : inp) (s : st) : st := set_in i (with_ipc p x) s.
Definition logged (i : nat) (s : st) : st := set_elog (elog s ++ [i]) s.

(* what the strategy destructor does first *)
Definition dtor_entry (s : st) : pc :=
  match sg s with
  | SAllNone | SAllFF => PDtor 0
  | STupNone | SJoinNone => PPub
  | STupFF | SJoinFF | SAnyFF | SAnyNone | SAnyLF => if pvalid s then PPub else PFin
  end.
(* ... for SAnyNone / SAnyLF "publish" is ~Promise setting StopError on a promise nobody fulfilled *)

Definition finish_if_fin (p : pc) (s : st) : st :=
  match p with PFin => set_deleted (S (deleted s)) s | _ => s end.

Definition all_values (l : list (option res)) : bool := forallb ovalue l.

Definition publish_content (s : st) : content * bool (* crashes *) :=
  match sg s with
  | SAllNone => (OVec (acc s), false)
  | SAllFF => (OVec (acc s), negb (all_values (acc s)))           (* Retire().Value() on a non-value *)
  | STupNone | STupFF => (OVec (slots s), false)
  | SJoinNone | SJoinFF => (OUnit, false)
  | SAnyFF => (OOne (saved s), match saved s with None => true | Some _ => false end)
  | SAnyNone | SAnyLF => (OOne (Some (RErr 999)), false)           (* ~Promise: StopError *)
  end.

Definition step (s : st) (e : ev) : option st :=
  match e with
  | EComplete i r =>
      match nth_error (ins s) i with
      | Some x =>
          match ires x, iw x with
          | None, (WE | WC) => Some (set_in i (with_ires (Some r) x) s)
          | _, _ => None
          end
      | None => None
      end
  | EXchg i old =>
      match nth_error (ins s) i with
      | Some x =>
          if word_eqb old (iw x) then
            match ires x, old with
            | Some _, WE => Some (set_in i (with_iw WR x) s)
            | Some _, WC => Some (begin i (with_iw WR x) s)
            | _, _ => None                                  (* YACLIB_ASSERT(expected != kResult) *)
            end
          else None
      | None => None
      end
  | EReg i ok =>
      if Nat.eqb i (nreg s) then
        match nth_error (ins s) i with
        | Some x =>
            match iw x, ok with
            | WE, true => Some (set_nreg (S (nreg s)) (set_in i (with_iw WC x) s))
            | WR, false => Some (set_nreg (S (nreg s)) (begin i x s))
            | _, _ => None
            end
        | None => None
        end
      else None
  | EFree i =>
      match nth_error (ins s) i with
      | Some x =>
          match ipc x with
          | PCons =>
              if owned (sg s) then None else
              let r := rd x in
              Some (store_slot i r
                      (set_in i (with_ifree (S (ifree x)) (with_ipc (strat_entry (sg s) r) x)) s))
          | _ => None
          end
      | None => None
      end
  | ELdDone i v =>
      match nth_error (ins s) i with
      | Some x =>
          match ipc x with
          | PStrat =>
              if uses_done (sg s) && Bool.eqb v (done s) then
                Some (goto i (if v then PDec else PRmw) x s)
              else None
          | _ => None
          end
      | None => None
      end
  | EXchgDone i old =>
      match nth_error (ins s) i with
      | Some x =>
          match ipc x with
          | PRmw =>
              if uses_done (sg s) && Bool.eqb old (done s) then
                let s1 := logged i (set_done true s) in
                Some (if old then goto i PDec x s1 else elected i x s1)
              else None
          | _ => None
          end
      | None => None
      end
  | ELdState i v =>
      match nth_error (ins s) i with
      | Some x =>
          match ipc x with
          | PStrat =>
              if N.eqb v (state s) then
                match sg s with
                | SAnyFF =>
                    if ofailing (ires x)
                    then Some (goto i (if N.eqb v 0 then PRmw else PDec) x s)
                    else Some (goto i (if N.eqb v 2 then PDec else PRmw) x s)
                | SAnyLF => Some (goto i (if N.odd v then PDec else PRmw) x s)
                | _ => None
                end
              else None
          | _ => None
          end
      | None => None
      end
  | EXchgState i old =>
      match nth_error (ins s) i with
      | Some x =>
          match ipc x with
          | PRmw =>
              if N.eqb old (state s) && ovalue (ires x) then
                match sg s with
                | SAnyFF =>
                    let s1 := logged i (set_state 2%N s) in
                    Some (if N.eqb old 2 then goto i PDec x s1 else elected i x s1)
                | SAnyLF =>
                    let s1 := logged i (set_state 1%N s) in
                    Some (if N.odd old then goto i PDec x s1 else elected i x s1)
                | _ => None
                end
              else None
          | _ => None
          end
      | None => None
      end
  | ECasState i ok =>
      match nth_error (ins s) i with
      | Some x =>
          match ipc x, sg s with
          | PRmw, SAnyFF =>
              if ofailing (ires x) && Bool.eqb ok (N.eqb (state s) 0) then
                if ok
                then Some (goto i PDec x (logged i (set_fwin (Some i) (set_saved (ires x) (set_state 1%N s)))))
                else Some (goto i PDec x s)
              else None
          | _, _ => None
          end
      | None => None
      end
  | ESubState i old =>
      match nth_error (ins s) i with
      | Some x =>
          match ipc x, sg s with
          | PRmw, SAnyLF =>
              if ofailing (ires x) && N.eqb old (state s) then
                let s1 := logged i (set_state (sub2 old) s) in
                Some (if N.eqb old 2 then elected i x s1 else goto i PDec x s1)
              else None
          | _, _ => None
          end
      | None => None
      end
  | ESetOut i =>
      match nth_error (ins s) i with
      | Some x =>
          match ipc x with
          | PSet =>
              let r := if owned (sg s) then rd x else ires x in
              Some (goto i PDec x
                      (set_outs (outs s ++ [{| oby := i; odtor := false; oval := OOne r |}])
                         (set_pvalid false (set_crashed (crashed s || negb (pvalid s)) s))))
          | _ => None
          end
      | None => None
      end
  | EDec i old =>
      match nth_error (ins s) i with
      | Some x =>
          match ipc x with
          | PDec =>
              if Nat.eqb old (count s) then
                match old with
                | 0 => None                                   (* underflow: never (theorem) *)
                | 1 =>
                    let p := dtor_entry s in
                    Some (finish_if_fin p (goto i p x (set_dt (Some i) (set_count 0 s))))
                | S c => Some (goto i PFin x (set_count c s))
                end
              else None
          | _ => None
          end
      | None => None
      end
  | EDFree i k =>
      match nth_error (ins s) i with
      | Some x =>
          match ipc x with
          | PDtor k' =>
              if Nat.eqb k k' then
                match nth_error (ins s) k with
                | Some y =>
                    let collect := match sg s with SAllNone => true | _ => pvalid s end in
                    let s1 := set_dprog (S k) (set_in k (with_ifree (S (ifree y)) y) s) in
                    let s2 := if collect then set_acc (acc s ++ [rd y]) s1 else s1 in
                    let p := if Nat.eqb (S k) (n s) then (if collect then PPub else PFin) else PDtor (S k) in
                    match nth_error (ins s2) i with
                    | Some x' => Some (finish_if_fin p (goto i p x' s2))
                    | None => None
                    end
                | None => None
                end
              else None
          | _ => None
          end
      | None => None
      end
  | EPublish i =>
      match nth_error (ins s) i with
      | Some x =>
          match ipc x with
          | PPub =>
              let (c, bad) := publish_content s in
              Some (set_deleted (S (deleted s))
                      (goto i PFin x
                         (set_outs (outs s ++ [{| oby := i; odtor := true; oval := c |}])
                            (set_pvalid false (set_crashed (crashed s || bad || negb (pvalid s)) s)))))
          | _ => None
          end
      | None => None
      end
  end.

Fixpoint run (s : st) (tr : list ev) : option st :=
  match tr with
  | [] => Some s
  | e :: r => match step s e with Some s' => run s' r | None => None end
  end.

Definition pc_fin (p : pc) : bool := match p with PFin => true | _ => false end.

(* every input completed, was registered and consumed to the end; the combinator is gone *)
Definition terminal (s : st) : bool :=
  negb (Nat.eqb (n s) 0) && Nat.eqb (nreg s) (n s) && forallb (fun x => pc_fin (ipc x)) (ins s) &&
  Nat.eqb (deleted s) 1.
