(* C20 — where YACLib calls the global operator new.

   WHAT IS COUNTED: the number of calls of the global allocation functions (operator new / new[] in all their
   overloads) made on behalf of a program, between two points of a run.  A std::vector buffer is ONE block
   whatever its length; an exception object thrown by a callback is obtained by __cxa_allocate_exception (malloc),
   not by operator new, and is the user's anyway; a coroutine frame is ONE block requested by the compiler for
   one coroutine call (it contains the promise = the library's core, so the library itself adds nothing).

   The model is sequential: a program is a closed expression over the YACLib API; [eval] lists the *sites* the
   program executes (API calls that may allocate), each with the number of blocks the code requests there:

     MakeCore (core.hpp:362-387)        one MakeUnique / MakeShared for functor + result + continuation state
     MakeFuture / MakeTask              one MakeUnique<UniqueCore / ReadyCore>          (make.hpp, lazy/make.hpp)
     MakeContract / On / Shared         one MakeUnique / MakeShared                      (contract.hpp, shared_contract.hpp)
     AsyncContract / LazyContract       one MakeUnique / MakeShared<PromiseCore>         (run.hpp:21,38 schedule.hpp:15)
     Split / Share                      one (shared) contract + Connect                  (split.hpp, share.hpp)
     coroutine call                     one frame (promise_type.hpp: the core is the promise)
     Detach() / Task::Detach / ToFuture / On(nullptr)    nothing

   A callback that is not invoked (value callback on a failed input, recovery callback on a good one) does not build
   the pipeline it would have returned, so [eval] carries the small amount of Result-state semantics needed to know
   which callbacks run (core.hpp: CallResolveState; Drop() substitutes Result{StopTag} when the executor is stopped).

   Combinators, waits, Get, Strand::Submit and co_await are closed formulas over their parameters (below).
   No proofs here. *)
From Coq Require Import List Arith Bool.
Import ListNotations.

(* ------------------------------------------------------------------------------------------------ pipelines *)

Inductive world := WF | WO | WT | WS | WSO.      (* Future, FutureOn, Task, SharedFuture, SharedFutureOn *)
Inductive vty := VInt | VVoid | VHeavy.         (* VHeavy: a value type that owns heap memory (harness HeavyV) *)
Inductive exec := XInline | XManual | XStrand | XStopped.
Inductive res := RVal | RErr | RExc.             (* state of a Result *)
Inductive pclass := PResult | PValue | PError | PExc | PNone | PUnit.   (* what the callback accepts *)
Inductive rshape := ShPlain | ShResult | ShAsync (w : world).          (* what it returns (value type separately) *)
Inductive attach := AInline | AOn (e : exec) | AInherit.               (* ThenInline / Then(e, f) / Then(f) *)
Inductive amode := MAwait | MCoAwait.            (* co_await Await(x)  /  co_await std::move(x) *)

Inductive pipe :=
| PReady (w : world) (v : vty) (r : res)                               (* MakeFuture / MakeTask *)
| PContract (w : world) (v : vty) (e : exec) (late : bool) (r : res)   (* MakeContract / MakeContractOn / MakeSharedContract *)
| PRun (w : world) (e : exec) (f : fn)                                 (* Run / Schedule / RunShared *)
| PProm (w : world) (v : vty) (e : exec) (late : bool) (r : res) (throws : bool)  (* AsyncContract / LazyContract / AsyncSharedContract *)
| PCoro (w : world) (v : vty) (m : amode) (inner : pipes) (r : res)    (* a coroutine awaiting the inner pipelines in turn *)
| PThen (p : pipe) (a : attach) (f : fn)                               (* Then* *)
| PDetach (p : pipe) (a : attach) (f : fn)                             (* DetachInline / Detach(e, f) / Detach(f) / Subscribe* *)
| PDetach0 (p : pipe)                                                  (* Detach() (Future, Task, SharedFuture) *)
| PStartOn (p : pipe) (e : exec)                                       (* Task::ToFuture(e) *)
| PToFuture (p : pipe)                                                 (* Task::ToFuture() *)
| POnNull (p : pipe)                                                   (* On(nullptr) *)
| PSplit (p : pipe)                                                    (* Split(future) *)
| PShare (p : pipe) (e : option exec)                                  (* Share(shared) / Share(shared, e) *)
with fn := Fn (par : pclass) (v : vty) (sh : rshape) (b : beh)
with beh := BRet | BThrow | BResVal | BResErr | BResExc | BAsync (p : pipe)
with pipes := PNil | PCons (p : pipe) (ps : pipes).

(* sites: API calls, with the blocks requested there *)
Inductive skind := KReady | KContract | KRun | KProm | KCoro | KThen | KDetach | KDetach0 | KSplit | KShare | KConv.

Definition make_core_blocks := 1.        (* core.hpp:383/385  MakeShared<Core> / MakeUnique<Core> *)
Definition ready_core_blocks := 1.       (* make.hpp:28-35, lazy/make.hpp:46-53 *)
Definition contract_blocks := 1.         (* contract.hpp:26,34  shared_contract.hpp:19,27 *)
Definition promise_core_blocks := 1.     (* run.hpp:21,38  schedule.hpp:15 *)
Definition coro_frame_blocks := 1.       (* the compiler's frame; PromiseType lives inside it *)

Definition site_blocks (k : skind) : nat :=
  match k with
  | KReady => ready_core_blocks
  | KContract => contract_blocks
  | KRun => make_core_blocks
  | KProm => promise_core_blocks
  | KCoro => coro_frame_blocks
  | KThen => make_core_blocks
  | KDetach => make_core_blocks
  | KDetach0 => 0                        (* future.hpp:144-148 CallInline(MakeDrop()): a static object *)
  | KSplit => contract_blocks            (* split.hpp:12 MakeSharedContract + Connect *)
  | KShare => contract_blocks            (* share.hpp:12 MakeContract + Connect *)
  | KConv => 0                           (* ToFuture / On(nullptr): moves the core pointer *)
  end.

(* which sites are pipeline steps in the sense of the property (conversions are not) *)
Definition is_step (k : skind) : bool := match k with KConv => false | _ => true end.

Definition stopped (e : exec) : bool := match e with XStopped => true | _ => false end.

(* the executor a Then(f) without executor argument will use (base_core.hpp TransferExecutorTo: a core without its
   own executor takes its caller's) *)
(* Task::ToFuture(e) / Start(head, e) (task_impl.cpp:6-10) replaces the executor of the HEAD of the lazy chain: [ov] is
   that replacement, seen by the source and by every step that inherits from it *)
Definition over (ov : option exec) (e : exec) : exec := match ov with Some e' => e' | None => e end.

Fixpoint cur_exec (ov : option exec) (p : pipe) : exec :=
  match p with
  | PReady _ _ _ => over ov XInline
  | PContract _ _ e _ _ => over ov e
  | PRun _ e _ => over ov e
  | PProm _ _ e _ _ _ => over ov e
  | PCoro _ _ _ _ _ => over ov XInline
  | PThen q (AOn e) _ => e
  | PThen q _ _ => cur_exec ov q
  | PDetach q _ _ => cur_exec ov q
  | PDetach0 q => cur_exec ov q
  | PStartOn q e => cur_exec (Some e) q
  | PToFuture q => cur_exec ov q
  | POnNull q => cur_exec ov q
  | PSplit q => cur_exec ov q
  | PShare q (Some e) => e
  | PShare q None => cur_exec ov q
  end.

(* A coroutine that suspends on an awaited future takes over that future's executor when it is resumed
   (promise_type.hpp:128-131 Impl), so what a later Then(f) WITHOUT executor argument inherits depends on whether the
   awaited future was ready.  That is executor semantics (C05 / C13), not allocation: programs in which a step inherits
   from a coroutine that awaits something are outside this model; [wf] says so and the checker skips them (the
   harness-side oracle still applies to them). *)
Fixpoint exec_known (p : pipe) : bool :=
  match p with
  | PReady _ _ _ | PContract _ _ _ _ _ | PRun _ _ _ | PProm _ _ _ _ _ _ => true
  | PCoro _ _ _ ps _ => match ps with PNil => true | PCons _ _ => false end
  | PThen q (AOn _) _ => true
  | PThen q _ _ | PDetach q _ _ => exec_known q
  | PDetach0 q | PStartOn q _ | PToFuture q | POnNull q | PSplit q => exec_known q
  | PShare q (Some _) => true
  | PShare q None => exec_known q
  end.

Definition inherit_ok (a : attach) (q : pipe) : bool :=
  match a with AInherit => exec_known q | _ => true end.

Fixpoint wf (p : pipe) : bool :=
  match p with
  | PReady _ _ _ | PContract _ _ _ _ _ | PProm _ _ _ _ _ _ => true
  | PRun _ _ f => wf_fn f
  | PCoro _ _ _ ps _ => wf_pipes ps
  | PThen q a f | PDetach q a f => wf q && wf_fn f && inherit_ok a q
  | PStartOn q _ | PDetach0 q | PToFuture q | POnNull q | PSplit q | PShare q _ => wf q
  end
with wf_fn (f : fn) : bool :=
  match f with Fn _ _ _ b => match b with BAsync p => wf p | _ => true end end
with wf_pipes (ps : pipes) : bool :=
  match ps with PNil => true | PCons p r => wf p && wf_pipes r end.

Record out := mkOut { sites : list skind; calls : nat; st : res }.

(* core.hpp CallImpl / CallResolveState: is the functor invoked on an input in state s? *)
Definition invoked (par : pclass) (s : res) : bool :=
  match par, s with
  | PResult, _ => true
  | (PValue | PNone | PUnit), RVal => true
  | PError, RErr => true
  | PExc, RExc => true
  | _, _ => false
  end.

Fixpoint eval (ov : option exec) (p : pipe) : out :=
  match p with
  | PReady _ _ r => mkOut [KReady] 0 r
  | PContract _ _ _ _ r => mkOut [KContract] 0 r
  | PRun _ e f =>
      let o := eval_fn f (if stopped (over ov e) then RErr else RVal) in
      mkOut (KRun :: sites o) (calls o) (st o)
  | PProm _ _ e _ r throws =>
      (* promise_core.hpp: Call() hands the promise to the function; Drop() stores StopTag without calling it *)
      if stopped (over ov e) then mkOut [KProm] 0 RErr
      else mkOut [KProm] 1 (if throws then RExc else r)
  | PCoro _ _ m ps r =>
      let o := eval_pipes m ps in
      mkOut (KCoro :: sites o) (calls o) (match st o with RVal => r | _ => RExc end)
  | PThen q a f =>
      let o := eval ov q in
      let s_in := match a with
                  | AInline => st o
                  | AOn e => if stopped e then RErr else st o
                  | AInherit => if stopped (cur_exec ov q) then RErr else st o
                  end in
      let g := eval_fn f s_in in
      mkOut (sites o ++ KThen :: sites g) (calls o + calls g) (st g)
  | PDetach q a f =>
      let o := eval ov q in
      let s_in := match a with
                  | AInline => st o
                  | AOn e => if stopped e then RErr else st o
                  | AInherit => if stopped (cur_exec ov q) then RErr else st o
                  end in
      let g := eval_fn f s_in in
      mkOut (sites o ++ KDetach :: sites g) (calls o + calls g) (st g)
  | PDetach0 q => let o := eval ov q in mkOut (sites o ++ [KDetach0]) (calls o) (st o)
  | PStartOn q e => let o := eval (Some e) q in mkOut (sites o ++ [KConv]) (calls o) (st o)
  | PToFuture q => let o := eval ov q in mkOut (sites o ++ [KConv]) (calls o) (st o)
  | POnNull q => let o := eval ov q in mkOut (sites o ++ [KConv]) (calls o) (st o)
  | PSplit q => let o := eval ov q in mkOut (sites o ++ [KSplit]) (calls o) (st o)
  | PShare q _ => let o := eval ov q in mkOut (sites o ++ [KShare]) (calls o) (st o)
  end
with eval_fn (f : fn) (s : res) : out :=
  match f with
  | Fn par _ _ b =>
      if invoked par s then
        match b with
        | BRet => mkOut [] 1 RVal
        | BThrow => mkOut [] 1 RExc
        | BResVal => mkOut [] 1 RVal
        | BResErr => mkOut [] 1 RErr
        | BResExc => mkOut [] 1 RExc
        | BAsync p => let o := eval None p in mkOut (sites o) (S (calls o)) (st o)   (* unwrapping: no extra block *)
        end
      else mkOut [] 0 s
  end
with eval_pipes (m : amode) (ps : pipes) : out :=
  (* st = RVal while the coroutine body is still running normally *)
  match ps with
  | PNil => mkOut [] 0 RVal
  | PCons p r =>
      let o := eval None p in
      match m, st o with
      | MCoAwait, (RErr | RExc) => mkOut (sites o) (calls o) RExc     (* await_resume: Ok() throws; the rest is not built *)
      | _, _ => let t := eval_pipes m r in mkOut (sites o ++ sites t) (calls o + calls t) (st t)
      end
  end.

(* ---- payload copies.  With a value type V and an error type E that own heap memory, a COPY of the payload made by
   the library is one more block for that step; a move is free.  On plain futures / tasks the code moves everywhere:
   core.hpp Call() takes MoveOrConst<true>; CallResolveState forwards .Value() / .Error() / .Exception() of the rvalue
   Result both when the callback is skipped and (since d85ca6f; before, the recovery branch read the failure through
   Result::Internal(), an lvalue, and a callback taking the error by value received a copy) when a recovery callback
   is invoked; Done() -> Store(std::forward); result_core.hpp SetInline -> Store(std::move(Get())); Get()/Touch() && move.
   [ecopies] walks the program like [eval] and adds what each invoked callback's parameter costs. *)
Definition error_param_copies (par : pclass) : nat := 0.   (* core.hpp:256-260 std::forward<Result>(r).Error() *)

Fixpoint ecopies (ov : option exec) (p : pipe) : nat :=
  match p with
  | PReady _ _ _ | PContract _ _ _ _ _ | PProm _ _ _ _ _ _ => 0
  | PRun _ e f => ecopies_fn f (if stopped (over ov e) then RErr else RVal)
  | PCoro _ _ m ps _ => ecopies_pipes m ps
  | PThen q a f | PDetach q a f =>
      let o := eval ov q in
      let s_in := match a with
                  | AInline => st o
                  | AOn e => if stopped e then RErr else st o
                  | AInherit => if stopped (cur_exec ov q) then RErr else st o
                  end in
      ecopies ov q + ecopies_fn f s_in
  | PStartOn q e => ecopies (Some e) q
  | PDetach0 q | PToFuture q | POnNull q | PSplit q | PShare q _ => ecopies ov q
  end
with ecopies_fn (f : fn) (s : res) : nat :=
  match f with
  | Fn par _ _ b =>
      if invoked par s then
        error_param_copies par + match b with BAsync p => ecopies None p | _ => 0 end
      else 0
  end
with ecopies_pipes (m : amode) (ps : pipes) : nat :=
  match ps with
  | PNil => 0
  | PCons p r =>
      match m, st (eval None p) with
      | MCoAwait, (RErr | RExc) => ecopies None p
      | _, _ => ecopies None p + ecopies_pipes m r
      end
  end.

Definition error_copies (p : pipe) : nat := ecopies None p.
Definition value_copies (p : pipe) : nat := 0.

Definition blocks (l : list skind) : nat := fold_right (fun k a => site_blocks k + a) 0 l.
Definition nsteps (l : list skind) : nat := length (filter is_step l).

Definition run (p : pipe) : out := eval None p.
Definition allocs_pipeline (p : pipe) : nat := blocks (sites (run p)).
(* steps actually executed: the source, every attached step, and those of every inner pipeline that was built *)
Definition steps (p : pipe) : nat := nsteps (sites (run p)).

(* steps written in the program text, executed or not *)
Fixpoint steps_syn (p : pipe) : nat :=
  match p with
  | PReady _ _ _ | PContract _ _ _ _ _ | PProm _ _ _ _ _ _ => 1
  | PRun _ _ f => 1 + steps_syn_fn f
  | PCoro _ _ _ ps _ => 1 + steps_syn_pipes ps
  | PThen q _ f | PDetach q _ f => steps_syn q + 1 + steps_syn_fn f
  | PDetach0 q | PSplit q | PShare q _ => steps_syn q + 1
  | PStartOn q _ | PToFuture q | POnNull q => steps_syn q
  end
with steps_syn_fn (f : fn) : nat :=
  match f with Fn _ _ _ b => match b with BAsync p => steps_syn p | _ => 0 end end
with steps_syn_pipes (ps : pipes) : nat :=
  match ps with PNil => 0 | PCons p r => steps_syn p + steps_syn_pipes r end.

(* ---------------------------------------------------------------------------------------------- combinators *)

Inductive ckind := CAll | CAny | CJoin.
Inductive policy := FNone | FFirst | FLast.
Inductive form := FIter | FVariadic.
Inductive ikind := IUnique | IShared | IMixedUS.        (* futures / shared futures / both (variadic only) *)
Inductive ivals := VsInt | VsVoid | VsMixed.            (* all int / all void / different value types (variadic only) *)
Inductive outcome := OAllOk | OFirstFails | OLastFails.
Inductive timing := TEarly | TLate.                     (* inputs fulfilled before / after the combinator call *)

Inductive strategy := SAll | SAllTuple | SJoin | SAny.

(* when_all.hpp:27-40,46-53  when_any.hpp  join.hpp *)
Definition strategy_of (k : ckind) (pol : policy) (vs : ivals) : strategy :=
  match k with
  | CAll => match vs with
            | VsMixed => SAllTuple
            | VsVoid => match pol with FNone => SAll | _ => SJoin end
            | VsInt => SAll
            end
  | CAny => SAny
  | CJoin => SJoin
  end.

(* when.hpp:351-359: the iterator form uses DynamicCombinator (a std::vector of callbacks) unless the inputs are unique
   futures consumed without order; the variadic forms keep their callbacks inside the combinator object *)
Definition callbacks_vector (f : form) (ik : ikind) : nat :=
  match f, ik with
  | FIter, (IShared | IMixedUS) => 1
  | _, _ => 0
  end.

(* all.hpp: All(count, p) does _cores.resize(count) *)
Definition strategy_build (s : strategy) : nat := match s with SAll => 1 | _ => 0 end.

(* all.hpp ~All: output.reserve(n) unless the promise was already used for the failure *)
Definition strategy_done (s : strategy) (pol : policy) (oc : outcome) : nat :=
  match s with
  | SAll => match pol, oc with
            | FNone, _ => 1
            | _, OAllOk => 1
            | _, _ => 0
            end
  | _ => 0
  end.

(* returns (blocks requested inside the combinator call, blocks requested until the result has been delivered) *)
Definition when_allocs (k : ckind) (pol : policy) (f : form) (ik : ikind) (vs : ivals) (oc : outcome) (t : timing)
           (n : nat) : nat * nat :=
  match n with
  | 0 => (0, 0)                                            (* when.hpp:346 count == 0: an invalid future *)
  | S n' =>
      match k, f, ik, n' with
      | CAny, FIter, IUnique, 0 => (0, 0)                  (* when_any.hpp:27-33: the input itself is returned *)
      | _, _, _, _ =>
          (* VsMixed: input i is a future of int for even i, of void for odd i — a single input is not mixed *)
          let vs' := match vs, n' with VsMixed, 0 => VsInt | _, _ => vs end in
          let s := strategy_of k pol vs' in
          let build := contract_blocks + 1 (* MakeShared<FinalCombinator>, when.hpp:337,361 *)
                       + strategy_build s + callbacks_vector f ik in
          let total := build + strategy_done s pol oc in
          match t with TEarly => (total, total) | TLate => (build, total) end
      end
  end.

(* the explicit constant: independent of n (and of values, outcome, timing) *)
Definition K (k : ckind) (f : form) (ik : ikind) : nat :=
  match k with CAll => 4 | _ => 2 end + callbacks_vector f ik.

(* ------------------------------------------------------------------------------ waits, Get, strand, co_await *)

Inductive wfun := WWait | WWaitFor | WWaitUntil.

(* wait_impl.hpp: the event is a local object; the callbacks are the event itself (unique futures) or an array inside
   it (variadic, shared).  Only the iterator form over SHARED futures builds a std::vector (shared_event.hpp:54-59,
   DynamicSharedEvent) — outside the property's "plain futures". *)
Definition wait_allocs (w : wfun) (f : form) (ik : ikind) (n : nat) : nat :=
  match f, ik with
  | FIter, IShared => if 2 <=? n then 1 else 0             (* wait_impl.hpp:96-99: count == 1 goes to WaitCore *)
  | _, _ => 0
  end.

Definition get_allocs (w : world) (ready : bool) : nat := 0.           (* future.hpp:94-98: Wait + move *)

(* strand.cpp:24-33: the job is linked through its own Node; Submit(strand, f) first builds a job (submit.hpp:19) *)
Definition strand_allocs (existing_job : bool) (njobs : nat) : nat := if existing_job then 0 else njobs.

Inductive awform := AwSingle | AwCoAwait | AwVariadic | AwIter.
(* await_awaiter.hpp: every awaiter is a local of the coroutine; Await(begin, count) over SHARED futures builds the
   DynamicSharedEvent vector whatever count is (await_inline.hpp:29-36) — again outside "plain futures" *)
Definition await_allocs (a : awform) (ik : ikind) (n : nat) : nat :=
  match a, ik with
  | AwIter, IShared => 1
  | _, _ => 0
  end.
(* one coroutine call: the frame, plus what its awaits request *)
Definition coro_call_allocs (a : awform) (ik : ikind) (n : nat) : nat := coro_frame_blocks + await_allocs a ik n.
