(* Handoff.v — the unique callback word (BaseCore::_callback with SetCallbackImpl<false>,
   SetResultImpl<.,false>) as a transition system at the granularity of one atomic operation, for one
   producer (Promise side) and one consumer (Future side).

   Source being modelled (src/algo/base_core.cpp, include/yaclib/async/{promise,future,connect}.hpp,
   include/yaclib/async/detail/wait_impl.hpp):
     producer   Promise::Set       : Store(result) ; old := exchange(word, Result) ; if old is a callback, run it
                ~Promise           : Set(StopTag)
     consumer   SetCallbackImpl<0> : load(word) == Empty && CAS_strong(Empty -> callback)
                SetInline / CallInline : if that failed, run the callback on the consumer's thread
                Wait               : attach the stack event as callback (same two operations), sleep until the
                                     producer's exchange has handed the event back and signalled it
                Ready / Get const& : one load; the slot is read if the load returned Result
                Get&&              : Wait, move the result out, release the state
     continuation (ResultCore::Impl / Core::Impl / Drop::Impl): moves the result out of the source state
                and drops the reference to it (the state is freed; ~ResultCore reloads the word, which is
                how the tracer sees the destruction).

   The consumer is a sequence of non-consuming operations (Ready/Get const&, Wait) followed by one final,
   consuming action (attach a continuation / drop the future / Get&&).

   Events are what the tracer sees on the real code: atomic operations on the word with the value observed,
   and harness-level markers and observations.  No proofs in this file. *)

From Coq Require Import List Arith Bool.
Import ListNotations.

Inductive word := WE | WC | WR.                 (* Empty / pointer to an attached callback / Result *)
Inductive who := P | C.
Inductive kind :=
| KAttach                                       (* ThenInline, Then(e), DetachInline, Detach(e), Connect *)
| KConnect                                      (* Connect(f, p2): as KAttach, but a failed attach does
                                                   p2.Set(f.Touch()), whose Ready() assertion reloads the word *)
| KSilent                                       (* Detach() / ~Future: the continuation is the Drop core *)
| KGet.                                         (* Get&& *)

Inductive cstate :=
| C0          (* idle, owns the future *)
| CPeek       (* inside Ready()/Get const&: the next load is the readiness test *)
| CPeekHit    (* it answered true: the caller now reads the slot *)
| CW0         (* Wait: pre-check load next *)
| CW1         (* Wait: pre-check saw Empty, CAS next *)
| CWaiting    (* Wait: the event is in the word; asleep until signalled *)
| CTW0        (* WaitFor/WaitUntil: pre-check load next *)
| CTW1        (* timed: pre-check saw Empty, CAS next *)
| CTWaiting   (* timed: the event is in the word; asleep until signalled or until the deadline *)
| CReset1     (* timed out: ResetImpl's relaxed load saw the event, CAS (event -> Empty) next *)
| CTWaitingU  (* timed out but the reset failed (the producer already took the event): untimed wait *)
| CTRet (b : bool)  (* the timed wait is about to return b *)
| C1          (* final attach: pre-check saw Empty, CAS next *)
| CAttached   (* final attach: the continuation is in the word *)
| CInline     (* final attach failed: the continuation runs on the consumer's thread *)
| CInlineT    (* KConnect only: Touch()'s readiness assertion done *)
| CGotten     (* Get&&: result moved out and state released, value not yet returned *)
| CDone.      (* Get&& returned *)

Definition word_eqb (a b : word) : bool :=
  match a, b with WE, WE | WC, WC | WR, WR => true | _, _ => false end.
Definition who_eqb (a b : who) : bool :=
  match a, b with P, P | C, C => true | _, _ => false end.

Record st := {
  kd : kind;
  w : word;
  is_event : bool;               (* the callback currently in the word is a waiter's event *)
  slot : option nat;             (* None: the Result object is not constructed yet *)
  alive : bool;                  (* the shared state has not been freed *)
  ppc : nat;                     (* 0 before Store, 1 stored, 2 exchanged *)
  cpc : cstate;
  signalled : bool;              (* the producer took the waiter's event out of the word *)
  waited : bool;                 (* a Wait has completed *)
  tokens : list who;             (* who became responsible for running the final continuation, in order *)
  taken : option (option nat);   (* what was moved out of the slot (Some None: garbage) *)
  cbs : list (option nat);       (* argument of every user-callback invocation *)
  gots : list (option nat);      (* value returned by every Get / Touch *)
  readys : list (bool * bool);   (* each Ready(): (answer, result was constructed at that moment) *)
  frees : nat                    (* how many times the state was destroyed *)
}.

Definition init (k : kind) : st :=
  {| kd := k; w := WE; is_event := false; slot := None; alive := true; ppc := 0; cpc := C0;
     signalled := false; waited := false; tokens := []; taken := None;
     cbs := []; gots := []; readys := []; frees := 0 |}.

Inductive ev :=
| ESet (r : nat)               (* P: Result constructed in the slot (Promise::Set before the exchange) *)
| EXchg (old : word)           (* P: exchange(word, Result) returned old *)
| EPeekBegin                   (* C: enters Ready() / Get const& *)
| EWaitBegin                   (* C: enters Wait (also the first half of Get&&) *)
| ETWaitBegin                  (* C: enters WaitFor / WaitUntil *)
| ETWaitRet (b : bool)         (* C: the timed wait returned b *)
| ELd (t : who) (v : word)     (* load(word) returned v *)
| ECas (ok : bool)             (* C: compare_exchange_strong(Empty -> callback) *)
| ECb (t : who)                (* the user callback ran on t's thread *)
| EGot.                        (* C: Get()/Touch() returned a value to the caller *)
(* The destruction of the shared state is visible as a load: ~ResultCore reloads the word
   (YACLIB_ASSERT(_callback.load() == kResult)).  A load that is not a marked pre-check or
   readiness test is therefore interpreted as "t destroys the state". *)

(* a read of the slot: garbage (None) if the object is not constructed or the state is gone *)
Definition rd (s : st) : option nat := if alive s then slot s else None.

Definition holds_token (s : st) (t : who) : bool :=
  match tokens s with [x] => who_eqb x t | _ => false end.

Definition upd_cpc (c : cstate) (s : st) : st :=
  {| kd := kd s; w := w s; is_event := is_event s; slot := slot s; alive := alive s; ppc := ppc s; cpc := c;
     signalled := signalled s; waited := waited s; tokens := tokens s;
     taken := taken s; cbs := cbs s; gots := gots s; readys := readys s; frees := frees s |}.

Definition add_token (t : who) (s : st) : st :=
  {| kd := kd s; w := w s; is_event := is_event s; slot := slot s; alive := alive s; ppc := ppc s; cpc := cpc s;
     signalled := signalled s; waited := waited s; tokens := tokens s ++ [t];
     taken := taken s; cbs := cbs s; gots := gots s; readys := readys s; frees := frees s |}.

Definition upd_w (v : word) (ev_ : bool) (s : st) : st :=
  {| kd := kd s; w := v; is_event := ev_; slot := slot s; alive := alive s; ppc := ppc s; cpc := cpc s;
     signalled := signalled s; waited := waited s; tokens := tokens s;
     taken := taken s; cbs := cbs s; gots := gots s; readys := readys s; frees := frees s |}.

(* a sleeping waiter whose event has been signalled is awake: it continues as an idle owner *)
Definition wake (s : st) : st :=
  match cpc s with
  | CWaiting =>
      if signalled s then
        {| kd := kd s; w := w s; is_event := is_event s; slot := slot s; alive := alive s; ppc := ppc s;
           cpc := C0; signalled := false; waited := true; tokens := tokens s;
           taken := taken s; cbs := cbs s; gots := gots s; readys := readys s; frees := frees s |}
      else s
  | CTWaiting | CTWaitingU =>
      if signalled s then
        {| kd := kd s; w := w s; is_event := is_event s; slot := slot s; alive := alive s; ppc := ppc s;
           cpc := CTRet true; signalled := false; waited := waited s; tokens := tokens s;
           taken := taken s; cbs := cbs s; gots := gots s; readys := readys s; frees := frees s |}
      else s
  | _ => s
  end.

Definition do_free (t : who) (s : st) : option st :=
  if negb (alive s) then None else
  if holds_token s t then
    Some {| kd := kd s; w := w s; is_event := is_event s; slot := slot s; alive := false; ppc := ppc s;
            cpc := cpc s; signalled := signalled s; waited := waited s; tokens := tokens s;
            taken := (match taken s with Some v => Some v | None => Some (rd s) end);
            cbs := cbs s; gots := gots s; readys := readys s; frees := S (frees s) |}
  else None.

Definition step_c (s : st) (e : ev) : option st :=
  match e with
  | EPeekBegin => match cpc s with C0 => Some (upd_cpc CPeek s) | _ => None end
  | EWaitBegin => match cpc s with C0 => Some (upd_cpc CW0 s) | _ => None end
  | ETWaitBegin => match cpc s with C0 => Some (upd_cpc CTW0 s) | _ => None end
  | ETWaitRet b =>
      match cpc s with
      | CTRet b0 =>
          if Bool.eqb b b0 then
            Some {| kd := kd s; w := w s; is_event := is_event s; slot := slot s; alive := alive s; ppc := ppc s;
                    cpc := C0; signalled := signalled s; waited := waited s || b; tokens := tokens s;
                    taken := taken s; cbs := cbs s; gots := gots s;
                    readys := readys s ++ [(b, match rd s with Some _ => true | None => false end)];
                    frees := frees s |}
          else None
      | _ => None
      end
  | ELd C v =>
      if negb (word_eqb v (w s)) then None else
      match cpc s with
      | CPeek =>
          Some {| kd := kd s; w := w s; is_event := is_event s; slot := slot s; alive := alive s; ppc := ppc s;
                  cpc := (match v with WR => CPeekHit | _ => C0 end);
                  signalled := signalled s; waited := waited s; tokens := tokens s;
                  taken := taken s; cbs := cbs s; gots := gots s;
                  readys := readys s ++ [(word_eqb v WR, match rd s with Some _ => true | None => false end)];
                  frees := frees s |}
      | CW0 =>
          match v with
          | WE => Some (upd_cpc CW1 s)
          | WR => Some {| kd := kd s; w := w s; is_event := is_event s; slot := slot s; alive := alive s;
                          ppc := ppc s; cpc := C0; signalled := signalled s; waited := true;
                          tokens := tokens s; taken := taken s; cbs := cbs s; gots := gots s;
                          readys := readys s; frees := frees s |}
          | WC => None
          end
      | CTW0 =>
          match v with
          | WE => Some (upd_cpc CTW1 s)
          | WR => Some (upd_cpc (CTRet true) s)        (* nothing to wait for *)
          | WC => None
          end
      | CTWaiting =>
          (* the deadline passed: ResetImpl's load *)
          match v with
          | WC => Some (upd_cpc CReset1 s)
          | WR => Some (upd_cpc CTWaitingU s)          (* expected == kResult: reset fails, wait for the signal *)
          | WE => None
          end
      | C0 =>
          match kd s with
          | KGet =>
              (* Get&& after its Wait: moves the result out and releases the state *)
              if waited s && word_eqb v WR && alive s then
                Some {| kd := kd s; w := w s; is_event := is_event s; slot := slot s; alive := false;
                        ppc := ppc s; cpc := CGotten; signalled := signalled s; waited := waited s;
                        tokens := tokens s; taken := Some (rd s); cbs := cbs s; gots := gots s;
                        readys := readys s; frees := S (frees s) |}
              else None
          | _ =>
              match v with
              | WE => Some (upd_cpc C1 s)
              | WR => Some (add_token C (upd_cpc CInline s))
              | WC => None
              end
          end
      | CInline =>
          match kd s, v with
          | KConnect, WR => Some (upd_cpc CInlineT s)
          | _, WR => do_free C s
          | _, _ => None
          end
      | CInlineT | CAttached =>
          match v with WR => do_free C s | _ => None end
      | _ => None
      end
  | ECas ok =>
      match cpc s with
      | C1 =>
          match w s with
          | WE => if ok then Some (upd_cpc CAttached (upd_w WC false s)) else None
          | WR => if ok then None else Some (add_token C (upd_cpc CInline s))
          | WC => None
          end
      | CTW1 =>
          match w s with
          | WE => if ok then Some (upd_cpc CTWaiting (upd_w WC true s)) else None
          | WR => if ok then None else Some (upd_cpc (CTRet true) s)
          | WC => None
          end
      | CReset1 =>
          match w s with
          | WC => if ok then Some (upd_cpc (CTRet false) (upd_w WE false s)) else None
          | WR => if ok then None else Some (upd_cpc CTWaitingU s)
          | WE => None
          end
      | CW1 =>
          match w s with
          | WE => if ok then Some (upd_cpc CWaiting (upd_w WC true s)) else None
          | WR => if ok then None else
                    Some {| kd := kd s; w := w s; is_event := is_event s; slot := slot s; alive := alive s;
                            ppc := ppc s; cpc := C0; signalled := signalled s; waited := true;
                            tokens := tokens s; taken := taken s; cbs := cbs s; gots := gots s;
                            readys := readys s; frees := frees s |}
          | WC => None
          end
      | _ => None
      end
  | EGot =>
      match cpc s with
      | CPeekHit =>
          Some {| kd := kd s; w := w s; is_event := is_event s; slot := slot s; alive := alive s; ppc := ppc s;
                  cpc := C0; signalled := signalled s; waited := waited s; tokens := tokens s;
                  taken := taken s; cbs := cbs s; gots := gots s ++ [rd s];
                  readys := readys s; frees := frees s |}
      | CGotten =>
          Some {| kd := kd s; w := w s; is_event := is_event s; slot := slot s; alive := alive s; ppc := ppc s;
                  cpc := CDone; signalled := signalled s; waited := waited s; tokens := tokens s;
                  taken := taken s; cbs := cbs s;
                  gots := gots s ++ [match taken s with Some v => v | None => None end];
                  readys := readys s; frees := frees s |}
      | _ => None
      end
  | _ => None
  end.

Definition step (s : st) (e : ev) : option st :=
  match e with
  | ESet r =>
      match ppc s with
      | 0 => Some {| kd := kd s; w := w s; is_event := is_event s; slot := Some r; alive := alive s; ppc := 1;
                     cpc := cpc s; signalled := signalled s; waited := waited s; tokens := tokens s;
                     taken := taken s; cbs := cbs s; gots := gots s; readys := readys s; frees := frees s |}
      | _ => None
      end
  | EXchg old =>
      match ppc s with
      | 1 => if word_eqb old (w s) then
               let s' := {| kd := kd s; w := WR; is_event := false; slot := slot s; alive := alive s; ppc := 2;
                            cpc := cpc s; signalled := signalled s || (word_eqb old WC && is_event s);
                            waited := waited s; tokens := tokens s; taken := taken s; cbs := cbs s;
                            gots := gots s; readys := readys s; frees := frees s |} in
               match old with
               | WC => if is_event s then Some s' else Some (add_token P s')
               | WE => Some s'
               | WR => None                        (* YACLIB_ASSERT(expected != kResult) *)
               end
             else None
      | _ => None
      end
  | ELd P v =>
      if negb (word_eqb v (w s)) then None else
      match v with WR => do_free P s | _ => None end
  | ECb t =>
      match kd s with
      | KAttach | KConnect =>
          if holds_token s t && Nat.eqb (length (cbs s)) 0 then
            let v := match taken s with Some v => v | None => rd s end in
            Some {| kd := kd s; w := w s; is_event := is_event s; slot := slot s; alive := alive s; ppc := ppc s;
                    cpc := cpc s; signalled := signalled s; waited := waited s; tokens := tokens s;
                    taken := Some v; cbs := cbs s ++ [v]; gots := gots s;
                    readys := readys s; frees := frees s |}
          else None
      | _ => None
      end
  | ELd C v =>
      (* a timed waiter may be woken by its deadline even though the signal has already been given:
         its next operation is then ResetImpl's load, which sees Result *)
      match cpc s with
      | CTWaiting => step_c s e
      | _ => step_c (wake s) e
      end
  | _ => step_c (wake s) e
  end.

Fixpoint run (s : st) (tr : list ev) : option st :=
  match tr with
  | [] => Some s
  | e :: r => match step s e with Some s' => run s' r | None => None end
  end.

(* Both parties have finished: the producer exchanged, the consumer completed its final action, the
   continuation (if any) ran and the state is released. *)
Definition terminal (s : st) : bool :=
  Nat.eqb (ppc s) 2 && negb (alive s) &&
  match kd s with
  | KAttach => (match cpc s with CAttached | CInline => true | _ => false end) && Nat.eqb (length (cbs s)) 1
  | KConnect => (match cpc s with CAttached | CInlineT => true | _ => false end) && Nat.eqb (length (cbs s)) 1
  | KSilent => (match cpc s with CAttached | CInline => true | _ => false end)
  | KGet => (match cpc s with CDone => true | _ => false end)
  end.

(* what the checker prints for a replayed implementation trace *)
Definition observe (s : st) :=
  (cbs s, gots s, readys s, frees s, terminal s).
