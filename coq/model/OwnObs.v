(* Outcome of replaying an implementation trace through Own.run, as numbers for the checker:
   [0; i] rejected at event i; otherwise [1; terminal; errs; freed; fn_dtors; built; |calls|; calls...]. *)
From Coq Require Import List Arith Bool.
Import ListNotations.
From YV Require Import model.Own.

Fixpoint run_at (s : st) (tr : list ev) (i : nat) : nat + st :=
  match tr with
  | [] => inr s
  | e :: r => match step s e with Some s' => run_at s' r (S i) | None => inl i end
  end.

Definition obs_nat (sf : bool) (tr : list ev) : list nat :=
  match run_at (init sf) tr 0 with
  | inl i => [0; i]
  | inr s => [1; b2n (terminal s); errs s; freed s; fn_dtors s; built s; length (calls s)] ++ calls s
  end.
