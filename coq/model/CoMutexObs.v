(* Encoding of the outcome of replaying an implementation trace through CoMutex.run, as a list of numbers that the
   checker reads back.  [0; i] : the model rejects event i.  Otherwise
     [1; quiescent; sender is NotLocked; |receiver|; tokens; every coroutine is PDone; number inside;
      |entered|; (c, queued)...; |tries|; (c, answer)...; |pushed|; c...; |handed|; c...; |grants|] *)
From Coq Require Import List Arith Bool.
Import ListNotations.
From YV Require Import model.CoMutex.

Fixpoint run_at (s : st) (tr : list ev) (i : nat) : nat + st :=
  match tr with
  | [] => inr s
  | e :: r => match step s e with Some s' => run_at s' r (S i) | None => inl i end
  end.

Definition encb (b : bool) : nat := if b then 1 else 0.
Definition encp (l : list (nat * bool)) : list nat := flat_map (fun p => [fst p; encb (snd p)]) l.
Definition is_done (x : co) : bool := match pc x with PDone => true | _ => false end.

Definition obs_nat (fifo_ batching_ : bool) (workers homes : list nat) (tr : list ev) : list nat :=
  match run_at (init fifo_ batching_ workers homes) tr 0 with
  | inl i => [0; i]
  | inr s =>
      [1; encb (quiescent s); encb (is_free (sender s)); length (receiver s); tokens s;
       encb (forallb is_done (cos s)); sumf inside (cos s)] ++
      [length (entered s)] ++ encp (entered s) ++ [length (tries s)] ++ encp (tries s) ++
      [length (pushed s)] ++ pushed s ++ [length (handed s)] ++ handed s ++ [length (grants s)]
  end.
