(* Encoding of the outcome of replaying an implementation trace through Shared.run, as a list of numbers that the
   checker reads back.  [0; i] : rejected at event i.  Otherwise
     [1; terminal; frees; under; uaf; refs; nfail;
      |gots|; gots...; |iruns|; iruns...; |readys|; readys...; |cs|; (|cv c|; cv c ...) for every callback c]
   with Some n -> n+1, None -> 0 and a readiness observation (answer, readable) -> 2*answer + readable. *)
From Coq Require Import List Arith Bool.
Import ListNotations.
From YV Require Import gen.Gen_ready model.Shared.

Fixpoint run_at (rr : bool) (s : st) (tr : list ev) (i : nat) : nat + st :=
  match tr with
  | [] => inr s
  | e :: r => match step_g rr s e with Some s' => run_at rr s' r (S i) | None => inl i end
  end.

Definition enc (o : option nat) : nat := match o with Some n => S n | None => 0 end.
Definition encb (b : bool) : nat := if b then 1 else 0.

Definition obs_of (r : nat + st) : list nat :=
  match r with
  | inl i => [0; i]
  | inr s =>
      [1; encb (terminal s); frees s; under s; uaf s; refs s; nfail s] ++
      [length (gots s)] ++ map enc (gots s) ++
      [length (iruns s)] ++ map enc (iruns s) ++
      [length (readys s)] ++ map (fun p => 2 * encb (fst p) + encb (snd p)) (readys s) ++
      [length (cs s)] ++ flat_map (fun e => length (cv e) :: map enc (cv e)) (cs s)
  end.

(* the tree under check: the readiness rule read from its source *)
Definition obs_nat (with_future : bool) (tr : list ev) : list nat :=
  obs_of (run_at ready_is_result (init with_future) tr 0).
(* an explicitly chosen rule (used to show what the rule before the fix allows) *)
Definition obs_nat_g (rr : bool) (with_future : bool) (tr : list ev) : list nat :=
  obs_of (run_at rr (init with_future) tr 0).
