(* StrandStack.v — a strand over a strand: MakeStrand(MakeStrand(e)).

   The outer strand's underlying executor is the inner strand: _executor->Submit(strand) of the outer strand is
   Strand::Submit of the inner strand with the outer strand object as the job (a "proxy" job of the inner strand); the
   inner strand Calls that job inside one of its batches — that Call is the outer strand's Strand::Call — or Drops it —
   the outer strand's Strand::Drop.  The two jobs words are distinct atomic objects; the levels are coupled only through
   these four calls, which are the synchronised events below:

     SubmitOuter t ti ni     outer ESubmit t      =  inner EPush ti ni   (the pushing CAS of inner's Submit, executed by
     ResubmitOuter ti ni     outer EResubmit      =  inner EPush ti ni    thread ti of the inner level)
     CallOuter j             outer EStartCall     =  inner ERunBegin j   (j a proxy)
     DropOuter j             outer EStartDrop     =  inner EDropJob j    (j a proxy)

   Every other event belongs to one level ([Inner e] / [Outer e]); the inner strand may have other clients as well.
   (The end of the inner job, [Inner (ERunEnd j)], is not forced to wait for the outer activation to return: the model
   allows more interleavings than the code, never fewer.)  No proofs in this file. *)
From Coq Require Import List Arith Bool.
Import ListNotations.
From YV Require Import model.Strand.

Record st2 := {
  inner : st;
  outer : st;
  prox : list job      (* ghost: the inner jobs that carry the outer strand *)
}.

Inductive ev2 :=
| Inner (e : ev)
| Outer (e : ev)
| SubmitOuter (t ti ni : nat)
| ResubmitOuter (ti ni : nat)
| CallOuter (j : job)
| DropOuter (j : job).

(* events of the outer level that are calls into / from its underlying executor *)
Definition is_sync (e : ev) : bool :=
  match e with ESubmit _ | EResubmit | EStartCall | EStartDrop => true | _ => false end.
(* inner events that start or drop a job: for a proxy they are the synchronised events *)
Definition touches_proxy (pr : list job) (e : ev) : bool :=
  match e with ERunBegin j | EDropJob j => memb j pr | _ => false end.

Definition both (si so : option st) (pr : list job) : option st2 :=
  match si, so with Some a, Some b => Some {| inner := a; outer := b; prox := pr |} | _, _ => None end.

Definition step2 (p : st2) (e : ev2) : option st2 :=
  match e with
  | Inner e => if touches_proxy (prox p) e then None else both (step (inner p) e) (Some (outer p)) (prox p)
  | Outer e => if is_sync e then None else both (Some (inner p)) (step (outer p) e) (prox p)
  | SubmitOuter t ti ni =>
      both (step (inner p) (EPush ti ni)) (step (outer p) (ESubmit t)) (prox p ++ [(ti, ni)])
  | ResubmitOuter ti ni =>
      both (step (inner p) (EPush ti ni)) (step (outer p) EResubmit) (prox p ++ [(ti, ni)])
  | CallOuter j =>
      if memb j (prox p) then both (step (inner p) (ERunBegin j)) (step (outer p) EStartCall) (prox p) else None
  | DropOuter j =>
      if memb j (prox p) then both (step (inner p) (EDropJob j)) (step (outer p) EStartDrop) (prox p) else None
  end.

Definition init2 (n_inner n_outer : nat) : st2 := {| inner := init n_inner; outer := init n_outer; prox := [] |}.

Fixpoint run2 (p : st2) (tr : list ev2) : option st2 :=
  match tr with [] => Some p | e :: r => match step2 p e with Some p' => run2 p' r | None => None end end.

(* what each level sees of a two-level run *)
Definition proj_inner (e : ev2) : list ev :=
  match e with
  | Inner e => [e] | Outer _ => []
  | SubmitOuter _ ti ni | ResubmitOuter ti ni => [EPush ti ni]
  | CallOuter j => [ERunBegin j] | DropOuter j => [EDropJob j]
  end.
Definition proj_outer (e : ev2) : list ev :=
  match e with
  | Inner _ => [] | Outer e => [e]
  | SubmitOuter t _ _ => [ESubmit t] | ResubmitOuter _ _ => [EResubmit]
  | CallOuter _ => [EStartCall] | DropOuter _ => [EStartDrop]
  end.

(* jobs of a strand that were pushed and neither started nor dropped yet *)
Definition pendm (s : st) : list job :=
  inbox (jobs s) ++ flat_map (fun a => match a with ARunBatch t | ARunning _ t | ADropBatch t => t | _ => [] end) (acts s).
Definition count_job (j : job) (l : list job) : nat := sumf (fun x => if job_eqb x j then 1 else 0) l.
(* how many times the outer strand object is inside the inner strand *)
Definition proxies_pending (p : st2) : nat := sumf (fun j => count_job j (pendm (inner p))) (prox p).

(* the whole stack has come to rest: the inner strand is quiescent, nobody is inside the outer strand's Submit, and no
   outer activation is running (the only outer activations allowed are pending ones — and then there are none) *)
Definition is_pendingb (a : act) : bool := match a with APending => true | _ => false end.
Definition quiescent2 (p : st2) : bool :=
  quiescent (inner p) && forallb sub_idle (subs (outer p)) && forallb is_pendingb (acts (outer p)).

(* for the checker *)
Fixpoint run2_at (p : st2) (tr : list ev2) (i : nat) : nat + st2 :=
  match tr with
  | [] => inr p
  | e :: r => match step2 p e with Some p' => run2_at p' r (S i) | None => inl i end
  end.
Definition obs2_nat (n1 n2 : nat) (tr : list ev2) : list nat :=
  match run2_at (init2 n1 n2) tr 0 with
  | inl i => [0; i]
  | inr p => [1; (if quiescent2 p then 1 else 0); (if quiescent (outer p) then 1 else 0); proxies_pending p;
              length (prox p); length (called (outer p)); length (dropped (outer p))]
  end.
