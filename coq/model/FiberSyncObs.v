(* Encoding of the outcome of replaying an implementation trace through the FiberSync machines, as a list of
   numbers that checks/c18.py reads back.
     [0; i]                                rejected at event i
     [1; ub; two; n; k1;f1;r1;t1; ...]     accepted: ub = the sleep-map lookup dereferenced end(); two = at some
                                           point two clients held the lock incompatibly; then the n results in
                                           completion order as (kind, fiber, result, time) *)
From Coq Require Import List Arith Bool.
Import ListNotations.
From YV Require Import model.FiberSync.

Definition encb (b : bool) : nat := if b then 1 else 0.

Section Generic.
  Context {S E : Type}.
  Variable step : S -> E -> option S.
  Variable bad : S -> bool.
  (* replay; remember whether a state with incompatible holders was seen *)
  Fixpoint run_at (s : S) (tr : list E) (i : nat) (seen : bool) : nat + (S * bool) :=
    match tr with
    | [] => inr (s, seen || bad s)
    | e :: r => match step s e with Some s' => run_at s' r (Datatypes.S i) (seen || bad s) | None => inl i end
    end.
End Generic.

(* ---- Mx *)
Definition mx_res (r : Mx.res) : list nat :=
  match r with
  | Mx.RLock f => [1; f; 1; 0]
  | Mx.RUnlock f => [2; f; 1; 0]
  | Mx.RTry f ok _ => [3; f; encb ok; 0]
  | Mx.RTimed f ok _ t => [4; f; encb ok; t]
  | Mx.RCv f n _ t => [5; f; encb n; t]
  | Mx.RSleep f _ t => [6; f; 1; t]
  | Mx.RNotify f _ _ => [7; f; 1; 0]
  end.
Definition mx_bad (s : Mx.st) : bool := Nat.ltb 1 (length (Mx.holders s)).
Definition mx_obs (v : variant) (tr : list Mx.ev) : list nat :=
  match run_at (Mx.step v) mx_bad Mx.init tr 0 false with
  | inl i => [0; i]
  | inr (s, two) =>
      [1; encb (ub (Mx.sm s)); encb two; length (Mx.log s)] ++ flat_map mx_res (rev (Mx.log s))
  end.

(* ---- Rc *)
Definition rc_res (r : Rc.res) : list nat :=
  match r with
  | Rc.RLock f => [1; f; 1; 0]
  | Rc.RUnlock f => [2; f; 1; 0]
  | Rc.RTry f ok _ => [3; f; encb ok; 0]
  | Rc.RTimed f ok _ t => [4; f; encb ok; t]
  end.
Definition rc_bad (s : Rc.st) : bool :=
  match Rc.holders s with [] => false | h :: r => Rc.others h r end.
Definition rc_obs (v : variant) (tr : list Rc.ev) : list nat :=
  match run_at (Rc.step v) rc_bad Rc.init tr 0 false with
  | inl i => [0; i]
  | inr (s, two) =>
      [1; encb (ub (Rc.sm s)); encb two; length (Rc.log s)] ++ flat_map rc_res (rev (Rc.log s))
  end.

(* ---- Sh: kinds 1/2/3/4 exclusive, 11/12/13/14 shared *)
Definition sh_kind (k : nat) (x : bool) : nat := if x then k else 10 + k.
Definition sh_res (r : Sh.res) : list nat :=
  match r with
  | Sh.RLock f x => [sh_kind 1 x; f; 1; 0]
  | Sh.RUnlock f x => [sh_kind 2 x; f; 1; 0]
  | Sh.RTry f x ok _ => [sh_kind 3 x; f; encb ok; 0]
  | Sh.RTimed f x ok _ t => [sh_kind 4 x; f; encb ok; t]
  end.
Definition sh_bad (s : Sh.st) : bool :=
  Nat.ltb 1 (length (Sh.xh s)) || (nonempty (Sh.xh s) && nonempty (Sh.sh s)).
Definition sh_obs (v : variant) (tr : list Sh.ev) : list nat :=
  match run_at (Sh.step v) sh_bad Sh.init tr 0 false with
  | inl i => [0; i]
  | inr (s, two) =>
      [1; encb (ub (Sh.sm s)); encb two; length (Sh.log s)] ++ flat_map sh_res (rev (Sh.log s))
  end.

(* ---- Jn: [1; n; joiner; joined; finished; ...] *)
Definition jn_obs (root : fid) (tr : list Jn.ev) : list nat :=
  match run_at Jn.step (fun _ => false) (Jn.init root) tr 0 false with
  | inl i => [0; i]
  | inr (s, _) =>
      [1; length (Jn.log s)] ++ flat_map (fun p => [fst (fst p); snd (fst p); encb (snd p)]) (rev (Jn.log s))
  end.

(* ---- Tl: [1; n; fiber; variable; value; ...] *)
Definition tl_obs (tr : list Tl.ev) : list nat :=
  let s := Tl.run Tl.init tr in
  [1; length (Tl.reads s)] ++ flat_map (fun p => [fst (fst p); snd (fst p); snd p]) (rev (Tl.reads s)).
