(* Encoding of the outcome of replaying an implementation trace through the FiberSync machines, as a list of
   numbers that checks/c18.py reads back.
     [0; i]                                rejected at event i
     [1; ub; two; n; k1;f1;r1;t1; ...]     accepted: ub = the sleep-map lookup dereferenced end(); two = at some
                                           point two clients held the lock incompatibly; then the n results in
                                           completion order as (kind, fiber, result, time) *)
From Coq Require Import List Arith Bool NArith.
Import ListNotations.
From YV Require Import model.FiberSync.

Definition encb (b : bool) : nat := if b then 1 else 0.

Section Generic.
  Context {S E : Type}.
  Variable step : S -> E -> option S.
  Variable bad : S -> bool.
  (* replay; remember whether a state with incompatible holders was seen *)
  Fixpoint run_at (s : S) (tr : list E) (i : nat) (seen : bool) : nat + (S * bool) :=
    match tr with
    | [] => inr (s, seen || bad s)
    | e :: r => match step s e with Some s' => run_at s' r (Datatypes.S i) (seen || bad s) | None => inl i end
    end.
End Generic.

(* ---- Mx *)
Definition mx_res (r : Mx.res) : list nat :=
  match r with
  | Mx.RLock f => [1; f; 1; 0]
  | Mx.RUnlock f => [2; f; 1; 0]
  | Mx.RTry f ok _ => [3; f; encb ok; 0]
  | Mx.RTimed f ok _ t => [4; f; encb ok; t]
  | Mx.RCv f n _ t => [5; f; encb n; t]
  | Mx.RSleep f _ t => [6; f; 1; t]
  | Mx.RNotify f _ _ => [7; f; 1; 0]
  end.
Definition mx_bad (s : Mx.st) : bool := Nat.ltb 1 (length (Mx.holders s)).
Definition mx_obs (v : variant) (tr : list Mx.ev) : list nat :=
  match run_at (Mx.step v) mx_bad Mx.init tr 0 false with
  | inl i => [0; i]
  | inr (s, two) =>
      [1; encb (ub (Mx.sm s)); encb two; length (Mx.log s)] ++ flat_map mx_res (rev (Mx.log s))
  end.

(* ---- Rc *)
Definition rc_res (r : Rc.res) : list nat :=
  match r with
  | Rc.RLock f => [1; f; 1; 0]
  | Rc.RUnlock f => [2; f; 1; 0]
  | Rc.RTry f ok _ => [3; f; encb ok; 0]
  | Rc.RTimed f ok _ t => [4; f; encb ok; t]
  end.
Definition rc_bad (s : Rc.st) : bool :=
  match Rc.holders s with [] => false | h :: r => Rc.others h r end.
Definition rc_obs (v : variant) (tr : list Rc.ev) : list nat :=
  match run_at (Rc.step v) rc_bad Rc.init tr 0 false with
  | inl i => [0; i]
  | inr (s, two) =>
      [1; encb (ub (Rc.sm s)); encb two; length (Rc.log s)] ++ flat_map rc_res (rev (Rc.log s))
  end.

(* ---- Sh: kinds 1/2/3/4 exclusive, 11/12/13/14 shared *)
Definition sh_kind (k : nat) (x : bool) : nat := if x then k else 10 + k.
Definition sh_res (r : Sh.res) : list nat :=
  match r with
  | Sh.RLock f x => [sh_kind 1 x; f; 1; 0]
  | Sh.RUnlock f x => [sh_kind 2 x; f; 1; 0]
  | Sh.RTry f x ok _ => [sh_kind 3 x; f; encb ok; 0]
  | Sh.RTimed f x ok _ t => [sh_kind 4 x; f; encb ok; t]
  end.
Definition sh_bad (s : Sh.st) : bool :=
  Nat.ltb 1 (length (Sh.xh s)) || (nonempty (Sh.xh s) && nonempty (Sh.sh s)).
Definition sh_obs (v : variant) (tr : list Sh.ev) : list nat :=
  match run_at (Sh.step v) sh_bad Sh.init tr 0 false with
  | inl i => [0; i]
  | inr (s, two) =>
      [1; encb (ub (Sh.sm s)); encb two; length (Sh.log s)] ++ flat_map sh_res (rev (Sh.log s))
  end.

(* ---- Jn: [1; n; joiner; joined; finished; ...] *)
Definition jn_obs (root : fid) (tr : list Jn.ev) : list nat :=
  match run_at Jn.step (fun _ => false) (Jn.init root) tr 0 false with
  | inl i => [0; i]
  | inr (s, _) =>
      [1; length (Jn.log s)] ++ flat_map (fun p => [fst (fst p); snd (fst p); encb (snd p)]) (rev (Jn.log s))
  end.

(* ---- Tl: [1; n; fiber; variable; value; ...] *)
Definition tl_obs (tr : list Tl.ev) : list nat :=
  let s := Tl.run Tl.init tr in
  [1; length (Tl.reads s)] ++ flat_map (fun p => [fst (fst p); snd (fst p); snd p]) (rev (Tl.reads s)).

(* ------------------------------------------------------------------------------------------------------------
   Bulk replay.  The explorer's executions of one scenario share long prefixes, so the checker sends them as a
   prefix tree of compactly encoded events (numbers in binary) and gets back one outcome per leaf, in order. *)
Inductive cev := R (f t : N) | O (f c a b : N).
Inductive trie := Leaf | Seq (e : cev) (t : trie) | Alt (a b : trie).

Fixpoint leaves (t : trie) : nat :=
  match t with Leaf => 1 | Seq _ k => leaves k | Alt a b => leaves a + leaves b end.

Section Trie.
  Context {S E : Type}.
  Variable step : S -> E -> option S.
  Variable bad : S -> bool.
  Variable dec : cev -> option E.
  Variable fin : S -> bool -> list nat.
  Fixpoint run_trie (s : S) (seen : bool) (i : nat) (t : trie) : list (list nat) :=
    match t with
    | Leaf => [fin s (seen || bad s)]
    | Seq c k =>
        match dec c with
        | Some e =>
            match step s e with
            | Some s' => run_trie s' (seen || bad s) (Datatypes.S i) k
            | None => repeat [0; i] (leaves k)
            end
        | None => repeat [0; i] (leaves k)
        end
    | Alt a b => run_trie s seen i a ++ run_trie s seen i b
    end.
End Trie.

Definition n (x : N) : nat := N.to_nat x.

Definition mx_dec (c : cev) : option Mx.ev :=
  match c with
  | R f t => Some (Mx.ERun (n f) (n t))
  | O f c a b =>
      option_map (Mx.EOp (n f))
        match n c with
        | 1 => Some Mx.OLock | 2 => Some Mx.OTry | 3 => Some (Mx.OUnlock (n a))
        | 4 => Some (Mx.OTimed (Dur (n a))) | 5 => Some (Mx.OTimed (Abs (n a)))
        | 6 => Some (Mx.OCvWait None (n b)) | 7 => Some (Mx.OCvWait (Some (Dur (n a))) (n b))
        | 8 => Some (Mx.OCvWait (Some (Abs (n a))) (n b))
        | 9 => Some (Mx.ONotifyOne (n a)) | 10 => Some Mx.ONotifyAll | 11 => Some (Mx.OSleep (n a))
        | _ => None
        end
  end.
Definition mx_fin (s : Mx.st) (two : bool) : list nat :=
  [1; encb (ub (Mx.sm s)); encb two; length (Mx.log s)] ++ flat_map mx_res (rev (Mx.log s)).
Definition mx_trie (v : variant) (t : trie) : list (list nat) :=
  run_trie (Mx.step v) mx_bad mx_dec mx_fin Mx.init false 0 t.

Definition rc_dec (c : cev) : option Rc.ev :=
  match c with
  | R f t => Some (Rc.ERun (n f) (n t))
  | O f c a b =>
      option_map (Rc.EOp (n f))
        match n c with
        | 1 => Some Rc.OLock | 2 => Some Rc.OTry | 3 => Some (Rc.OUnlock (n a))
        | 4 => Some (Rc.OTimed (Dur (n a))) | 5 => Some (Rc.OTimed (Abs (n a)))
        | _ => None
        end
  end.
Definition rc_fin (s : Rc.st) (two : bool) : list nat :=
  [1; encb (ub (Rc.sm s)); encb two; length (Rc.log s)] ++ flat_map rc_res (rev (Rc.log s)).
Definition rc_trie (v : variant) (t : trie) : list (list nat) :=
  run_trie (Rc.step v) rc_bad rc_dec rc_fin Rc.init false 0 t.

Definition sh_dec (c : cev) : option Sh.ev :=
  match c with
  | R f t => Some (Sh.ERun (n f) (n t))
  | O f c a b =>
      option_map (Sh.EOp (n f))
        match n c with
        | 1 => Some Sh.OLockX | 2 => Some Sh.OTryX | 3 => Some (Sh.OUnlockX (Nat.eqb (n b) 0) (n a))
        | 4 => Some (Sh.OTimedX (Dur (n a))) | 5 => Some (Sh.OTimedX (Abs (n a)))
        | 11 => Some Sh.OLockS | 12 => Some Sh.OTryS | 13 => Some (Sh.OUnlockS (n a))
        | 14 => Some (Sh.OTimedS (Dur (n a))) | 15 => Some (Sh.OTimedS (Abs (n a)))
        | _ => None
        end
  end.
Definition sh_fin (s : Sh.st) (two : bool) : list nat :=
  [1; encb (ub (Sh.sm s)); encb two; length (Sh.log s)] ++ flat_map sh_res (rev (Sh.log s)).
Definition sh_trie (v : variant) (t : trie) : list (list nat) :=
  run_trie (Sh.step v) sh_bad sh_dec sh_fin Sh.init false 0 t.

(* O f c a _ : 1 spawn f->a, 2 exit f, 3 f joins a, 4 f resumed inside join, 5 f detaches a *)
Definition jn_dec (c : cev) : option Jn.ev :=
  match c with
  | R _ _ => None
  | O f c a b =>
      match n c with
      | 1 => Some (Jn.ESpawn (n f) (n a)) | 2 => Some (Jn.EExit (n f)) | 3 => Some (Jn.EJoin (n f) (n a))
      | 4 => Some (Jn.ERun (n f)) | 5 => Some (Jn.EDetach (n f) (n a))
      | _ => None
      end
  end.
Definition jn_fin (s : Jn.st) (_ : bool) : list nat :=
  [1; length (Jn.log s)] ++ flat_map (fun p => [fst (fst p); snd (fst p); encb (snd p)]) (rev (Jn.log s)).
Definition jn_trie (t : trie) : list (list nat) :=
  run_trie Jn.step (fun _ => false) jn_dec jn_fin (Jn.init 0) false 0 t.

(* O f c a b : 1 fiber f stores b into variable a (b = 0: nullptr), 2 fiber f reads variable a,
   3 the initialiser of variable a is b (SetDefault) *)
Definition tl_dec (c : cev) : option Tl.ev :=
  match c with
  | R _ _ => None
  | O f c a b =>
      match n c with
      | 1 => Some (Tl.ESet (n f) (n a) (n b)) | 2 => Some (Tl.EGet (n f) (n a))
      | 3 => Some (Tl.EDefault (n a) (n b))
      | _ => None
      end
  end.
Definition tl_fin (s : Tl.st) (_ : bool) : list nat :=
  [1; length (Tl.reads s)] ++ flat_map (fun p => [fst (fst p); snd (fst p); snd p]) (rev (Tl.reads s)).
Definition tl_trie (t : trie) : list (list nat) :=
  run_trie (fun s e => Some (Tl.step s e)) (fun _ => false) tl_dec tl_fin Tl.init false 0 t.
