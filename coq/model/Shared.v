(* Shared.v — the shared state behind SharedFuture / SharedPromise (detail::SharedCore) as a transition system at the
   granularity of one atomic operation, for ONE fulfilling thread and ANY NUMBER of SharedFuture copies ("handles"),
   each used by one thread at a time, created and destroyed while everything else runs.

   Source being modelled
     include/yaclib/algo/detail/shared_core.hpp   kSharedRefWithFuture / kSharedRefNoFuture, SetCallback, SetInline
     src/algo/base_core.cpp                       SetCallbackImpl<true>  : next = load; do { if (next == kResult) return false;
                                                                             callback.next = next; } while (!CAS_weak(next, &callback))
                                                  SetResultImpl<.,true>  : old = exchange(kResult); walk the list firing every
                                                                             callback, DecRef before the last one, then DecRef x2
                                                  SetInlineImpl<.,true>  : failed attach -> the callback runs on the caller's thread
     include/yaclib/algo/detail/base_core.hpp     Empty()  (the readiness rule; read from the source: gen/Gen_ready.v)
     include/yaclib/algo/detail/result_core.hpp   Impl<.,Shared> : ref = caller.GetRef(); ref >= 3 copy, else move, ref == 1 DecRef
     include/yaclib/algo/detail/core.hpp          Core::Impl for FromShared: const read; Call-type cores IncRef before Submit,
                                                  DecRef in Done after the user function ran
     include/yaclib/async/shared_future.hpp       Ready, Touch const&/&&, Get const&/&& (Wait, then GetRef()==1 ? move : copy),
                                                  ThenInline/Then/Subscribe*, copy (IncRef), destruction (DecRef)
     include/yaclib/async/shared_promise.hpp      Set: Store; SetResult
     include/yaclib/async/{connect,share,split}.hpp   Connect(shared, Promise / SharedPromise), Share, Split
     include/yaclib/async/detail/wait_impl.hpp    Wait on a SharedHandle: the event is attached like any other callback
     include/yaclib/coro/detail/await_awaiter.hpp AwaitSingleAwaiter<true>: holds a copy; await_ready = !Empty(); await_suspend =
                                                  SetCallback; await_resume reads through const&
     include/yaclib/util/detail/atomic_counter.hpp  the reference counter (fetch_add / fetch_sub / load)

   Events are what the tracer sees on the real code (atomic operations on the callback word and on the reference
   counter, with the value observed) plus harness-level markers and observations.  No proofs in this file. *)
From Coq Require Import List Arith Bool.
Import ListNotations.
From YV Require Import gen.Gen_ready gen.Gen_shared_consts.

(* ---- the pieces of state ------------------------------------------------------------------------- *)

(* BaseCore::_callback: kEmpty (= WStack []), head of the intrusive list of registered callbacks (callback ids, head
   first: the most recently pushed), or kResult *)
Inductive word := WStack (l : list nat) | WRes.
(* what a load of the word shows to the tracer *)
Inductive wobs := OE | OL | OR.
(* ResultCore::_result (a union member: unconstructed until Store) *)
Inductive slot_t := Unset | SetV (r : nat) | Moved.

Inductive kind :=
| KInl      (* ThenInline / SubscribeInline / a coroutine's await_suspend: reads through const& when fired *)
| KCall     (* Then(e) / Subscribe(e): IncRef, Submit; the job reads through const& and DecRefs in Done *)
| KConn     (* Connect(shared, Promise|SharedPromise) / Share: the downstream core is the callback; ResultCore::Impl *)
| KEvent.   (* the event of Wait / Get *)

(* what Wait is followed by *)
Inductive wk := W0 | WRead | WRc.
Inductive purpose := PCb (k : kind) | PWait (kont : wk).

Inductive cstate :=
| CQueued                      (* in the list *)
| CFireF                       (* the fulfiller is inside its Here() *)
| CConn (mv dec : bool)        (* KConn: the counter has been read: move?, DecRef afterwards? *)
| CHeld                        (* KCall: holds a reference, submitted, not yet run *)
| CRan                         (* KCall: the user function ran, the reference is still held *)
| CDone.

Record cb := { ck : kind; cinl : bool (* created by a failed attach *); cst : cstate;
               cv : list (option nat) (* what each invocation saw *) }.

Inductive hpc :=
| H0                                       (* idle, owns a reference *)
| HRc                                      (* Get&& / Touch&&: the load of the counter is next *)
| HRead                                    (* the read through const& is next *)
| HOut (mv : bool)                         (* the copy (false) or move (true) out of the slot is next *)
| HAtt (p : purpose) (next : list nat)     (* inside the push loop with the local `next` *)
| HSleep (c : nat) (kont : wk)             (* Wait: asleep until event c is fired *)
| HInl (k : kind)                          (* attach failed: the callback runs here *)
| HConnR                                   (* Connect's failed attach, after Touch()'s assertion: the copy is next *)
| HSpent                                   (* Get&& / Touch&& done: only destruction may follow *)
| HDead.

Inductive fpc_t :=
| F0                                       (* promise valid, nothing stored *)
| F1                                       (* Store done *)
| FWalk (c : nat) (rest : list nat)        (* firing c, rest (non-empty) still to go *)
| FLastDec (c : option nat)                (* the DecRef that precedes the last callback (or the empty-list DecRef) *)
| FLast (c : nat)                          (* firing the last callback *)
| FD2 | FD1                                (* the two final DecRefs *)
| FDone.

Record st := {
  w : word; slot : slot_t; val : option nat; refs : nat; fpc : fpc_t;
  hs : list hpc; cs : list cb;
  alive : bool; dying : bool; frees : nat; under : nat; uaf : nat;
  gots : list (option nat);        (* value of every Get / Touch / await_resume *)
  iruns : list (option nat);       (* value seen by every callback run inline after a failed attach *)
  nfail : nat;                     (* failed attaches of continuations (not of Wait events) *)
  readys : list (bool * bool)      (* every Ready()/await_ready(): (answer, the value could be read at that moment) *)
}.

Definition init (with_future : bool) : st :=
  {| w := WStack []; slot := Unset; val := None;
     refs := if with_future then kSharedRefWithFuture else kSharedRefNoFuture;   (* MakeSharedContract / MakeSharedPromise *)
     fpc := F0; hs := if with_future then [H0] else []; cs := [];
     alive := true; dying := false; frees := 0; under := 0; uaf := 0;
     gots := []; iruns := []; nfail := 0; readys := [] |}.

Inductive ev :=
(* fulfilling thread *)
| ESet (r : nat)               (* Store *)
| EXchg                        (* exchange(kResult) *)
| EDecF                        (* a DecRef of SetResultImpl *)
| ECopyP                       (* Split(promise): a SharedFuture made from the promise's core *)
| EFRun                        (* the callback being fired reads (KInl) / copies or moves (KConn) *)
| EFInc                        (* the callback being fired (KCall) IncRefs and is submitted *)
| EFRc (n : nat)               (* the callback being fired (KConn) loaded the counter: n *)
(* a job submitted by a KCall callback, on whatever thread the executor runs it *)
| ECb (c : nat)                (* the user function runs *)
| ECbDec (c : nat)             (* Done: DecRef *)
(* handle h *)
| EReady (h : nat) (v : wobs)               (* Ready(): one load *)
| EAwaitL (h : nat) (v : wobs)              (* await_ready(): one load; await_resume follows if it answered true *)
| ETouchL (h : nat) (mv : bool) (v : wobs)  (* Touch(): the load of YACLIB_ASSERT(Ready()) *)
| ERcH (h : nat) (n : nat)                  (* GetRef() *)
| EGot (h : nat)                            (* the value is read / copied / moved out *)
| EAttL (h : nat) (p : purpose) (v : wobs)  (* SetCallbackImpl<true>: the load before the loop *)
| ELdA (h : nat) (v : wobs)                 (* a spurious weak-CAS failure: expected is reloaded *)
| ECas (h : nat) (ok : bool)                (* compare_exchange_weak(next -> callback) *)
| ECbInl (h : nat)                          (* the callback of a failed attach reads (KInl) / copies (Connect) *)
| EIncInl (h : nat)                         (* the callback of a failed attach (KCall) IncRefs and is submitted *)
| EConnL (h : nat) (v : wobs)               (* Connect's failed attach: Touch()'s assertion load *)
| ECopy (h : nat)                           (* copy construction: IncRef *)
| EDestroy (h : nat)                        (* destruction / Detach(): DecRef *)
(* whoever dropped the last reference: ~ResultCore reloads the word (YACLIB_ASSERT(_callback == kResult)) *)
| EDtor.

(* ---- helpers -------------------------------------------------------------------------------------- *)

Fixpoint upd {A} (l : list A) (i : nat) (x : A) : list A :=
  match l, i with
  | [], _ => []
  | _ :: t, 0 => x :: t
  | a :: t, S j => a :: upd t j x
  end.

Fixpoint list_eqb (a b : list nat) : bool :=
  match a, b with
  | [], [] => true
  | x :: a', y :: b' => Nat.eqb x y && list_eqb a' b'
  | _, _ => false
  end.

Definition obs_ok (v : wobs) (x : word) : bool :=
  match v, x with
  | OE, WStack [] => true
  | OL, WStack (_ :: _) => true
  | OR, WRes => true
  | _, _ => false
  end.

(* SharedFutureBase::Ready() = !core->Empty(); [rr] is the rule found in the source (Gen_ready.ready_is_result):
   true: Empty() = (word != kResult); false (the rule before commit a483768): Empty() = (word == kEmpty) *)
Definition ready_of (rr : bool) (x : word) : bool :=
  if rr then match x with WRes => true | _ => false end
  else match x with WStack [] => false | _ => true end.

Definition set_cst (l : list cb) (c : nat) (x : cstate) : list cb :=
  match nth_error l c with
  | Some e => upd l c {| ck := ck e; cinl := cinl e; cst := x; cv := cv e |}
  | None => l
  end.

Definition add_cv (l : list cb) (c : nat) (x : cstate) (v : option nat) : list cb :=
  match nth_error l c with
  | Some e => upd l c {| ck := ck e; cinl := cinl e; cst := x; cv := cv e ++ [v] |}
  | None => l
  end.

Definition kind_at (l : list cb) (c : nat) : option kind :=
  match nth_error l c with Some e => Some (ck e) | None => None end.

Definition is_event (l : list cb) (c : nat) : bool :=
  match kind_at l c with Some KEvent => true | _ => false end.

(* a read of the slot: garbage (None) unless a constructed, not moved-from value in a live state *)
Definition rd (s : st) : option nat :=
  if alive s then match slot s with SetV r => Some r | _ => None end else None.

Definition is_some (o : option nat) : bool := match o with Some _ => true | None => false end.

(* record setters *)
Definition set_w x s := {| w := x; slot := slot s; val := val s; refs := refs s; fpc := fpc s; hs := hs s; cs := cs s;
  alive := alive s; dying := dying s; frees := frees s; under := under s; uaf := uaf s; gots := gots s;
  iruns := iruns s; nfail := nfail s; readys := readys s |}.
Definition set_slot x s := {| w := w s; slot := x; val := val s; refs := refs s; fpc := fpc s; hs := hs s; cs := cs s;
  alive := alive s; dying := dying s; frees := frees s; under := under s; uaf := uaf s; gots := gots s;
  iruns := iruns s; nfail := nfail s; readys := readys s |}.
Definition set_val x s := {| w := w s; slot := slot s; val := x; refs := refs s; fpc := fpc s; hs := hs s; cs := cs s;
  alive := alive s; dying := dying s; frees := frees s; under := under s; uaf := uaf s; gots := gots s;
  iruns := iruns s; nfail := nfail s; readys := readys s |}.
Definition set_refs x s := {| w := w s; slot := slot s; val := val s; refs := x; fpc := fpc s; hs := hs s; cs := cs s;
  alive := alive s; dying := dying s; frees := frees s; under := under s; uaf := uaf s; gots := gots s;
  iruns := iruns s; nfail := nfail s; readys := readys s |}.
Definition set_fpc x s := {| w := w s; slot := slot s; val := val s; refs := refs s; fpc := x; hs := hs s; cs := cs s;
  alive := alive s; dying := dying s; frees := frees s; under := under s; uaf := uaf s; gots := gots s;
  iruns := iruns s; nfail := nfail s; readys := readys s |}.
Definition set_hs x s := {| w := w s; slot := slot s; val := val s; refs := refs s; fpc := fpc s; hs := x; cs := cs s;
  alive := alive s; dying := dying s; frees := frees s; under := under s; uaf := uaf s; gots := gots s;
  iruns := iruns s; nfail := nfail s; readys := readys s |}.
Definition set_cs x s := {| w := w s; slot := slot s; val := val s; refs := refs s; fpc := fpc s; hs := hs s; cs := x;
  alive := alive s; dying := dying s; frees := frees s; under := under s; uaf := uaf s; gots := gots s;
  iruns := iruns s; nfail := nfail s; readys := readys s |}.
Definition set_dying x s := {| w := w s; slot := slot s; val := val s; refs := refs s; fpc := fpc s; hs := hs s; cs := cs s;
  alive := alive s; dying := x; frees := frees s; under := under s; uaf := uaf s; gots := gots s;
  iruns := iruns s; nfail := nfail s; readys := readys s |}.
Definition set_under x s := {| w := w s; slot := slot s; val := val s; refs := refs s; fpc := fpc s; hs := hs s; cs := cs s;
  alive := alive s; dying := dying s; frees := frees s; under := x; uaf := uaf s; gots := gots s;
  iruns := iruns s; nfail := nfail s; readys := readys s |}.
Definition set_uaf x s := {| w := w s; slot := slot s; val := val s; refs := refs s; fpc := fpc s; hs := hs s; cs := cs s;
  alive := alive s; dying := dying s; frees := frees s; under := under s; uaf := x; gots := gots s;
  iruns := iruns s; nfail := nfail s; readys := readys s |}.
Definition set_gots x s := {| w := w s; slot := slot s; val := val s; refs := refs s; fpc := fpc s; hs := hs s; cs := cs s;
  alive := alive s; dying := dying s; frees := frees s; under := under s; uaf := uaf s; gots := x;
  iruns := iruns s; nfail := nfail s; readys := readys s |}.
Definition set_iruns x s := {| w := w s; slot := slot s; val := val s; refs := refs s; fpc := fpc s; hs := hs s; cs := cs s;
  alive := alive s; dying := dying s; frees := frees s; under := under s; uaf := uaf s; gots := gots s;
  iruns := x; nfail := nfail s; readys := readys s |}.
Definition set_nfail x s := {| w := w s; slot := slot s; val := val s; refs := refs s; fpc := fpc s; hs := hs s; cs := cs s;
  alive := alive s; dying := dying s; frees := frees s; under := under s; uaf := uaf s; gots := gots s;
  iruns := iruns s; nfail := x; readys := readys s |}.
Definition set_readys x s := {| w := w s; slot := slot s; val := val s; refs := refs s; fpc := fpc s; hs := hs s; cs := cs s;
  alive := alive s; dying := dying s; frees := frees s; under := under s; uaf := uaf s; gots := gots s;
  iruns := iruns s; nfail := nfail s; readys := x |}.
(* the state is destroyed: the last reference is gone *)
Definition set_freed s := {| w := w s; slot := slot s; val := val s; refs := refs s; fpc := fpc s; hs := hs s; cs := cs s;
  alive := false; dying := true; frees := S (frees s); under := under s; uaf := uaf s; gots := gots s;
  iruns := iruns s; nfail := nfail s; readys := readys s |}.

(* IRef::DecRef on the shared state: fetch_sub(1); the thread that saw 1 destroys the state *)
Definition dec (s : st) : st :=
  match refs s with
  | 0 => set_under (S (under s)) s                (* underflow: recorded, proved impossible *)
  | S n => if Nat.eqb n 0 then set_freed (set_refs n s) else set_refs n s
  end.

Definition inc (s : st) : st := set_refs (S (refs s)) s.

(* every operation on the state's memory after it was destroyed is counted (and proved impossible) *)
Definition touch (s : st) : st := if alive s then s else set_uaf (S (uaf s)) s.

Definition set_h (h : nat) (pc : hpc) (s : st) : st := set_hs (upd (hs s) h pc) s.

(* SetResultImpl<.,true> after the exchange / after a callback's Here() returned: [l] is what is left of the list.
   `while (auto* next = head->next) { Loop(this, head); head = next; }  DecRef();  Loop(this, head);`
   Firing the event of a Wait has no traced operation: it is done at once. *)
Fixpoint advance (l : list nat) (cbs : list cb) : fpc_t * list cb :=
  match l with
  | [] => (FLastDec None, cbs)
  | [c] => (FLastDec (Some c), cbs)
  | c :: rest => if is_event cbs c then advance rest (set_cst cbs c CDone)
                 else (FWalk c rest, set_cst cbs c CFireF)
  end.

Definition cur (s : st) : option nat :=
  match fpc s with FWalk c _ | FLast c => Some c | _ => None end.

(* the Here() of the callback being fired has returned *)
Definition finishF (s : st) : st :=
  match fpc s with
  | FWalk _ rest => let (pc, cbs) := advance rest (cs s) in set_fpc pc (set_cs cbs s)
  | FLast _ => set_fpc FD2 s
  | _ => s
  end.

Definition after_wait (k : wk) : hpc :=
  match k with W0 => H0 | WRead => HRead | WRc => HRc end.

(* a sleeping waiter whose event has been fired is awake *)
Definition pc_of (s : st) (h : nat) : option hpc :=
  match nth_error (hs s) h with
  | Some (HSleep c k) =>
      match nth_error (cs s) c with
      | Some e => match cst e with CDone => Some (after_wait k) | _ => Some (HSleep c k) end
      | None => Some (HSleep c k)
      end
  | x => x
  end.

Definition kind_of_purpose (p : purpose) : kind :=
  match p with PCb k => k | PWait _ => KEvent end.

(* SetCallbackImpl<true> returned false *)
Definition attach_failed (h : nat) (p : purpose) (s : st) : option st :=
  match p with
  | PWait k => Some (set_h h (after_wait k) s)                       (* WaitCore: wait_count == 0 *)
  | PCb KEvent => None
  | PCb k => Some (set_nfail (S (nfail s)) (set_h h (HInl k) s))     (* SetInlineImpl: Step(self, callback) / Connect: else branch *)
  end.

Definition attach_loaded (h : nat) (p : purpose) (s : st) : option st :=
  match p with
  | PCb KEvent => None                      (* events are attached by Wait only *)
  | _ => match w s with
         | WRes => attach_failed h p s
         | WStack l => Some (set_h h (HAtt p l) s)
         end
  end.

Definition push (h : nat) (p : purpose) (l : list nat) (s : st) : st :=
  let c := length (cs s) in
  let s1 := set_cs (cs s ++ [{| ck := kind_of_purpose p; cinl := false; cst := CQueued; cv := [] |}]) s in
  let s2 := set_w (WStack (c :: l)) s1 in
  set_h h (match p with PCb _ => H0 | PWait k => HSleep c k end) s2.

Definition note_ready (rr : bool) (s : st) : st :=
  set_readys (readys s ++ [(ready_of rr (w s), is_some (rd s))]) s.

(* ---- one step ------------------------------------------------------------------------------------- *)

Definition step_h (rr : bool) (s : st) (e : ev) : option st :=
  match e with
  | EReady h v =>
      match pc_of s h with
      | Some H0 => if obs_ok v (w s) then Some (set_h h H0 (note_ready rr s)) else None
      | _ => None
      end
  | EAwaitL h v =>
      match pc_of s h with
      | Some H0 => if obs_ok v (w s)
                   then Some (set_h h (if ready_of rr (w s) then HRead else H0) (note_ready rr s)) else None
      | _ => None
      end
  | ETouchL h mv v =>
      match pc_of s h with
      | Some H0 => if obs_ok v (w s) && ready_of rr (w s)             (* YACLIB_ASSERT(Ready()) *)
                   then Some (set_h h (if mv then HRc else HRead) s) else None
      | _ => None
      end
  | ERcH h n =>
      match pc_of s h with
      | Some HRc => if Nat.eqb n (refs s) then Some (set_h h (HOut (Nat.eqb n get_move_when_ref_eq)) s) else None
      | _ => None
      end
  | EGot h =>
      match pc_of s h with
      | Some HRead => Some (set_h h H0 (set_gots (gots s ++ [rd s]) s))
      | Some (HOut false) => Some (set_h h HSpent (set_gots (gots s ++ [rd s]) s))
      | Some (HOut true) => Some (set_h h HSpent (set_slot Moved (set_gots (gots s ++ [rd s]) s)))
      | _ => None
      end
  | EAttL h p v =>
      match pc_of s h with
      | Some H0 => if obs_ok v (w s) then attach_loaded h p s else None
      | _ => None
      end
  | ELdA h v =>
      match pc_of s h with
      | Some (HAtt p _) => if obs_ok v (w s) then attach_loaded h p s else None
      | _ => None
      end
  | ECas h ok =>
      match pc_of s h with
      | Some (HAtt p next) =>
          match w s with
          | WRes => if ok then None else attach_failed h p s
          | WStack l =>
              if list_eqb l next
              then (if ok then Some (push h p l s) else Some (set_h h (HAtt p l) s))
              else (if ok then None else Some (set_h h (HAtt p l) s))
          end
      | _ => None
      end
  | ECbInl h =>
      match pc_of s h with
      | Some (HInl KInl) | Some HConnR => Some (set_h h H0 (set_iruns (iruns s ++ [rd s]) s))
      | _ => None
      end
  | EIncInl h =>
      match pc_of s h with
      | Some (HInl KCall) =>
          Some (set_h h H0 (set_cs (cs s ++ [{| ck := KCall; cinl := true; cst := CHeld; cv := [] |}]) (inc s)))
      | _ => None
      end
  | EConnL h v =>
      match pc_of s h with
      | Some (HInl KConn) => if obs_ok v (w s) && ready_of rr (w s) then Some (set_h h HConnR s) else None
      | _ => None
      end
  | ECopy h =>
      match pc_of s h with
      | Some H0 => Some (set_hs (upd (hs s) h H0 ++ [H0]) (inc s))
      | _ => None
      end
  | EDestroy h =>
      match pc_of s h with
      | Some H0 | Some HSpent => Some (set_h h HDead (dec s))
      | _ => None
      end
  | _ => None
  end.

Definition step_f (s : st) (e : ev) : option st :=
  match e with
  | ESet r =>
      match fpc s with
      | F0 => Some (set_fpc F1 (set_val (Some r) (set_slot (SetV r) s)))
      | _ => None
      end
  | EXchg =>
      match fpc s, w s with
      | F1, WStack l => let (pc, cbs) := advance l (cs s) in Some (set_fpc pc (set_cs cbs (set_w WRes s)))
      | _, _ => None                                               (* YACLIB_ASSERT(expected != kResult) *)
      end
  | EDecF =>
      match fpc s with
      | FLastDec None => Some (set_fpc FD2 (dec s))
      | FLastDec (Some c) =>
          if is_event (cs s) c then Some (set_fpc FD2 (set_cs (set_cst (cs s) c CDone) (dec s)))
          else Some (set_fpc (FLast c) (set_cs (set_cst (cs s) c CFireF) (dec s)))
      | FD2 => Some (set_fpc FD1 (dec s))
      | FD1 => Some (set_fpc FDone (dec s))
      | _ => None
      end
  | ECopyP =>
      match fpc s with
      | F0 => Some (set_hs (hs s ++ [H0]) (inc s))
      | _ => None
      end
  | EFRun =>
      match cur s with
      | Some c =>
          match nth_error (cs s) c with
          | Some e =>
              match ck e, cst e with
              | KInl, CFireF => Some (finishF (set_cs (add_cv (cs s) c CDone (rd s)) s))
              | KConn, CConn mv dc =>
                  let s1 := set_cs (add_cv (cs s) c CDone (rd s)) s in
                  let s2 := if mv then set_slot Moved s1 else s1 in
                  Some (finishF (if dc then dec s2 else s2))
              | _, _ => None
              end
          | None => None
          end
      | None => None
      end
  | EFInc =>
      match cur s with
      | Some c =>
          match nth_error (cs s) c with
          | Some e =>
              match ck e, cst e with
              | KCall, CFireF => Some (finishF (set_cs (set_cst (cs s) c CHeld) (inc s)))
              | _, _ => None
              end
          | None => None
          end
      | None => None
      end
  | EFRc n =>
      match cur s with
      | Some c =>
          match nth_error (cs s) c with
          | Some e =>
              match ck e, cst e with
              | KConn, CFireF =>
                  if Nat.eqb n (refs s)
                  then Some (set_cs (set_cst (cs s) c (CConn (negb (Nat.leb impl_copy_when_ref_ge n))
                                                             (Nat.eqb n impl_decref_when_ref_eq))) s)
                  else None
              | _, _ => None
              end
          | None => None
          end
      | None => None
      end
  | ECb c =>
      match nth_error (cs s) c with
      | Some e => match cst e with
                  | CHeld => Some (set_cs (add_cv (cs s) c CRan (rd s)) s)
                  | _ => None
                  end
      | None => None
      end
  | ECbDec c =>
      match nth_error (cs s) c with
      | Some e => match cst e with
                  | CRan => Some (set_cs (set_cst (cs s) c CDone) (dec s))
                  | _ => None
                  end
      | None => None
      end
  | _ => None
  end.

Definition step_g (rr : bool) (s : st) (e : ev) : option st :=
  match e with
  | EDtor => if dying s then match w s with WRes => Some (set_dying false s) | _ => None end else None
  | ESet _ | EXchg | EDecF | ECopyP | EFRun | EFInc | EFRc _ | ECb _ | ECbDec _ => step_f (touch s) e
  | _ => step_h rr (touch s) e
  end.

Fixpoint run_g (rr : bool) (s : st) (tr : list ev) : option st :=
  match tr with
  | [] => Some s
  | e :: r => match step_g rr s e with Some s' => run_g rr s' r | None => None end
  end.

(* the model of the tree under check: the readiness rule is the one found in the source *)
Definition step := step_g ready_is_result.
Definition run := run_g ready_is_result.

(* everybody has finished: the fulfiller returned, every copy is destroyed, every callback and job is done, the
   destructor ran *)
Definition h_dead (pc : hpc) : bool := match pc with HDead => true | _ => false end.
Definition c_done (e : cb) : bool := match cst e with CDone => true | _ => false end.
Definition terminal (s : st) : bool :=
  match fpc s with FDone => true | _ => false end && forallb h_dead (hs s) && forallb c_done (cs s) && negb (dying s).
