(* Encoding of the outcome of replaying an implementation trace through Await.run, as a list of numbers that the
   checker reads back.  [0; i]: rejected at event i.  Otherwise
     [1; quiescent; #coroutines; per coroutine: state; pc; dropped; ldtors; ffrees; llive; own Result (2 numbers);
        #resumes; per resume 10 numbers (k; how (2); thread; ok; value (3); executor after; executor before);
        #await_ready; per await_ready 2*answer + published] *)
From Coq Require Import List Arith Bool.
Import ListNotations.
From YV Require Import gen.Gen_ready_c13 model.Await.

Fixpoint run_at (rr sw : bool) (s : st) (tr : list ev) (i : nat) : nat + st :=
  match tr with
  | [] => inr s
  | e :: r => match step_g rr sw s e with Some s' => run_at rr sw s' r (S i) | None => inl i end
  end.

Definition encb (b : bool) : nat := if b then 1 else 0.
Definition enc_res (r : option res) : list nat :=
  match r with None => [0; 0] | Some (RVal n) => [1; n] | Some (RErr n) => [2; n] | Some RStop => [3; 0] end.
Definition enc_how (h : how) : list nat :=
  match h with BySelf => [0; 0] | ByFire o => [1; o] | ByExec x => [2; x] end.
Definition enc_rrec (r : rrec) : list nat :=
  [rk r] ++ enc_how (rhow r) ++ [rthr r; encb (rok r)] ++
  match rval r with None => [0; 0; 0] | Some v => 1 :: enc_res v end ++ [rexec r; rown r].
Definition cst_code (a : ast) : nat :=
  match a with
  | AIdle => 0 | ARun => 1 | AReadyL => 2 | AReg _ _ => 3 | ARegU _ _ => 4 | ARegS _ _ _ => 5 | ACtor _ => 6 | ASusp => 7
  | ATaskSt => 8 | AWait => 9 | ASubmit _ => 10 | AQueued _ => 11 | AResume _ => 12 | AFinal => 13 | ADone => 14
  end.
Definition enc_co (s : st) (co : coro) : list nat :=
  [cst_code (cst co); pc co; encb (dropped co); ldtors co; ffrees co; encb (llive co)] ++
  enc_res (match nth_error (objs s) (own co) with Some ob => oslot ob | None => None end) ++
  [length (resumes co)] ++ flat_map enc_rrec (resumes co) ++
  [length (readys co)] ++ map (fun p => 2 * encb (fst p) + encb (snd p)) (readys co).

Definition obs_nat_g (rr sw : bool) (os : list ospec) (cs : list cspec) (nx : nat) (tr : list ev) : list nat :=
  match run_at rr sw (init os cs nx) tr 0 with
  | inl i => [0; i]
  | inr s => [1; encb (quiescent s); length (cos s)] ++ flat_map (enc_co s) (cos s)
  end.
Definition obs_nat := obs_nat_g c13_ready_is_result c13_impl_swaps_executor.

(* short constructors for the checker *)
Definition OX (sh lz : bool) (x : nat) : ospec := {| s_shared := sh; s_lazy := lz; s_exec := x; s_prod := None |}.
Definition OC (sh lz : bool) (c : nat) : ospec := {| s_shared := sh; s_lazy := lz; s_exec := 0; s_prod := Some c |}.
Definition CO (p : list apt) (o : nat) : cspec := {| s_prog := p; s_own := o |}.
