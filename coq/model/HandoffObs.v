(* Encoding of the outcome of replaying an implementation trace through Handoff.run, as a list of numbers
   that the checker reads back.  [0; i] : rejected at event i.  Otherwise
   [1; terminal; frees; |cbs|; cbs...; |gots|; gots...; |readys|; readys...] with Some n -> n+1, None -> 0 and
   a readiness observation (answer, constructed) -> 2*answer + constructed. *)
From Coq Require Import List Arith Bool.
Import ListNotations.
From YV Require Import model.Handoff.

Fixpoint run_at (s : st) (tr : list ev) (i : nat) : nat + st :=
  match tr with
  | [] => inr s
  | e :: r => match step s e with Some s' => run_at s' r (S i) | None => inl i end
  end.

Definition enc (o : option nat) : nat := match o with Some n => S n | None => 0 end.
Definition encb (b : bool) : nat := if b then 1 else 0.

Definition obs_nat (k : kind) (tr : list ev) : list nat :=
  match run_at (init k) tr 0 with
  | inl i => [0; i]
  | inr s =>
      [1; encb (terminal s); frees s; length (cbs s)] ++ map enc (cbs s) ++
      [length (gots s)] ++ map enc (gots s) ++
      [length (readys s)] ++ map (fun p => 2 * encb (fst p) + encb (snd p)) (readys s)
  end.
