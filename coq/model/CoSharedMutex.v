(* CoSharedMutex.v — yaclib::SharedMutex<FIFO, ReadersFIFO> (include/yaclib/coro/shared_mutex.hpp,
   coro/detail/mutex_awaiter.hpp, coro/guard.hpp, util/detail/spinlock.hpp) as a transition system for ANY number of
   coroutines (the length of [cos]; a parameter of [init]), each doing any number of rounds, each round in any of the
   lock forms (LockShared / GuardShared / TryLockShared / TryGuardShared, Lock / Guard / TryLock / TryGuard) and
   unlock forms (UnlockHereShared / UnlockHere / the guards' destructor and UnlockHere, which call exactly those two).
   The forms are events, not a fixed program.  SharedMutex has no `co_await Unlock()` form (there is no UnlockShared /
   Unlock member; Guard::Unlock does not instantiate for it), so there is no symmetric transfer: every unlock runs
   synchronously inside the caller.

   Granularity: one event per atomic operation on `_state` / `_readers_wait` outside the spinlock, and one event per
   spinlock-protected section — except that a section that touches a SECOND shared atomic is cut there (the spinlock
   stays held, [spin s = true], in between): AwaitLock of the first writer (fetch_add on `_state`, then fetch_add on
   `_readers_wait`: readers unlock in between, which is why [rwait] lives in Z) and RunReaders with a next writer
   (fetch_sub on `_state`, then store to `_readers_wait`).  A section with at most one shared atomic operation is atomic
   by the usual reduction (acquire moves right, release moves left, the protected plain fields commute with everything
   outside the lock); the correspondence places its event at that operation (at the release if it has none).

   Two plain-field orders inside sections are folded into one event and justified by the invariant, not by the
   reduction: (1) `_writers_first` is written under the lock but READ outside it (UnlockHereShared, after its
   fetch_sub on `_readers_wait` returned 1).  AwaitLock writes it between its two fetch_adds (the model: at the first),
   RunReaders writes it AFTER its store to `_readers_wait` (the model: at the store, [EUWStore], together with the pop
   and the release).  No reader can see 1 in between: while the first writer is between its fetch_adds `_readers_wait`
   is <= 0 (i_pc), and at RunReaders' store no reader holds a token or owes a decrement (i_pst / phS: a writer was
   holding) and the readers it releases are resumed only after the lock is released.  (2) [EUSRun] reads [wfirst] when
   it runs, as the source does.

   `_state` is the pair ([sw], [sr]) = (writers, readers) of the packed 32+32 bit word (kWriter = kReader << 32,
   kReader = 1: coq/gen/Gen_shmutex_consts.v; the packing is proved equivalent for counts < 2^32 in
   proofs/CoSharedMutexPack.v).

   Source being modelled (shared_mutex.hpp of the pinned tree; SharedMutexImpl<FIFO, ReadersFIFO>):

     TryLockSharedAwait (await_ready of LockShared/GuardShared)                       :18-20
        _state.fetch_add(kReader) / kWriter == 0                        ERSAdd c w r   (old value)
     AwaitLockShared (await_suspend)                                                  :28-38
        lock; if (_readers_pass != 0) { --_readers_pass; return false; }
        ASSERT(_state.load() / kWriter != 0); _readers.PushBack(curr); ++_readers_size; return true
                                                                        ERSSlow c credit
     TryLockShared (also TryGuardShared)                                              :57-65
        s = _state.load()                                               ETSLoad c w r
        do { if (s / kWriter != 0) return false; } while (!CAS_weak(s, s + kReader))
                                                                        ETSCas c ok w r  (value found)
     TryLockAwait (await_ready of Lock/Guard; TryLock; TryGuard)                      :22-26
        _state.load() == 0                                              EWLoad c w r
        && _state.compare_exchange_strong(0, kWriter)                   EWCas c ok
     AwaitLock (await_suspend)                                                        :40-55
        lock; s = _state.fetch_add(kWriter)                             EWSlow c w r   (old value)
        s / kWriter == 0: r = s % kWriter; _writers_first = &curr;
            return r != 0 && _readers_wait.fetch_add(r) != -r           EWAdd c old    (only if r != 0)
        else _writers_tail->next = &curr ...; FIFO: _writers_prio += _readers.Empty(); return true
     UnlockHereShared                                                                 :71-79
        s = _state.fetch_sub(kReader)                                   EUSSub c w r   (old value)
        s >= kWriter: _readers_wait.fetch_sub(1) == 1                   EUSWait c old
                      Run(_writers_first)                               EUSRun c f
     UnlockHere                                                                       :81-85
        CAS_strong(kWriter, 0)                                          EUWCas c ok
        else SlowUnlock                                                               :144-163
        lock; s = _state.fetch_sub(kWriter)                             EUWSlow c w r  (old value)
        FIFO && _writers_prio != 0: ASSERT(s / kWriter > 1); RunWriter
        !_readers.Empty(): RunReaders(s)
        !FIFO && s / kWriter != 1: RunWriter
        PassReaders(s); unlock
     RunWriter: FIFO: ASSERT(prio != 0), --prio; pop head of the writers' list; unlock; Run(node)   :98-111
                                                                        EUWRun c n
     PassReaders(s): ASSERT(s / kWriter == 1); r = s % kWriter; ASSERT(r >= _readers_size);
                     _readers_pass += r - _readers_size                               :113-118
     RunReaders(s): w = s / kWriter; w != 1: _readers_wait.store(_readers_size)       :120-142
                                                                        EUWStore c v
                       pop head of the writers' list -> _writers_first; FIFO: _writers_prio = w - 2
                    else PassReaders(s)
                    readers = move(_readers); _readers_size = 0; unlock;
                    do Run(&readers.PopFront()) while (!readers.Empty())  EUWRun c n   (one per reader)
     Run(node): core._executor->Submit(core)                                          :92-96

   The executor is modelled by its contract only: a submitted coroutine ([PNew] after `co_await On(e)`, [PHanded]
   after Run) is started once, at any time ([EStart]).  [step] returns [None] where the real code would fail one of
   its assertions (config F: they are live), dereference null (RunWriter / RunReaders on an empty writers' list,
   PopFront on an empty list), underflow a half of `_state`, resume a coroutine that is not suspended in the mutex,
   and where an event does not fit the code or its observed value differs from the model's.
   Fields under "ghost" are history, never read by the protocol.  No proofs in this file. *)
From Coq Require Import List Arith Bool ZArith.
Import ListNotations.

Inductive tkind := TTry | TLock.

Inductive pcs :=
| PNew                          (* submitted by `co_await On(executor)`, not started yet *)
| POut                          (* running; not holding, not requesting *)
| PRSTry                        (* LockShared: before fetch_add(kReader) *)
| PRSSlow                       (* saw a writer: before AwaitLockShared's section *)
| PParkR                        (* suspended in the mutex as a reader *)
| PTSLoad                       (* TryLockShared: before the load *)
| PTSCas (r : nat)              (* in the CAS loop, expected = (0, r) *)
| PWLoad (k : tkind)            (* TryLockAwait: before the load *)
| PWCas (k : tkind)             (* the load saw 0: before the strong CAS *)
| PWSlow                        (* before AwaitLock's section *)
| PWAdd (r : nat)               (* first writer, spinlock held: before _readers_wait.fetch_add(r) *)
| PParkF                        (* suspended as the first writer (_writers_first) *)
| PParkQ                        (* suspended as a queued writer *)
| PHanded (w : bool)            (* resumed by Run(node): in its executor's queue *)
| PGot (w : bool)               (* the lock is its own (w: exclusive); critical section not yet entered *)
| PIn (w : bool)                (* inside the critical section *)
| PUSSub                        (* UnlockHereShared: before fetch_sub(kReader) *)
| PUSWait                       (* saw a writer: before _readers_wait.fetch_sub(1) *)
| PUSRun                        (* saw 1: before Run(_writers_first) *)
| PUWCas                        (* UnlockHere: before the strong CAS *)
| PUWSlow                       (* before SlowUnlock's section *)
| PUWStore (w : nat)            (* RunReaders, w = s / kWriter != 1, spinlock held: before _readers_wait.store *)
| PUWRunW (n : nat)             (* RunWriter: lock released, before Run(node) *)
| PUWRunR (l : list nat)        (* RunReaders: lock released, the local list `readers` still to be resumed *)
| PDone.

Record co := {
  pc : pcs;
  req : nat;                    (* ghost: requests made (a Try counts when it succeeds) *)
  got : nat                     (* ghost: critical sections entered *)
}.

Record st := {
  fifo : bool; rfifo : bool;
  sw : nat; sr : nat;           (* _state: writers (holding + waiting), readers (holding + registered) *)
  rwait : Z;                    (* _readers_wait (uint32 in the source, see CoSharedMutexPack.v) *)
  rpass : nat; rsize : nat; wprio : nat;
  rq : list nat;                (* _readers: head = next PopFront *)
  wfirst : option nat;          (* _writers_first (never reset by the source) *)
  wq : list nat;                (* _writers_head.next ... _writers_tail *)
  spin : bool;                  (* _lock held across two events *)
  cos : list co;
  (* ghost *)
  entered : list (nat * bool);  (* critical-section entries in order; true: exclusive *)
  grants : list (nat * nat);    (* (coroutine, its request number) at each entry *)
  tries : list (nat * bool * bool)  (* every TryLock (true) / TryLockShared (false) answer *)
}.

Inductive ev :=
| EStart (c : nat)
| EFinish (c : nat)
| EReqS (c : nat)               (* co_await LockShared() / GuardShared() begins *)
| EReqW (c : nat)               (* co_await Lock() / Guard() begins *)
| ETryS (c : nat)               (* TryLockShared() / TryGuardShared() begins *)
| ETryW (c : nat)               (* TryLock() / TryGuard() begins *)
| ERSAdd (c w r : nat)
| ERSSlow (c : nat) (credit : bool)
| ETSLoad (c w r : nat)
| ETSCas (c : nat) (ok : bool) (w r : nat)
| EWLoad (c w r : nat)
| EWCas (c : nat) (ok : bool)
| EWSlow (c w r : nat)
| EWAdd (c : nat) (old : Z)
| EEnter (c : nat)
| ELeave (c : nat)
| EUSSub (c w r : nat)
| EUSWait (c : nat) (old : Z)
| EUSRun (c f : nat)
| EUWCas (c : nat) (ok : bool)
| EUWSlow (c w r : nat)
| EUWStore (c : nat) (v : Z)
| EUWRun (c n : nat).

Fixpoint set_nth {A} (n : nat) (v : A) (l : list A) {struct l} : list A :=
  match l, n with
  | [], _ => []
  | _ :: r, 0 => v :: r
  | x :: r, S k => x :: set_nth k v r
  end.

Definition get (s : st) (c : nat) : option co := nth_error (cos s) c.

Definition upd_pc (p : pcs) (x : co) : co := {| pc := p; req := req x; got := got x |}.
Definition inc_req (x : co) : co := {| pc := pc x; req := S (req x); got := got x |}.
Definition inc_got (x : co) : co := {| pc := pc x; req := req x; got := S (got x) |}.

(* the mutex fields are replaced wholesale by [mx]; the coroutine list by [set_co] *)
Record mutex := {
  m_sw : nat; m_sr : nat; m_rwait : Z; m_rpass : nat; m_rsize : nat; m_wprio : nat;
  m_rq : list nat; m_wfirst : option nat; m_wq : list nat; m_spin : bool
}.
Definition mx (s : st) : mutex :=
  {| m_sw := sw s; m_sr := sr s; m_rwait := rwait s; m_rpass := rpass s; m_rsize := rsize s; m_wprio := wprio s;
     m_rq := rq s; m_wfirst := wfirst s; m_wq := wq s; m_spin := spin s |}.
Definition set_mx (m : mutex) (s : st) : st :=
  {| fifo := fifo s; rfifo := rfifo s; sw := m_sw m; sr := m_sr m; rwait := m_rwait m; rpass := m_rpass m;
     rsize := m_rsize m; wprio := m_wprio m; rq := m_rq m; wfirst := m_wfirst m; wq := m_wq m; spin := m_spin m;
     cos := cos s; entered := entered s; grants := grants s; tries := tries s |}.
Definition set_co (c : nat) (v : co) (s : st) : st :=
  {| fifo := fifo s; rfifo := rfifo s; sw := sw s; sr := sr s; rwait := rwait s; rpass := rpass s;
     rsize := rsize s; wprio := wprio s; rq := rq s; wfirst := wfirst s; wq := wq s; spin := spin s;
     cos := set_nth c v (cos s); entered := entered s; grants := grants s; tries := tries s |}.
Definition add_entered (c : nat) (w : bool) (r : nat) (s : st) : st :=
  {| fifo := fifo s; rfifo := rfifo s; sw := sw s; sr := sr s; rwait := rwait s; rpass := rpass s;
     rsize := rsize s; wprio := wprio s; rq := rq s; wfirst := wfirst s; wq := wq s; spin := spin s;
     cos := cos s; entered := entered s ++ [(c, w)]; grants := grants s ++ [(c, r)]; tries := tries s |}.
Definition add_try (c : nat) (w b : bool) (s : st) : st :=
  {| fifo := fifo s; rfifo := rfifo s; sw := sw s; sr := sr s; rwait := rwait s; rpass := rpass s;
     rsize := rsize s; wprio := wprio s; rq := rq s; wfirst := wfirst s; wq := wq s; spin := spin s;
     cos := cos s; entered := entered s; grants := grants s; tries := tries s ++ [(c, w, b)] |}.

Definition set_sw (v : nat) (s : st) : st :=
  set_mx {| m_sw := v; m_sr := sr s; m_rwait := rwait s; m_rpass := rpass s; m_rsize := rsize s;
            m_wprio := wprio s; m_rq := rq s; m_wfirst := wfirst s; m_wq := wq s; m_spin := spin s |} s.
Definition set_sr (v : nat) (s : st) : st :=
  set_mx {| m_sw := sw s; m_sr := v; m_rwait := rwait s; m_rpass := rpass s; m_rsize := rsize s;
            m_wprio := wprio s; m_rq := rq s; m_wfirst := wfirst s; m_wq := wq s; m_spin := spin s |} s.
Definition set_rwait (v : Z) (sp : bool) (s : st) : st :=
  set_mx {| m_sw := sw s; m_sr := sr s; m_rwait := v; m_rpass := rpass s; m_rsize := rsize s;
            m_wprio := wprio s; m_rq := rq s; m_wfirst := wfirst s; m_wq := wq s; m_spin := sp |} s.

Definition is_nil {A} (l : list A) : bool := match l with [] => true | _ => false end.

(* the state word is what the event says it saw *)
Definition sees (s : st) (w r : nat) : bool := Nat.eqb w (sw s) && Nat.eqb r (sr s).
Definition state_is (s : st) (w r : nat) : bool := Nat.eqb (sw s) w && Nat.eqb (sr s) r.

(* _readers.PushBack: List appends, Stack pushes in front (intrusive_stack.hpp: PushBack = PushFront) *)
Definition rq_push (s : st) (c : nat) : list nat := if rfifo s then rq s ++ [c] else c :: rq s.

(* TryLockAwait answered false *)
Definition wfail (c : nat) (x : co) (k : tkind) (s : st) : st :=
  match k with
  | TTry => add_try c true false (set_co c (upd_pc POut x) s)
  | TLock => set_co c (upd_pc PWSlow x) s
  end.

(* RunWriter (after the fetch_sub): pop the head of the writers' list; the spinlock is released *)
Definition run_writer (c : nat) (x : co) (nsw : nat) (s : st) : option st :=
  match wq s with
  | n :: rest =>
      Some (set_co c (upd_pc (PUWRunW n) x)
              (set_mx {| m_sw := nsw; m_sr := sr s; m_rwait := rwait s; m_rpass := rpass s; m_rsize := rsize s;
                         m_wprio := (if fifo s then wprio s - 1 else wprio s); m_rq := rq s;
                         m_wfirst := wfirst s; m_wq := rest; m_spin := false |} s))
  | [] => None                                             (* node->next with node == nullptr *)
  end.

(* PassReaders(s): the new value of _readers_pass, or None if an assertion fails *)
Definition pass_readers (w r : nat) (s : st) : option nat :=
  if Nat.eqb w 1 then if Nat.leb (rsize s) r then Some (rpass s + (r - rsize s)) else None else None.

Definition step (s : st) (e : ev) : option st :=
  match e with
  (* ---- executor ---- *)
  | EStart c =>
      match get s c with
      | Some x => match pc x with
                  | PNew => Some (set_co c (upd_pc POut x) s)
                  | PHanded w => Some (set_co c (upd_pc (PGot w) x) s)
                  | _ => None end
      | None => None
      end
  | EFinish c =>
      match get s c with
      | Some x => match pc x with POut => Some (set_co c (upd_pc PDone x) s) | _ => None end
      | None => None
      end
  (* ---- shared lock ---- *)
  | EReqS c =>
      match get s c with
      | Some x => match pc x with POut => Some (set_co c (inc_req (upd_pc PRSTry x)) s) | _ => None end
      | None => None
      end
  | ETryS c =>
      match get s c with
      | Some x => match pc x with POut => Some (set_co c (upd_pc PTSLoad x) s) | _ => None end
      | None => None
      end
  | ERSAdd c w r =>
      match get s c with
      | Some x => match pc x with
                  | PRSTry =>
                      if sees s w r then
                        Some (set_co c (upd_pc (if Nat.eqb w 0 then PGot false else PRSSlow) x) (set_sr (S (sr s)) s))
                      else None
                  | _ => None end
      | None => None
      end
  | ERSSlow c credit =>
      match get s c with
      | Some x => match pc x with
                  | PRSSlow =>
                      if spin s then None else
                      if Nat.eqb (rpass s) 0 then
                        if credit then None else
                        if Nat.eqb (sw s) 0 then None       (* YACLIB_ASSERT(_state / kWriter != 0) *)
                        else Some (set_co c (upd_pc PParkR x)
                                     (set_mx {| m_sw := sw s; m_sr := sr s; m_rwait := rwait s; m_rpass := rpass s;
                                                m_rsize := S (rsize s); m_wprio := wprio s; m_rq := rq_push s c;
                                                m_wfirst := wfirst s; m_wq := wq s; m_spin := false |} s))
                      else
                        if credit then
                          Some (set_co c (upd_pc (PGot false) x)
                                  (set_mx {| m_sw := sw s; m_sr := sr s; m_rwait := rwait s; m_rpass := rpass s - 1;
                                             m_rsize := rsize s; m_wprio := wprio s; m_rq := rq s;
                                             m_wfirst := wfirst s; m_wq := wq s; m_spin := false |} s))
                        else None
                  | _ => None end
      | None => None
      end
  | ETSLoad c w r =>
      match get s c with
      | Some x => match pc x with
                  | PTSLoad =>
                      if sees s w r then
                        if Nat.eqb w 0 then Some (set_co c (upd_pc (PTSCas r) x) s)
                        else Some (add_try c false false (set_co c (upd_pc POut x) s))
                      else None
                  | _ => None end
      | None => None
      end
  | ETSCas c ok w r =>
      match get s c with
      | Some x => match pc x with
                  | PTSCas e =>
                      if sees s w r then
                        if ok then
                          if Nat.eqb w 0 && Nat.eqb r e then
                            Some (add_try c false true
                                    (set_co c (inc_req (upd_pc (PGot false) x)) (set_sr (S (sr s)) s)))
                          else None                          (* a CAS succeeds only on the expected value *)
                        else                                 (* weak: may fail spuriously; expected := value found *)
                          if Nat.eqb w 0 then Some (set_co c (upd_pc (PTSCas r) x) s)
                          else Some (add_try c false false (set_co c (upd_pc POut x) s))
                      else None
                  | _ => None end
      | None => None
      end
  (* ---- exclusive lock ---- *)
  | EReqW c =>
      match get s c with
      | Some x => match pc x with POut => Some (set_co c (inc_req (upd_pc (PWLoad TLock) x)) s) | _ => None end
      | None => None
      end
  | ETryW c =>
      match get s c with
      | Some x => match pc x with POut => Some (set_co c (upd_pc (PWLoad TTry) x) s) | _ => None end
      | None => None
      end
  | EWLoad c w r =>
      match get s c with
      | Some x => match pc x with
                  | PWLoad k =>
                      if sees s w r then
                        if Nat.eqb w 0 && Nat.eqb r 0 then Some (set_co c (upd_pc (PWCas k) x) s)
                        else Some (wfail c x k s)
                      else None
                  | _ => None end
      | None => None
      end
  | EWCas c ok =>
      match get s c with
      | Some x => match pc x with
                  | PWCas k =>
                      if Bool.eqb ok (state_is s 0 0) then   (* a strong CAS fails only if the value differs *)
                        if ok then
                          match k with
                          | TTry => Some (add_try c true true
                                            (set_co c (inc_req (upd_pc (PGot true) x)) (set_sw 1 s)))
                          | TLock => Some (set_co c (upd_pc (PGot true) x) (set_sw 1 s))
                          end
                        else Some (wfail c x k s)
                      else None
                  | _ => None end
      | None => None
      end
  | EWSlow c w r =>
      match get s c with
      | Some x => match pc x with
                  | PWSlow =>
                      if spin s then None else
                      if sees s w r then
                        if Nat.eqb w 0 then
                          (* the first writer: _writers_first = &curr; waits for the r readers counted now *)
                          Some (set_co c (upd_pc (if Nat.eqb r 0 then PGot true else PWAdd r) x)
                                  (set_mx {| m_sw := S (sw s); m_sr := sr s; m_rwait := rwait s; m_rpass := rpass s;
                                             m_rsize := rsize s; m_wprio := wprio s; m_rq := rq s;
                                             m_wfirst := Some c; m_wq := wq s;
                                             m_spin := negb (Nat.eqb r 0) |} s))
                        else
                          Some (set_co c (upd_pc PParkQ x)
                                  (set_mx {| m_sw := S (sw s); m_sr := sr s; m_rwait := rwait s; m_rpass := rpass s;
                                             m_rsize := rsize s;
                                             m_wprio := (if fifo s then wprio s + (if is_nil (rq s) then 1 else 0)
                                                         else wprio s);
                                             m_rq := rq s; m_wfirst := wfirst s; m_wq := wq s ++ [c];
                                             m_spin := false |} s))
                      else None
                  | _ => None end
      | None => None
      end
  | EWAdd c old =>
      match get s c with
      | Some x => match pc x with
                  | PWAdd r =>
                      if Z.eqb old (rwait s) then
                        Some (set_co c (upd_pc (if Z.eqb old (- Z.of_nat r) then PGot true else PParkF) x)
                                (set_rwait (rwait s + Z.of_nat r) false s))
                      else None
                  | _ => None end
      | None => None
      end
  (* ---- critical section ---- *)
  | EEnter c =>
      match get s c with
      | Some x => match pc x with
                  | PGot w => Some (add_entered c w (req x) (set_co c (inc_got (upd_pc (PIn w) x)) s))
                  | _ => None end
      | None => None
      end
  | ELeave c =>
      match get s c with
      | Some x => match pc x with
                  | PIn w => Some (set_co c (upd_pc (if w then PUWCas else PUSSub) x) s)
                  | _ => None end
      | None => None
      end
  (* ---- shared unlock ---- *)
  | EUSSub c w r =>
      match get s c with
      | Some x => match pc x with
                  | PUSSub =>
                      if sees s w r then
                        match sr s with
                        | 0 => None                          (* the readers' half would borrow from the writers' *)
                        | S r' => Some (set_co c (upd_pc (if Nat.eqb w 0 then POut else PUSWait) x) (set_sr r' s))
                        end
                      else None
                  | _ => None end
      | None => None
      end
  | EUSWait c old =>
      match get s c with
      | Some x => match pc x with
                  | PUSWait =>
                      if Z.eqb old (rwait s) then
                        Some (set_co c (upd_pc (if Z.eqb old 1 then PUSRun else POut) x)
                                (set_rwait (rwait s - 1) (spin s) s))
                      else None
                  | _ => None end
      | None => None
      end
  | EUSRun c f =>
      match get s c with
      | Some x => match pc x with
                  | PUSRun =>
                      match wfirst s with
                      | Some f' =>
                          if Nat.eqb f f' then
                            let s1 := set_co c (upd_pc POut x) s in
                            match get s1 f with
                            | Some y => match pc y with
                                        | PParkF => Some (set_co f (upd_pc (PHanded true) y) s1)
                                        | _ => None end     (* resuming a coroutine that is not suspended here *)
                            | None => None
                            end
                          else None
                      | None => None                         (* YACLIB_ASSERT(node != nullptr) *)
                      end
                  | _ => None end
      | None => None
      end
  (* ---- exclusive unlock ---- *)
  | EUWCas c ok =>
      match get s c with
      | Some x => match pc x with
                  | PUWCas =>
                      if Bool.eqb ok (state_is s 1 0) then
                        if ok then Some (set_co c (upd_pc POut x) (set_sw 0 s))
                        else Some (set_co c (upd_pc PUWSlow x) s)
                      else None
                  | _ => None end
      | None => None
      end
  | EUWSlow c w r =>
      match get s c with
      | Some x => match pc x with
                  | PUWSlow =>
                      if spin s then None else
                      if sees s w r then
                        match sw s with
                        | 0 => None                          (* the writers' half would wrap *)
                        | S nsw =>
                            if fifo s && negb (Nat.eqb (wprio s) 0) then
                              if Nat.ltb 1 w then run_writer c x nsw s else None   (* YACLIB_ASSERT(s / kWriter > 1) *)
                            else if negb (is_nil (rq s)) then
                              if negb (Nat.eqb w 1) then
                                (* RunReaders, a next writer exists: the store to _readers_wait is a separate event *)
                                Some (set_co c (upd_pc (PUWStore w) x)
                                        (set_mx {| m_sw := nsw; m_sr := sr s; m_rwait := rwait s; m_rpass := rpass s;
                                                   m_rsize := rsize s; m_wprio := wprio s; m_rq := rq s;
                                                   m_wfirst := wfirst s; m_wq := wq s; m_spin := true |} s))
                              else
                                match pass_readers w r s with
                                | Some p =>
                                    Some (set_co c (upd_pc (PUWRunR (rq s)) x)
                                            (set_mx {| m_sw := nsw; m_sr := sr s; m_rwait := rwait s; m_rpass := p;
                                                       m_rsize := 0; m_wprio := wprio s; m_rq := [];
                                                       m_wfirst := wfirst s; m_wq := wq s; m_spin := false |} s))
                                | None => None
                                end
                            else if negb (fifo s) && negb (Nat.eqb w 1) then run_writer c x nsw s
                            else
                              match pass_readers w r s with
                              | Some p =>
                                  Some (set_co c (upd_pc POut x)
                                          (set_mx {| m_sw := nsw; m_sr := sr s; m_rwait := rwait s; m_rpass := p;
                                                     m_rsize := rsize s; m_wprio := wprio s; m_rq := rq s;
                                                     m_wfirst := wfirst s; m_wq := wq s; m_spin := false |} s))
                              | None => None
                              end
                        end
                      else None
                  | _ => None end
      | None => None
      end
  | EUWStore c v =>
      match get s c with
      | Some x => match pc x with
                  | PUWStore w =>
                      if Z.eqb v (Z.of_nat (rsize s)) then
                        match wq s with
                        | n :: rest =>
                            let s1 := set_co c (upd_pc (PUWRunR (rq s)) x)
                                        (set_mx {| m_sw := sw s; m_sr := sr s; m_rwait := v; m_rpass := rpass s;
                                                   m_rsize := 0;
                                                   m_wprio := (if fifo s then w - 2 else wprio s);
                                                   m_rq := []; m_wfirst := Some n; m_wq := rest;
                                                   m_spin := false |} s) in
                            match get s1 n with
                            | Some y => match pc y with
                                        | PParkQ => Some (set_co n (upd_pc PParkF y) s1)   (* ghost: n is now the first *)
                                        | _ => None end
                            | None => None
                            end
                        | [] => None                         (* node->next with node == nullptr *)
                        end
                      else None
                  | _ => None end
      | None => None
      end
  | EUWRun c n =>
      match get s c with
      | Some x =>
          match pc x with
          | PUWRunW n' =>
              if Nat.eqb n n' then
                let s1 := set_co c (upd_pc POut x) s in
                match get s1 n with
                | Some y => match pc y with
                            | PParkQ => Some (set_co n (upd_pc (PHanded true) y) s1)
                            | _ => None end
                | None => None
                end
              else None
          | PUWRunR (n' :: rest) =>
              if Nat.eqb n n' then
                let s1 := set_co c (upd_pc (if is_nil rest then POut else PUWRunR rest) x) s in
                match get s1 n with
                | Some y => match pc y with
                            | PParkR => Some (set_co n (upd_pc (PHanded false) y) s1)
                            | _ => None end
                | None => None
                end
              else None
          | _ => None                                        (* includes PopFront on an empty list *)
          end
      | None => None
      end
  end.

Definition init_co : co := {| pc := PNew; req := 0; got := 0 |}.

(* n coroutines have done `co_await On(executor)` *)
Definition init (fifo_ rfifo_ : bool) (n : nat) : st :=
  {| fifo := fifo_; rfifo := rfifo_; sw := 0; sr := 0; rwait := 0%Z; rpass := 0; rsize := 0; wprio := 0;
     rq := []; wfirst := None; wq := []; spin := false; cos := repeat init_co n;
     entered := []; grants := []; tries := [] |}.

Fixpoint run (s : st) (tr : list ev) : option st :=
  match tr with
  | [] => Some s
  | e :: r => match step s e with Some s' => run s' r | None => None end
  end.

(* ---- vocabulary of the property statements --------------------------------------------------------------- *)
Definition cntl (f : pcs -> nat) (l : list co) : nat := list_sum (map (fun x => f (pc x)) l).
Definition cnt (f : pcs -> nat) (s : st) : nat := cntl f (cos s).

(* reader side.  A reader TOKEN: the shared lock is this coroutine's (granted or inside, not yet given back by its
   fetch_sub), or it is in the local list of a RunReaders that has not resumed it yet *)
Definition rtown_w (p : pcs) : nat := match p with PHanded false | PGot false | PIn false | PUSSub => 1 | _ => 0 end.
Definition infl_w (p : pcs) : nat := match p with PUWRunR l => length l | _ => 0 end.
Definition rt_w (p : pcs) : nat := rtown_w p + infl_w p.
Definition nt_w (p : pcs) : nat := match p with PRSSlow => 1 | _ => 0 end.      (* in transit *)
Definition d_w (p : pcs) : nat := match p with PUSWait => 1 | _ => 0 end.       (* owes a decrement of readers_wait *)
Definition parkr_w (p : pcs) : nat := match p with PParkR => 1 | _ => 0 end.
(* writer side.  A writer TOKEN: the exclusive lock is this coroutine's, or a hand-over of it is in flight *)
Definition own_w (p : pcs) : nat :=
  match p with PHanded true | PGot true | PIn true | PUWCas | PUWSlow => 1 | _ => 0 end.
Definition runw_w (p : pcs) : nat := match p with PUWRunW _ => 1 | _ => 0 end.
Definition usrun_w (p : pcs) : nat := match p with PUSRun => 1 | _ => 0 end.
Definition store_w (p : pcs) : nat := match p with PUWStore _ => 1 | _ => 0 end.
Definition wt_w (p : pcs) : nat := own_w p + runw_w p + usrun_w p + store_w p.
Definition add_w (p : pcs) : nat := match p with PWAdd _ => 1 | _ => 0 end.
Definition parkf_w (p : pcs) : nat := match p with PParkF => 1 | _ => 0 end.
Definition nf_w (p : pcs) : nat := add_w p + parkf_w p.                         (* the first writer, not yet granted *)
Definition parkq_w (p : pcs) : nat := match p with PParkQ => 1 | _ => 0 end.
Definition addr_w (p : pcs) : nat := match p with PWAdd r => r | _ => 0 end.
Definition storew_w (p : pcs) : nat := match p with PUWStore w => w | _ => 0 end.
Definition inw_w (p : pcs) : nat := match p with PIn true => 1 | _ => 0 end.
Definition inr_w (p : pcs) : nat := match p with PIn false => 1 | _ => 0 end.
(* occurrences of coroutine n in the local lists of unlockers *)
Definition inflocc_w (n : nat) (p : pcs) : nat := match p with PUWRunR l => count_occ Nat.eq_dec l n | _ => 0 end.
Definition runwocc_w (n : nat) (p : pcs) : nat :=
  match p with PUWRunW m => if Nat.eq_dec m n then 1 else 0 | _ => 0 end.

Definition parked (p : pcs) : bool := match p with PParkR | PParkF | PParkQ => true | _ => false end.
Definition passive (x : co) : bool := match pc x with PDone => true | p => parked p end.
(* nothing runs and nothing is runnable *)
Definition quiescent (s : st) : bool := forallb passive (cos s).
Definition is_done (x : co) : bool := match pc x with PDone => true | _ => false end.

(* a request is outstanding: made, critical section not yet entered *)
Definition pend_w (p : pcs) : nat :=
  match p with
  | PRSTry | PRSSlow | PParkR | PWLoad TLock | PWCas TLock | PWSlow | PWAdd _ | PParkF | PParkQ
  | PHanded _ | PGot _ => 1
  | _ => 0
  end.

(* the event a running coroutine executes next with the values it would observe ("never blocks"); [None]: the
   coroutine is not running, or it has a choice (POut: finish or any request) *)
Definition needs_spin (p : pcs) : bool := match p with PRSSlow | PWSlow | PUWSlow => true | _ => false end.
Definition co_ev (s : st) (c : nat) (x : co) : option ev :=
  match pc x with
  | PNew | PHanded _ => Some (EStart c)
  | POut => Some (EFinish c)
  | PRSTry => Some (ERSAdd c (sw s) (sr s))
  | PRSSlow => Some (ERSSlow c (negb (Nat.eqb (rpass s) 0)))
  | PTSLoad => Some (ETSLoad c (sw s) (sr s))
  | PTSCas e => Some (ETSCas c (Nat.eqb (sw s) 0 && Nat.eqb (sr s) e) (sw s) (sr s))
  | PWLoad _ => Some (EWLoad c (sw s) (sr s))
  | PWCas _ => Some (EWCas c (state_is s 0 0))
  | PWSlow => Some (EWSlow c (sw s) (sr s))
  | PWAdd _ => Some (EWAdd c (rwait s))
  | PGot _ => Some (EEnter c)
  | PIn _ => Some (ELeave c)                                (* "every holder releases" *)
  | PUSSub => Some (EUSSub c (sw s) (sr s))
  | PUSWait => Some (EUSWait c (rwait s))
  | PUSRun => Some (EUSRun c (match wfirst s with Some f => f | None => 0 end))
  | PUWCas => Some (EUWCas c (state_is s 1 0))
  | PUWSlow => Some (EUWSlow c (sw s) (sr s))
  | PUWStore _ => Some (EUWStore c (Z.of_nat (rsize s)))
  | PUWRunW n => Some (EUWRun c n)
  | PUWRunR l => Some (EUWRun c (hd 0 l))
  | PParkR | PParkF | PParkQ | PDone => None
  end.
