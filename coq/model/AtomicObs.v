(* C19 — the two backends assembled from the generated pieces, runs of operation sequences, and the encoding
   of a run's observables as numbers for the checker.  No proofs here. *)
From Coq Require Import ZArith List Bool Uint63.
Import ListNotations.
Open Scope Z_scope.
From YV Require Import model.AtomicCSem model.AtomicStd gen.Gen_fiber_atomic.

(* Numbers in the terms the checker writes: two 32-bit halves as primitive integers (Coq parses decimal Z
   literals slowly; primitive literals are parsed natively).  Used only for evaluating harness sequences. *)
Definition zu (hi lo : int) : Z := Uint63.to_Z hi * 4294967296 + Uint63.to_Z lo.          (* unsigned 64-bit *)
Definition zs (hi lo : int) : Z := let u := zu hi lo in if 9223372036854775808 <=? u then u - 18446744073709551616 else u.

(* yaclib_std::atomic<T> = detail::Atomic<Impl, T> (fault/detail/atomic.hpp) with
     Impl = fiber::Atomic<T>   in the FIBER backend  (yaclib_std/detail/atomic.hpp:10)
     Impl = std::atomic<T>     in the THREAD backend (yaclib_std/detail/atomic.hpp:22)       *)
Definition fiber_of (k : kind) : impl :=
  match k with KInt => fiber_int | KBool => fiber_bool | KPtr => fiber_ptr | KFlt => fiber_flt | KFlag => fiber_flag end.
Definition wrapped_of (k : kind) : impl -> impl :=
  match k with KInt => wrapped_int | KBool => wrapped_bool | KPtr => wrapped_ptr | KFlt => wrapped_flt | KFlag => wrapped_flag end.

Inductive backend := BFiber | BThread | BStd.

Definition impl_of (b : backend) (k : kind) : impl :=
  match b with
  | BFiber => wrapped_of k (fiber_of k)
  | BThread => wrapped_of k (std_impl (std_of k))
  | BStd => std_impl (std_of k)
  end.

Definition fence_of (b : backend) (signal : bool) : Z -> Z :=
  match b with
  | BFiber => if signal then gen_atomic_signal_fence else gen_atomic_thread_fence
  | _ => std_fence     (* the THREAD backend uses std's fences (yaclib_std/detail/atomic_fence.hpp:24) *)
  end.

(* one step of a single-threaded history *)
Inductive call :=
| Call (o : opn) (vol spur : bool) (a1 a2 : Z)
| Fence (signal : bool).

Definition step (I : impl) (fence : bool -> Z -> Z) (S : sem) (T : cty) (c : call) (v : Z) : option (Z * Z * Z) :=
  match c with
  | Call o vol spur a1 a2 => icall I o vol S T spur v a1 a2
  | Fence sg => Some (fence sg v, 0, 0)
  end.

(* results of every step, in order; None = undefined from here on *)
Fixpoint run (I : impl) (fence : bool -> Z -> Z) (S : sem) (T : cty) (cs : list call) (v : Z)
  : option (list (Z * Z * Z)) :=
  match cs with
  | [] => Some []
  | c :: r =>
      match step I fence S T c v with
      | Some res => match run I fence S T r (r_st res) with Some l => Some (res :: l) | None => None end
      | None => None
      end
  end.

Definition run_backend (b : backend) (k : kind) := run (impl_of b k) (fence_of b).

(* ---- observables as numbers: per step  1 :: bytes(ret) ++ bytes(stored) ++ bytes(expected'), or [0] where the
   model is undefined (and nothing after it). *)
Fixpoint run_obs (I : impl) (fence : bool -> Z -> Z) (S : sem) (T : cty) (cs : list call) (v : Z)
  : list (option (Z * Z * Z)) :=
  match cs with
  | [] => []
  | c :: r =>
      match step I fence S T c v with
      | Some res => Some res :: run_obs I fence S T r (r_st res)
      | None => [None]
      end
  end.

Definition bytes8 (z : Z) : list nat :=
  let u := z mod 2 ^ 64 in
  map (fun i => Z.to_nat ((u / 2 ^ (8 * i)) mod 256)) [0; 1; 2; 3; 4; 5; 6; 7].

Definition obs_res (r : option (Z * Z * Z)) : list nat :=
  match r with
  | Some x => 1%nat :: bytes8 (r_ret x) ++ bytes8 (r_st x) ++ bytes8 (r_a1 x)
  | None => [0%nat]
  end.

(* evaluation semantics: floating never evaluated in Coq (uninterpreted); [strict] chooses between the C++
   abstract machine (signed overflow undefined) and the compiled behaviour (wrap) *)
Definition sem_eval (strict_ub : bool) : sem :=
  {| fadd := fun x _ => x; fsub := fun x _ => x; feq := Z.eqb; strict := strict_ub;
     faddw := fun x _ => x; fsubw := fun x _ => x |}.

Definition obs_nat (b : backend) (k : kind) (T : cty) (strict_ub : bool) (cs : list call) (v0 : Z) : list nat :=
  flat_map obs_res (run_obs (impl_of b k) (fence_of b) (sem_eval strict_ub) T cs v0).

(* ---- comparison with an observed run, inside Coq (keeps the output small).  [obs]: per step the implementation's
   (returned, stored, expected) as unsigned 64-bit numbers.  What is compared: compare_exchange -> all three;
   fence -> the stored value; everything else -> returned and stored.  Result: [] when every step agrees, otherwise
   [i + 1; reason] ++ the model's step (bytes) where reason 1 = values differ, 2 = model undefined here, 3 = lengths. *)
Definition u64 (z : Z) : Z := z mod 2 ^ 64.

Definition is_cas (o : opn) : bool := match o with Cew1 | Cew2 | Ces1 | Ces2 => true | _ => false end.

Definition agree (c : call) (m : Z * Z * Z) (o : Z * Z * Z) : bool :=
  match c with
  | Fence _ => u64 (r_st m) =? r_st o
  | Call op _ _ _ _ =>
      (u64 (r_ret m) =? r_ret o) && (u64 (r_st m) =? r_st o) && (negb (is_cas op) || (u64 (r_a1 m) =? r_a1 o))
  end.

Fixpoint chk (cs : list call) (ms : list (option (Z * Z * Z))) (os : list (Z * Z * Z)) (i : nat) : list nat :=
  match cs, ms, os with
  | [], [], [] => []
  | c :: cr, Some m :: mr, o :: or => if agree c m o then chk cr mr or (S i) else S i :: 1%nat :: obs_res (Some m)
  | _, None :: _, _ => [S i; 2%nat]
  | _, _, _ => [S i; 3%nat]
  end.

Definition chk_nat (b : backend) (k : kind) (T : cty) (strict_ub : bool) (cs : list call) (v0 : Z)
  (os : list (Z * Z * Z)) : list nat :=
  chk cs (run_obs (impl_of b k) (fence_of b) (sem_eval strict_ub) T cs v0) os 0.

(* two models against two observed runs of the same calls (the calls are parsed once): [n] ++ first ++ second,
   n = length of the first result *)
Definition chk_nat2 (b1 b2 : backend) (k : kind) (T : cty) (cs : list call) (v0 : Z)
  (os1 os2 : list (Z * Z * Z)) : list nat :=
  let r1 := chk_nat b1 k T false cs v0 os1 in
  let r2 := chk_nat b2 k T false cs v0 os2 in
  length r1 :: r1 ++ r2.
