(* Encoding of the outcome of replaying an implementation trace through Strand.run, as a list of numbers that the
   checker reads back.  [0; i] : the model rejects event i.  Otherwise
     [1; quiescent; refused; |active|; jobs word is Idle; upper projection accepted by the executor interface LTS
      and complete; |pushed|; |called|; called (t, n)...; |dropped|; dropped (t, n)...]. *)
From Coq Require Import List Arith Bool.
Import ListNotations.
From YV Require Import model.Strand.

Fixpoint run_at (s : st) (tr : list ev) (i : nat) : nat + st :=
  match tr with
  | [] => inr s
  | e :: r => match step s e with Some s' => run_at s' r (S i) | None => inl i end
  end.

Definition encb (b : bool) : nat := if b then 1 else 0.
Definition encj (l : list job) : list nat := flat_map (fun j => [fst j; snd j]) l.

Definition xok (tr : list ev) : bool :=
  match xrun xinit (flat_map upper tr) with Some x => xcomplete x | None => false end.

Definition obs_nat (n_submitters : nat) (tr : list ev) : list nat :=
  match run_at (init n_submitters) tr 0 with
  | inl i => [0; i]
  | inr s =>
      [1; encb (quiescent s); refused s; length (active s);
       encb (match jobs s with Idle => true | _ => false end); encb (xok tr); length (pushed s)] ++
      [length (called s)] ++ encj (called s) ++ [length (dropped s)] ++ encj (dropped s)
  end.
