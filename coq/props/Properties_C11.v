(* C11 — Wait returns only when ready; a timed-out wait leaves the futures intact.
   Statements only; proofs are in proofs/WaitEvProofs.v (invariant), WaitEvProofsP.v / WaitEvProofsP2.v (producers' events), WaitEvProofsW.v
   (waiter's events) and WaitEvProofsC.v (invariant theorem, consequences).

   [n_] is the number of futures — any n >= 1; [one_] selects the single-future fast path (OneCounter), which exists
   only for n = 1 ([good_cfg]); [timed_] distinguishes WaitFor/WaitUntil from Wait; [tr] ranges over every sequence of
   atomic / mutex / condvar operations of the n producers and the waiter, i.e. every schedule, and contains the
   event [ETimeout] wherever the deadline fires; stored values are arbitrary (they enter through [ESet i r]). *)
From Coq Require Import List Arith Bool.
Import ListNotations.
From YV Require model.Handoff proofs.HandoffProofs.
From YV Require Import model.WaitEv proofs.WaitEvProofs proofs.WaitEvProofsW proofs.WaitEvProofsC.

(* Wait(fs...) returns only when every listed future is Ready (its word is Result and its result is stored). *)
Theorem c11_wait_all_ready :
  forall n_ one_ tr s b, good_cfg n_ one_ -> run (init n_ one_ false) tr = Some s -> ret s = Some b ->
  b = true /\ forall i f, nth_error (futs s) i = Some f -> fw f = WR /\ exists r, fslot f = Some r.
Proof. exact c11p_wait_all_ready. Qed.
Print Assumptions c11_wait_all_ready.

(* WaitFor / WaitUntil (and Wait) return true only if all are Ready. *)
Theorem c11_true_iff_all_ready :
  forall n_ one_ timed_ tr s, good_cfg n_ one_ -> run (init n_ one_ timed_) tr = Some s -> ret s = Some true ->
  forall i f, nth_error (futs s) i = Some f -> fw f = WR /\ exists r, fslot f = Some r.
Proof. exact c11p_true_iff_all_ready. Qed.
Print Assumptions c11_true_iff_all_ready.

(* ... and false only after the deadline has passed: the timeout event occurred (and the call was a timed one). *)
Theorem c11_false_only_after_timeout :
  forall n_ one_ timed_ tr s, good_cfg n_ one_ -> run (init n_ one_ timed_) tr = Some s -> ret s = Some false ->
  timed_ = true /\ timedout s = true.
Proof. exact c11p_false_only_after_timeout. Qed.
Print Assumptions c11_false_only_after_timeout.

(* No completion touches the waiter after the call returned: every producer operation on the stack event (the
   counter's fetch_sub, lock / notify / unlock of Set()) is performed while the event is alive, in every reachable
   state; hence the ghost count of late touches is 0. *)
Theorem c11_no_touch_after_return :
  forall n_ one_ timed_ tr s, good_cfg n_ one_ -> run (init n_ one_ timed_) tr = Some s ->
  bad_touch s = 0 /\
  forall e s', step s e = Some s' -> touches e = true -> alive s = true.
Proof. exact c11p_no_touch_after_return. Qed.
Print Assumptions c11_no_touch_after_return.

(* In either case, however a completion raced with the timeout, after the call returned every future is intact: its
   word is Empty and its producer has not exchanged, or Result and the result is stored — never a dangling pointer
   to the dead event, and no producer is still on its way to the event.  Compositionally: the projection of future i
   to the C01 transition system, with an idle owner, satisfies the C01 invariant. *)
Theorem c11_future_intact :
  forall n_ one_ timed_ tr s b, good_cfg n_ one_ -> run (init n_ one_ timed_) tr = Some s -> ret s = Some b ->
  forall i f, nth_error (futs s) i = Some f ->
  ((fw f = WE /\ (fp f = PInit /\ fslot f = None \/ fp f = PStored /\ exists r, fslot f = Some r)) \/
   (fw f = WR /\ (fp f = PDoneE \/ fp f = PFin) /\ exists r, fslot f = Some r)) /\
  forall k, HandoffProofs.Inv (proj k f).
Proof. exact c11p_future_intact. Qed.
Print Assumptions c11_future_intact.

(* ... so each future afterwards still delivers its result exactly once to a later Wait, Get or continuation: for ANY
   later consumer kind k and ANY later schedule tr' of producer i and that consumer (HandoffProofs.inv_run starts from
   any state satisfying the C01 invariant), all C01 guarantees hold — what is delivered is what was set, at most once,
   never lost, exactly once at the end, and it is the value producer i had stored if it had stored one. *)
Theorem c11_later_consumer_c01 :
  forall n_ one_ timed_ tr s b, good_cfg n_ one_ -> run (init n_ one_ timed_) tr = Some s -> ret s = Some b ->
  forall i f k tr' h, nth_error (futs s) i = Some f -> Handoff.run (proj k f) tr' = Some h ->
  (forall v, In v (Handoff.cbs h ++ Handoff.gots h) -> exists r, v = Some r /\ Handoff.slot h = Some r) /\
  (length (Handoff.cbs h) <= 1 /\ Handoff.frees h <= 1 /\ length (Handoff.tokens h) <= 1) /\
  (Handoff.ppc h = 2 ->
   (Handoff.cpc h = Handoff.CAttached -> Handoff.tokens h = [Handoff.P]) /\
   (Handoff.cpc h = Handoff.CInline -> Handoff.tokens h = [Handoff.C]) /\
   (Handoff.cpc h = Handoff.CWaiting -> Handoff.signalled h = true)) /\
  (Handoff.terminal h = true ->
   exists r, Handoff.slot h = Some r /\ Handoff.frees h = 1 /\ Handoff.alive h = false /\
   match Handoff.kd h with
   | Handoff.KAttach | Handoff.KConnect => Handoff.cbs h = [Some r]
   | Handoff.KSilent => Handoff.cbs h = []
   | Handoff.KGet => Handoff.cbs h = [] /\ exists l, Handoff.gots h = l ++ [Some r]
   end) /\
  (forall r, fslot f = Some r -> Handoff.slot h = Some r).
Proof. exact c11p_later_consumer_c01. Qed.
Print Assumptions c11_later_consumer_c01.

(* The event counter never underflows (it starts at n + 1; every fetch_sub finds at least what it subtracts). *)
Theorem c11_counter_never_underflows :
  forall n_ one_ timed_ tr s, good_cfg n_ one_ -> run (init n_ one_ timed_) tr = Some s -> underflow s = false.
Proof. exact c11p_counter_never_underflows. Qed.
Print Assumptions c11_counter_never_underflows.

(* A timeout can only be observed by a timed call. *)
Theorem c11_untimed_never_times_out :
  forall n_ one_ tr s, good_cfg n_ one_ -> run (init n_ one_ false) tr = Some s -> timedout s = false.
Proof. exact c11p_untimed_never_times_out. Qed.
Print Assumptions c11_untimed_never_times_out.

(* Beyond the property text (which only says "returns only when"): no lost wake-up.  Whenever the waiter is parked in
   one of its two waits and every producer has finished, the wait can return — the flag is set, the waiter has been
   notified and the mutex is free: no completion can slip between the waiter's check of the flag and its sleep. *)
Theorem c11_no_lost_wakeup :
  forall n_ one_ timed_ tr s, good_cfg n_ one_ -> run (init n_ one_ timed_) tr = Some s ->
  parked s = true -> (forall i f, nth_error (futs s) i = Some f -> finished f = true) ->
  exists s', step s EWaitRet = Some s'.
Proof. exact c11p_no_lost_wakeup. Qed.
Print Assumptions c11_no_lost_wakeup.

(* ---- non-vacuity: complete runs exist (these are traces of the real implementation, h_c11) ------------------ *)

Lemma good_2 : good_cfg 2 false. Proof. split; [auto|discriminate]. Qed.
Lemma good_1 : good_cfg 1 true. Proof. split; auto. Qed.

(* WaitFor(f0, f1) times out; f0 completed during the wait, the reset of f1 succeeds, SubEqual(1) is not the last
   decrement, so the waiter sleeps again until P0 has signalled; returns false; f0 is Result, f1 is Empty.
   (wf/n2/d15/l0) *)
Definition tr_timeout_raced : list ev :=
  [ELdW 0 WE; ECasW 0 true; ELdW 1 WE; ECasW 1 true; ESubW 2; EWLock; ESet 0 1100; EXchg 0 WC; ESet 1 1101;
   EWaitEnter; ETimeout; EWaitRet; ELdW 0 WR; ELdW 1 WC; ECasW 1 true; ESubW 1; ESubP 0 0; EWaitEnter; EPLock 0;
   EPNotify 0; EPUnlock 0; EWaitRet; EWUnlock; ERet].

Example c11_witness_timeout_raced :
  exists s, run (init 2 false true) tr_timeout_raced = Some s /\ ret s = Some false /\ timedout s = true /\
            map fw (futs s) = [WR; WE] /\ alive s = false /\ bad_touch s = 0.
Proof. eexists. vm_compute. repeat split. Qed.

(* ... and afterwards Get&& on f0 and DetachInline on f1 (whose producer exchanges later and runs the callback)
   deliver 1100 and 1101 exactly once: the suffix of the same implementation trace, through the C01 model. *)
Example c11_witness_timeout_raced_later :
  exists s f0 f1 h0 h1,
    run (init 2 false true) tr_timeout_raced = Some s /\
    nth_error (futs s) 0 = Some f0 /\ nth_error (futs s) 1 = Some f1 /\
    Handoff.run (proj Handoff.KGet f0)
      [Handoff.EWaitBegin; Handoff.ELd Handoff.C WR; Handoff.ELd Handoff.C WR; Handoff.EGot] = Some h0 /\
    Handoff.terminal h0 = true /\ Handoff.gots h0 = [Some 1100] /\
    Handoff.run (proj Handoff.KAttach f1)
      [Handoff.ELd Handoff.C WE; Handoff.ECas true; Handoff.EXchg WC; Handoff.ECb Handoff.P; Handoff.ELd Handoff.P WR]
      = Some h1 /\
    Handoff.terminal h1 = true /\ Handoff.cbs h1 = [Some 1101].
Proof. do 5 eexists. vm_compute. repeat split. Qed.

(* WaitFor times out at once and wins both words back: returns false without waiting again.  (wf/n2/d-5/l0) *)
Example c11_witness_all_reset :
  exists s, run (init 2 false true)
      [ESet 0 1100; ESet 1 1101; ELdW 0 WE; ECasW 0 true; ELdW 1 WE; ECasW 1 true; ESubW 2; EWLock; EWaitEnter;
       ETimeout; EWaitRet; ELdW 0 WC; ECasW 0 true; ELdW 1 WC; ECasW 1 true; EWUnlock; ERet] = Some s /\
    ret s = Some false /\ map fw (futs s) = [WE; WE].
Proof. eexists. vm_compute. repeat split. Qed.

(* WaitUntil: the deadline fires while P1 is between its fetch_sub and Set(); both resets fail (reset_count = 0), the
   waiter sleeps again, is signalled, and returns true.  (wu/n2/d15/l1) *)
Example c11_witness_timeout_then_true :
  exists s, run (init 2 false true)
      [ESet 0 1100; EXchg 0 WE; ESet 1 1101; ELdW 0 WR; ELdW 1 WE; ECasW 1 true; ESubW 1; EWLock; EXchg 1 WC;
       ESubP 1 0; EWaitEnter; ETimeout; EWaitRet; ELdW 0 WR; ELdW 1 WR; EWaitEnter; EPLock 1; EPNotify 1;
       EPUnlock 1; EWaitRet; EWUnlock; ERet] = Some s /\
    ret s = Some true /\ timedout s = true /\ map fw (futs s) = [WR; WR].
Proof. eexists. vm_compute. repeat split. Qed.

(* The second SubEqual is the last decrement: returns false without sleeping again.  (wf/n2/d15/l0) *)
Example c11_witness_second_subequal :
  exists s, run (init 2 false true)
      [ESet 0 1100; ESet 1 1101; ELdW 0 WE; ECasW 0 true; ELdW 1 WE; ECasW 1 true; ESubW 2; EWLock; EXchg 0 WC;
       ESubP 0 1; EWaitEnter; ETimeout; EWaitRet; ELdW 0 WR; ELdW 1 WC; ECasW 1 true; ESubW 0; EWUnlock; ERet]
      = Some s /\ ret s = Some false /\ map fw (futs s) = [WR; WE] /\ cnt s = 0.
Proof. eexists. vm_compute. repeat split. Qed.

(* Untimed Wait(f0, f1): f0 already Result, P1 signals before the waiter takes the lock.  (w/n2/d-5/l0) *)
Example c11_witness_untimed :
  exists s, run (init 2 false false)
      [ESet 0 1100; EXchg 0 WE; ESet 1 1101; ELdW 0 WR; ELdW 1 WE; ECasW 1 true; ESubW 1; EXchg 1 WC; ESubP 1 0;
       EPLock 1; EPNotify 1; EPUnlock 1; EWLock; EWaitEnter; EWUnlock; ERet] = Some s /\
    ret s = Some true /\ map fw (futs s) = [WR; WR].
Proof. eexists. vm_compute. repeat split. Qed.

(* Single-future fast path (OneCounter): no counter operation at all.  (wf/n1/d-5/l0) *)
Example c11_witness_one :
  exists s, run (init 1 true true)
      [ELdW 0 WE; ECasW 0 true; EWLock; ESet 0 1100; EXchg 0 WC; EWaitEnter; ETimeout; EWaitRet; ELdW 0 WR;
       EWaitEnter; EPLock 0; EPNotify 0; EPUnlock 0; EWaitRet; EWUnlock; ERet] = Some s /\
    ret s = Some true /\ map fw (futs s) = [WR] /\ cnt s = 2.
Proof. eexists. vm_compute. repeat split. Qed.
