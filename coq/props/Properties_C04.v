(* C04 — no data races: what happened before fulfilment is visible after it.
   Statements only.  The machines (lib/RA.v; model/RAHandoff.v, RACounter.v, RAOwn.v) are release/acquire view
   machines: every theorem quantifies over EVERY execution of the machine (not only sequentially consistent
   ones), any number of threads where the protocol has them.  The memory orders are not written here: they
   are read from the source by tools/translate_orders.py into gen/Gen_orders.v on every run, so that a weakened
   order, or an atomic operation added/removed/moved, breaks an obligation below. *)
From Coq Require Import List String Bool.
Import ListNotations.
From YV Require Import lib.RA gen.Gen_orders.
From YV Require model.RAHandoff proofs.RAHandoffProofs model.RACounter proofs.RACounterProofs
                model.RAOwn proofs.RAOwnProofs.
Local Open Scope string_scope.

Definition bc := "src/algo/base_core.cpp".
Definition bh := "include/yaclib/algo/detail/base_core.hpp".
Definition ac := "include/yaclib/util/detail/atomic_counter.hpp".
Definition sd := "src/exe/strand.cpp".
Definition ev := "src/algo/one_shot_event.cpp".
Definition mx := "include/yaclib/coro/mutex.hpp".
Definition sl := "include/yaclib/util/detail/spinlock.hpp".
Definition sm := "include/yaclib/coro/shared_mutex.hpp".
Definition o (file func obj op : string) (k i : nat) : mo := ord_of ops file func obj op k i.

(* ---------------- the operation skeleton of the anchored functions is the one the models were written for *)
Theorem c04_skeleton_base_core :
  skeleton ops bc =
  [("SetCallbackImpl", "_callback", "load"); ("SetCallbackImpl", "_callback", "compare_exchange_weak");
   ("SetCallbackImpl", "_callback", "load"); ("SetCallbackImpl", "_callback", "compare_exchange_strong");
   ("ResetImpl", "_callback", "load"); ("ResetImpl", "_callback", "compare_exchange_strong");
   ("SetResultImpl", "_callback", "exchange")].
Proof. vm_compute. reflexivity. Qed.
Print Assumptions c04_skeleton_base_core.

Theorem c04_skeleton_counter :
  skeleton ops ac =
  [("Add", "count", "fetch_add"); ("Get", "count", "load"); ("SubEqual", "count", "fetch_sub");
   ("SubEqual", "<fence>", "fence")].
Proof. vm_compute. reflexivity. Qed.
Print Assumptions c04_skeleton_counter.

(* giving up a reference is exactly the decrement, and the last decrement is what deletes: the call paths of the
   intrusive reference count (Helper::IncRef/DecRef, AtomicCounter::Sub/SubEqual) are the ones RACounter models;
   an extra fast path (e.g. a relaxed Get()==1 test that deletes without the RMW) changes these lists *)
Theorem c04_skeleton_refcount_paths :
  calls =
  [("include/yaclib/util/helper.hpp", "IncRef", ["Add"]);
   ("include/yaclib/util/helper.hpp", "DecRef", ["Sub"]);
   ("include/yaclib/util/helper.hpp", "GetRef", ["Get"]);
   (ac, "Add", ["fetch_add"]);
   (ac, "Sub", ["SubEqual"; "Delete"]);
   (ac, "SubEqual", ["fetch_sub"; "atomic_thread_fence"])].
Proof. vm_compute. reflexivity. Qed.
Print Assumptions c04_skeleton_refcount_paths.

Theorem c04_skeleton_strand :
  skeleton ops sd =
  [("~Strand", "_jobs", "load"); ("Submit", "_jobs", "load"); ("Submit", "_jobs", "compare_exchange_weak");
   ("Call", "_jobs", "exchange"); ("Call", "_jobs", "load"); ("Call", "_jobs", "compare_exchange_strong");
   ("Drop", "_jobs", "exchange")].
Proof. vm_compute. reflexivity. Qed.
Print Assumptions c04_skeleton_strand.

(* ---------------- the unique callback word: Promise::Set / SetCallbackImpl<false> / Ready() *)
Definition handoff_orders : RAHandoff.orders :=
  {| RAHandoff.o_load := o bc "SetCallbackImpl" "_callback" "load" 1 0;
     RAHandoff.o_cas_s := o bc "SetCallbackImpl" "_callback" "compare_exchange_strong" 0 0;
     RAHandoff.o_cas_f := o bc "SetCallbackImpl" "_callback" "compare_exchange_strong" 0 1;
     RAHandoff.o_xchg := o bc "SetResultImpl" "_callback" "exchange" 0 0 |}.

Theorem c04_handoff_orders_ok : RAHandoff.side_ok handoff_orders = true.
Proof. vm_compute. reflexivity. Qed.
Print Assumptions c04_handoff_orders_ok.

(* producer's writes before Set (the Result) are visible to whoever observes completion through a
   continuation, Get/Wait or a failed attach; the continuation's fields are visible to the producer *)
Theorem c04_handoff_race_free :
  forall tr s, RAHandoff.run handoff_orders RAHandoff.init tr = Some s -> RAHandoff.race s = false.
Proof. exact (RAHandoffProofs.race_free handoff_orders c04_handoff_orders_ok). Qed.
Print Assumptions c04_handoff_race_free.

(* Ready() == true (BaseCore::Empty's load) followed by reading the Result *)
Definition ready_orders : RAHandoff.orders :=
  {| RAHandoff.o_load := o bh "Empty" "_callback" "load" 0 0;
     RAHandoff.o_cas_s := o bc "SetCallbackImpl" "_callback" "compare_exchange_strong" 0 0;
     RAHandoff.o_cas_f := o bc "SetCallbackImpl" "_callback" "compare_exchange_strong" 0 1;
     RAHandoff.o_xchg := o bc "SetResultImpl" "_callback" "exchange" 0 0 |}.
Theorem c04_ready_then_read_race_free :
  forall tr s, RAHandoff.run ready_orders RAHandoff.init tr = Some s -> RAHandoff.race s = false.
Proof. apply RAHandoffProofs.race_free. vm_compute. reflexivity. Qed.
Print Assumptions c04_ready_then_read_race_free.

(* the shared callback word (SetCallbackImpl<true>): each observer against the fulfilling thread *)
Definition shared_orders : RAHandoff.orders :=
  {| RAHandoff.o_load := o bc "SetCallbackImpl" "_callback" "load" 0 0;
     RAHandoff.o_cas_s := o bc "SetCallbackImpl" "_callback" "compare_exchange_weak" 0 0;
     RAHandoff.o_cas_f := o bc "SetCallbackImpl" "_callback" "compare_exchange_weak" 0 1;
     RAHandoff.o_xchg := o bc "SetResultImpl" "_callback" "exchange" 0 0 |}.
Theorem c04_shared_observer_race_free :
  forall tr s, RAHandoff.run shared_orders RAHandoff.init tr = Some s -> RAHandoff.race s = false.
Proof. apply RAHandoffProofs.race_free. vm_compute. reflexivity. Qed.
Print Assumptions c04_shared_observer_race_free.

(* every one of the five conditions is necessary: a weakened order has a racy execution *)
Theorem c04_handoff_conditions_necessary :
  RAHandoffProofs.racy (RAHandoffProofs.mk Acq Rel Acq Acq) [RAHandoff.PWriteS; RAHandoff.PXchg; RAHandoff.CWriteK; RAHandoff.CLoad 1; RAHandoff.CReadS] = true /\
  RAHandoffProofs.racy (RAHandoffProofs.mk Rlx Rel Acq AcqRel) [RAHandoff.PWriteS; RAHandoff.PXchg; RAHandoff.CWriteK; RAHandoff.CLoad 1; RAHandoff.CReadS] = true /\
  RAHandoffProofs.racy (RAHandoffProofs.mk Acq Rel Rlx AcqRel) [RAHandoff.PWriteS; RAHandoff.CWriteK; RAHandoff.CLoad 0; RAHandoff.PXchg; RAHandoff.CCas; RAHandoff.CReadS] = true /\
  RAHandoffProofs.racy (RAHandoffProofs.mk Acq Rlx Acq AcqRel) [RAHandoff.CWriteK; RAHandoff.CLoad 0; RAHandoff.CCas; RAHandoff.PWriteS; RAHandoff.PXchg; RAHandoff.PReadK] = true /\
  RAHandoffProofs.racy (RAHandoffProofs.mk Acq Rel Acq Rel) [RAHandoff.CWriteK; RAHandoff.CLoad 0; RAHandoff.CCas; RAHandoff.PWriteS; RAHandoff.PXchg; RAHandoff.PReadK] = true.
Proof.
  split; [exact RAHandoffProofs.xchg_release_needed|].
  split; [exact RAHandoffProofs.load_acquire_needed|].
  split; [exact RAHandoffProofs.cas_fail_acquire_needed|].
  split; [exact RAHandoffProofs.cas_release_needed|exact RAHandoffProofs.xchg_acquire_needed].
Qed.
Print Assumptions c04_handoff_conditions_necessary.

(* ---------------- reference / event counters: destroyed only after all other accesses *)
Definition o_dec := o ac "SubEqual" "count" "fetch_sub" 0 0.
Definition o_fence := o ac "SubEqual" "<fence>" "fence" 0 0.

Theorem c04_counter_orders_ok : RACounter.side_ok o_dec o_fence = true.
Proof. vm_compute. reflexivity. Qed.
Print Assumptions c04_counter_orders_ok.

Theorem c04_counter_last_decrement_frees_after_all_accesses :
  forall n tr s, 0 < n -> RACounter.run o_dec o_fence (RACounter.init n) tr = Some s ->
  RACounter.race s = false /\ RACounter.deleted s <= 1.
Proof.
  intros n tr s Hn H. split.
  - exact (RACounterProofs.race_free o_dec o_fence c04_counter_orders_ok n tr s Hn H).
  - exact (RACounterProofs.destroyed_at_most_once o_dec o_fence c04_counter_orders_ok n tr s Hn H).
Qed.
Print Assumptions c04_counter_last_decrement_frees_after_all_accesses.

Theorem c04_counter_conditions_necessary :
  RACounterProofs.racy Rlx Acq 2 [RACounter.EAccess 0; RACounter.EAccess 1; RACounter.EDec 0; RACounter.EDec 1; RACounter.EFence 1; RACounter.EDelete 1] = true /\
  RACounterProofs.racy Rel Rlx 2 [RACounter.EAccess 0; RACounter.EAccess 1; RACounter.EDec 0; RACounter.EDec 1; RACounter.EFence 1; RACounter.EDelete 1] = true.
Proof. split; [exact RACounterProofs.dec_release_needed|exact RACounterProofs.acquire_needed]. Qed.
Print Assumptions c04_counter_conditions_necessary.

(* ---------------- ownership transfer through the other hand-off words *)
(* the general theorem: publish with release, acquire with acquire, any RMWs in between *)
Theorem c04_ownership_transfer_race_free :
  forall creator tr s, Forall (fun e => RAOwn.ev_ok e = true) tr ->
  RAOwn.run (RAOwn.init creator) tr = Some s -> RAOwn.bad s = false -> RAOwn.race s = false.
Proof. exact RAOwnProofs.race_free. Qed.
Print Assumptions c04_ownership_transfer_race_free.

(* its side condition holds for every publishing / acquiring operation of the source, whatever the cells *)
Definition pub_ok (m : mo) := forall u pubs, RAOwn.ev_ok (RAOwn.ERmw u m pubs []) = true.
Definition acq_ok (m : mo) := forall u acqs, RAOwn.ev_ok (RAOwn.ERmw u m [] acqs) = true.
Definition pubacq_ok (m : mo) := forall u pubs acqs, RAOwn.ev_ok (RAOwn.ERmw u m pubs acqs) = true.
Definition load_acq_ok (m : mo) := forall u i acqs, RAOwn.ev_ok (RAOwn.ELoad u m i acqs) = true.
Definition store_pub_ok (m : mo) := forall u pubs, RAOwn.ev_ok (RAOwn.EStore u m pubs) = true.

Lemma pub_ok_of m : is_rel m = true -> pub_ok m.
Proof. intros H u [|c l]; simpl; [reflexivity|]. rewrite H. reflexivity. Qed.
Lemma acq_ok_of m : is_acq m = true -> acq_ok m.
Proof. intros H u [|c l]; simpl; [reflexivity|]. exact H. Qed.
Lemma pubacq_ok_of m : is_rel m = true -> is_acq m = true -> pubacq_ok m.
Proof. intros H1 H2 u [|c l] [|d r]; simpl; rewrite ?H1, ?H2; reflexivity. Qed.
Lemma load_acq_ok_of m : is_acq m = true -> load_acq_ok m.
Proof. intros H u i [|c l]; simpl; [reflexivity|exact H]. Qed.
Lemma store_pub_ok_of m : is_rel m = true -> store_pub_ok m.
Proof. intros H u [|c l]; simpl; [reflexivity|exact H]. Qed.

(* Strand: a push publishes the job and (replacing the idle marker) acquires what the previous batch wrote;
   Call/Drop acquire the inbox; the CAS back to idle publishes what the batch wrote. *)
Theorem c04_strand_orders_ok :
  pubacq_ok (o sd "Submit" "_jobs" "compare_exchange_weak" 0 0) /\
  acq_ok (o sd "Call" "_jobs" "exchange" 0 0) /\
  pub_ok (o sd "Call" "_jobs" "compare_exchange_strong" 0 0) /\
  acq_ok (o sd "Drop" "_jobs" "exchange" 0 0).
Proof.
  repeat split; [apply pubacq_ok_of|apply acq_ok_of|apply pub_ok_of|apply acq_ok_of]; vm_compute; reflexivity.
Qed.
Print Assumptions c04_strand_orders_ok.

(* OneShotEvent / WaitGroup: TryAdd publishes the waiter; Set acquires all waiters and publishes "done";
   a late TryAdd (load or failed CAS seeing AllDone) acquires it *)
Theorem c04_event_orders_ok :
  pub_ok (o ev "TryAdd" "_head" "compare_exchange_weak" 0 0) /\
  pubacq_ok (o ev "SetImpl" "self" "exchange" 0 0) /\
  load_acq_ok (o ev "TryAdd" "_head" "load" 0 0) /\
  load_acq_ok (o ev "TryAdd" "_head" "compare_exchange_weak" 0 1) /\
  load_acq_ok (o ev "Ready" "_head" "load" 0 0).
Proof.
  repeat split; [apply pub_ok_of|apply pubacq_ok_of|apply load_acq_ok_of|apply load_acq_ok_of|apply load_acq_ok_of];
    vm_compute; reflexivity.
Qed.
Print Assumptions c04_event_orders_ok.

(* coroutine Mutex: lock acquires the protected data, unlock publishes it, a waiter publishes itself,
   GetHead acquires the waiters *)
Theorem c04_mutex_orders_ok :
  acq_ok (o mx "TryLockAwait" "_sender" "compare_exchange_strong" 0 0) /\
  acq_ok (o mx "AwaitLock" "_sender" "compare_exchange_weak" 0 0) /\
  pub_ok (o mx "AwaitLock" "_sender" "compare_exchange_weak" 1 0) /\
  pub_ok (o mx "TryUnlockAwait" "_sender" "compare_exchange_strong" 0 0) /\
  acq_ok (o mx "GetHead" "_sender" "exchange" 0 0).
Proof.
  repeat split; [apply acq_ok_of|apply acq_ok_of|apply pub_ok_of|apply pub_ok_of|apply acq_ok_of];
    vm_compute; reflexivity.
Qed.
Print Assumptions c04_mutex_orders_ok.

(* Spinlock (guards SharedMutex's queues) and the SharedMutex state words *)
Theorem c04_spinlock_sharedmutex_orders_ok :
  acq_ok (o sl "lock" "_state" "exchange" 0 0) /\
  store_pub_ok (o sl "unlock" "_state" "store" 0 0) /\
  pubacq_ok (o sm "TryLockSharedAwait" "_state" "fetch_add" 0 0) /\
  pubacq_ok (o sm "TryLockAwait" "_state" "compare_exchange_strong" 0 0) /\
  pubacq_ok (o sm "AwaitLock" "_state" "fetch_add" 0 0) /\
  pubacq_ok (o sm "AwaitLock" "_readers_wait" "fetch_add" 0 0) /\
  pubacq_ok (o sm "UnlockHereShared" "_state" "fetch_sub" 0 0) /\
  pubacq_ok (o sm "UnlockHereShared" "_readers_wait" "fetch_sub" 0 0) /\
  pubacq_ok (o sm "UnlockHere" "_state" "compare_exchange_strong" 0 0) /\
  pubacq_ok (o sm "SlowUnlock" "_state" "fetch_sub" 0 0).
Proof.
  repeat split;
    first [apply pubacq_ok_of|apply acq_ok_of|apply store_pub_ok_of]; vm_compute; reflexivity.
Qed.
Print Assumptions c04_spinlock_sharedmutex_orders_ok.

(* WhenAll/WhenAny/Join flags: the winner of the flag publishes/acquires the combinator state *)
Theorem c04_when_flags_orders_ok :
  pubacq_ok (o "include/yaclib/async/when/all.hpp" "Consume" "_done" "exchange" 0 0) /\
  pubacq_ok (o "include/yaclib/async/when/all_tuple.hpp" "Consume" "_done" "exchange" 0 0) /\
  pubacq_ok (o "include/yaclib/async/when/join.hpp" "Consume" "_done" "exchange" 0 0) /\
  pubacq_ok (o "include/yaclib/async/when/any.hpp" "Consume" "_done" "exchange" 0 0) /\
  pubacq_ok (o "include/yaclib/async/when/any.hpp" "Consume" "_state" "exchange" 0 0) /\
  pubacq_ok (o "include/yaclib/async/when/any.hpp" "Consume" "_state" "compare_exchange_strong" 0 0) /\
  pubacq_ok (o "include/yaclib/async/when/any.hpp" "Consume" "_state" "exchange" 1 0) /\
  pubacq_ok (o "include/yaclib/async/when/any.hpp" "Consume" "_state" "fetch_sub" 0 0).
Proof. repeat split; apply pubacq_ok_of; vm_compute; reflexivity. Qed.
Print Assumptions c04_when_flags_orders_ok.

(* necessity for the generic transfer, and release sequences through relaxed bystander RMWs *)
Theorem c04_transfer_conditions_necessary :
  RAOwnProofs.racy [RAOwn.ENa 0 1; RAOwn.ERmw 0 Rlx [1] []; RAOwn.ERmw 1 Acq [] [1]; RAOwn.ENa 1 1] = true /\
  RAOwnProofs.racy [RAOwn.ENa 0 1; RAOwn.ERmw 0 Rel [1] []; RAOwn.ERmw 1 Rlx [] [1]; RAOwn.ENa 1 1] = true /\
  RAOwnProofs.racy [RAOwn.ENa 0 1; RAOwn.ERmw 0 Rel [1] []; RAOwn.ERmw 2 Rlx [] []; RAOwn.ERmw 1 Acq [] [1]; RAOwn.ENa 1 1] = false.
Proof.
  split; [exact RAOwnProofs.publish_release_needed|].
  split; [exact RAOwnProofs.acquire_needed|exact RAOwnProofs.bystander_rmw_ok].
Qed.
Print Assumptions c04_transfer_conditions_necessary.
