(* C10 — WhenAny completes once, with the right winner for each fail policy.
   Statements only; the proofs are in proofs/When*.v (an inductive invariant of the transition system
   model/When.v).  Quantification: [k] over EVERY number of inputs (Any<LastFail>: 2*k must fit size_t, [fits]),
   [tr] over every sequence of atomic operations of the k producers, the builder and the consume steps — every
   completion order, every race registration-vs-completion, every interleaving of two consume steps, in particular
   value-vs-value and value-vs-last-failure — and over every result pattern (through [EComplete i r]).

   Reading the state: [outs s] every Set of the output promise: who ([oby]), destructor or not ([odtor]), what
   ([oval]); [ins s] the inputs in index order, [ires x] what input x completed with; [elog s] the modification
   order of the strategy's atomic word (`_done` / `_state`) restricted to the read-modify-writes that took
   effect; [state s] the value of `_state`; [nsub s] how many failing inputs have performed their fetch_sub. *)
From Coq Require Import List Arith Bool NArith.
Import ListNotations.
From YV Require Import model.When proofs.WhenProofs proofs.WhenProofs2 proofs.WhenProofs3 proofs.WhenProofs4
  proofs.WhenProofs5 proofs.WhenInv proofs.WhenTheorems proofs.WhenC10.

(* The output promise is set at most once in every run, exactly once in every complete run; no step the real code
   could not survive (Set on an invalid promise, a saved error that was never stored, counter underflow). *)
Theorem c10_once :
  forall g k tr s, k > 0 -> any_like g -> fits g k -> run (init g k) tr = Some s ->
  length (outs s) <= 1 /\ (terminal s = true -> length (outs s) = 1) /\ crashed s = false.
Proof. exact p10_once. Qed.
Print Assumptions c10_once.

(* FailPolicy::None — whatever completes first: the Result of the input that is first in the modification order of
   `_done`, set inside that input's consume step. *)
Theorem c10_none :
  forall k tr s o, k > 0 -> run (init SAnyNone k) tr = Some s -> outs s = [o] ->
  odtor o = false /\
  exists x, nth_error (ins s) (oby o) = Some x /\ oval o = OOne (ires x) /\ hd_error (elog s) = Some (oby o).
Proof. exact p10_none. Qed.
Print Assumptions c10_none.

(* ... and at the moment it wins, no other input has got past its own check of `_done`. *)
Theorem c10_none_first_in_real_time :
  forall k tr s i s', k > 0 -> run (init SAnyNone k) tr = Some s -> step s (EXchgDone i false) = Some s' ->
  win s = None /\ outs s = [] /\ forall j x, nth_error (ins s) j = Some x -> pre_el (ipc x) = true.
Proof. exact p10_none_real_time. Qed.
Print Assumptions c10_none_first_in_real_time.

(* FailPolicy::FirstFail — the first value (first value in the modification order of `_state`), set inside its
   consume step; if there is none, the first failure (the one whose compare-exchange kEmpty->kError succeeded, the
   head of the modification order), published by the destructor after every input was consumed; and the failure
   is published only if there is no value at all. *)
Theorem c10_firstfail :
  forall k tr s o, k > 0 -> run (init SAnyFF k) tr = Some s -> outs s = [o] ->
  (odtor o = false ->
     exists x, nth_error (ins s) (oby o) = Some x /\ ovalue (ires x) = true /\ oval o = OOne (ires x) /\
               find (val_at s) (elog s) = Some (oby o)) /\
  (odtor o = true ->
     (forall j x, nth_error (ins s) j = Some x -> ofailing (ires x) = true) /\
     (forall j x, nth_error (ins s) j = Some x -> ipc x = PFin) /\
     exists f y, nth_error (ins s) f = Some y /\ oval o = OOne (ires y) /\ ofailing (ires y) = true /\
                 hd_error (elog s) = Some f) /\
  (forall j x, nth_error (ins s) j = Some x -> ovalue (ires x) = true -> odtor o = false).
Proof. exact p10_firstfail. Qed.
Print Assumptions c10_firstfail.

Theorem c10_firstfail_first_in_real_time :
  forall k tr s i old s', k > 0 -> run (init SAnyFF k) tr = Some s ->
  step s (EXchgState i old) = Some s' -> N.eqb old 2 = false ->
  win s = None /\ outs s = [] /\
  forall j x, nth_error (ins s) j = Some x -> ovalue (ires x) = true -> pre_el (ipc x) = true.
Proof. exact p10_firstfail_real_time. Qed.
Print Assumptions c10_firstfail_first_in_real_time.

(* FailPolicy::LastFail (default) — always set inside a consume step; the winner is the first value in the
   modification order of `_state`, or, when every input failed, the input whose fetch_sub took `_state` to 0
   (it read 2), which is the LAST element of the modification order. *)
Theorem c10_lastfail :
  forall k tr s o, k > 0 -> fits SAnyLF k -> run (init SAnyLF k) tr = Some s -> outs s = [o] ->
  odtor o = false /\
  exists x, nth_error (ins s) (oby o) = Some x /\ oval o = OOne (ires x) /\
    ((ovalue (ires x) = true /\ find (val_at s) (elog s) = Some (oby o)) \/
     (ofailing (ires x) = true /\ state s = 0%N /\ (exists rest, elog s = rest ++ [oby o]) /\
      forall j y, nth_error (ins s) j = Some y -> ofailing (ires y) = true)).
Proof. exact p10_lastfail. Qed.
Print Assumptions c10_lastfail.

(* ... hence a value wins as soon as there is one value among the inputs *)
Theorem c10_lastfail_value_wins :
  forall k tr s o, k > 0 -> fits SAnyLF k -> run (init SAnyLF k) tr = Some s -> outs s = [o] ->
  forall j y, nth_error (ins s) j = Some y -> ovalue (ires y) = true ->
  exists x, nth_error (ins s) (oby o) = Some x /\ ovalue (ires x) = true /\ oval o = OOne (ires x).
Proof. exact p10_lastfail_value_wins. Qed.
Print Assumptions c10_lastfail_value_wins.

(* The arithmetic invariant that rules out the double Set: while `_state` is even no value has been delivered and
   `_state` = 2 * (n - failures that have decremented so far); so exactly one failure can read 2, and only when
   all n inputs failed.  (sub2 is size_t subtraction modulo 2^64; odd values stay odd.) *)
Theorem c10_lastfail_arithmetic :
  forall k tr s, k > 0 -> fits SAnyLF k -> run (init SAnyLF k) tr = Some s ->
  N.odd (state s) = false -> state s = N.of_nat (2 * (n s - nsub s)).
Proof. exact p10_lastfail_arith. Qed.
Print Assumptions c10_lastfail_arithmetic.

(* At the moment of the election: a value wins before any other value has got past the check; the last failure
   wins when every other input has already failed and decremented. *)
Theorem c10_lastfail_first_in_real_time :
  forall k tr s e s', k > 0 -> fits SAnyLF k -> run (init SAnyLF k) tr = Some s -> step s e = Some s' ->
  elects s e = true ->
  win s = None /\ outs s = [] /\
  match e with
  | EXchgState i _ => forall j x, nth_error (ins s) j = Some x -> ovalue (ires x) = true -> pre_el (ipc x) = true
  | ESubState i _ => forall j x, nth_error (ins s) j = Some x -> j <> i -> subbed x = true
  | _ => True
  end.
Proof. exact p10_lastfail_real_time. Qed.
Print Assumptions c10_lastfail_first_in_real_time.

(* Later completions have no effect: whatever happens after the output was set, it stays what it is; and a complete
   run admits no further step at all. *)
Theorem c10_later_no_effect :
  forall g k tr s o tr' s', k > 0 -> any_like g -> fits g k -> run (init g k) tr = Some s -> outs s = [o] ->
  run s tr' = Some s' -> outs s' = [o].
Proof. exact p10_later_no_effect. Qed.
Print Assumptions c10_later_no_effect.

Theorem c10_complete_is_final :
  forall g k tr s e, k > 0 -> any_like g -> fits g k -> run (init g k) tr = Some s -> terminal s = true ->
  step s e = None.
Proof. exact p10_complete_is_final. Qed.
Print Assumptions c10_complete_is_final.

(* Every input is consumed and released at most once at any moment and exactly once in every complete run,
   whether it won, lost, or came after the output was decided. *)
Theorem c10_inputs_released :
  forall g k tr s, k > 0 -> any_like g -> fits g k -> run (init g k) tr = Some s ->
  forall j x, nth_error (ins s) j = Some x ->
  ifree x <= 1 /\ icons x <= 1 /\ (terminal s = true -> ifree x = 1 /\ icons x = 1).
Proof. exact p10_inputs_released. Qed.
Print Assumptions c10_inputs_released.

Theorem c10_never_lost :
  forall g k tr s, k > 0 -> any_like g -> fits g k -> run (init g k) tr = Some s ->
  nreg s = n s ->
  (forall j x, nth_error (ins s) j = Some x -> iw x = WR /\ (ipc x = PIdle \/ ipc x = PFin)) ->
  terminal s = true.
Proof. exact p10_never_lost. Qed.
Print Assumptions c10_never_lost.

(* ---- non-vacuity: complete runs taken from the real implementation (harness/h_c10.cpp) ------------------ *)

(* LastFail, both inputs fail: the second fetch_sub reads 2 and publishes its own failure *)
Example c10_witness_lastfail_all_fail :
  exists s, run (init SAnyLF 2)
    [EReg 0 true; EComplete 0 (RErr 10); EComplete 1 (RErr 11); EXchg 0 WC; EReg 1 true; EFree 0; ELdState 0 4%N;
     ESubState 0 4%N; EDec 0 2; EXchg 1 WC; EFree 1; ELdState 1 2%N; ESubState 1 2%N; ESetOut 1; EDec 1 1] = Some s /\
    terminal s = true /\ outs s = [{| oby := 1; odtor := false; oval := OOne (Some (RErr 11)) |}] /\ state s = 0%N.
Proof. eexists. vm_compute. repeat split. Qed.

(* LastFail, a failure then a value: the value's exchange reads 2 (even) and wins *)
Example c10_witness_lastfail_value :
  exists s, run (init SAnyLF 2)
    [EReg 0 true; EComplete 0 (RErr 10); EComplete 1 (RVal 101); EXchg 0 WC; EReg 1 true; EFree 0; ELdState 0 4%N;
     ESubState 0 4%N; EDec 0 2; EXchg 1 WC; EFree 1; ELdState 1 2%N; EXchgState 1 2%N; ESetOut 1; EDec 1 1] = Some s /\
    terminal s = true /\ outs s = [{| oby := 1; odtor := false; oval := OOne (Some (RVal 101)) |}] /\ state s = 1%N.
Proof. eexists. vm_compute. repeat split. Qed.

(* LastFail, a value then a failure that had already passed the load: size_t wrap-around, 1 - 2 = 2^64 - 1 *)
Example c10_witness_lastfail_wraparound :
  exists s, run (init SAnyLF 2)
    [EReg 0 true; EReg 1 true; EComplete 0 (RErr 10); EComplete 1 (RVal 101); EXchg 0 WC; EXchg 1 WC; EFree 0; EFree 1;
     ELdState 0 4%N; ELdState 1 4%N; EXchgState 1 4%N; ESubState 0 1%N; ESetOut 1; EDec 0 2; EDec 1 1] = Some s /\
    terminal s = true /\ outs s = [{| oby := 1; odtor := false; oval := OOne (Some (RVal 101)) |}] /\
    state s = 18446744073709551615%N.
Proof. eexists. vm_compute. repeat split. Qed.

(* FirstFail, two failures: the first is saved, the destructor publishes it *)
Example c10_witness_firstfail_all_fail :
  exists s, run (init SAnyFF 2)
    [EReg 0 true; EComplete 0 (RErr 10); EComplete 1 (RErr 11); EXchg 0 WC; EReg 1 true; EFree 0; ELdState 0 0%N;
     ECasState 0 true; EDec 0 2; EXchg 1 WC; EFree 1; ELdState 1 1%N; EDec 1 1; EPublish 1] = Some s /\
    terminal s = true /\ outs s = [{| oby := 1; odtor := true; oval := OOne (Some (RErr 10)) |}].
Proof. eexists. vm_compute. repeat split. Qed.

Example c10_witness_firstfail_value :
  exists s, run (init SAnyFF 2)
    [EReg 0 true; EComplete 0 (RVal 100); EComplete 1 (RErr 11); EXchg 0 WC; EReg 1 true; EFree 0; ELdState 0 0%N;
     EXchgState 0 0%N; ESetOut 0; EDec 0 2; EXchg 1 WC; EFree 1; ELdState 1 2%N; EDec 1 1] = Some s /\
    terminal s = true /\ outs s = [{| oby := 0; odtor := false; oval := OOne (Some (RVal 100)) |}].
Proof. eexists. vm_compute. repeat split. Qed.

(* None: input 1 (a value) completed before registration and is consumed inline while input 0 (an error) fires its
   callback: whoever exchanges `_done` first wins *)
Example c10_witness_none :
  exists s, run (init SAnyNone 2)
    [EComplete 1 (RVal 101); EXchg 1 WE; EReg 0 true; EReg 1 false; EFree 1; EComplete 0 (RErr 10); EXchg 0 WC;
     ELdDone 1 false; EXchgDone 1 false; EFree 0; ELdDone 0 true; EDec 0 2; ESetOut 1; EDec 1 1] = Some s /\
    terminal s = true /\ outs s = [{| oby := 1; odtor := false; oval := OOne (Some (RVal 101)) |}].
Proof. eexists. vm_compute. repeat split. Qed.
